//! C15 spike: real Watchexec instance, scripted filterer faults, scripted error-handler behaviours.
use std::{collections::HashMap, io::{BufRead, Write}, sync::{Arc, Mutex, atomic::{AtomicUsize, Ordering}}, time::Duration};
use watchexec::{error::{RuntimeError, CriticalError}, filter::Filterer, Config, Watchexec, ErrorHook};
use watchexec_events::{Event, Priority, Source, Tag};

/// an error payload that takes 120 ms to drop: a queue of these keeps the error hook's task busy tearing down AFTER the handler has raised
/// its critical error and the channel has closed, before the task's result is published — the window in which another worker can notice
/// the closed channel first
#[derive(Debug)]
struct SlowDrop(String);
impl std::fmt::Display for SlowDrop { fn fmt(&self, f: &mut std::fmt::Formatter<'_>) -> std::fmt::Result { write!(f, "{}", self.0) } }
impl std::error::Error for SlowDrop {}
impl Drop for SlowDrop { fn drop(&mut self) { std::thread::sleep(Duration::from_millis(120)); } }

#[derive(Debug)]
struct Scripted(HashMap<String, char>);
impl Filterer for Scripted {
    fn check_event(&self, ev: &Event, _p: Priority) -> Result<bool, RuntimeError> {
        let id = ev.metadata.get("id").and_then(|v| v.first()).cloned().unwrap_or_default();
        match self.0.get(&id) { Some('r') => Ok(false), Some('e') => Err(RuntimeError::External(format!("inj-{id}").into())), Some('E') => Err(RuntimeError::External(Box::new(SlowDrop(format!("inj-{id}"))))), _ => Ok(true) }
    }
}

fn handler(cfg: Arc<Config>, beh: Arc<Vec<char>>, n: Arc<AtomicUsize>, log: Arc<Mutex<Vec<String>>>, tag: &'static str) -> impl Fn(ErrorHook) + Send + Sync + 'static {
    move |hook: ErrorHook| {
        let i = n.fetch_add(1, Ordering::SeqCst);
        log.lock().unwrap().push(format!("{tag}{}", hook.error.to_string().rsplit(' ').next().unwrap_or("")));
        match beh.get(i).copied().unwrap_or('i') {
            'e' => hook.elevate(),
            'c' => hook.critical(CriticalError::External("crit".into())),
            // `C`: the same, and 300 ms later — the error being handled has been dropped (120 ms) and the hook is tearing the queue down — ANOTHER
            // worker (the fs worker: a path that cannot be watched) has a runtime error to report
            'C' => { let c2 = cfg.clone(); std::thread::spawn(move || { std::thread::sleep(Duration::from_millis(300)); c2.pathset(["/nonexistent-wxerr/dir/that/cannot/be/watched"]); }); hook.critical(CriticalError::External("crit".into())) }
            's' => std::thread::sleep(Duration::from_millis(30)),
            'r' => { cfg.on_error(handler(cfg.clone(), beh.clone(), n.clone(), log.clone(), "N:")); }
            _ => {}
        }
    }
}

// case: <id> <errcap> <behaviours e.g. iisei or -> <events id:verdict,...>
async fn run_case(cap: usize, beh: Vec<char>, events: Vec<(String, char)>) -> String {
    let slow_teardown = beh.contains(&'C');
    let mut config = Config::default();
    config.error_channel_size = cap;
    let config = Arc::new(config);
    config.throttle(Duration::from_millis(5));
    config.filterer(Scripted(events.iter().cloned().collect()));
    let log: Arc<Mutex<Vec<String>>> = Default::default();
    let acts: Arc<Mutex<Vec<String>>> = Default::default();
    config.on_error(handler(config.clone(), Arc::new(beh), Arc::new(AtomicUsize::new(0)), log.clone(), ""));
    config.on_action({ let a = acts.clone(); move |action| {
        for e in action.events.iter() { a.lock().unwrap().push(e.metadata.get("id").and_then(|v| v.first()).cloned().unwrap_or("?".into())); }
        action } });
    let wx = Watchexec::with_config(Arc::try_unwrap(config.clone()).unwrap_or_else(|c| (*c).clone())).unwrap();
    let main = wx.main();
    let mut sendfail = 0;
    for (id, _) in &events {
        let ev = Event { tags: vec![Tag::Source(Source::Internal)], metadata: HashMap::from([("id".to_string(), vec![id.clone()])]) };
        if wx.send_event(ev, Priority::Normal).await.is_err() { sendfail += 1; }
    }
    tokio::time::sleep(Duration::from_millis(200)).await;
    // slow teardown scripts: give the main task up to 5 s to end
    if slow_teardown { for _ in 0..100 { if main.is_finished() { break; } tokio::time::sleep(Duration::from_millis(50)).await; } }
    let res = if main.is_finished() { match main.await { Ok(Ok(())) => "ok".to_string(), Ok(Err(e)) => format!("err:{}", format!("{e:?}").split(|c: char| !c.is_alphanumeric()).next().unwrap_or("")), Err(_) => "join".into() } } else { main.abort(); "running".into() };
    format!("handled={} actions={} main={} sendfail={}", log.lock().unwrap().join(","), acts.lock().unwrap().join(","), res, sendfail)
}

fn main() {
    let lines: Vec<String> = std::io::stdin().lock().lines().map(|l| l.unwrap()).collect();
    // one answer line per case, printed chunk by chunk. Every case gets its OWN runtime (3 worker threads), so that a handler call
    // that never returns — it blocks its worker thread for good — cannot starve the other cases; a case that does not finish within
    // 8 s answers `HUNG`
    let mut o = std::io::stdout().lock();
    for chunk in lines.chunks(16) {
        let mut cur = vec![];
        for line in chunk {
            let f: Vec<String> = line.split(' ').map(|s| s.to_string()).collect();
            let evs: Vec<(String, char)> = f[3].split(',').map(|a| { let x: Vec<&str> = a.split(':').collect(); (x[0].to_string(), x[1].chars().next().unwrap()) }).collect();
            let beh: Vec<char> = if f[2] == "-" { vec![] } else { f[2].chars().collect() };
            let cap: usize = f[1].parse().unwrap(); let id = f[0].clone();
            let (tx, rx) = std::sync::mpsc::channel::<String>();
            std::thread::spawn(move || {
                let rt = tokio::runtime::Builder::new_multi_thread().worker_threads(3).enable_all().build().unwrap();
                let r = rt.block_on(async { match tokio::time::timeout(Duration::from_secs(8), run_case(cap, beh, evs)).await { Ok(r) => format!("{} {}", id, r), Err(_) => format!("{} HUNG", id) } });
                let _ = tx.send(r);
                rt.shutdown_background();
            });
            cur.push((f[0].clone(), rx));
        }
        for (id, rx) in cur { let r = rx.recv_timeout(Duration::from_secs(30)).unwrap_or(format!("{id} HUNG")); writeln!(o, "{r}").unwrap(); }
        o.flush().unwrap();
    }
    drop(o);
    std::process::exit(0);      // do not wait for worker threads stuck in a handler call
}
