//! C01 / C15 with REAL filesystem operations: a real Watchexec instance (main(), fs worker with the native or the poll watcher,
//! action worker), a temp tree, scripted create / write / rename / remove / mkdir operations, a scripted filterer (rejects paths
//! containing `skip`, fails on paths containing `boom`).
//! case: `<id> <N|P> <R|N|F> <op;op;…>`  ops: c:<rel> create · w:<rel> append · rm:<rel> · mv:<rel>:<rel> · mk:<rel> · rd:<rel>
//!   watch modes: R = root recursively, N = root non-recursively, F = root/sub recursively + the single file root/a.txt
//! answer: per op the sorted paths named by the events the handler got (`|` between ops), then
//!   `n=<events delivered>/<events the filter accepted> rej=<rejected> err=<filter errors>/<errors the handler saw> empty=<empty batches>`
use std::{io::{BufRead, Write}, path::{Path, PathBuf}, sync::{Arc, Mutex, atomic::{AtomicUsize, Ordering::SeqCst}}, time::Duration};
use watchexec::{error::RuntimeError, filter::Filterer, sources::fs::Watcher as Kind, Config, WatchedPath, Watchexec};
#[allow(unused_imports)] use watchexec::Config as _Cfg;
use watchexec_events::{Event, Priority};

#[derive(Debug, Default)]
struct Counters { accepted: AtomicUsize, rejected: AtomicUsize, errored: AtomicUsize, acc_log: Mutex<Vec<String>> }
#[derive(Debug)]
struct Scripted(Arc<Counters>);
impl Filterer for Scripted {
    fn check_event(&self, ev: &Event, _p: Priority) -> Result<bool, RuntimeError> {
        let names: Vec<String> = ev.paths().map(|(p, _)| p.to_string_lossy().to_string()).collect();
        if names.iter().any(|n| n.contains("boom")) { self.0.errored.fetch_add(1, SeqCst); return Err(RuntimeError::External("boom".into())); }
        if names.iter().any(|n| n.contains("skip")) { self.0.rejected.fetch_add(1, SeqCst); return Ok(false); }
        self.0.acc_log.lock().unwrap().push(format!("{:?}", ev.tags)); self.0.accepted.fetch_add(1, SeqCst); Ok(true)
    }
}

fn rel(root: &Path, p: &Path) -> String { p.strip_prefix(root).map(|r| { let s = r.to_string_lossy().to_string(); if s.is_empty() { ".".into() } else { s } }).unwrap_or_else(|_| format!("OUTSIDE:{}", p.display())) }

async fn run_case(id: String, kind: String, mode: String, ops: Vec<String>) -> String {
    let root = std::env::temp_dir().join(format!("wxfsreal-{}-{id}", std::process::id()));
    let _ = std::fs::remove_dir_all(&root);
    for d in ["sub/deep", "other"] { std::fs::create_dir_all(root.join(d)).unwrap(); }
    for f in ["a.txt", "skip.txt", "sub/b.txt", "sub/deep/c.txt", "other/o.txt"] { std::fs::write(root.join(f), b"x").unwrap(); }
    let root = std::fs::canonicalize(&root).unwrap();
    let counters = Arc::new(Counters::default());
    let delivered: Arc<Mutex<Vec<Vec<String>>>> = Default::default();      // per event: its paths
    let (nev, nempty, nerr) = (Arc::new(AtomicUsize::new(0)), Arc::new(AtomicUsize::new(0)), Arc::new(AtomicUsize::new(0)));
    // mode Q: an event queue of 2 and a slow action handler — the watcher's callback overflows the queue (runtime errors, events lost)
    let slow = mode == "Q";
    let wx = if slow { let mut c = Config::default(); c.event_channel_size = 2; Watchexec::with_config(c).unwrap() } else { Watchexec::default() };
    wx.config.throttle(Duration::from_millis(15));
    wx.config.filterer(Scripted(counters.clone()));
    wx.config.file_watcher(if kind == "P" { Kind::Poll(Duration::from_millis(40)) } else { Kind::Native });
    wx.config.on_error({ let n = nerr.clone(); move |_h| { n.fetch_add(1, SeqCst); } });
    let dlog: Arc<Mutex<Vec<String>>> = Default::default();
    wx.config.on_action({ let (d, root, nev, nempty, dlog) = (delivered.clone(), root.clone(), nev.clone(), nempty.clone(), dlog.clone()); move |action| {
        if action.events.is_empty() { nempty.fetch_add(1, SeqCst); }
        if slow { std::thread::sleep(Duration::from_millis(60)); }
        for e in action.events.iter() { nev.fetch_add(1, SeqCst); dlog.lock().unwrap().push(format!("{:?}", e.tags)); d.lock().unwrap().push(e.paths().map(|(p, _)| rel(&root, p)).collect()); }
        action } });
    let paths: Vec<WatchedPath> = match mode.as_str() {
        "R" | "Q" => vec![WatchedPath::recursive(root.clone())],
        "N" => vec![WatchedPath::non_recursive(root.clone())],
        _ => vec![WatchedPath::recursive(root.join("sub")), WatchedPath::non_recursive(root.join("a.txt"))],
    };
    wx.config.pathset(paths);
    let main = wx.main();
    let quiet = if kind == "P" { 260 } else { 90 };
    tokio::time::sleep(Duration::from_millis(if kind == "P" { 200 } else { 120 })).await;
    delivered.lock().unwrap().clear();
    let mut segs = vec![];
    for op in &ops {
        let f: Vec<&str> = op.split(':').collect();
        let p = |i: usize| -> PathBuf { root.join(f[i]) };
        let r = match f[0] {
            "c" => std::fs::write(p(1), b"new"),
            "w" => std::fs::OpenOptions::new().append(true).open(p(1)).and_then(|mut h| h.write_all(b"more data")),
            "rm" => std::fs::remove_file(p(1)),
            "mv" => std::fs::rename(p(1), p(2)),
            "mk" => std::fs::create_dir(p(1)),
            "rd" => std::fs::remove_dir(p(1)),
            // a burst of creations with no pause: far more events than the queue holds
            "burst" => { for i in 0..f[1].parse::<usize>().unwrap() { let _ = std::fs::write(root.join(format!("q{i}.txt")), b"q"); } tokio::time::sleep(Duration::from_millis(700)).await; Ok(()) }
            _ => return "bad-op".into(),
        };
        let ok = r.is_ok();
        tokio::time::sleep(Duration::from_millis(quiet)).await;
        let mut names: Vec<String> = std::mem::take(&mut *delivered.lock().unwrap()).into_iter().flatten().collect();
        names.sort(); names.dedup();
        segs.push(format!("{}{}", if ok { "" } else { "!" }, names.join(",")));
    }
    // what the filter accepted is handed over once its window is over and the handler is free: give that up to 30 s (a loaded machine);
    // an event that was lost never arrives, a duplicated one overshoots
    // (and a late event may still be on its way: the counters must have stood still for 100 ms)
    let mut last = (usize::MAX, usize::MAX);
    for _ in 0..100 {
        let cur = (nev.load(SeqCst), counters.accepted.load(SeqCst));
        if cur.0 >= cur.1 && cur == last { break; }
        last = cur; tokio::time::sleep(Duration::from_millis(300)).await;
    }
    if std::env::var("WX_DEBUG_LOST").is_ok() && nev.load(SeqCst) != counters.accepted.load(SeqCst) {
        let mut a = counters.acc_log.lock().unwrap().clone(); let dl = dlog.lock().unwrap().clone();
        for x in &dl { if let Some(i) = a.iter().position(|y| y == x) { a.remove(i); } }
        let line = format!("LOST {id} n={}/{}: {a:?}\nACC {:?}\nDLV {:?}\n", nev.load(SeqCst), counters.accepted.load(SeqCst), counters.acc_log.lock().unwrap(), dl);
        if let Ok(f) = std::env::var("WX_DEBUG_LOST") { use std::io::Write as _; if let Ok(mut h) = std::fs::OpenOptions::new().create(true).append(true).open(f) { let _ = h.write_all(line.as_bytes()); } }
    }
    let st = if main.is_finished() { "ended" } else { "running" };
    // the counters are read BEFORE the instance is torn down: `abort()` only takes effect at the task's next poll, and removing the tree
    // under a still-running watcher produces events that the filter accepts and nobody will ever be handed (seen on a loaded machine)
    let line = format!("{} n={}/{} rej={} err={}/{} empty={} main={}", segs.join("|"), nev.load(SeqCst), counters.accepted.load(SeqCst), counters.rejected.load(SeqCst), counters.errored.load(SeqCst), nerr.load(SeqCst), nempty.load(SeqCst), st);
    main.abort();
    let _ = std::fs::remove_dir_all(&root);
    line
}

fn main() {
    let stdin = std::io::stdin(); let mut o = std::io::stdout().lock();
    for line in stdin.lock().lines() {
        let line = line.unwrap(); let f: Vec<String> = line.split(' ').map(|s| s.to_string()).collect();
        let ops: Vec<String> = f[3].split(';').map(|s| s.to_string()).collect();
        let rt = tokio::runtime::Builder::new_multi_thread().worker_threads(3).enable_all().build().unwrap();
        let r = rt.block_on(async { match tokio::time::timeout(Duration::from_secs(90), run_case(f[0].clone(), f[1].clone(), f[2].clone(), ops)).await { Ok(r) => r, Err(_) => "HUNG".into() } });
        rt.shutdown_background();
        writeln!(o, "{} {}", f[0], r).unwrap(); o.flush().unwrap();
    }
}
