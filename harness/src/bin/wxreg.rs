//! Job registry (lib/src/action/{worker,handler}.rs, lib/src/id.rs) on a real Watchexec instance with real processes.
//! case: `<id> <cfg> <action|action|…>`; action = `op;op;…[/j,j]`; ops `c<t>` create_job on thread t (0 = the handler's own thread, else a fresh
//! OS thread), `m<t>` Id::default() on thread t (persistent helper threads), `g<k>` get_or_create_job(k-th id held), `q<k>` get_job; `/j,…` = those
//! jobs are deleted (through a handle held here) after the action. Every handle returned is kept. Then a graceful quit.
//! answer: `<id> out=<n<j>|e<j>|-,…> leaked=<jobs whose process is alive after main returned> main=<ok|timeout>`
use std::{io::{BufRead, Write}, sync::{mpsc, Arc, Mutex}, time::Duration};
use watchexec::{command::{Command, Program, Shell, SpawnOptions}, job::Job, Id, Watchexec};
use watchexec_events::{Event, Priority};
use watchexec_signals::Signal;

#[derive(Clone, Debug)]
enum Out { New(usize), Old(Arc<Mutex<Option<usize>>>), None }

struct Shared { script: Vec<Vec<String>>, step: usize, ids: Vec<Id>, jobs: Vec<Job>, made: usize, out: Vec<Out>, pidfile: String }

fn cmd(n: usize, pidfile: &str) -> Arc<Command> {
    Arc::new(Command { program: Program::Shell { shell: Shell::new("sh"), command: format!("echo {n} $$ >> {pidfile}; exec sleep 30"), args: vec![] }, options: SpawnOptions::default() })
}

/// which job is behind this handle: ask its task for the command it runs
fn whois(job: &Job) -> Arc<Mutex<Option<usize>>> {
    let slot = Arc::new(Mutex::new(None));
    let s = slot.clone();
    let _ = job.run(move |ctx| { *s.lock().unwrap() = ctx.command.to_string().split(' ').nth(1).and_then(|x| x.parse().ok()); });
    slot
}

fn minter() -> mpsc::Sender<mpsc::Sender<Id>> {
    let (tx, rx) = mpsc::channel::<mpsc::Sender<Id>>();
    std::thread::spawn(move || { for back in rx { let _ = back.send(Id::default()); } });
    tx
}

async fn run_case(acts: &str, abort: bool, minters: Arc<Vec<mpsc::Sender<mpsc::Sender<Id>>>>) -> String {
    let pidfile = std::env::temp_dir().join(format!("wxreg-{}-{:?}.pid", std::process::id(), std::time::Instant::now())).to_str().unwrap().replace(' ', "_");
    let _ = std::fs::remove_file(&pidfile);
    let mut kills: Vec<Vec<usize>> = vec![];
    let mut script = vec![];
    for a in acts.split('|') {
        let (ops, ks) = a.split_once('/').unwrap_or((a, ""));
        script.push(ops.split(';').filter(|s| !s.is_empty()).map(|s| s.to_string()).collect::<Vec<_>>());
        kills.push(ks.split(',').filter_map(|k| k.parse().ok()).collect());
    }
    let n_actions = script.len();
    let sh = Arc::new(Mutex::new(Shared { script, step: 0, ids: vec![], jobs: vec![], made: 0, out: vec![], pidfile: pidfile.clone() }));
    let wx = Watchexec::new({ let sh = sh.clone(); move |mut action| {
        let mut s = sh.lock().unwrap();
        let s = &mut *s;
        if s.step >= s.script.len() { if abort { action.quit(); } else { action.quit_gracefully(Signal::Terminate, Duration::from_millis(300)); } return action; }
        let ops = s.script[s.step].clone(); s.step += 1;
        for op in ops {
            let n: usize = op[1..].parse().unwrap();
            match op.as_bytes()[0] {
                b'c' => {
                    let c = cmd(s.made, &s.pidfile);
                    let (id, job) = if n == 0 { action.create_job(c) } else {
                        let h = tokio::runtime::Handle::current();
                        std::thread::scope(|sc| sc.spawn(|| { let _g = h.enter(); action.create_job(c) }).join().unwrap())
                    };
                    job.start(); s.out.push(Out::New(s.made)); s.made += 1; s.ids.push(id); s.jobs.push(job);
                }
                b'm' => {
                    let id = if n == 0 { Id::default() } else { let (tx, rx) = mpsc::channel(); minters[n % minters.len()].send(tx).unwrap(); rx.recv().unwrap() };
                    s.ids.push(id);
                }
                b'g' => { if let Some(id) = s.ids.get(n).copied() {
                    let made = std::cell::Cell::new(false);
                    let (k, pf) = (s.made, s.pidfile.clone());
                    let job = action.get_or_create_job(id, || { made.set(true); cmd(k, &pf) });
                    if made.get() { job.start(); s.out.push(Out::New(k)); s.made += 1; } else { s.out.push(Out::Old(whois(&job))); }
                    s.jobs.push(job);
                } }
                b'q' => { if let Some(id) = s.ids.get(n).copied() {
                    match action.get_job(id) { Some(job) => { s.out.push(Out::Old(whois(&job))); s.jobs.push(job); } None => s.out.push(Out::None) }
                } }
                _ => {}
            }
        }
        action
    }}).unwrap();
    let main = wx.main();
    for i in 0..n_actions {
        wx.send_event(Event::default(), Priority::Urgent).await.unwrap();
        tokio::time::sleep(Duration::from_millis(120)).await;
        // deletions through handles held outside the worker: the job whose process printed that number
        for j in &kills[i] {
            let handle = { let s = sh.lock().unwrap(); let mut found = None;
                for (o, job) in s.out.iter().filter(|o| !matches!(o, Out::None)).zip(s.jobs.iter()) { if let Out::New(k) = o { if k == j { found = Some(job.clone()); } } } found };
            if let Some(job) = handle { job.delete().await; }
        }
    }
    tokio::time::sleep(Duration::from_millis(250)).await;        // the shells have recorded their pids
    wx.send_event(Event::default(), Priority::Urgent).await.unwrap();
    let r = tokio::time::timeout(Duration::from_secs(3), main).await;
    tokio::time::sleep(Duration::from_millis(200)).await;
    let pids = std::fs::read_to_string(&pidfile).unwrap_or_default();
    let mut leaked: Vec<usize> = vec![]; let mut survivors = vec![];
    for l in pids.lines() { let f: Vec<&str> = l.split(' ').collect(); if f.len() == 2 {
        if std::fs::read_to_string(format!("/proc/{}/stat", f[1])).map(|s| !s.contains(") Z ")).unwrap_or(false) { leaked.push(f[0].parse().unwrap_or(999)); survivors.push(f[1].to_string()); } } }
    leaked.sort();
    for p in survivors { let _ = std::process::Command::new("kill").args(["-9", &p]).status(); }
    let _ = std::fs::remove_file(&pidfile);
    let s = sh.lock().unwrap();
    let out: Vec<String> = s.out.iter().map(|o| match o { Out::New(k) => format!("n{k}"), Out::Old(slot) => slot.lock().unwrap().map(|k| format!("e{k}")).unwrap_or("e?".into()), Out::None => "-".into() }).collect();
    format!("out={} leaked={} main={}", out.join(","), leaked.iter().map(|j| j.to_string()).collect::<Vec<_>>().join(","), if r.is_ok() { "ok" } else { "timeout" })
}

fn main() {
    let minters = Arc::new((0..4).map(|_| minter()).collect::<Vec<_>>());
    let stdin = std::io::stdin(); let mut o = std::io::stdout().lock();
    for line in stdin.lock().lines() {
        let line = line.unwrap(); let f: Vec<&str> = line.split(' ').collect();
        let rt = tokio::runtime::Builder::new_multi_thread().worker_threads(4).enable_all().build().unwrap();
        let r = rt.block_on(run_case(f[2], f.get(3) == Some(&"abort"), minters.clone()));
        rt.shutdown_background();
        writeln!(o, "{} {}", f[0], r).unwrap(); o.flush().unwrap();
    }
}
