//! Real action worker in real time: scripted arrivals, scripted filter verdicts, recorded batches.
use std::{collections::HashMap, io::{BufRead, Write}, sync::{Arc, Mutex}, time::{Duration, Instant}};
use watchexec::{error::RuntimeError, filter::Filterer, Config};
use watchexec_events::{Event, Priority, Source, Tag};

#[derive(Debug)]
struct Scripted(HashMap<String, char>, Arc<Mutex<Vec<String>>>);
impl Filterer for Scripted {
    fn check_event(&self, ev: &Event, _p: Priority) -> Result<bool, RuntimeError> {
        let id = ev.metadata.get("id").and_then(|v| v.first()).cloned().unwrap_or_default();
        if !id.starts_with("fl") { self.1.lock().unwrap().push(id.clone()); }
        if id.starts_with("fl") { return Ok(false); }
        match self.0.get(&id) { Some('r') => Ok(false), Some('e') => Err(RuntimeError::External(format!("inj {id}").into())), _ => Ok(true) }
    }
}

// case: <id> <throttle_ms> <handler_ms> <arrivals: off:id:prio(l|n|h|u):kind(t|e):verdict(p|r|e),…>
/// `ecap` / `edelay`: capacity of the runtime-error channel and time the error consumer spends per error (a slow `on_error`)
async fn run_case(throttle: u64, handler_ms: u64, arrivals: Vec<(u64, String, Priority, bool, char)>, changes: Vec<(u64, u64)>, ecap: usize, edelay: u64, floods: Vec<(u64, u64)>, is_async: bool, qcap: usize) -> String {
    // `q<N>` in the handler field: a small event queue (Config::event_channel_size and the channel itself), for bursts larger than the queue
    let mut config = Config::default(); config.event_channel_size = qcap;
    let config = Arc::new(config);
    config.throttle(Duration::from_millis(throttle));
    let seen_by_filter = Arc::new(Mutex::new(vec![]));
    config.filterer(Scripted(arrivals.iter().map(|a| (a.1.clone(), a.4)).collect(), seen_by_filter.clone()));
    let t0 = Instant::now();
    let batches: Arc<Mutex<Vec<(u128, Vec<String>)>>> = Default::default();
    if is_async {
        config.on_action_async({ let b = batches.clone(); move |action| {
            let ids = action.events.iter().map(|e| e.metadata.get("id").and_then(|v| v.first()).cloned().unwrap_or("?".into())).collect();
            b.lock().unwrap().push((t0.elapsed().as_micros(), ids));
            Box::new(async move { if handler_ms > 0 { tokio::time::sleep(Duration::from_millis(handler_ms)).await; } else { tokio::task::yield_now().await; } action }) } });
    } else {
    config.on_action({ let b = batches.clone(); move |action| {
        let ids = action.events.iter().map(|e| e.metadata.get("id").and_then(|v| v.first()).cloned().unwrap_or("?".into())).collect();
        b.lock().unwrap().push((t0.elapsed().as_micros(), ids));
        if handler_ms > 0 { std::thread::sleep(Duration::from_millis(handler_ms)); }
        action } });
    }
    let (ev_s, ev_r) = async_priority_channel::bounded(qcap as u64);
    let (er_s, er_r) = tokio::sync::mpsc::channel::<RuntimeError>(ecap);
    let errcount = Arc::new(std::sync::atomic::AtomicUsize::new(0));
    // edelay == 0: errors stay in the channel until the end; otherwise a slow error handler drains them one by one
    let mut er_keep = None;
    if edelay == 0 { er_keep = Some(er_r); } else {
        let errcount = errcount.clone(); let mut er_r = er_r;
        tokio::spawn(async move { while let Some(_e) = er_r.recv().await { errcount.fetch_add(1, std::sync::atomic::Ordering::SeqCst); tokio::time::sleep(Duration::from_millis(edelay)).await; } });
    }
    let w = tokio::spawn(watchexec::action::worker(config.clone(), er_s, ev_r));
    // run-time throttle changes (`off:T:ms` items), made from another task like a handler or a client would
    let t0_tokio = tokio::time::Instant::from_std(t0);
    let changer = tokio::spawn({ let config = config.clone(); async move { for (off, ms) in changes { tokio::time::sleep_until(t0_tokio + Duration::from_millis(off)).await; config.throttle(Duration::from_millis(ms)); } } });
    // floods (`off:F:ms` items): a task that keeps the event queue supplied with filter-REJECTED events for `ms` milliseconds
    let flooders: Vec<_> = floods.iter().flat_map(|(off, dur)| (0..4).map(move |k| (*off, *dur, k))).map(|(off, dur, k)| { let ev_s = ev_s.clone(); tokio::spawn(async move {
        tokio::time::sleep_until(t0_tokio + Duration::from_millis(off)).await;
        let end = Instant::now() + Duration::from_millis(dur); let mut n = 0u64;
        // four producers against one consumer and a bounded queue: the queue is never empty while the flood lasts
        while Instant::now() < end {
            n += 1;
            let ev = Event { tags: vec![Tag::Source(Source::Internal)], metadata: HashMap::from([("id".to_string(), vec![format!("fl{k}_{n}")])]) };
            if ev_s.send(ev, Priority::Normal).await.is_err() { break; }
        } }) }).collect();
    let flood_ms: u64 = floods.iter().map(|(o, d)| o + d).max().unwrap_or(0);
    let mut sent = vec![];
    for (off, id, prio, empty, _) in &arrivals {
        tokio::time::sleep_until(tokio::time::Instant::from_std(t0 + Duration::from_millis(*off))).await;
        let ev = Event { tags: if *empty { vec![] } else { vec![Tag::Source(Source::Internal)] }, metadata: HashMap::from([("id".to_string(), vec![id.clone()])]) };
        let before = t0.elapsed().as_micros();
        ev_s.send(ev, *prio).await.unwrap();
        sent.push(format!("{id}@{before}"));
    }
    let maxthr = changer.await.map(|_| ()).ok().map(|_| config.throttle.get().as_millis() as u64).unwrap_or(throttle).max(throttle);
    let nerr = arrivals.iter().filter(|a| a.4 == 'e').count() as u64;
    for f in flooders { let _ = f.await; }
    let _ = flood_ms;
    tokio::time::sleep(Duration::from_millis(maxthr + 150 + handler_ms * 2 + edelay * (nerr + 1))).await;
    w.abort();
    let mut errs = errcount.load(std::sync::atomic::Ordering::SeqCst);
    if let Some(mut r) = er_keep { while r.try_recv().is_ok() { errs += 1; } }
    let b = batches.lock().unwrap();
    format!("sent={} batches={} errs={} filtered={}", sent.join(","), b.iter().map(|(t, ids)| format!("{}@{}", ids.join("+"), t)).collect::<Vec<_>>().join(","), errs, seen_by_filter.lock().unwrap().join("+"))
}

fn main() {
    let lines: Vec<String> = std::io::stdin().lock().lines().map(|l| l.unwrap()).collect();
    let rt = tokio::runtime::Builder::new_multi_thread().worker_threads(8).enable_all().build().unwrap();
    let results = rt.block_on(async {
        let mut hs = vec![];
        for chunk in lines.chunks(12) {            // 12 cases concurrently
            let mut cur = vec![];
            for line in chunk {
                let f: Vec<String> = line.split(' ').map(|s| s.to_string()).collect();
                let changes: Vec<(u64, u64)> = f[3].split(',').filter_map(|a| { let x: Vec<&str> = a.split(':').collect(); if x[1] == "T" { Some((x[0].parse().unwrap(), x[2].parse().unwrap())) } else { None } }).collect();
                let floods: Vec<(u64, u64)> = f[3].split(',').filter_map(|a| { let x: Vec<&str> = a.split(':').collect(); if x[1] == "F" { Some((x[0].parse().unwrap(), x[2].parse().unwrap())) } else { None } }).collect();
                let arr: Vec<(u64, String, Priority, bool, char)> = f[3].split(',').filter(|a| a.split(':').nth(1) != Some("T") && a.split(':').nth(1) != Some("F")).map(|a| { let x: Vec<&str> = a.split(':').collect();
                    (x[0].parse().unwrap(), x[1].to_string(), match x[2] { "l" => Priority::Low, "h" => Priority::High, "u" => Priority::Urgent, _ => Priority::Normal }, x[3] == "e", x[4].chars().next().unwrap()) }).collect();
                // handler field: `<ms>` or `<ms>e<error channel capacity>x<ms per error>`
                let (f2, qcap): (String, usize) = match f[2].split_once('q') { Some((a, b)) => { let n: String = b.chars().take_while(|c| c.is_ascii_digit()).collect(); (format!("{a}{}", &b[n.len()..]), n.parse().unwrap()) } None => (f[2].clone(), 64) };
                let (hms, ecfg) = f2.split_once('e').map(|(a, b)| (a.to_string(), Some(b.to_string()))).unwrap_or((f2.clone(), None));
                let (ecap, edelay): (usize, u64) = ecfg.map(|e| { let (c, d) = e.split_once('x').unwrap(); (c.parse().unwrap(), d.parse().unwrap()) }).unwrap_or((64, 0));
                // a leading `a`: the handler is installed with on_action_async and spends its time in the awaited future
                let is_async = hms.starts_with('a');
                let (th, hm) = (f[1].parse().unwrap(), hms.trim_start_matches('a').parse().unwrap());
                let id = f[0].clone();
                cur.push(tokio::spawn(async move { format!("{} {}", id, run_case(th, hm, arr, changes, ecap, edelay, floods, is_async, qcap).await) }));
            }
            for h in cur { hs.push(h.await.unwrap()); }
        }
        hs
    });
    let mut o = std::io::stdout().lock();
    for r in results { writeln!(o, "{r}").unwrap(); }
}
