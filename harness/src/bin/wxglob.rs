use wxharness::out;
use ignore::{gitignore::GitignoreBuilder, Match};
use std::io::Write;

struct Rng(u64);
impl Rng { fn next(&mut self) -> u64 { self.0 ^= self.0 << 13; self.0 ^= self.0 >> 7; self.0 ^= self.0 << 17; self.0 }
  fn pick<'a, T>(&mut self, v: &'a [T]) -> &'a T { &v[(self.next() % v.len() as u64) as usize] } 
  fn below(&mut self, n: u64) -> u64 { self.next() % n } }

fn main() {
    let seed: u64 = std::env::args().nth(1).and_then(|s| s.parse().ok()).unwrap_or(1);
    let n: usize = std::env::args().nth(2).and_then(|s| s.parse().ok()).unwrap_or(2000);
    let mut r = Rng(seed.wrapping_mul(0x9E3779B97F4A7C15) | 1);
    let names = ["a", "ab", "b", "test", "tests", "x.rs", "y.log", ".git", "src", "target", "foo.py", "foo.pyc", ".x.swp", "#t#", "Makefile", "é"];
    let pats = ["*.rs", "*.log", "!*.log", "test/", "/test", "tests", "a/b", "**/x.rs", "src/**", "/src/*.rs", "!src/x.rs", "*.py[co]", ".*.sw?", "#*#", "\\#t#", "target/", "!/target/a", "a/**/b", "**/.git/**", "**", "*", "a*b", "/", "ab/", "x.rs ", "**/tests/**/y.log", "[a-b]", "[!a]b", "a**", "**a", "/**/ab", "é", "te?t", "/a/", "!a/"];
    let roots = ["/proj", "/proj/test", "/"];
    let mut cases = std::fs::File::create(out("cases.txt")).unwrap();
    let mut outs = std::fs::File::create(out("impl.txt")).unwrap();
    for _ in 0..n {
        let root = *r.pick(&roots);
        let k = r.below(4) as usize + if r.below(10) == 0 { 0 } else { 1 };
        let lines: Vec<&str> = (0..k).map(|_| *r.pick(&pats)).collect();
        let depth = r.below(4) + 1;
        let mut path = String::from(if r.below(4) == 0 { "/other" } else { "/proj" });
        for _ in 0..depth { path.push('/'); let nm: &str = *r.pick(&names[..]); path.push_str(nm); }
        let is_dir = r.below(3) == 0;
        // parents-mode requires the stripped path to be relative: only when root is a byte prefix
        let parents_ok = root != "/" && path.starts_with(root) && path.len() > root.len();
        let mode = if parents_ok && r.below(2) == 0 { "p" } else { "m" };
        let mut b = GitignoreBuilder::new(root);
        let mut err = false;
        for l in &lines { if b.add_line(None, l).is_err() { err = true; } }
        let out = if err { "error".to_string() } else {
            match b.build() { Err(_) => "error".to_string(), Ok(g) => {
                let m = if mode == "m" { g.matched(&path, is_dir) } else { g.matched_path_or_any_parents(&path, is_dir) };
                match m { Match::None => "none".into(), Match::Ignore(g) => format!("ignore:{}", g.original()), Match::Whitelist(g) => format!("whitelist:{}", g.original()) }
            }}
        };
        writeln!(cases, "G\t{}\t{}\t{}\t{}\t{}", root, if is_dir {1} else {0}, mode, path, lines.join("\x1f")).unwrap();
        writeln!(outs, "{}", out).unwrap();
    }
}
