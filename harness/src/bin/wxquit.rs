//! C08: a real Watchexec instance whose action handler creates jobs (simulated children through the public spawn
//! hook, virtual time), puts them into states with scripted controls, then quits (gracefully or by abort).
use std::{future::Future, io::{BufRead, Result, Write}, os::unix::process::ExitStatusExt, process::ExitStatus, sync::{Arc, Mutex}, time::Duration};
use process_wrap::tokio::{TokioChildWrapper, TokioCommandWrap, TokioCommandWrapper};
use tokio::{process::{Child, Command as TokioCommand}, sync::Notify, time::Instant};
use watchexec_supervisor::{command::{Command, Program}, job::{CommandState, Job, Ticket}};
use watchexec_signals::Signal;

#[derive(Debug, Clone, Copy, PartialEq)]
enum Beh { ExitsAfter(u64), ExitsAfterSignal(u64), Ignores, SpawnFails }

#[derive(Debug)]
struct Shared { t0: Instant, log: Mutex<Vec<(u128, String)>>, n: Mutex<usize>, behs: Vec<Beh> }
impl Drop for SimChild { fn drop(&mut self) { if !self.reaped { self.sh.log(format!("dropped:c{}", self.id)); } } }
impl Shared {
    fn log(&self, s: String) { let t = self.t0.elapsed().as_millis(); self.log.lock().unwrap().push((t, s)); }
    fn beh_at(&self, i: usize) -> Beh { *self.behs.get(i).or(self.behs.last()).unwrap_or(&Beh::Ignores) }
}

#[derive(Debug)]
struct SimWrapper(Arc<Shared>);
impl TokioCommandWrapper for SimWrapper {
    fn pre_spawn(&mut self, _c: &mut TokioCommand, _core: &TokioCommandWrap) -> Result<()> {
        let mut n = self.0.n.lock().unwrap();
        if self.0.beh_at(*n) == Beh::SpawnFails { *n += 1; self.0.log("spawnfail".into()); return Err(std::io::Error::other("injected spawn failure")); }
        Ok(())
    }
    fn wrap_child(&mut self, inner: Box<dyn TokioChildWrapper>, _core: &TokioCommandWrap) -> Result<Box<dyn TokioChildWrapper>> {
        let mut n = self.0.n.lock().unwrap();
        let id = *n; *n += 1;
        let beh = self.0.beh_at(id);
        self.0.log(format!("spawn:c{id}"));
        let exit_at = match beh { Beh::ExitsAfter(ms) => Some(Instant::now() + Duration::from_millis(ms)), _ => None };
        Ok(Box::new(SimChild { inner, id, beh, sh: self.0.clone(), exit_at: Mutex::new(exit_at), status: Mutex::new(0), wake: Arc::new(Notify::new()), reaped: false }))
    }
}

#[derive(Debug)]
struct SimChild { inner: Box<dyn TokioChildWrapper>, id: usize, beh: Beh, sh: Arc<Shared>, exit_at: Mutex<Option<Instant>>, status: Mutex<i32>, wake: Arc<Notify>, reaped: bool }
impl TokioChildWrapper for SimChild {
    fn inner(&self) -> &Child { self.inner.inner() }
    fn inner_mut(&mut self) -> &mut Child { self.inner.inner_mut() }
    fn into_inner(self: Box<Self>) -> Child { unimplemented!() }
    fn id(&self) -> Option<u32> { Some(100_000 + self.id as u32) }
    fn start_kill(&mut self) -> Result<()> {
        self.sh.log(format!("kill:c{}", self.id));
        *self.exit_at.lock().unwrap() = Some(Instant::now()); *self.status.lock().unwrap() = 9; self.wake.notify_waiters(); Ok(())
    }
    fn signal(&self, sig: i32) -> Result<()> {
        self.sh.log(format!("signal:c{}:{sig}", self.id));
        if let Beh::ExitsAfterSignal(ms) = self.beh {
            let mut e = self.exit_at.lock().unwrap();
            if e.is_none() { *e = Some(Instant::now() + Duration::from_millis(ms)); *self.status.lock().unwrap() = sig; }
        }
        self.wake.notify_waiters();
        Ok(())
    }
    // non-blocking: a status only if the simulated process has exited by now (the unchanged code never calls this)
    fn try_wait(&mut self) -> Result<Option<ExitStatus>> {
        let at = *self.exit_at.lock().unwrap();
        match at {
            Some(t) if t <= Instant::now() => { let st = *self.status.lock().unwrap(); if !self.reaped { self.reaped = true; self.sh.log(format!("reaped:c{}:{st}", self.id)); } Ok(Some(ExitStatus::from_raw(st))) }
            _ => Ok(None),
        }
    }
    fn wait(&mut self) -> Box<dyn Future<Output = Result<ExitStatus>> + Send + '_> {
        Box::new(async move {
            loop {
                let notified = self.wake.notified();
                tokio::pin!(notified);
                notified.as_mut().enable();
                let at = *self.exit_at.lock().unwrap();
                match at {
                    Some(t) => { tokio::select! { _ = tokio::time::sleep_until(t) => { if *self.exit_at.lock().unwrap() == Some(t) { break; } } _ = &mut notified => {} } }
                    None => notified.await,
                }
            }
            let st = *self.status.lock().unwrap();
            if !self.reaped { self.reaped = true; self.sh.log(format!("reaped:c{}:{st}", self.id)); }
            Ok(ExitStatus::from_raw(st))
        })
    }
}


fn cs_name(c: &CommandState) -> String { match c { CommandState::Pending => "P".into(), CommandState::Running{..} => "R".into(),
    CommandState::Finished{status,..} => { let raw = status.into_exitstatus(); format!("F{}", raw.signal().unwrap_or_else(|| raw.code().unwrap_or(0))) } } }

async fn settle() { for _ in 0..60 { tokio::task::yield_now().await; } }

fn api(job: &Job, parts: &[&str], sh: &Arc<Shared>) -> Option<Ticket> {
    let sig = |s: &str| Signal::from(s.parse::<i32>().unwrap());
    let ms = |s: &str| Duration::from_millis(s.parse().unwrap());
    Some(match parts {
        ["start"] => job.start(), ["stop"] => job.stop(),
        ["gstop", g, t] => job.stop_with_signal(sig(g), ms(t)),
        ["restart"] => job.restart(), ["grestart", g, t] => job.restart_with_signal(sig(g), ms(t)),
        ["tryrestart"] => job.try_restart(), ["gtryrestart", g, t] => job.try_restart_with_signal(sig(g), ms(t)),
        ["signal", g] => job.signal(sig(g)), ["towait"] => job.to_wait(),
        ["delete"] => job.delete(), ["deletenow"] => job.delete_now(),
        ["run", id] => { let sh = sh.clone(); let id = id.to_string(); job.run(move |ctx| { sh.log(format!("run:{id}:{}:{}", cs_name(ctx.current), ctx.previous.map(cs_name).unwrap_or("-".into()))); }) }
        _ => return None,
    })
}

fn trace_of(sh: &Shared) -> String {
    let log = sh.log.lock().unwrap().clone();
    log.iter().map(|e| format!("{}:{}", e.0, e.1)).collect::<Vec<_>>().join("|")
}

/// line: `<id> <g:<sig>:<ms>|abort> <advance_ms> <behs~op;op/behs~op;op/...>`
/// a job spec starting with `+` is created and started INSIDE the action that requests the quit
async fn run_case(manner: String, advance: u64, jobs_spec: Vec<(Vec<Beh>, Vec<String>)>, late: Vec<bool>, inops: Vec<Vec<String>>) -> String {
    use watchexec::{Config, Watchexec};
    use watchexec_events::{Event, Priority};
    let t0 = Instant::now();
    let shared: Vec<Arc<Shared>> = jobs_spec.iter().map(|(b, _)| Arc::new(Shared { t0, log: Default::default(), n: Mutex::new(0), behs: b.clone() })).collect();
    let handles: Arc<Mutex<Vec<Job>>> = Default::default();
    let phase = Arc::new(std::sync::atomic::AtomicUsize::new(0));
    let config = Config::default();
    config.throttle(Duration::ZERO);
    let late_handles: Arc<Mutex<Vec<Job>>> = Default::default();
    let inaction: Arc<Mutex<Vec<Job>>> = Default::default();      // clones of the early jobs' handles, for the in-action controls
    let nearly = late.iter().filter(|l| !**l).count();
    config.on_action({ let shared = shared.clone(); let handles = handles.clone(); let late_handles = late_handles.clone(); let late = late.clone(); let phase = phase.clone(); let manner = manner.clone(); let inaction = inaction.clone(); let inops = inops.clone(); move |mut action| {
        match phase.fetch_add(1, std::sync::atomic::Ordering::SeqCst) {
            0 => { for (sh, _) in shared.iter().zip(late.iter()).filter(|(_, l)| !**l) {
                    let cmd = Arc::new(Command { program: Program::Exec { prog: "true".into(), args: vec![] }, options: Default::default() });
                    let (_id, job) = action.create_job(cmd);
                    let sh2 = sh.clone();
                    job.set_spawn_hook(move |c, _| { sh2.log("hook".into()); c.wrap(SimWrapper(sh2.clone())); });
                    handles.lock().unwrap().push(job);
                } }
            1 => { for (sh, _) in shared.iter().zip(late.iter()).filter(|(_, l)| **l) {
                    let cmd = Arc::new(Command { program: Program::Exec { prog: "true".into(), args: vec![] }, options: Default::default() });
                    let (_id, job) = action.create_job(cmd);
                    let sh2 = sh.clone();
                    job.set_spawn_hook(move |c, _| { sh2.log("hook".into()); c.wrap(SimWrapper(sh2.clone())); });
                    job.start();
                    late_handles.lock().unwrap().push(job);
                }
                { let hs = inaction.lock().unwrap(); let early: Vec<usize> = (0..late.len()).filter(|i| !late[*i]).collect();
                  for (k, ji) in early.iter().enumerate() { for op in &inops[*ji] { let parts: Vec<&str> = op.split(':').collect(); if let Some(j) = hs.get(k) { let _ = api(j, &parts[1..], &shared[*ji]); } } } }
                let p: Vec<&str> = manner.split(':').collect();
                   if p[0] == "abort" { action.quit(); } else { action.quit_gracefully(Signal::from(p[1].parse::<i32>().unwrap()), Duration::from_millis(p[2].parse().unwrap())); } }
            _ => {}
        }
        action } });
    let wx = Watchexec::with_config(config).unwrap();
    let main = wx.main();
    wx.send_event(Event::default(), Priority::Urgent).await.unwrap();
    settle().await;
    let jobs: Vec<Job> = handles.lock().unwrap().clone();
    if inops.iter().any(|o| !o.is_empty()) { *inaction.lock().unwrap() = jobs.clone(); }
    if jobs.len() != nearly { return format!("setup-failed:{}", jobs.len()); }
    let early_idx: Vec<usize> = (0..jobs_spec.len()).filter(|i| !late[*i]).collect();
    for (k, ji) in early_idx.iter().enumerate() {
        let ji = *ji; let ops = &jobs_spec[ji].1;
        for op in ops {
            let parts: Vec<&str> = op.split(':').collect();
            match parts[0] { "y" => settle().await, "n" | "s" => { if api(&jobs[k], &parts[1..], &shared[ji]).is_none() { return "bad-op".into(); } }, "" => {}, _ => return "bad-op".into() }
        }
        settle().await;
    }
    // some scripts hold on to clones of the handles across the quit, some drop them
    let keep = if advance % 2 == 0 { Some(jobs) } else { drop(jobs); handles.lock().unwrap().clear(); None };
    settle().await; tokio::time::sleep(Duration::from_millis(advance)).await; settle().await;
    let tq = Instant::now();
    wx.send_event(Event::default(), Priority::Urgent).await.unwrap();
    let res = tokio::time::timeout(Duration::from_secs(3600), main).await;
    let took = tq.elapsed().as_millis();
    settle().await;
    let main_s = match res { Ok(Ok(Ok(()))) => "ok".to_string(), Ok(Ok(Err(e))) => format!("err:{e:?}").replace(' ', "_"), Ok(Err(e)) => if e.is_panic() { "panic".into() } else { "join-error".into() }, Err(_) => "TIMEOUT".into() };
    let dead = keep.as_ref().map(|js| js.iter().map(|j| if j.is_dead() { "1" } else { "0" }).collect::<String>()).unwrap_or("-".into());
    format!("main={main_s}@{took} dead={dead} {}", shared.iter().map(|sh| trace_of(sh)).collect::<Vec<_>>().join(" // "))
}

fn main() {
    std::panic::set_hook(Box::new(|_| {}));
    let stdin = std::io::stdin(); let stdout = std::io::stdout(); let mut o = stdout.lock();
    for line in stdin.lock().lines() {
        let line = line.unwrap(); let f: Vec<&str> = line.split(' ').collect();
        if f.len() != 4 { writeln!(o, "bad-line").unwrap(); continue; }
        let late: Vec<bool> = f[3].split('/').map(|j| j.starts_with('+')).collect();
        let jobs: Vec<(Vec<Beh>, Vec<String>)> = f[3].split('/').map(|j| { let (b, ops) = j.trim_start_matches('+').split_once('~').unwrap();
            (b.split(',').map(|b| match b.as_bytes()[0] { b'E' => Beh::ExitsAfter(b[1..].parse().unwrap()), b'S' => Beh::ExitsAfterSignal(b[1..].parse().unwrap()), b'F' => Beh::SpawnFails, _ => Beh::Ignores }).collect(),
             ops.split('!').next().unwrap().split(';').map(|s| s.to_string()).collect()) }).collect();
        // `…!op;op`: controls sent to that job from INSIDE the action that requests the quit, just before the quit
        let inops: Vec<Vec<String>> = f[3].split('/').map(|j| j.split_once('!').map(|(_, o)| o.split(';').filter(|s| !s.is_empty()).map(|s| s.to_string()).collect()).unwrap_or_default()).collect();
        let rt = tokio::runtime::Builder::new_current_thread().enable_all().start_paused(true).build().unwrap();
        let res = rt.block_on(run_case(f[1].to_string(), f[2].parse().unwrap(), jobs, late, inops));
        rt.shutdown_background();
        writeln!(o, "{} {}", f[0], res).unwrap();
    }
}
