use wxharness::out;
use ignore_files::IgnoreFile;
use std::{ffi::OsString, io::Write, path::PathBuf};
use watchexec::filter::Filterer;
use watchexec_events::{Event, FileType, Priority, Tag};
use watchexec_filterer_globset::GlobsetFilterer;

struct Rng(u64);
impl Rng { fn next(&mut self) -> u64 { self.0 ^= self.0 << 13; self.0 ^= self.0 >> 7; self.0 ^= self.0 << 17; self.0 }
  fn below(&mut self, n: u64) -> u64 { self.next() % n }
  fn pick<'a>(&mut self, v: &'a [&'a str]) -> &'a str { v[(self.next() % v.len() as u64) as usize] } }

#[tokio::main(flavor = "current_thread")]
async fn main() {
    let seed: u64 = std::env::args().nth(1).and_then(|s| s.parse().ok()).unwrap_or(1);
    let n: usize = std::env::args().nth(2).and_then(|s| s.parse().ok()).unwrap_or(500);
    let mut r = Rng(seed.wrapping_mul(0x9E3779B97F4A7C15) | 1);
    let tmp = std::env::temp_dir().join(format!("gsgen-{}", std::process::id()));
    let _ = std::fs::remove_dir_all(&tmp); std::fs::create_dir_all(tmp.join("o")).unwrap();
    let tmp = std::fs::canonicalize(&tmp).unwrap(); let origin = tmp.join("o");
    let pats = ["*.rs", "*.log", "!*.log", "src/", "/src", "target", "target/", "a/b", "**/x.rs", "src/**", "/src/*.rs", "!src/x.rs", "*", "Cargo.toml", "*.py[co]", ".*.sw?", "**/.git/**", "sub/", "/", "*.d"];
    let names = ["src", "target", "a", "b", "x.rs", "y.log", "Cargo.toml", "foo.pyc", ".x.swp", "sub", ".git", "noext", ".hidden", "dot.", "x.d", "é.rs"];
    let extsp = ["rs", "log", "toml", "", "pyc", "d"];
    let mut cases = std::fs::File::create(out("cases.txt")).unwrap();
    let mut outs = std::fs::File::create(out("impl.txt")).unwrap();
    for ci in 0..n {
        let nf = r.below(3); let ni = r.below(3); let ne = if r.below(3) == 0 { r.below(3) + 1 } else { 0 };
        let filters: Vec<&str> = (0..nf).map(|_| r.pick(&pats)).collect();
        let ignores: Vec<&str> = (0..ni).map(|_| r.pick(&pats)).collect();
        let exts: Vec<&str> = (0..ne).map(|_| r.pick(&extsp)).collect();
        let mut probe = |r: &mut Rng| { let mut p = if r.below(7) == 0 { tmp.join("else") } else { origin.clone() }; for _ in 0..(r.below(3) + 1) { p.push(r.pick(&names)); } p };
        // 0-4 explicitly watched files, in the order the generator draws them (NOT sorted: `new` takes them as given)
        let whitelist: Vec<PathBuf> = match r.below(10) { 0 | 1 => vec![probe(&mut r)], 2 => vec![probe(&mut r), probe(&mut r)], 3 => (0..3 + r.below(2)).map(|_| probe(&mut r)).collect(), _ => vec![] };
        let mut files = vec![]; let mut enc_files = vec![];
        if r.below(3) == 0 {
            let d = r.pick(&["", "src", "a"]); let ai = if d.is_empty() { origin.clone() } else { origin.join(d) };
            let lines: Vec<&str> = (0..(r.below(3) + 1)).map(|_| r.pick(&pats)).collect();
            let path = tmp.join(format!("ig-{ci}")); std::fs::write(&path, lines.join("\n") + "\n").unwrap();
            files.push(IgnoreFile { path, applies_in: Some(ai.clone()), applies_to: None });
            enc_files.push(format!("{}\x1e{}", ai.display(), lines.join("\x1f")));
        }
        let gf = GlobsetFilterer::new(&origin, filters.iter().map(|f| (f.to_string(), Some(origin.clone()))), ignores.iter().map(|f| (f.to_string(), Some(origin.clone()))),
            whitelist.clone(), files.clone(), exts.iter().map(|e| OsString::from(e))).await;
        let mut evs = vec![]; let mut res = vec![];
        for _ in 0..6 {
            let np = if r.below(8) == 0 { 0 } else { r.below(2) + 1 };
            let mut tags = vec![]; let mut enc = vec![];
            for _ in 0..np {
                let p = if !whitelist.is_empty() && r.below(3) == 0 { whitelist[r.below(whitelist.len() as u64) as usize].clone() } else { probe(&mut r) };
                let ft = match r.below(4) { 0 => Some(FileType::Dir), 1 => Some(FileType::File), 2 => None, _ => Some(FileType::Symlink) };
                enc.push(format!("{}\x1e{}", p.display(), if ft == Some(FileType::Dir) {1} else {0}));
                tags.push(Tag::Path { path: p, file_type: ft });
            }
            evs.push(if enc.is_empty() { "-".to_string() } else { enc.join("\x1f") });
            if let Ok(g) = &gf { res.push(g.check_event(&Event { tags, metadata: Default::default() }, Priority::Normal).unwrap().to_string()); }
        }
        writeln!(cases, "GS\t{}\t{}\t{}\t{}\t{}\t{}\t{}", origin.display(), filters.join("\x1f"), ignores.join("\x1f"), whitelist.iter().map(|w| w.display().to_string()).collect::<Vec<_>>().join("\x1f"), enc_files.join("\x1d"), exts.iter().map(|e| format!("e={e}")).collect::<Vec<_>>().join("\x1f"), evs.join("\x1d")).unwrap();
        writeln!(outs, "{}", if gf.is_ok() { res.join(";") } else { "error".into() }).unwrap();
        for f in &files { let _ = std::fs::remove_file(&f.path); }
    }
    std::fs::remove_dir_all(&tmp).ok();
}
