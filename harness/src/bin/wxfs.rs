//! fs worker against a recording / fault-injecting watcher (hook H2), scripted configuration changes.
use std::{collections::{HashMap, HashSet}, io::{BufRead, Write}, path::{Path, PathBuf}, sync::{Arc, Mutex}, time::Duration};
use watchexec::{sources::fs::{verif, Watcher as Kind}, Config, WatchedPath};

#[derive(Default)]
struct World { log: Vec<String>, fail_watch: HashSet<String>, fail_unwatch: HashSet<String>, shape: HashMap<String, String>, hooks: HashMap<String, (Vec<String>, String)>, cfg: Option<Arc<Config>>, live: Option<Vec<String>>, live_kind: Option<&'static str>, newhook: Option<String>, gen: u64 }

/// a path is named by what follows `/p/`, with `.` for `/`: nested names (`a`, `a.x`, `a.x.y`) are different paths, one inside the other
fn name_of(p: &Path) -> String { p.strip_prefix("/p").unwrap_or(p).to_string_lossy().replace('/', ".") }
fn key(p: &Path, rec: bool) -> String { format!("{}{}", name_of(p), if rec { "+" } else { "-" }) }
fn wp(k: &str) -> WatchedPath { let name = &k[..k.len() - 1]; let p = PathBuf::from(format!("/p/{}", name.replace('.', "/"))); if k.ends_with('+') { WatchedPath::recursive(p) } else { WatchedPath::non_recursive(p) } }
/// `Q` is the poll watcher with another interval: an interval-only change is a change of kind too
fn kind(k: &str) -> Kind { if k == "P" { Kind::Poll(Duration::from_millis(50)) } else if k == "Q" { Kind::Poll(Duration::from_millis(80)) } else { Kind::Native } }
fn kind_name(k: &Kind) -> &'static str { match k { Kind::Native => "N", Kind::Poll(d) if *d == Duration::from_millis(80) => "Q", _ => "P" } }

fn apply(cfg: &Config, paths: &[String], k: &str) {
    // two independent public setters, as a client would call them
    cfg.file_watcher(kind(k));
    cfg.pathset(paths.iter().map(|p| wp(p)).collect::<Vec<_>>());
}

/// the injected failure: a notify error that names nothing (`0`), the path it was given (`s`), one other path — a child, as a
/// recursive back-end does — (`1`), the given path and a child (`s1`), or two children (`2`)
fn injected(path: &Path, shape: Option<&String>) -> notify::Error {
    let mut e = notify::Error::generic("injected");
    match shape.map(|s| s.as_str()) {
        Some("s") => e = e.add_path(path.to_path_buf()),
        Some("1") => e = e.add_path(path.join("child")),
        Some("s1") => e = e.add_path(path.to_path_buf()).add_path(path.join("child")),
        Some("2") => e = e.add_path(path.join("child")).add_path(path.join("other")),
        _ => {}
    }
    e
}

struct RecW { w: Arc<Mutex<World>>, registered: Vec<String>, gen: u64 }
impl RecW {
    fn fire(&self, name: &str) {
        let hook = self.w.lock().unwrap().hooks.remove(name);
        if let Some((paths, k)) = hook { let cfg = self.w.lock().unwrap().cfg.clone().unwrap();
            // a kind-only hook calls Config::file_watcher alone
            if paths == ["*keep*"] { cfg.file_watcher(kind(&k)); } else { apply(&cfg, &paths, &k); } }
    }
}
impl notify::Watcher for RecW {
    fn new<F: notify::EventHandler>(_h: F, _c: notify::Config) -> notify::Result<Self> { unimplemented!() }
    fn watch(&mut self, path: &Path, mode: notify::RecursiveMode) -> notify::Result<()> {
        let k = key(path, mode == notify::RecursiveMode::Recursive); let name = k[..k.len() - 1].to_string();
        self.w.lock().unwrap().log.push(format!("watch:{k}"));
        self.fire(&name);
        { let w = self.w.lock().unwrap(); if w.fail_watch.contains(&name) { return Err(injected(path, w.shape.get(&name))); } }
        self.registered.retain(|r| r[..r.len() - 1] != name); self.registered.push(k);
        self.w.lock().unwrap().live = Some(self.registered.clone());
        Ok(())
    }
    fn unwatch(&mut self, path: &Path) -> notify::Result<()> {
        let name = name_of(path);
        self.w.lock().unwrap().log.push(format!("unwatch:{name}"));
        self.fire(&name);
        { let w = self.w.lock().unwrap(); if w.fail_unwatch.contains(&name) { return Err(injected(path, w.shape.get(&name))); } }
        if !self.registered.iter().any(|r| r[..r.len() - 1] == name) { return Err(notify::Error::watch_not_found()); }
        self.registered.retain(|r| r[..r.len() - 1] != name);
        self.w.lock().unwrap().live = Some(self.registered.clone());
        Ok(())
    }
    fn kind() -> notify::WatcherKind { notify::WatcherKind::NullWatcher }
}
impl Drop for RecW { fn drop(&mut self) { let mut w = self.w.lock().unwrap(); w.log.push("dropwatcher".into()); if w.gen == self.gen { w.live = None; w.live_kind = None; } } }

async fn settle() { for _ in 0..60 { tokio::task::yield_now().await; } }

async fn run_case(ops: Vec<String>) -> String {
    let world = Arc::new(Mutex::new(World::default()));
    *verif::FACTORY.lock().unwrap() = Some(Box::new({ let world = world.clone(); move |k, _h| {
        // `hookn:<kind>`: Config::file_watcher is called from INSIDE this creation (another thread changing the kind while the watcher is built)
        let pending = world.lock().unwrap().newhook.take();
        if let Some(nk) = pending { let cfg = world.lock().unwrap().cfg.clone().unwrap(); cfg.file_watcher(kind(&nk)); }
        let mut w = world.lock().unwrap(); w.log.push(format!("new:{}", kind_name(&k))); w.live = Some(vec![]); w.live_kind = Some(kind_name(&k)); w.gen += 1; let gen = w.gen;
        Ok(Box::new(RecW { w: world.clone(), registered: vec![], gen }) as Box<dyn notify::Watcher + Send>) } }));
    let cfg = Arc::new(Config::default());
    world.lock().unwrap().cfg = Some(cfg.clone());
    let (ev_s, _ev_r) = async_priority_channel::bounded::<watchexec_events::Event, watchexec_events::Priority>(64);
    let (er_s, mut er_r) = tokio::sync::mpsc::channel(64);
    let task = tokio::spawn(watchexec::sources::fs::worker(cfg.clone(), er_s, ev_s));
    settle().await;
    let mut out = vec![];
    for op in &ops {
        let f: Vec<&str> = op.split(':').collect();
        let paths = |s: &str| -> Vec<String> { if s.is_empty() { vec![] } else { s.split(',').map(|x| x.to_string()).collect() } };
        match f[0] {
            "set" => { apply(&cfg, &paths(f[1]), f[2]); settle().await; }
            "poke" => { cfg.signal_change(); settle().await; }
            "hook" => { world.lock().unwrap().hooks.clear(); world.lock().unwrap().hooks.insert(f[1].to_string(), (paths(f[2]), f[3].to_string())); continue; }
            "hookk" => { world.lock().unwrap().hooks.clear(); world.lock().unwrap().hooks.insert(f[1].to_string(), (vec!["*keep*".to_string()], f[2].to_string())); continue; }
            "kind" => { cfg.file_watcher(kind(f[1])); settle().await; }
            "hookn" => { world.lock().unwrap().newhook = Some(f[1].to_string()); continue; }
            "failw" => { let mut w = world.lock().unwrap(); w.fail_watch.insert(f[1].to_string()); w.shape.remove(f[1]); if f.len() > 2 { w.shape.insert(f[1].to_string(), f[2].to_string()); } continue; }
            "okw" => { world.lock().unwrap().fail_watch.remove(f[1]); continue; }
            "oku" => { world.lock().unwrap().fail_unwatch.remove(f[1]); continue; }
            "failu" => { let mut w = world.lock().unwrap(); w.fail_unwatch.insert(f[1].to_string()); if f.len() > 2 { w.shape.insert(f[1].to_string(), f[2].to_string()); } continue; }
            _ => return "bad-op".into(),
        }
        let mut errs = 0; while er_r.try_recv().is_ok() { errs += 1; }
        let mut w = world.lock().unwrap();
        let mut calls: Vec<String> = std::mem::take(&mut w.log); calls.sort();
        let mut live = w.live.clone().map(|mut l| { l.sort(); l.join(",") }).unwrap_or("none".into());
        if live.is_empty() { live = "empty".into(); }
        out.push(format!("{}/e{}/{}", calls.join(","), errs, live));
    }
    let live_kind = world.lock().unwrap().live_kind.unwrap_or("none");
    task.abort();
    *verif::FACTORY.lock().unwrap() = None;
    // what is configured at the end (after in-call changes too): the oracle compares it with what is registered
    let mut conf: Vec<String> = cfg.pathset.get().iter().map(|p| { let p: &WatchedPath = p; key(p.as_ref(), format!("{p:?}").contains("recursive: true")) }).collect(); conf.sort();
    // … and the kind of the watcher that is active at the end (the one created last and not yet dropped)
    format!("{}\tCFG={}|{}|{}", out.join(";"), conf.join(","), kind_name(&cfg.file_watcher.get()), live_kind)
}

fn main() {
    let stdin = std::io::stdin(); let mut o = std::io::stdout().lock();
    for line in stdin.lock().lines() {
        let line = line.unwrap(); let f: Vec<&str> = line.split(' ').collect();
        let ops: Vec<String> = f[1].split(';').map(|s| s.to_string()).collect();
        let rt = tokio::runtime::Builder::new_current_thread().enable_all().build().unwrap();
        let r = rt.block_on(run_case(ops)); rt.shutdown_background();
        writeln!(o, "{} {}", f[0], r).unwrap();
    }
}
