use wxharness::out;
// C18 spike: to_spawnable argv/wrappers vs model, plus real spawns through Job + spawn hook with a reporting helper.
use std::{io::Write, path::PathBuf, sync::Arc};
use watchexec_supervisor::{command::{Command, Program, Shell, SpawnOptions}, job::start_job};
use process_wrap::tokio::*;

struct Rng(u64);
impl Rng { fn next(&mut self) -> u64 { self.0 ^= self.0 << 13; self.0 ^= self.0 >> 7; self.0 ^= self.0 << 17; self.0 }
  fn below(&mut self, n: u64) -> u64 { self.next() % n } }
fn hx(s: &[u8]) -> String { let mut o = String::from("x"); for b in s { o.push_str(&format!("{b:02x}")); } o }
fn hxl<S: AsRef<std::ffi::OsStr>>(l: &[S]) -> String { use std::os::unix::ffi::OsStrExt; l.iter().map(|s| hx(s.as_ref().as_bytes())).collect::<Vec<_>>().join(" ") }
const ATOMS: &[&str] = &["a", "", " ", "  ", "'", "\"", "$HOME", "*", "\n", "é", "日本", "-c", "--", "\\", "a b", "`x`", ";", "|", "\t", "&&"];
fn s(r: &mut Rng) -> String { (0..r.below(4)).map(|_| ATOMS[r.below(ATOMS.len() as u64) as usize]).collect() }
fn sl(r: &mut Rng, max: u64) -> Vec<String> { (0..r.below(max + 1)).map(|_| s(r)).collect() }

fn helper() {
    use std::os::unix::ffi::OsStrExt;
    let args: Vec<_> = std::env::args_os().skip(1).collect();
    let stat = std::fs::read_to_string("/proc/self/stat").unwrap();
    let after = &stat[stat.rfind(')').unwrap() + 2..];
    let f: Vec<&str> = after.split(' ').collect(); // state ppid pgrp session
    let out = format!("argv={} pg={} sess={} cwd={} env={}\n", hxl(&args), f[2] != std::env::var("WX_PG").unwrap(), f[3] != std::env::var("WX_SESS").unwrap(),
        hx(std::env::current_dir().unwrap().as_os_str().as_bytes()), hx(std::env::var_os("WX_T").unwrap_or_default().as_bytes()));
    { use std::io::Write; let mut f = std::fs::OpenOptions::new().create(true).append(true).open(std::env::var_os("WX_HELPER_OUT").unwrap()).unwrap(); f.write_all(out.as_bytes()).unwrap(); }
    // multi-run scenarios need a child that is still there when the restart is requested: stay (1) or stay and ignore SIGTERM (2)
    match std::env::var("WX_HELPER_STAY").as_deref() {
        Ok("1") => std::thread::sleep(std::time::Duration::from_secs(5)),
        Ok("2") => { unsafe { nix::sys::signal::signal(nix::sys::signal::Signal::SIGTERM, nix::sys::signal::SigHandler::SigIgn).unwrap(); } std::thread::sleep(std::time::Duration::from_secs(5)) }
        _ => {}
    }
}

#[tokio::main(flavor = "current_thread")]
async fn main() {
    if std::env::var_os("WX_HELPER_OUT").is_some() { return helper(); }
    // generator mode must be asked for explicitly: this binary is also the spawned helper, and a run whose spawn hook was
    // lost (no helper environment) must not start generating — and spawning — again
    if std::env::args().nth(1).as_deref() != Some("generate") { std::process::exit(3); }
    let seed: u64 = std::env::args().nth(2).and_then(|s| s.parse().ok()).unwrap_or(1);
    let n: usize = std::env::args().nth(3).and_then(|s| s.parse().ok()).unwrap_or(1000);
    let nspawn: usize = std::env::args().nth(4).and_then(|s| s.parse().ok()).unwrap_or(50);
    let mut r = Rng(seed.wrapping_mul(0x9E3779B97F4A7C15) | 1);
    let mut cases = std::fs::File::create(out("cases.txt")).unwrap();
    let mut outs = std::fs::File::create(out("impl.txt")).unwrap();
    let me = std::env::current_exe().unwrap();
    let (mypg, mysess) = { let stat = std::fs::read_to_string("/proc/self/stat").unwrap(); let after = stat[stat.rfind(')').unwrap() + 2..].to_string(); let f: Vec<String> = after.split(' ').map(|x| x.to_string()).collect(); (f[2].clone(), f[3].clone()) };
    for i in 0..n {
        let real = i < nspawn;
        let opts = SpawnOptions { grouped: r.below(2) == 0, session: r.below(3) == 0, reset_sigmask: r.below(2) == 0, ..Default::default() };
        let of = format!("{}{}{}", opts.grouped as u8, opts.session as u8, opts.reset_sigmask as u8);
        let (program, line) = if r.below(2) == 0 {
            // a program PATH need not be UTF-8 on unix (a Latin-1 file name): a fifth of the inspected commands carry raw bytes 0xE9 / 0xFF
            let prog: Vec<u8> = if real { std::os::unix::ffi::OsStrExt::as_bytes(me.as_os_str()).to_vec() } else { let mut p = s(&mut r); if p.is_empty() { p = "p".into() };
                let mut b = p.into_bytes(); if r.below(5) == 0 { b.push(0xE9); if r.below(2) == 0 { b.insert(0, 0xFF); } } b };
            let args = sl(&mut r, 5);
            let l = format!("LIB\tE\t{}\t{}\t{}", hx(&prog), hxl(&args), of);
            (Program::Exec { prog: PathBuf::from(<std::ffi::OsString as std::os::unix::ffi::OsStringExt>::from_vec(prog)), args }, l)
        } else {
            let (shprog, options, po, command) = if real {
                ("sh".to_string(), vec![], Some("-c".to_string()), "\"$WX_HELPER\" \"$0\" \"$@\"".to_string())
            } else {
                let mut p = s(&mut r); if p.is_empty() { p = "sh".into() };
                (p, sl(&mut r, 3), if r.below(4) == 0 { None } else { Some(s(&mut r)) }, s(&mut r))
            };
            let args = sl(&mut r, 4);
            let l = format!("LIB\tS\t{}\t{}\t{}\t{}\t{}\t{}", hx(shprog.as_bytes()), hxl(&options), po.as_ref().map(|p| hx(p.as_bytes())).unwrap_or("-".into()), hx(command.as_bytes()), hxl(&args), of);
            (Program::Shell { shell: Shell { prog: shprog.into(), options, program_option: po.map(|p| std::borrow::Cow::Owned(p.into())) }, command, args }, l)
        };
        let is_shell = matches!(program, Program::Shell { .. });
        let cmd = Arc::new(Command { program, options: opts });
        let sp = cmd.to_spawnable();
        let mut argv = vec![sp.command().as_std().get_program().to_owned()];
        argv.extend(sp.command().as_std().get_args().map(|a| a.to_owned()));
        let mut w = vec![];
        if sp.has_wrap::<KillOnDrop>() { w.push("K") }
        if sp.has_wrap::<ProcessSession>() { w.push("S") }
        if sp.has_wrap::<ProcessGroup>() { w.push("G") }
        if sp.has_wrap::<ResetSigmask>() { w.push("R") }
        let mut oracle = String::new();
        // the property's own statement of the argument vector, written down independently of to_spawnable():
        // no shell: program, then every argument; shell: the shell, its options, the program option, the command string, the extra arguments
        let spec: Vec<std::ffi::OsString> = match &cmd.program {
            Program::Exec { prog, args, .. } => std::iter::once(prog.clone().into_os_string()).chain(args.iter().map(|a| a.into())).collect(),
            Program::Shell { shell, command, args } => std::iter::once(shell.prog.clone().into_os_string()).chain(shell.options.iter().map(|o| o.into()))
                .chain(shell.program_option.iter().map(|p| p.clone().into_owned())).chain(std::iter::once(command.into())).chain(args.iter().map(|a| a.into())).collect(),
        };
        if argv != spec { oracle = format!("the command is constructed as {} but its program and arguments are {}", hxl(&argv), hxl(&spec)); }
        let argv_impl = argv.clone();
        let argv = spec.clone();
        if real {
            // through the real Job: spawn hook sets env + cwd; helper reports what it saw
            let outp = out(&format!("helper_out_{i}"));
            let _ = std::fs::remove_file(&outp);
            let envv = s(&mut r);
            let (job, task) = start_job(cmd.clone());
            let (o2, e2, me2, pg2, ss2) = (outp.clone(), envv.clone(), me.clone(), mypg.clone(), mysess.clone());
            // every fifth real spawn of an Exec command goes on to a second run through one of the respawn paths: the hook's
            // changes (environment, working directory) must reach that run too
            let scenario = if is_shell { 0 } else { (i % 10) / 2 % 6 };
            let stay = match scenario { 0 => "0", 4 | 5 => "2", _ => "1" };
            job.set_spawn_hook(move |c, _| { c.command_mut().env("WX_HELPER_OUT", &o2).env("WX_T", &e2).env("WX_HELPER", &me2).env("WX_PG", &pg2).env("WX_SESS", &ss2).env("WX_HELPER_STAY", stay).current_dir("/usr"); }).await;
            job.start().await;
            if scenario == 0 { job.to_wait().await; } else {
                let lines = |p: &str| std::fs::read_to_string(p).map(|s| s.lines().count()).unwrap_or(0);
                for _ in 0..300 { if lines(&outp) >= 1 { break; } tokio::time::sleep(std::time::Duration::from_millis(10)).await; }
                use watchexec_signals::Signal; use std::time::Duration;
                match scenario { 1 => { job.restart().await; } 2 => { job.try_restart().await; } 3 => { job.try_restart_with_signal(Signal::Terminate, Duration::from_secs(2)).await; }
                    4 => { job.try_restart_with_signal(Signal::Terminate, Duration::from_millis(100)).await; } _ => { job.restart_with_signal(Signal::Terminate, Duration::from_millis(100)).await; } }
                for _ in 0..300 { if lines(&outp) >= 2 { break; } tokio::time::sleep(std::time::Duration::from_millis(10)).await; }
                job.stop().await;
            }
            let rep_all = std::fs::read_to_string(&outp).unwrap_or_default();
            let runs: Vec<&str> = rep_all.lines().collect();
            let rep = runs.first().map(|l| format!("{l}\n")).unwrap_or_default();
            let _ = std::fs::remove_file(&outp);
            // expected from the same source of truth as the model line: helper's argv = argv minus program (exec) or extra args incl $0 (shell)
            let exp_args: Vec<std::ffi::OsString> = if is_shell { if argv.len() > 3 { argv[3..].to_vec() } else { vec!["sh".into()] } } else { argv[1..].to_vec() };
            let exp = format!("argv={} pg={} sess={} cwd={} env={}\n", hxl(&exp_args), opts.session || opts.grouped, opts.session, hx(b"/usr"), hx(envv.as_bytes()));
            if rep != exp && oracle.is_empty() { oracle = format!("spawned child saw {} but the command says {}", rep.trim(), exp.trim()); }
            if scenario != 0 {
                if runs.len() != 2 { oracle = format!("respawn scenario {scenario}: {} runs reported instead of 2", runs.len()); }
                else if format!("{}\n", runs[1]) != exp { oracle = format!("respawn scenario {scenario}: the second run saw {} but the command and its spawn hook say {}", runs[1], exp.trim()); }
            }
            drop(job); task.abort();
        }
        writeln!(cases, "{line}").unwrap();
        writeln!(outs, "argv={} wraps={}{}", hxl(&argv_impl), w.join(","), if oracle.is_empty() { String::new() } else { format!("\t!{oracle}") }).unwrap();
    }
}
