//! C04, the assumption behind "a failed spawn leaves no process": a spawn that fails AFTER the fork (a wrapper's `post_spawn` errors) has
//! already created a process; it must be gone before the job spawns again. Real `sleep` children, every spawn option; output one line per
//! scenario: `<id> maxlive=<n> rounds=<live counts>`.
use std::{io, sync::{atomic::{AtomicUsize, Ordering}, Arc, Mutex}, time::Duration};
use process_wrap::tokio::{TokioCommandWrap, TokioCommandWrapper};
use tokio::process::Child;
use watchexec_supervisor::{command::{Command, Program, SpawnOptions}, job::start_job};

#[derive(Debug)]
struct Probe { pids: Arc<Mutex<Vec<u32>>>, fail: bool }
impl TokioCommandWrapper for Probe {
    fn post_spawn(&mut self, child: &mut Child, _core: &TokioCommandWrap) -> io::Result<()> {
        if let Some(pid) = child.id() { self.pids.lock().unwrap().push(pid); }
        if self.fail { Err(io::Error::other("injected failure after the fork")) } else { Ok(()) }
    }
}

fn live(pid: u32) -> bool {
    match std::fs::read_to_string(format!("/proc/{pid}/stat")) {
        Ok(s) => !matches!(s.rsplit_once(')').and_then(|(_, r)| r.trim_start().chars().next()).unwrap_or('?'), 'Z' | 'X' | 'x'),
        Err(_) => false,
    }
}

async fn scenario(id: String, options: SpawnOptions, fail_index: usize, graceful: bool) -> String {
    let pids: Arc<Mutex<Vec<u32>>> = Default::default();
    let n = Arc::new(AtomicUsize::new(0));
    let (job, task) = start_job(Arc::new(Command { program: Program::Exec { prog: "sleep".into(), args: vec!["30".into()] }, options }));
    job.set_error_handler(|_| {}).await;
    job.set_spawn_hook({ let (pids, n) = (pids.clone(), n.clone()); move |cmd, _| { let i = n.fetch_add(1, Ordering::SeqCst); cmd.wrap(Probe { pids: pids.clone(), fail: i == fail_index }); } }).await;
    let mut counts = vec![];
    for _ in 0..=(fail_index + 1) {
        if graceful { job.restart_with_signal(watchexec_signals::Signal::Terminate, Duration::from_millis(50)).await; } else { job.restart().await; }
        tokio::time::sleep(Duration::from_millis(250)).await;
        let all = pids.lock().unwrap().clone();
        counts.push(all.iter().filter(|p| live(**p)).count());
    }
    job.stop().await; job.delete_now().await; let _ = tokio::time::timeout(Duration::from_secs(2), task).await;
    // nothing is left behind by the harness itself
    for p in pids.lock().unwrap().iter() { unsafe { libc_kill(*p as i32) } }
    format!("{id} maxlive={} rounds={}", counts.iter().max().copied().unwrap_or(0), counts.iter().map(|c| c.to_string()).collect::<Vec<_>>().join(","))
}

unsafe fn libc_kill(pid: i32) { extern "C" { fn kill(pid: i32, sig: i32) -> i32; } kill(pid, 9); }

#[tokio::main(flavor = "multi_thread", worker_threads = 4)]
async fn main() {
    let mut hs = vec![];
    for (oname, options) in [("plain", SpawnOptions::default()), ("grouped", SpawnOptions { grouped: true, ..Default::default() }), ("session", SpawnOptions { session: true, ..Default::default() })] {
        for fail_index in 0..2usize { for graceful in [false, true] {
            let id = format!("sf-{oname}-fail{fail_index}-{}", if graceful { "graceful" } else { "plain" });
            hs.push(tokio::spawn(scenario(id, options.clone(), fail_index, graceful)));
        } }
    }
    for h in hs { println!("{}", h.await.unwrap()); }
}
