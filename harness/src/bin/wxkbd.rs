//! Keyboard source (lib/src/sources/keyboard.rs) on a real Watchexec instance: the process replaces its own fd 0 by a pipe it holds the
//! write end of, so "input arrives" and "end of input" are scripted. One process per case (EOF on fd 0 is for good): the parent mode reads
//! case lines and re-executes itself as `wxkbd child <ops>`.
//! case: `<id> <op;op;…>`, ops: on | off (Config::keyboard_events) | t (Config::throttle: a change of another value) | d (write bytes) | c (close the write end) | y (let everything run)
use std::{io::{BufRead, Write}, os::fd::FromRawFd, sync::{Arc, Mutex}, time::Duration};
use watchexec::{Config, Watchexec};
use watchexec_events::{Keyboard, Tag};

async fn settle() { tokio::time::sleep(Duration::from_millis(45)).await; }

async fn run_case(w: std::fs::File, ops: Vec<String>) -> String {
    let mut w = Some(w);
    let config = Config::default();
    config.throttle(Duration::ZERO);
    let seen: Arc<Mutex<(usize, usize, usize)>> = Default::default();   // (eof events, batches, other events)
    config.on_action({ let seen = seen.clone(); move |action| {
        let mut s = seen.lock().unwrap();
        s.1 += 1;
        for e in action.events.iter() {
            if e.tags.contains(&Tag::Keyboard(Keyboard::Eof)) { s.0 += 1; } else { s.2 += 1; }
        }
        action } });
    let errs: Arc<Mutex<usize>> = Default::default();
    config.on_error({ let errs = errs.clone(); move |_| { *errs.lock().unwrap() += 1; } });
    let wx = Watchexec::with_config(config).unwrap();
    let main = wx.main();
    settle().await;
    for op in &ops {
        match op.as_str() {
            "on" => { wx.config.keyboard_events(true); }
            "off" => { wx.config.keyboard_events(false); }
            "t" => { wx.config.throttle(Duration::ZERO); }      // another configuration value changes: every worker is woken
            "d" => { if let Some(f) = w.as_mut() { f.write_all(b"some input\n").unwrap(); f.flush().unwrap(); } }
            "c" => { w = None; }
            "y" => settle().await,
            _ => return "bad-op".into(),
        }
    }
    settle().await;
    let done = main.is_finished();
    let s = *seen.lock().unwrap();
    format!("eof={} batches={} other={} errors={} main={}", s.0, s.1, s.2, *errs.lock().unwrap(), if done { "ended" } else { "running" })
}

fn child(ops: &str) {
    let mut fds = [0i32; 2];
    unsafe {
        assert_eq!(libc::pipe(fds.as_mut_ptr()), 0);
        assert_eq!(libc::dup2(fds[0], 0), 0);
        libc::close(fds[0]);
    }
    let w = unsafe { std::fs::File::from_raw_fd(fds[1]) };
    let rt = tokio::runtime::Builder::new_current_thread().enable_all().build().unwrap();
    let r = rt.block_on(run_case(w, ops.split(';').map(|s| s.to_string()).collect()));
    println!("{r}");
    std::io::stdout().flush().unwrap();
    std::process::exit(0);      // a blocking read of fd 0 may still be in flight
}

fn main() {
    let a: Vec<String> = std::env::args().collect();
    if a.len() == 3 && a[1] == "child" { child(&a[2]); return; }
    let exe = std::env::current_exe().unwrap();
    let stdin = std::io::stdin(); let mut o = std::io::stdout().lock();
    for line in stdin.lock().lines() {
        let line = line.unwrap(); let f: Vec<&str> = line.split(' ').collect();
        let mut c = std::process::Command::new(&exe).arg("child").arg(f[1]).stdin(std::process::Stdio::null()).stdout(std::process::Stdio::piped()).spawn().unwrap();
        // a case takes (number of `y` + 2) x 45 ms; 8 s without an answer is a hang
        let t0 = std::time::Instant::now();
        let r = loop {
            match c.try_wait().unwrap() {
                Some(_) => { let out = c.wait_with_output().unwrap(); break String::from_utf8_lossy(&out.stdout).trim().to_string(); }
                None if t0.elapsed() > Duration::from_secs(8) => { let _ = c.kill(); let _ = c.wait(); break "HUNG".to_string(); }
                None => std::thread::sleep(Duration::from_millis(5)),
            }
        };
        writeln!(o, "{} {}", f[0], if r.is_empty() { "DIED" } else { &r }).unwrap();
        o.flush().unwrap();
    }
}
