//! C08 with real processes: commands that exit on the signal, ignore it, or fork other members of their process
//! group; grouped and ungrouped; graceful quit and abort. One line per scenario:
//! `<name> main=<ok|timeout> took=<ms> grace=<ms> alive=<pids still alive 300 ms after main returned>`
use std::{sync::{Arc, Mutex}, time::{Duration, Instant}};
use watchexec::{command::{Command, Program, Shell, SpawnOptions}, Watchexec};
use watchexec_events::{Event, Priority};
use watchexec_signals::Signal;

const GRACE_MS: u64 = 500;

async fn run(name: &'static str, scripts: Vec<&'static str>, grouped: bool, graceful: bool) -> String {
    let pidfile = std::env::temp_dir().join(format!("wxquitreal-{}-{name}.pid", std::process::id()));
    let _ = std::fs::remove_file(&pidfile);
    let cmds: Vec<Arc<Command>> = scripts.iter().map(|s| Arc::new(Command { program: Program::Shell { shell: Shell::new("sh"), command: s.replace("PIDFILE", pidfile.to_str().unwrap()), args: vec![] },
        options: SpawnOptions { grouped, ..Default::default() } })).collect();
    let step = Arc::new(Mutex::new(0));
    let wx = Watchexec::new({ let step = step.clone(); move |mut action| {
        let mut s = step.lock().unwrap();
        if *s == 0 { for c in &cmds { let (_, job) = action.create_job(c.clone()); job.start(); } *s = 1; }
        else if graceful { action.quit_gracefully(Signal::Terminate, Duration::from_millis(GRACE_MS)); } else { action.quit(); }
        action
    }}).unwrap();
    let main = wx.main();
    wx.send_event(Event::default(), Priority::Urgent).await.unwrap();
    tokio::time::sleep(Duration::from_millis(700)).await;       // let the shells start and record their pids
    let t0 = Instant::now();
    wx.send_event(Event::default(), Priority::Urgent).await.unwrap();
    let r = tokio::time::timeout(Duration::from_secs(6), main).await;
    let took = t0.elapsed().as_millis();
    tokio::time::sleep(Duration::from_millis(300)).await;
    let pids = std::fs::read_to_string(&pidfile).unwrap_or_default();
    let alive: Vec<&str> = pids.split_whitespace().filter(|p| *p != "L").filter(|p| std::fs::read_to_string(format!("/proc/{p}/stat")).map(|s| !s.contains(") Z ")).unwrap_or(false)).collect();
    // the first recorded pid of a script is the process the job spawned (the group LEADER, `L:`); the others are further members of its group (`M:`)
    let leaders: Vec<&str> = pids.lines().filter(|l| l.starts_with("L ")).map(|l| l[2..].trim()).collect();
    let line = format!("{name} main={} took={took} grace={} recorded={} alive={}", if r.is_ok() { "ok" } else { "timeout" }, if graceful { GRACE_MS } else { 0 }, pids.split_whitespace().filter(|p| *p != "L").count(),
        alive.iter().map(|p| format!("{}:{p}", if leaders.contains(p) { "L" } else { "M" })).collect::<Vec<_>>().join(","));
    for p in alive { let _ = std::process::Command::new("kill").args(["-9", p]).status(); }
    let _ = std::fs::remove_file(&pidfile);
    line
}

#[tokio::main(flavor = "multi_thread", worker_threads = 8)]
async fn main() {
    let exits = "echo L $$ >> PIDFILE; exec sleep 30";
    let ignores = "trap '' TERM; echo L $$ >> PIDFILE; while :; do sleep 0.1; done";
    let plain_member = "echo L $$ >> PIDFILE; sleep 30 & echo $! >> PIDFILE; wait";
    let leader_ignores = "trap '' TERM; echo L $$ >> PIDFILE; sleep 30 & echo $! >> PIDFILE; wait";
    let member_ignores = "echo L $$ >> PIDFILE; (trap '' TERM; echo $(exec sh -c 'echo $PPID') >> PIDFILE; exec sleep 30) & wait";
    let hs = vec![
        tokio::spawn(run("graceful-plain-exits", vec![exits], false, true)),
        tokio::spawn(run("graceful-plain-ignores", vec![ignores], false, true)),
        tokio::spawn(run("graceful-two-jobs", vec![exits, ignores], false, true)),
        tokio::spawn(run("graceful-grouped-plain-member", vec![plain_member], true, true)),
        tokio::spawn(run("graceful-grouped-leader-ignores", vec![leader_ignores], true, true)),
        tokio::spawn(run("graceful-grouped-member-ignores", vec![member_ignores], true, true)),
        tokio::spawn(run("abort-plain-ignores", vec![ignores], false, false)),
        tokio::spawn(run("abort-grouped-plain-member", vec![plain_member], true, false)),
        tokio::spawn(run("abort-grouped-member-ignores", vec![member_ignores], true, false)),
        tokio::spawn(run("abort-grouped-exits", vec![exits], true, false)),
        tokio::spawn(run("abort-grouped-leader-ignores-alone", vec![ignores], true, false)),
    ];
    for h in hs { println!("{}", h.await.unwrap()); }
}
