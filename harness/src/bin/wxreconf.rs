//! C13 "changes made from inside handlers": a real Watchexec instance (main(), action worker, error hook, fs worker with the
//! recording watcher of hook H2) whose action and error handlers reconfigure it FROM INSIDE their own invocation: path set,
//! watcher kind, and the very handler that is running.
//! case: `<id> <op;op;…>`   ops: ev:<acts> | eh:<acts> | set:<paths>:<kind> | bad:<name> | good:<name>
//!   acts (`|`-separated, run inside the handler call): P<a+,b-> pathset · KN / KP watcher kind · A replace the action handler ·
//!   E replace the error handler · T throttle · - nothing
//! answer: `<id> act=<s0,e0,…> err=<s0,e0,…|…> reg=<registered> cfg=<configured>|<kind>`; per op segment (`|`) the handler logs.
use std::{collections::{HashSet, VecDeque}, io::{BufRead, Write}, path::{Path, PathBuf}, sync::{Arc, Mutex}, time::Duration};
use watchexec::{sources::fs::{verif, Watcher as Kind}, Config, ErrorHook, WatchedPath, Watchexec, action::ActionHandler};
use watchexec_events::{Event, Priority, Source, Tag};

#[derive(Default)]
struct World { calls: usize, fail_watch: HashSet<String>, live: Option<Vec<String>>, gen: u64 }
fn key(p: &Path, rec: bool) -> String { format!("{}{}", p.file_name().unwrap().to_string_lossy(), if rec { "+" } else { "-" }) }
fn wp(k: &str) -> WatchedPath { let name = &k[..k.len() - 1]; let p = PathBuf::from(format!("/p/{name}")); if k.ends_with('+') { WatchedPath::recursive(p) } else { WatchedPath::non_recursive(p) } }
fn kind(k: &str) -> Kind { if k == "P" { Kind::Poll(Duration::from_millis(50)) } else { Kind::Native } }

struct RecW { w: Arc<Mutex<World>>, registered: Vec<String>, gen: u64 }
impl notify::Watcher for RecW {
    fn new<F: notify::EventHandler>(_h: F, _c: notify::Config) -> notify::Result<Self> { unimplemented!() }
    fn watch(&mut self, path: &Path, mode: notify::RecursiveMode) -> notify::Result<()> {
        let k = key(path, mode == notify::RecursiveMode::Recursive); let name = k[..k.len() - 1].to_string();
        let mut w = self.w.lock().unwrap(); w.calls += 1;
        if w.fail_watch.contains(&name) { return Err(notify::Error::generic("injected")); }
        self.registered.retain(|r| r[..r.len() - 1] != name); self.registered.push(k);
        w.live = Some(self.registered.clone());
        Ok(())
    }
    fn unwatch(&mut self, path: &Path) -> notify::Result<()> {
        let name = path.file_name().unwrap().to_string_lossy().to_string();
        let mut w = self.w.lock().unwrap(); w.calls += 1;
        if !self.registered.iter().any(|r| r[..r.len() - 1] == name) { return Err(notify::Error::watch_not_found()); }
        self.registered.retain(|r| r[..r.len() - 1] != name);
        w.live = Some(self.registered.clone());
        Ok(())
    }
    fn kind() -> notify::WatcherKind { notify::WatcherKind::NullWatcher }
}
impl Drop for RecW { fn drop(&mut self) { let mut w = self.w.lock().unwrap(); w.calls += 1; if w.gen == self.gen { w.live = None; } } }

struct Shared { cfg: Mutex<Option<Arc<Config>>>, alog: Mutex<Vec<String>>, elog: Mutex<Vec<String>>, ascripts: Mutex<VecDeque<String>>, escripts: Mutex<VecDeque<String>>, agen: Mutex<usize>, egen: Mutex<usize> }

fn run_acts(sh: &Arc<Shared>, acts: &str) {
    let cfg = sh.cfg.lock().unwrap().clone().unwrap();
    for a in acts.split('|') {
        match a.as_bytes().first() {
            Some(b'P') => { let ps: Vec<WatchedPath> = a[1..].split(',').filter(|x| !x.is_empty()).map(wp).collect(); cfg.pathset(ps); }
            Some(b'K') => { cfg.file_watcher(kind(&a[1..])); }
            Some(b'A') => { let g = { let mut g = sh.agen.lock().unwrap(); *g += 1; *g }; cfg.on_action(action_handler(sh.clone(), g)); }
            Some(b'E') => { let g = { let mut g = sh.egen.lock().unwrap(); *g += 1; *g }; cfg.on_error(error_handler(sh.clone(), g)); }
            Some(b'T') => { cfg.throttle(Duration::from_millis(1)); }
            _ => {}
        }
    }
}
fn action_handler(sh: Arc<Shared>, gen: usize) -> impl Fn(ActionHandler) -> ActionHandler + Send + Sync + 'static {
    move |action| {
        sh.alog.lock().unwrap().push(format!("s{gen}"));
        let acts = sh.ascripts.lock().unwrap().pop_front().unwrap_or("-".into());
        run_acts(&sh, &acts);
        sh.alog.lock().unwrap().push(format!("e{gen}"));
        action
    }
}
fn error_handler(sh: Arc<Shared>, gen: usize) -> impl Fn(ErrorHook) + Send + Sync + 'static {
    move |_hook| {
        sh.elog.lock().unwrap().push(format!("s{gen}"));
        let acts = sh.escripts.lock().unwrap().pop_front().unwrap_or("-".into());
        run_acts(&sh, &acts);
        sh.elog.lock().unwrap().push(format!("e{gen}"));
    }
}

async fn settle(world: &Arc<Mutex<World>>, sh: &Arc<Shared>) {
    let mut last = (usize::MAX, 0, 0); let mut same = 0;
    for _ in 0..400 {
        tokio::time::sleep(Duration::from_millis(4)).await;
        let cur = (world.lock().unwrap().calls, sh.alog.lock().unwrap().len(), sh.elog.lock().unwrap().len());
        if cur == last { same += 1; if same >= 6 { return; } } else { same = 0; last = cur; }
    }
}

async fn run_case(ops: Vec<String>) -> String {
    let world = Arc::new(Mutex::new(World::default()));
    *verif::FACTORY.lock().unwrap() = Some(Box::new({ let world = world.clone(); move |_k, _h| {
        let mut w = world.lock().unwrap(); w.calls += 1; w.live = Some(vec![]); w.gen += 1; let gen = w.gen;
        Ok(Box::new(RecW { w: world.clone(), registered: vec![], gen }) as Box<dyn notify::Watcher + Send>) } }));
    let sh = Arc::new(Shared { cfg: Mutex::new(None), alog: Default::default(), elog: Default::default(), ascripts: Default::default(), escripts: Default::default(), agen: Mutex::new(0), egen: Mutex::new(0) });
    let wx = Watchexec::default();
    *sh.cfg.lock().unwrap() = Some(wx.config.clone());
    wx.config.throttle(Duration::from_millis(1));
    wx.config.on_action(action_handler(sh.clone(), 0));
    wx.config.on_error(error_handler(sh.clone(), 0));
    let main = wx.main();
    settle(&world, &sh).await;
    let (mut aseg, mut eseg) = (vec![], vec![]);
    for op in &ops {
        let f: Vec<&str> = op.splitn(2, ':').collect();
        match f[0] {
            "ev" => { sh.ascripts.lock().unwrap().push_back(f[1].to_string());
                      let _ = wx.send_event(Event { tags: vec![Tag::Source(Source::Internal)], metadata: Default::default() }, Priority::Urgent).await; }
            "eh" => { sh.escripts.lock().unwrap().push_back(f[1].to_string()); continue; }
            "set" => { let g: Vec<&str> = f[1].split(':').collect(); wx.config.file_watcher(kind(g[1])); wx.config.pathset(g[0].split(',').filter(|x| !x.is_empty()).map(wp).collect::<Vec<_>>()); }
            "bad" => { world.lock().unwrap().fail_watch.insert(f[1].to_string()); continue; }
            "good" => { world.lock().unwrap().fail_watch.remove(f[1]); continue; }
            _ => return "bad-op".into(),
        }
        settle(&world, &sh).await;
        aseg.push(std::mem::take(&mut *sh.alog.lock().unwrap()).join(","));
        eseg.push(std::mem::take(&mut *sh.elog.lock().unwrap()).join(","));
    }
    let live = world.lock().unwrap().live.clone().map(|mut l| { l.sort(); if l.is_empty() { "empty".to_string() } else { l.join(",") } }).unwrap_or("none".into());
    let mut conf: Vec<String> = wx.config.pathset.get().iter().map(|p| { let p: &WatchedPath = p; key(p.as_ref(), format!("{p:?}").contains("recursive: true")) }).collect(); conf.sort();
    let mainst = if main.is_finished() { "ended" } else { "running" };
    main.abort();
    *verif::FACTORY.lock().unwrap() = None;
    format!("act={} err={} reg={} cfg={}|{} main={}", aseg.join("|"), eseg.join("|"), live, conf.join(","), if matches!(wx.config.file_watcher.get(), Kind::Native) { "N" } else { "P" }, mainst)
}

fn main() {
    let lines: Vec<String> = std::io::stdin().lock().lines().map(|l| l.unwrap()).collect();
    let mut o = std::io::stdout().lock();
    // one case at a time (the watcher factory of hook H2 is process-wide), each in its own runtime; a handler call that never
    // returns blocks its worker thread for good: the case answers HUNG after 6 s and the next one starts on fresh threads
    for line in lines {
        let f: Vec<String> = line.split(' ').map(|s| s.to_string()).collect();
        let ops: Vec<String> = f[1].split(';').map(|s| s.to_string()).collect(); let id = f[0].clone();
        let (tx, rx) = std::sync::mpsc::channel::<String>();
        std::thread::spawn(move || {
            let rt = tokio::runtime::Builder::new_multi_thread().worker_threads(3).enable_all().build().unwrap();
            let r = rt.block_on(async { match tokio::time::timeout(Duration::from_secs(6), run_case(ops)).await { Ok(r) => r, Err(_) => "HUNG".into() } });
            let _ = tx.send(r);
            rt.shutdown_background();
        });
        let r = rx.recv_timeout(Duration::from_secs(20)).unwrap_or("HUNG".into());
        writeln!(o, "{id} {r}").unwrap(); o.flush().unwrap();
    }
    drop(o);
    std::process::exit(0);
}
