//! Correspondence streams for the table properties C16 (json), C19 (signals, statuses), C20 (origins).
//! usage: wxtables <origins|signals|json> <seed> <n>   → $WX_OUT/cases.txt, $WX_OUT/impl.txt
//! An impl line is the canonical observation, optionally followed by "\t!<oracle failure>".
use std::{collections::BTreeMap, io::Write, num::{NonZeroI32, NonZeroI64}, os::unix::process::ExitStatusExt, path::PathBuf, process::ExitStatus, str::FromStr};
use watchexec_events::{filekind::*, Event, FileType, Keyboard, ProcessEnd, Source, Tag};
use watchexec_signals::Signal;
use wxharness::{hex, out, Rng};

const MARKERS: &[(&str, bool)] = &[("_darcs", true), (".bzr", true), (".fossil-settings", true), (".git", true), (".github", true), (".hg", true), (".svn", true), (".asf.yaml", false), (".bzrignore", false), (".codecov.yml", false), (".ctags", false), (".editorconfig", false), (".git", false), (".gitattributes", false), (".gitmodules", false), (".hgignore", false), (".hgtags", false), (".perltidyrc", false), (".travis.yml", false), ("appveyor.yml", false), ("build.gradle", false), ("build.properties", false), ("build.xml", false), ("Cargo.toml", false), ("Cargo.lock", false), ("cgmanifest.json", false), ("CMakeLists.txt", false), ("composer.json", false), ("COPYING", false), ("docker-compose.yml", false), ("Dockerfile", false), ("Gemfile", false), ("LICENSE.txt", false), ("LICENSE", false), ("Makefile.am", false), ("Makefile.pl", false), ("Makefile.PL", false), ("Makefile", false), ("mix.exs", false), ("moonshine-dependencies.xml", false), ("package.json", false), ("package-lock.json", false), ("pnpm-lock.yaml", false), ("yarn.lock", false), ("pom.xml", false), ("project.clj", false), ("requirements.txt", false), ("v.mod", false), ("CONTRIBUTING.md", false), ("go.mod", false), ("go.sum", false), ("Pipfile", false), ("build.zig", false)];
const DECOYS: &[&str] = &["src", "README.md", "main.rs", "cargo.toml", "Cargo.toml.bak", ".gitignore", "node_modules", "go.work", "build.zig.zon", "x"];

fn lower_first(s: &str) -> String { let mut c = s.chars(); match c.next() { Some(f) => f.to_lowercase().collect::<String>() + c.as_str(), None => String::new() } }

async fn origins_stream(seed: u64, n: usize, cases: &mut impl Write, outs: &mut impl Write) {
    let mut r = Rng::new(seed);
    let tmp = std::env::temp_dir().join(format!("wxorg-{}-{seed}", std::process::id()));
    let _ = std::fs::remove_dir_all(&tmp);
    std::fs::create_dir_all(&tmp).unwrap();
    let tmp = std::fs::canonicalize(&tmp).unwrap();
    let mut last_fresh_gap = 0usize;
    for ci in 0..n {
        // a third of the random cases walk the directories of the previous case again, with other contents: what
        // origins() says may depend on nothing but what is on disk now
        let revisit = ci > MARKERS.len() * 2 && r.chance(1, 3);
        let root = tmp.join(format!("c{}", if revisit { ci - 1 - last_fresh_gap } else { ci }));
        last_fresh_gap = if revisit { last_fresh_gap + 1 } else { 0 };
        std::fs::create_dir_all(&root).unwrap();
        let depth = r.below(4) as usize + 1;
        // the first cases walk the marker table one by one (both node types), so every row is exercised
        let forced: Option<(usize, bool)> = if ci < MARKERS.len() * 2 { Some((ci / 2, ci % 2 == 0)) } else { None };
        let mut levels: Vec<(PathBuf, Vec<(String, bool)>)> = vec![];
        let mut cur = root.clone();
        for li in 0..depth {
            if li > 0 { cur = cur.join(format!("l{li}")); std::fs::create_dir_all(&cur).unwrap(); }
            let mut entries: Vec<(String, bool)> = vec![];
            if let (Some((mi, right)), true) = (forced, li == depth - 1) {
                let (name, is_dir) = MARKERS[mi];
                entries.push((name.to_string(), if right { is_dir } else { !is_dir }));
            } else {
                let k = match r.below(5) { 0 => 0, 1 | 2 => 1, 3 => 2, _ => 3 };
                for _ in 0..k {
                    let (name, is_dir) = if r.chance(3, 4) { let (m, d) = *r.pick(MARKERS); (m.to_string(), if r.chance(5, 6) { d } else { !d }) } else { (r.pick(DECOYS).to_string(), r.chance(1, 3)) };
                    if entries.iter().any(|(e, _)| *e == name) { continue; }
                    entries.push((name, is_dir));
                }
            }
            for (name, is_dir) in &entries { let p = cur.join(name); if *is_dir { std::fs::create_dir_all(&p).unwrap(); } else { std::fs::write(&p, b"x").unwrap(); } }
            levels.push((cur.clone(), entries));
        }
        // the child directory `l<i>` is itself an entry of its parent's listing
        let chain: Vec<String> = (0..levels.len()).rev().map(|i| {
            let (p, es) = &levels[i];
            let mut es: Vec<String> = es.iter().map(|(n, d)| format!("{n}^{}", if *d { "d" } else { "f" })).collect();
            if i + 1 < levels.len() { es.push(format!("l{}^d", i + 1)); }
            format!("{}\x1e{}", p.strip_prefix(&tmp).unwrap().display(), es.join("\x1f"))
        }).collect();
        let start = levels.last().unwrap().0.clone();
        let found = project_origins::origins(&start).await;
        let mut os: Vec<String> = found.iter().filter(|p| p.starts_with(&root)).map(|p| p.strip_prefix(&tmp).unwrap().display().to_string()).collect();
        os.sort();
        let mut oracle = String::new();
        for p in &found { if !start.starts_with(p) { oracle = format!("origin {} is not on the chain of {}", p.display(), start.display()); } }
        let mut ts = vec![];
        for i in (0..levels.len()).rev() {
            let (p, _) = &levels[i];
            let t = project_origins::types(p).await;
            let mut names: Vec<String> = t.iter().map(|t| lower_first(&format!("{t:?}"))).collect(); names.sort();
            for t in &t { if t.is_vcs() == t.is_soft() { oracle = format!("{t:?}: is_vcs == is_soft"); } }
            ts.push(format!("{}:{}", p.strip_prefix(&tmp).unwrap().display(), names.join(",")));
        }
        writeln!(cases, "ORG\t{}", chain.join("\x1d")).unwrap();
        writeln!(outs, "origins={}|types={}{}", os.join(","), ts.join(";"), if oracle.is_empty() { String::new() } else { format!("\t!{oracle}") }).unwrap();
        std::fs::remove_dir_all(&root).ok();
    }
    std::fs::remove_dir_all(&tmp).ok();
}

fn sig_enc(s: Signal) -> String {
    match s { Signal::Hangup => "hangup".into(), Signal::ForceStop => "forceStop".into(), Signal::Interrupt => "interrupt".into(), Signal::Quit => "quit".into(),
        Signal::Terminate => "terminate".into(), Signal::User1 => "user1".into(), Signal::User2 => "user2".into(), Signal::Custom(n) => format!("custom:{n}"), #[allow(unreachable_patterns)] _ => format!("?{s:?}") }
}
fn sig_full(s: Signal) -> String { format!("{}:nix={}:disp={}", sig_enc(s), s.to_nix().map(|n| (n as i32).to_string()).unwrap_or("-".into()), s) }
fn pend_enc(e: ProcessEnd) -> String {
    match e { ProcessEnd::Success => "success".into(), ProcessEnd::ExitError(c) => format!("error:{c}"), ProcessEnd::ExitSignal(s) => format!("signal:{}", sig_enc(s)),
        ProcessEnd::ExitStop(c) => format!("stop:{c}"), ProcessEnd::Exception(c) => format!("exception:{c}"), ProcessEnd::Continued => "continued".into(), _ => format!("?{e:?}") }
}

fn signals_stream(seed: u64, n: usize, cases: &mut impl Write, outs: &mut impl Write) {
    let mut r = Rng::new(seed);
    let mut probes: Vec<String> = vec![];
    // spellings of a known signal and the OS signal they must parse to (the property's own statement)
    let mut expect: std::collections::HashMap<String, i32> = std::collections::HashMap::new();
    for num in -3..=70i32 { probes.push(num.to_string()); probes.push(format!("+{num}")); probes.push(format!("0{num}")); }
    for num in 0..=70i32 { if let Ok(nx) = nix::sys::signal::Signal::try_from(num) {
        let name = nx.as_str(); let short = &name[3..];
        for base in [name, short] { let lo = base.to_lowercase(); let mut cap = lo.clone(); cap.replace_range(0..1, &base[0..1]); probes.push(base.into()); probes.push(lo); probes.push(cap);
            let mixed: String = base.chars().enumerate().map(|(i, c)| if i % 2 == 0 { c.to_ascii_lowercase() } else { c }).collect(); probes.push(mixed.clone());
            let mixed2: String = base.chars().enumerate().map(|(i, c)| if i % 3 == 1 { c.to_ascii_lowercase() } else { c }).collect(); probes.push(mixed2.clone());
            // documented exception: a control name (STOP) takes precedence over the unix short name
            for sp in [base.to_string(), base.to_lowercase(), mixed, mixed2] { if sp.to_ascii_uppercase() != "STOP" { expect.insert(sp, num); } } }
        expect.insert(num.to_string(), num);
    } }
    for c in ["BREAK", "break", "CLOSE", "CTRL-BREAK", "CTRL+BREAK", "CTRL-C", "CTRL+C", "ctrl-c", "CTRL-CLOSE", "CTRL+CLOSE", "STOP", "stop", "Stop", "FORCE-STOP", "force-stop", "C-BREAK", "C-C", "C-CLOSE",
        "", " ", "SIG", "sigfoo", "SIGSIGHUP", " 9", "9 ", "99999999999", "-0", "HUP ", "sighup\n", "é", "TERM1", "RTMIN", "SIGRTMIN", "34", "64", "65"] { probes.push(c.into()); }
    for _ in 0..n { // random edits of valid spellings
        let mut s: Vec<char> = probes[r.below(probes.len() as u64) as usize].chars().collect();
        match r.below(4) { 0 => { if !s.is_empty() { let i = r.below(s.len() as u64) as usize; s.remove(i); } } 1 => { let i = r.below(s.len() as u64 + 1) as usize; s.insert(i, *r.pick(&['S', 'I', 'G', '1', '0', '-', 'x', ' '])); }
            2 => { s = s.iter().map(|c| if r.chance(1, 2) { c.to_ascii_uppercase() } else { c.to_ascii_lowercase() }).collect(); } _ => { s.extend("SIG".chars()); } }
        probes.push(s.into_iter().collect());
    }
    for p in &probes {
        let got = Signal::from_str(p);
        let mut oracle = String::new();
        if let Some(want) = expect.get(p) {
            match &got { Ok(s) if s.to_nix().map(|x| x as i32) == Some(*want) => {}, other => oracle = format!("spelling {p:?} of signal {want} parses to {other:?}") }
        }
        // "apart from the documented Windows control names such as STOP, which take precedence over the unix short name": the control names of
        // the rustdoc of `from_windows_str`, transcribed by hand, in any letter case — through FromStr they mean what the documentation says
        let documented: Option<Signal> = match p.to_ascii_uppercase().as_str() {
            "CTRL-CLOSE" | "CTRL+CLOSE" | "CLOSE" => Some(Signal::Hangup), "CTRL-BREAK" | "CTRL+BREAK" | "BREAK" => Some(Signal::Terminate),
            "CTRL-C" | "CTRL+C" | "C" => Some(Signal::Interrupt), "STOP" | "FORCE-STOP" | "KILL" | "SIGKILL" => Some(Signal::ForceStop), _ => None };
        if let Some(want) = documented { if got.as_ref().ok() != Some(&want) { oracle = format!("control name {p:?} is documented as {want:?} and takes precedence, but parses to {got:?}"); } }
        if let Ok(s) = got { // display form parses back to the same OS signal
            if s.to_nix().is_some() { match Signal::from_str(&s.to_string()) { Ok(b) if b.to_nix() == s.to_nix() => {}, other => oracle = format!("display {} of {s:?} parses to {other:?}", s) } }
        }
        writeln!(cases, "SIGP\t{}", hex(p.as_bytes())).unwrap();
        writeln!(outs, "{}{}", match got { Ok(s) => format!("ok:{}", sig_full(s)), Err(_) => "err".into() }, if oracle.is_empty() { String::new() } else { format!("\t!{oracle}") }).unwrap();
    }
    for num in (-3..=70).chain([i32::MIN, i32::MAX, 128, 255]) {
        // a raw OS number converts to a signal that IS that OS signal
        let sg = Signal::from(num);
        let oracle = match nix::sys::signal::Signal::try_from(num) { Ok(nx) if sg.to_nix() != Some(nx) => format!("\t!signal number {num} converts to {sg:?}, which is OS signal {:?}", sg.to_nix()), _ => String::new() };
        writeln!(cases, "SIGN\t{num}").unwrap(); writeln!(outs, "{}{}", sig_full(sg), oracle).unwrap();
    }
    for raw in 0..=0xFFFFi32 {
        let e = ProcessEnd::from(ExitStatus::from_raw(raw));
        let mut oracle = String::new();
        if raw & 0x7f == 0 { let code = (raw >> 8) & 0xff; let want = if code == 0 { ProcessEnd::Success } else { ProcessEnd::ExitError(NonZeroI64::new(code as i64).unwrap()) }; if e != want { oracle = format!("exit code {code} became {e:?}"); } }
        // "preserves … the terminating signal", judged WITHOUT the conversion under test: the reported signal must be the OS signal `sig`
        // (by its number where the platform has a name for it, else as the custom number), with and without the core-dump bit
        let sig = raw & 0x7f; if sig != 0 && sig != 0x7f && raw <= 0xff {
            let same = match &e { ProcessEnd::ExitSignal(s) => match nix::sys::signal::Signal::try_from(sig) { Ok(nx) => s.to_nix() == Some(nx), Err(_) => *s == Signal::Custom(sig) }, _ => false };
            if !same { oracle = format!("terminating signal {sig} (raw {raw:#x}) became {e:?}"); } }
        writeln!(cases, "ST\t{raw}").unwrap(); writeln!(outs, "{}{}", pend_enc(e), if oracle.is_empty() { String::new() } else { format!("\t!{oracle}") }).unwrap();
    }
}

fn all_kinds() -> Vec<FileEventKind> {
    let am = [AccessMode::Any, AccessMode::Execute, AccessMode::Read, AccessMode::Write, AccessMode::Other];
    let mut v = vec![FileEventKind::Any, FileEventKind::Other];
    v.push(FileEventKind::Access(AccessKind::Any)); v.push(FileEventKind::Access(AccessKind::Read)); v.push(FileEventKind::Access(AccessKind::Other));
    for m in am { v.push(FileEventKind::Access(AccessKind::Open(m))); v.push(FileEventKind::Access(AccessKind::Close(m))); }
    for c in [CreateKind::Any, CreateKind::File, CreateKind::Folder, CreateKind::Other] { v.push(FileEventKind::Create(c)); }
    for r in [RemoveKind::Any, RemoveKind::File, RemoveKind::Folder, RemoveKind::Other] { v.push(FileEventKind::Remove(r)); }
    v.push(FileEventKind::Modify(ModifyKind::Any)); v.push(FileEventKind::Modify(ModifyKind::Other));
    for d in [DataChange::Any, DataChange::Size, DataChange::Content, DataChange::Other] { v.push(FileEventKind::Modify(ModifyKind::Data(d))); }
    for m in [MetadataKind::Any, MetadataKind::AccessTime, MetadataKind::WriteTime, MetadataKind::Permissions, MetadataKind::Ownership, MetadataKind::Extended, MetadataKind::Other] { v.push(FileEventKind::Modify(ModifyKind::Metadata(m))); }
    for r in [RenameMode::Any, RenameMode::To, RenameMode::From, RenameMode::Both, RenameMode::Other] { v.push(FileEventKind::Modify(ModifyKind::Name(r))); }
    v
}

fn ft_name(f: FileType) -> &'static str { match f { FileType::File => "file", FileType::Dir => "dir", FileType::Symlink => "symlink", FileType::Other => "other" } }
fn src_name(s: Source) -> String { lower_first(&format!("{s:?}")) }
fn tag_enc(t: &Tag) -> String {
    match t {
        Tag::Path { path, file_type } => format!("path:{}:{}", hex(path.to_string_lossy().as_bytes()), file_type.map(ft_name).unwrap_or("-")),
        Tag::FileEventKind(k) => format!("fek:{k:?}"),
        Tag::Source(s) => format!("source:{}", src_name(*s)),
        Tag::Keyboard(Keyboard::Eof) => "keyboard:eof".into(),
        Tag::Process(p) => format!("process:{p}"),
        Tag::Signal(s) => format!("signal:{}", sig_enc(*s)),
        Tag::ProcessCompletion(None) => "completion:none".into(),
        Tag::ProcessCompletion(Some(e)) => format!("completion:{}", pend_enc(*e)),
        Tag::Unknown => "unknown".into(),
        other => format!("?{other:?}"),
    }
}

const FIELDS: &[&str] = &["kind", "absolute", "filetype", "simple", "full", "source", "keycode", "pid", "signal", "disposition", "code"];
fn sig_from_json(v: &serde_json::Value) -> String {
    match v { serde_json::Value::String(s) => match s.as_str() { "SIGHUP" => "hangup".into(), "SIGKILL" => "forceStop".into(), "SIGINT" => "interrupt".into(), "SIGQUIT" => "quit".into(),
            "SIGTERM" => "terminate".into(), "SIGUSR1" => "user1".into(), "SIGUSR2" => "user2".into(), o => format!("?{o}") },
        serde_json::Value::Number(n) => format!("custom:{n}"), o => format!("?{o}") }
}
fn sig_to_json(s: &str) -> serde_json::Value {
    match s { "hangup" => "SIGHUP".into(), "forceStop" => "SIGKILL".into(), "interrupt" => "SIGINT".into(), "quit" => "SIGQUIT".into(), "terminate" => "SIGTERM".into(), "user1" => "SIGUSR1".into(), "user2" => "SIGUSR2".into(),
        o => serde_json::Value::Number(o.trim_start_matches("custom:").parse::<i64>().unwrap().into()) }
}
fn serde_canon(obj: &serde_json::Map<String, serde_json::Value>) -> String {
    let mut parts = vec![];
    for f in FIELDS { if let Some(v) = obj.get(*f) {
        let s = match *f { "absolute" | "full" => hex(v.as_str().unwrap_or("?").as_bytes()), "signal" => sig_from_json(v), "pid" | "code" => v.to_string(), _ => v.as_str().map(|s| s.to_string()).unwrap_or(format!("?{v}")) };
        parts.push(format!("{f}={s}"));
    } }
    for k in obj.keys() { if !FIELDS.contains(&k.as_str()) { parts.push(format!("EXTRA:{k}")); } }
    parts.join(";")
}

fn rand_string(r: &mut Rng) -> String {
    let pieces = ["/", "a", "b c", "é", "\"", "\\", "\n", "日本", "x.rs", "..", "=", ";", ":", "\t", "😀"];
    let k = r.below(5); let mut s = String::new(); for _ in 0..k { s.push_str(*r.pick(&pieces)); } s
}
fn rand_sig(r: &mut Rng) -> Signal { match r.below(10) { 0 => Signal::Hangup, 1 => Signal::ForceStop, 2 => Signal::Interrupt, 3 => Signal::Quit, 4 => Signal::Terminate, 5 => Signal::User1, 6 => Signal::User2,
    7 => Signal::Custom(*r.pick(&[0, 1, 9, 15, 64, 65, -1, i32::MAX, i32::MIN])), _ => Signal::Custom(r.below(70) as i32) } }
fn rand_tag(r: &mut Rng, kinds: &[FileEventKind]) -> Tag {
    match r.below(9) {
        0 | 1 => Tag::Path { path: PathBuf::from(rand_string(r)), file_type: *r.pick(&[None, Some(FileType::File), Some(FileType::Dir), Some(FileType::Symlink), Some(FileType::Other)]) },
        2 => Tag::FileEventKind(*r.pick(kinds)),
        3 => Tag::Source(*r.pick(&[Source::Filesystem, Source::Keyboard, Source::Mouse, Source::Os, Source::Time, Source::Internal])),
        4 => Tag::Keyboard(Keyboard::Eof),
        5 => Tag::Process(*r.pick(&[0u32, 1, 4242, u32::MAX, u32::MAX - 1])),
        6 => Tag::Signal(rand_sig(r)),
        7 => { let c64 = *r.pick(&[1i64, -1, 2, 255, 256, i64::MAX, i64::MIN, i32::MAX as i64 + 1, i32::MIN as i64 - 1]); let c32 = *r.pick(&[1i32, -1, 19, 20, i32::MAX, i32::MIN]);
            Tag::ProcessCompletion(match r.below(7) { 0 => None, 1 => Some(ProcessEnd::Success), 2 => Some(ProcessEnd::Continued), 3 => Some(ProcessEnd::ExitError(NonZeroI64::new(c64).unwrap())),
                4 => Some(ProcessEnd::ExitSignal(rand_sig(r))), 5 => Some(ProcessEnd::ExitStop(NonZeroI32::new(c32).unwrap())), _ => Some(ProcessEnd::Exception(NonZeroI32::new(c32).unwrap())) }) }
        _ => Tag::Unknown,
    }
}

fn enc_case(tag: &Tag, cases: &mut impl Write, outs: &mut impl Write) {
    let e = Event { tags: vec![tag.clone()], metadata: Default::default() };
    let v = serde_json::to_value(&e).unwrap();
    let obj = v["tags"][0].as_object().cloned().unwrap_or_default();
    let mut oracle = String::new();
    let text = serde_json::to_string(&e).unwrap();
    match serde_json::from_str::<Event>(&text) { Ok(b) if b == e => {}, Ok(b) => oracle = format!("{tag:?} -> {text} -> {:?}", b.tags), Err(err) => oracle = format!("{tag:?} -> {text} -> parse error {err}") }
    writeln!(cases, "ENC\t{}", tag_enc(tag)).unwrap();
    writeln!(outs, "{}{}", serde_canon(&obj), if oracle.is_empty() { String::new() } else { format!("\t!{oracle}") }).unwrap();
}

fn json_stream(seed: u64, n: usize, cases: &mut impl Write, outs: &mut impl Write) {
    let mut r = Rng::new(seed);
    let kinds = all_kinds();
    // exhaustive part: every kind, every first-class signal, boundary codes
    for k in &kinds { enc_case(&Tag::FileEventKind(*k), cases, outs); }
    let sigs: Vec<Signal> = vec![Signal::Hangup, Signal::ForceStop, Signal::Interrupt, Signal::Quit, Signal::Terminate, Signal::User1, Signal::User2].into_iter().chain((-3..=70).map(Signal::Custom)).chain([i32::MIN, i32::MAX].map(Signal::Custom)).collect();
    for s in &sigs { enc_case(&Tag::Signal(*s), cases, outs); enc_case(&Tag::ProcessCompletion(Some(ProcessEnd::ExitSignal(*s))), cases, outs); }
    for _ in 0..n { let t = rand_tag(&mut r, &kinds); enc_case(&t, cases, outs); }
    // whole events: any number and order of tags, metadata — judged by the round-trip oracle only
    for _ in 0..n / 4 {
        let tags: Vec<Tag> = (0..r.below(6)).map(|_| rand_tag(&mut r, &kinds)).collect();
        let mut metadata = std::collections::HashMap::new();
        for _ in 0..r.below(3) { metadata.insert(rand_string(&mut r), (0..r.below(3)).map(|_| rand_string(&mut r)).collect::<Vec<_>>()); }
        let e = Event { tags, metadata };
        let text = serde_json::to_string(&e).unwrap();
        let oracle = match serde_json::from_str::<Event>(&text) { Ok(b) if b == e => String::new(), Ok(b) => format!("{e:?} -> {text} -> {b:?}"), Err(err) => format!("{text} -> parse error {err}") };
        // arrays of events (the format used on stdin/files) as well
        let arr = serde_json::to_string(&vec![e.clone(), e.clone()]).unwrap();
        let oracle = if oracle.is_empty() { match serde_json::from_str::<Vec<Event>>(&arr) { Ok(b) if b == vec![e.clone(), e.clone()] => String::new(), _ => format!("array round trip failed: {arr}") } } else { oracle };
        writeln!(cases, "EVT\t{}", e.tags.len()).unwrap();
        writeln!(outs, "-{}", if oracle.is_empty() { String::new() } else { format!("\t!{oracle}") }).unwrap();
    }
    // decode: objects of a known kind with fields missing, extra or contradictory
    let kind_names = ["none", "path", "fs", "source", "keyboard", "process", "signal", "completion"];
    let dec = |fields: BTreeMap<&'static str, String>, r: &mut Rng| {
        let mut obj = serde_json::Map::new(); let mut enc = vec![];
        for f in FIELDS { if let Some(v) = fields.get(*f) {
            let jv: serde_json::Value = match *f { "pid" | "code" => serde_json::Value::Number(v.parse::<i64>().unwrap().into()), "signal" => sig_to_json(v), _ => v.clone().into() };
            obj.insert(f.to_string(), jv);
            enc.push(format!("{f}={}", if *f == "absolute" || *f == "full" { hex(v.as_bytes()) } else { v.clone() }));
        } }
        if r.chance(1, 8) { obj.insert("surprise".into(), 1.into()); }
        let ev = serde_json::json!({ "tags": [serde_json::Value::Object(obj.clone())] });
        let got = serde_json::from_value::<Event>(ev);
        let mut oracle = String::new();
        let line = match &got { Ok(e) => { let t = &e.tags[0]; let kind = fields.get("kind").map(|s| s.as_str()).unwrap_or("none");
                let tk = match t { Tag::Path { .. } => "path", Tag::FileEventKind(_) => "fs", Tag::Source(_) => "source", Tag::Keyboard(_) => "keyboard", Tag::Process(_) => "process", Tag::Signal(_) => "signal", Tag::ProcessCompletion(_) => "completion", _ => "none" };
                if tk != "none" && tk != kind { oracle = format!("object of kind {kind} parsed as a {tk} tag: {:?}", obj); }
                // … nor for another disposition: a completion that parses says what the object's `disposition` says
                if let Tag::ProcessCompletion(Some(end)) = t {
                    let d = match end { ProcessEnd::Success => "success", ProcessEnd::ExitError(_) => "error", ProcessEnd::ExitSignal(_) => "signal", ProcessEnd::ExitStop(_) => "stop", ProcessEnd::Exception(_) => "exception", ProcessEnd::Continued => "continued" };
                    if fields.get("disposition").map(|x| x.as_str()) != Some(d) { oracle = format!("completion object with disposition {:?} parsed as a `{d}` completion: {:?}", fields.get("disposition"), obj); }
                }
                tag_enc(t) }
            Err(err) => { oracle = format!("object {:?} failed to parse: {err}", obj); "error".into() } };
        (format!("DEC\t{}", enc.join(";")), format!("{line}{}", if oracle.is_empty() { String::new() } else { format!("\t!{oracle}") }))
    };
    let emit = |c: (String, String), cases: &mut dyn Write, outs: &mut dyn Write| { writeln!(cases, "{}", c.0).unwrap(); writeln!(outs, "{}", c.1).unwrap(); };
    // each kind alone, then each kind with every single other field
    let samples: Vec<(&'static str, Vec<String>)> = vec![
        ("absolute", vec!["/a/b".into(), "".into(), "rel é".into()]), ("filetype", vec!["file".into(), "dir".into(), "symlink".into(), "other".into()]),
        ("simple", vec!["access".into(), "create".into(), "modify".into(), "remove".into(), "other".into()]),
        ("full", vec!["Create(File)".into(), "Modify(Name(Both))".into(), "Other".into(), "Nonsense".into(), "create(file)".into(), "".into(), "Access(Open(Execute))".into()]),
        ("source", vec!["filesystem".into(), "os".into()]), ("keycode", vec!["eof".into()]), ("pid", vec!["0".into(), "4294967295".into()]),
        ("signal", vec!["hangup".into(), "forceStop".into(), "terminate".into(), "custom:0".into(), "custom:1".into(), "custom:9".into(), "custom:15".into(), "custom:64".into(), "custom:-5".into()]),
        ("disposition", vec!["unknown".into(), "success".into(), "error".into(), "signal".into(), "stop".into(), "exception".into(), "continued".into()]),
        ("code", vec!["0".into(), "1".into(), "-1".into(), "2147483647".into(), "2147483648".into(), "-2147483648".into(), "-2147483649".into(), "9223372036854775807".into()])];
    for k in kind_names { let mut m = BTreeMap::new(); m.insert("kind", k.to_string()); emit(dec(m.clone(), &mut r), cases, outs);
        for (f, vals) in &samples { for v in vals { let mut m2 = m.clone(); m2.insert(f, v.clone()); emit(dec(m2, &mut r), cases, outs); } } }
    // completion: disposition x code x signal completely
    for d in &samples[8].1 { for c in samples[9].1.iter().map(Some).chain([None]) { for s in samples[7].1.iter().map(Some).chain([None]) {
        let mut m = BTreeMap::new(); m.insert("kind", "completion".to_string()); m.insert("disposition", d.clone()); if let Some(c) = c { m.insert("code", c.clone()); } if let Some(s) = s { m.insert("signal", s.clone()); }
        emit(dec(m, &mut r), cases, outs); } } }
    for _ in 0..n { let mut m = BTreeMap::new(); m.insert("kind", r.pick(&kind_names).to_string());
        for (f, vals) in &samples { if r.chance(1, 4) { m.insert(f, r.pick(vals).clone()); } }
        emit(dec(m, &mut r), cases, outs); }
}

#[tokio::main(flavor = "current_thread")]
async fn main() {
    let a: Vec<String> = std::env::args().collect();
    let stream = a.get(1).map(|s| s.as_str()).unwrap_or("");
    let seed: u64 = a.get(2).and_then(|s| s.parse().ok()).unwrap_or(1);
    let n: usize = a.get(3).and_then(|s| s.parse().ok()).unwrap_or(500);
    let mut cases = std::io::BufWriter::new(std::fs::File::create(out("cases.txt")).unwrap());
    let mut outs = std::io::BufWriter::new(std::fs::File::create(out("impl.txt")).unwrap());
    match stream {
        "origins" => origins_stream(seed, n, &mut cases, &mut outs).await,
        "signals" => signals_stream(seed, n, &mut cases, &mut outs),
        "json" => json_stream(seed, n, &mut cases, &mut outs),
        _ => { eprintln!("usage: wxtables origins|signals|json <seed> <n>"); std::process::exit(2); }
    }
}
