//! Random trees on disk -> real ignore_files::from_origin; emits the tree (with real read_dir order) for the model.
use wxharness::out;
use ignore_files::{from_origin, IgnoreFilesFromOriginArgs};
use std::{io::Write, path::{Path, PathBuf}};

struct Rng(u64);
impl Rng { fn next(&mut self) -> u64 { self.0 ^= self.0 << 13; self.0 ^= self.0 >> 7; self.0 ^= self.0 << 17; self.0 }
  fn below(&mut self, n: u64) -> u64 { self.next() % n }
  fn pick<'a>(&mut self, v: &'a [&'a str]) -> &'a str { v[(self.next() % v.len() as u64) as usize] } }

fn gen_tree(r: &mut Rng, dir: &Path, depth: u64, dirs: &mut Vec<PathBuf>) {
    // every VCS metadata directory name occurs: at the origin it must never be entered, deeper it is an ordinary directory
    let names = ["a", "ab", "test", "tests", "out", "sub", "keep", "x.d", "x.d2", ".git", "c", ".hg", ".svn", "_darcs", ".bzr", ".pijul", ".fossil-settings"];
    if depth == 0 { return; }
    let n = r.below(4) + if depth == 3 { 1 } else { 0 };
    let mut used = std::collections::HashSet::new();
    for _ in 0..n {
        let nm = r.pick(&names);
        if !used.insert(nm) { continue; }
        let d = dir.join(nm);
        std::fs::create_dir_all(&d).unwrap();
        dirs.push(d.clone());
        gen_tree(r, &d, depth - 1, dirs);
    }
}

fn listing(dir: &Path, out: &mut Vec<(PathBuf, Vec<PathBuf>)>) {
    let mut kids = vec![];
    for e in std::fs::read_dir(dir).unwrap() { let e = e.unwrap(); if e.file_type().unwrap().is_dir() { kids.push(e.path()); } }
    out.push((dir.to_owned(), kids.clone()));
    for k in kids { listing(&k, out); }
}

#[tokio::main(flavor = "current_thread")]
async fn main() {
    let seed: u64 = std::env::args().nth(1).and_then(|s| s.parse().ok()).unwrap_or(1);
    let n: usize = std::env::args().nth(2).and_then(|s| s.parse().ok()).unwrap_or(300);
    let mut r = Rng(seed.wrapping_mul(0x9E3779B97F4A7C15) | 1);
    let tmp = std::env::temp_dir().join(format!("discgen-{}", std::process::id()));
    let pats = ["out/", "!out/", "out", "tests", "test/", "sub/", "!sub/", "*", "!*/", "keep", "!keep", "x.d", "/a", "ab/", "**/c", "*.rs", "c/", "!c/", "a/b", "/sub"];
    let mut cases = std::fs::File::create(out("cases.txt")).unwrap();
    let mut outs = std::fs::File::create(out("impl.txt")).unwrap();
    for _ in 0..n {
        let _ = std::fs::remove_dir_all(&tmp);
        std::fs::create_dir_all(tmp.join("o")).unwrap();
        let origin = std::fs::canonicalize(tmp.join("o")).unwrap();
        let mut dirs = vec![origin.clone()];
        gen_tree(&mut r, &origin, 3, &mut dirs);
        // ignore files
        let mut igfiles: Vec<(PathBuf, Vec<&str>)> = vec![];
        // every third tree gets a prefix-sibling scenario: `short` and `long` (= short + more characters) side by side,
        // `long` ignored from above and holding an ignore file of its own, `short` holding one too — a filter that looks
        // ignore files up by string prefix may judge `long` with `short`'s files and stop before its parents' files
        if r.below(3) == 0 {
            let scen = [("a", "ab", "ab/"), ("test", "tests", "tests"), ("x.d", "x.d2", "x.d2/"), ("out", "out-old", "*-old/"), ("sub", "sub.bak", "sub.bak")];
            let (short, long, pat) = scen[r.below(scen.len() as u64) as usize];
            let parent = dirs[r.below(dirs.len() as u64) as usize].clone();
            if !parent.components().any(|c| c.as_os_str().to_string_lossy().starts_with('.') || c.as_os_str() == "_darcs") {
                for nm in [short, long] { let d = parent.join(nm); if !d.is_dir() { std::fs::create_dir_all(&d).unwrap(); dirs.push(d); } }
                let above = if r.below(2) == 0 { origin.clone() } else { parent.clone() };
                let (pa, ps, pl) = (above.join(".gitignore"), parent.join(short).join(r.pick(&[".gitignore", ".ignore"])), parent.join(long).join(".gitignore"));
                for (p, lines) in [(pa, vec![pat]), (ps, vec![r.pick(&pats)]), (pl, vec![r.pick(&pats)])] {
                    if !igfiles.iter().any(|(q, _)| *q == p) { std::fs::write(&p, lines.join("\n") + "\n").unwrap(); igfiles.push((p, lines)); }
                }
            }
        }
        for d in &dirs {
            for nm in [".gitignore", ".ignore", ".hgignore"] {
                if r.below(5) == 0 {
                    let p = d.join(nm);
                    if igfiles.iter().any(|(q, _)| *q == p) { continue; }
                    if r.below(8) == 0 { std::fs::write(&p, "").unwrap(); continue; } // empty: must not count
                    let k = r.below(3) as usize + 1;
                    let lines: Vec<&str> = (0..k).map(|_| r.pick(&pats)).collect();
                    std::fs::write(&p, lines.join("\n") + "\n").unwrap();
                    igfiles.push((p, lines));
                }
            }
        }
        if r.below(4) == 0 && origin.join(".git").is_dir() {
            std::fs::create_dir_all(origin.join(".git/info")).unwrap();
            let lines = vec![r.pick(&pats)];
            std::fs::write(origin.join(".git/info/exclude"), lines.join("\n") + "\n").unwrap();
            igfiles.push((origin.join(".git/info/exclude"), lines));
        }
        // the other origin-level VCS files
        for (rel, dir) in [(".bzrignore", None), ("_darcs/prefs/boring", Some("_darcs/prefs")), (".fossil-settings/ignore-glob", Some(".fossil-settings"))] {
            if r.below(8) == 0 && dir.map_or(true, |d| origin.join(d.split('/').next().unwrap()).is_dir()) {
                if let Some(d) = dir { std::fs::create_dir_all(origin.join(d)).unwrap(); }
                let lines = vec![r.pick(&pats)];
                std::fs::write(origin.join(rel), lines.join("\n") + "\n").unwrap();
                igfiles.push((origin.join(rel), lines));
            }
        }
        // explicit ignore files (outside the tree)
        let mut explicit: Vec<PathBuf> = vec![];
        if r.below(6) == 0 {
            let p = tmp.join("explicit.ignore");
            let lines = vec![r.pick(&pats), r.pick(&pats)];
            std::fs::write(&p, lines.join("\n") + "\n").unwrap();
            let p = std::fs::canonicalize(&p).unwrap();
            igfiles.push((p.clone(), lines)); explicit.push(p);
        }
        // explicit watch paths: none, one, or two to three directories drawn anywhere in the tree (nested in each other, siblings, a deep one next to
        // a shallow one in another subtree, …), in drawing order
        let pick = |r: &mut Rng| dirs[1 + r.below(dirs.len() as u64 - 1) as usize].clone();
        let watches: Vec<PathBuf> = if dirs.len() <= 1 { vec![] } else { match r.below(6) { 0 => vec![pick(&mut r)], 1 => vec![pick(&mut r), pick(&mut r)], 2 => (0..3).map(|_| pick(&mut r)).collect(), _ => vec![] } };
        let mut lst = vec![]; listing(&origin, &mut lst);
        let (files, errs) = from_origin(IgnoreFilesFromOriginArgs::new(&origin, watches.clone(), explicit.clone()).unwrap()).await;
        let enc_children: Vec<String> = lst.iter().map(|(d, ks)| format!("{}\x1e{}", d.display(), ks.iter().map(|k| k.display().to_string()).collect::<Vec<_>>().join("\x1f"))).collect();
        let enc_ig: Vec<String> = igfiles.iter().map(|(p, ls)| format!("{}\x1e{}", p.display(), ls.join("\x1f"))).collect();
        writeln!(cases, "DISC\t{}\t{}\t{}\t{}\t{}", origin.display(), watches.iter().map(|w| w.display().to_string()).collect::<Vec<_>>().join("\x1f"), enc_children.join("\x1d"), enc_ig.join("\x1d"), explicit.iter().map(|w| w.display().to_string()).collect::<Vec<_>>().join("\x1f")).unwrap();
        let res: Vec<String> = files.iter().map(|f| format!("{}@{}", f.path.display(), f.applies_in.as_ref().map(|p| p.display().to_string()).unwrap_or("-".into()))).collect();
        writeln!(outs, "{}{}", res.join(";"), if errs.is_empty() { "".to_string() } else { format!(" ERRS={}", errs.len()) }).unwrap();
    }
    let _ = std::fs::remove_dir_all(&tmp);
}
