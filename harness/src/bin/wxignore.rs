//! Random ignore-file sets and probes through the real IgnoreFilter; writes cases + impl outputs.
use wxharness::out;
use ignore::Match;
use ignore_files::{IgnoreFile, IgnoreFilter};
use std::{io::Write, path::PathBuf};

struct Rng(u64);
impl Rng { fn next(&mut self) -> u64 { self.0 ^= self.0 << 13; self.0 ^= self.0 >> 7; self.0 ^= self.0 << 17; self.0 }
  fn below(&mut self, n: u64) -> u64 { self.next() % n }
  fn pick<'a>(&mut self, v: &'a [&'a str]) -> &'a str { v[(self.next() % v.len() as u64) as usize] } }

#[tokio::main(flavor = "current_thread")]
async fn main() {
    let seed: u64 = std::env::args().nth(1).and_then(|s| s.parse().ok()).unwrap_or(1);
    let n: usize = std::env::args().nth(2).and_then(|s| s.parse().ok()).unwrap_or(500);
    let mut r = Rng(seed.wrapping_mul(0x9E3779B97F4A7C15) | 1);
    let tmp = std::env::temp_dir().join(format!("ifgen-{}", std::process::id()));
    let _ = std::fs::remove_dir_all(&tmp);
    std::fs::create_dir_all(tmp.join("o")).unwrap();
    let tmp = std::fs::canonicalize(&tmp).unwrap();
    let origin = tmp.join("o");
    let dirs = ["", "a", "ab", "test", "tests", "test/sub", "tests/sub", "a/b", "ab/c", "x.d", "x.d2"];
    let names = ["a", "ab", "b", "test", "tests", "sub", "x.rs", "y.log", "z.tmp", "out", "keep", "x.d", "x.d2", "c"];
    let pats = ["*.rs", "*.log", "!*.log", "out/", "!out/", "/out", "tests", "test/", "a/b", "**/x.rs", "sub/**", "/sub/*.rs", "!sub/x.rs", "*", "!keep", "keep", "*.tmp", "!/z.tmp", "x.d", "c/", "!*.rs", "/a", "ab", "**/sub/**/y.log"];
    let mut cases = std::fs::File::create(out("cases.txt")).unwrap();
    let mut outs = std::fs::File::create(out("impl.txt")).unwrap();
    for ci in 0..n {
        let nf = r.below(4) as usize + 1;
        // "new": all files given to IgnoreFilter::new; "add": added one by one with add_file; "globs": the same lines added with add_globs
        // (how the CLI's --ignore patterns and the discovery's VCS globs get in)
        let mode = match r.below(5) { 0 | 1 => "new", 2 | 3 => "add", _ => "globs" };
        let mut files = vec![]; let mut enc_files = vec![]; let mut used = std::collections::HashSet::new();
        for fi in 0..nf {
            let (ai, ai_s): (Option<PathBuf>, String) = if r.below(6) == 0 { (None, "-".into()) } else { let d = r.pick(&dirs); let p = if r.below(10) == 0 { tmp.join(r.pick(&["elsewhere", "elsewhere/a", "o2"])) }
                // an ignore file that applies in a STRICT ANCESTOR of the origin (the project sits inside a larger tree with its own ignore files):
                // "nearest directory first, then farther ones" does not stop at the origin
                else if r.below(9) == 0 { if r.below(3) == 0 { tmp.parent().unwrap().to_path_buf() } else { tmp.clone() } }
                else if d.is_empty() { origin.clone() } else { origin.join(d) }; (Some(p.clone()), p.display().to_string()) };
            // files of one directory are applied in listed order (F13 repaired): same-directory files are wanted
            let _ = used.insert(ai_s.clone());
            let k = r.below(4) as usize + 1;
            let lines: Vec<&str> = (0..k).map(|_| r.pick(&pats)).collect();
            let path = tmp.join(format!("ig-{ci}-{fi}"));
            // now and then a file is padded with comments (which the filter skips): a big file is read more
            // slowly than a small one, so completion order differs from listed order
            let pad = if mode == "new" && r.below(5) == 0 { "# padding padding padding padding padding padding padding\n".repeat(6000) } else { String::new() };
            std::fs::write(&path, pad + &lines.join("\n") + "\n").unwrap();
            files.push(IgnoreFile { path, applies_in: ai, applies_to: None });
            enc_files.push(format!("{}\x1e{}", ai_s, lines.join("\x1f")));
        }
        let filter = if mode == "new" { IgnoreFilter::new(&origin, &files).await } else {
            let mut f = IgnoreFilter::new(&origin, &[]).await.unwrap(); let mut err = None;
            for (file, enc) in files.iter().zip(enc_files.iter()) {
                let res = if mode == "globs" { let lines: Vec<&str> = enc.split('\x1e').nth(1).unwrap_or("").split('\x1f').filter(|l| !l.is_empty()).collect(); f.add_globs(&lines, file.applies_in.as_ref()) } else { f.add_file(file).await };
                if let Err(e) = res { err = Some(e); break; } }
            match err { Some(e) => Err(e), None => Ok(f) } };
        let mut probes = vec![]; let mut res = vec![];
        for _ in 0..6 {
            let depth = r.below(4) + 1;
            // outside the origin too, in directories whose names extend the origin's or another ignore file's directory name
            let mut p = if r.below(5) == 0 { tmp.join(r.pick(&["elsewhere", "elsewhere2", "o2", "o.d", "o2/a"])) } else { origin.clone() };
            for _ in 0..depth { p.push(r.pick(&names)); }
            let is_dir = r.below(3) == 0;
            probes.push(format!("{}\x1e{}", p.display(), if is_dir {1} else {0}));
            if let Ok(f) = &filter {
                let m = match f.match_path(&p, is_dir) { Match::None => "none".to_string(), Match::Ignore(g) => format!("ignore:{}", g.original()), Match::Whitelist(g) => format!("whitelist:{}", g.original()) };
                res.push(format!("{}/{}", m, f.check_dir(&p)));
            }
        }
        writeln!(cases, "IF\t{}\t{}\t{}\t{}", origin.display(), mode, enc_files.join("\x1d"), probes.join("\x1d")).unwrap();
        writeln!(outs, "{}", if filter.is_ok() { res.join(";") } else { "error".into() }).unwrap();
        for f in &files { let _ = std::fs::remove_file(&f.path); }
    }
    std::fs::remove_dir_all(&tmp).ok();
}
