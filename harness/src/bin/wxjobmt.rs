//! Concurrent senders: the real start_job + simulated child on a MULTI-THREAD runtime in real time; several tasks send controls to clones of
//! one Job at the same time. No model comparison (the interleaving is the scheduler's): schedule-independent oracles only.
use std::{future::Future, io::{BufRead, Result, Write}, os::unix::process::ExitStatusExt, process::ExitStatus, sync::{Arc, Mutex}, time::Duration};
use process_wrap::tokio::{TokioChildWrapper, TokioCommandWrap, TokioCommandWrapper};
use tokio::{process::{Child, Command as TokioCommand}, sync::Notify, time::Instant};
use watchexec_supervisor::{command::{Command, Program}, job::{start_job, CommandState, Job, Ticket}};
use watchexec_signals::Signal;

#[derive(Debug, Clone, Copy, PartialEq)]
enum Beh { ExitsAfter(u64), ExitsAfterSignal(u64), Ignores, SpawnFails, KillFails(u64), SignalFails, WaitFails }

#[derive(Debug)]
struct Shared { t0: Instant, log: Mutex<Vec<(u128, String)>>, n: Mutex<usize>, behs: Vec<Beh> }
impl Shared {
    fn log(&self, s: String) { let t = self.t0.elapsed().as_millis(); self.log.lock().unwrap().push((t, s)); }
    fn beh_at(&self, i: usize) -> Beh { *self.behs.get(i).or(self.behs.last()).unwrap_or(&Beh::Ignores) }
}

#[derive(Debug)]
struct SimWrapper(Arc<Shared>);
impl TokioCommandWrapper for SimWrapper {
    fn pre_spawn(&mut self, _c: &mut TokioCommand, _core: &TokioCommandWrap) -> Result<()> {
        let mut n = self.0.n.lock().unwrap();
        if self.0.beh_at(*n) == Beh::SpawnFails { *n += 1; self.0.log("spawnfail".into()); return Err(std::io::Error::other("injected spawn failure")); }
        Ok(())
    }
    fn wrap_child(&mut self, inner: Box<dyn TokioChildWrapper>, _core: &TokioCommandWrap) -> Result<Box<dyn TokioChildWrapper>> {
        let mut n = self.0.n.lock().unwrap();
        let id = *n; *n += 1;
        let beh = self.0.beh_at(id);
        self.0.log(format!("spawn:c{id}"));
        let exit_at = match beh { Beh::ExitsAfter(ms) => Some(Instant::now() + Duration::from_millis(ms)), Beh::KillFails(ms) if ms > 0 => Some(Instant::now() + Duration::from_millis(ms)), _ => None };
        Ok(Box::new(SimChild { inner, id, beh, sh: self.0.clone(), exit_at: Mutex::new(exit_at), status: Mutex::new(0), wake: Arc::new(Notify::new()), reaped: false, wait_failed: false }))
    }
}

#[derive(Debug)]
struct SimChild { inner: Box<dyn TokioChildWrapper>, id: usize, beh: Beh, sh: Arc<Shared>, exit_at: Mutex<Option<Instant>>, status: Mutex<i32>, wake: Arc<Notify>, reaped: bool, wait_failed: bool }
impl TokioChildWrapper for SimChild {
    fn inner(&self) -> &Child { self.inner.inner() }
    fn inner_mut(&mut self) -> &mut Child { self.inner.inner_mut() }
    fn into_inner(self: Box<Self>) -> Child { unimplemented!() }
    fn id(&self) -> Option<u32> { Some(100_000 + self.id as u32) }
    fn start_kill(&mut self) -> Result<()> {
        // fault injection (scripts of the `job-faults` stream only): kill() fails and the child lives on — for ever (K0) or until it exits by itself
        if let Beh::KillFails(_) = self.beh { if self.exit_at.lock().unwrap().map(|t| t > Instant::now()).unwrap_or(true) { self.sh.log(format!("killfail:c{}", self.id)); return Err(std::io::Error::other("injected kill failure")); } }
        self.sh.log(format!("kill:c{}", self.id));
        *self.exit_at.lock().unwrap() = Some(Instant::now()); *self.status.lock().unwrap() = 9; self.wake.notify_waiters(); Ok(())
    }
    fn signal(&self, sig: i32) -> Result<()> {
        if self.beh == Beh::SignalFails { self.sh.log(format!("signalfail:c{}:{sig}", self.id)); return Err(std::io::Error::other("injected signal failure")); }
        self.sh.log(format!("signal:c{}:{sig}", self.id));
        if let Beh::ExitsAfterSignal(ms) = self.beh {
            let mut e = self.exit_at.lock().unwrap();
            if e.is_none() { *e = Some(Instant::now() + Duration::from_millis(ms)); *self.status.lock().unwrap() = sig; }
        }
        self.wake.notify_waiters();
        Ok(())
    }
    // non-blocking: a status only if the simulated process has exited by now (the unchanged code never calls this)
    fn try_wait(&mut self) -> Result<Option<ExitStatus>> {
        let at = *self.exit_at.lock().unwrap();
        match at {
            Some(t) if t <= Instant::now() => { let st = *self.status.lock().unwrap(); if !self.reaped { self.reaped = true; self.sh.log(format!("reaped:c{}:{st}", self.id)); } Ok(Some(ExitStatus::from_raw(st))) }
            _ => Ok(None),
        }
    }
    fn wait(&mut self) -> Box<dyn Future<Output = Result<ExitStatus>> + Send + '_> {
        Box::new(async move {
            // fault injection (fault scripts only): the first wait() on this child fails, the process lives on
            if self.beh == Beh::WaitFails && !self.wait_failed { self.wait_failed = true; self.sh.log(format!("waitfail:c{}", self.id)); return Err(std::io::Error::other("injected wait failure")); }
            loop {
                let notified = self.wake.notified();
                tokio::pin!(notified);
                notified.as_mut().enable();
                let at = *self.exit_at.lock().unwrap();
                match at {
                    Some(t) => { tokio::select! { _ = tokio::time::sleep_until(t) => { if *self.exit_at.lock().unwrap() == Some(t) { break; } } _ = &mut notified => {} } }
                    None => notified.await,
                }
            }
            let st = *self.status.lock().unwrap();
            if !self.reaped { self.reaped = true; self.sh.log(format!("reaped:c{}:{st}", self.id)); }
            Ok(ExitStatus::from_raw(st))
        })
    }
}


fn cs_name(c: &CommandState) -> String { match c { CommandState::Pending => "P".into(), CommandState::Running{..} => "R".into(),
    CommandState::Finished{status,..} => { let raw = status.into_exitstatus(); format!("F{}", raw.signal().unwrap_or_else(|| raw.code().unwrap_or(0))) } } }

fn api(job: &Job, parts: &[&str], sh: &Arc<Shared>) -> Option<Ticket> {
    let sig = |s: &str| Signal::from(s.parse::<i32>().unwrap());
    let ms = |s: &str| Duration::from_millis(s.parse().unwrap());
    Some(match parts {
        ["start"] => job.start(), ["stop"] => job.stop(),
        ["gstop", g, t] => job.stop_with_signal(sig(g), ms(t)),
        ["restart"] => job.restart(), ["grestart", g, t] => job.restart_with_signal(sig(g), ms(t)),
        ["tryrestart"] => job.try_restart(), ["gtryrestart", g, t] => job.try_restart_with_signal(sig(g), ms(t)),
        ["signal", g] => job.signal(sig(g)), ["towait"] => job.to_wait(),
        ["delete"] => job.delete(), ["deletenow"] => job.delete_now(),
        ["run", id] => { let sh = sh.clone(); let id = id.to_string(); job.run(move |ctx| { sh.log(format!("run:{id}:{}", cs_name(ctx.current))); }) }
        _ => return None,
    })
}

/// line: `<id> <behs> <sender ops>|<sender ops>|…`; ops `s:<api>` (awaited, 3 s limit) `n:<api>` `z:<ms>` (real milliseconds)
async fn run_case(behs: Vec<Beh>, senders: Vec<Vec<String>>) -> String {
    let sh = Arc::new(Shared { t0: Instant::now(), log: Default::default(), n: Mutex::new(0), behs });
    let cmd = Arc::new(Command { program: Program::Exec { prog: "true".into(), args: vec![] }, options: Default::default() });
    let (job, task) = start_job(cmd);
    job.set_spawn_hook({ let sh = sh.clone(); move |c, _| { c.wrap(SimWrapper(sh.clone())); } }).await;
    let mut hs = vec![];
    for (si, ops) in senders.into_iter().enumerate() {
        let (job, sh) = (job.clone(), sh.clone());
        hs.push(tokio::spawn(async move {
            let mut unres = vec![];
            for (k, op) in ops.iter().enumerate() {
                let parts: Vec<&str> = op.split(':').collect();
                match parts[0] {
                    "z" => tokio::time::sleep(Duration::from_millis(parts[1].parse().unwrap())).await,
                    "s" | "n" => { if let Some(t) = api(&job, &parts[1..], &sh) { if parts[0] == "s" {
                        if tokio::time::timeout(Duration::from_secs(3), t).await.is_err() { unres.push(format!("{si}.{k}:{}", parts[1])); } } } }
                    _ => {}
                }
            }
            unres
        }));
    }
    let mut unres = vec![];
    for h in hs { unres.extend(h.await.unwrap_or_else(|_| vec!["sender-panicked".into()])); }
    tokio::time::sleep(Duration::from_millis(40)).await;
    let dead = job.is_dead();
    drop(job);
    let ended = tokio::time::timeout(Duration::from_millis(200), task).await;
    let end = match ended { Ok(Ok(())) => "ended", Ok(Err(e)) if e.is_panic() => "panicked", Ok(Err(_)) => "cancelled", Err(_) => "alive" };
    let log = sh.log.lock().unwrap().clone();
    format!("{} unres={} dead={} task={}", log.iter().map(|(_, e)| e.clone()).collect::<Vec<_>>().join("|"), unres.join(","), dead as u8, end)
}

fn main() {
    std::panic::set_hook(Box::new(|_| {}));
    let stdin = std::io::stdin(); let stdout = std::io::stdout(); let mut o = stdout.lock();
    let rt = tokio::runtime::Builder::new_multi_thread().worker_threads(4).enable_all().build().unwrap();
    for line in stdin.lock().lines() {
        let line = line.unwrap(); let f: Vec<&str> = line.split(' ').collect();
        if f.len() != 3 { writeln!(o, "bad-line").unwrap(); continue; }
        let behs: Vec<Beh> = f[1].split(',').map(|b| match b.as_bytes()[0] { b'E' => Beh::ExitsAfter(b[1..].parse().unwrap()), b'S' => Beh::ExitsAfterSignal(b[1..].parse().unwrap()), b'F' => Beh::SpawnFails, _ => Beh::Ignores }).collect();
        let senders: Vec<Vec<String>> = f[2].split('|').map(|s| s.split(';').filter(|x| !x.is_empty()).map(|x| x.to_string()).collect()).collect();
        let res = rt.block_on(run_case(behs, senders));
        writeln!(o, "{} {}", f[0], res).unwrap(); o.flush().unwrap();
    }
}
