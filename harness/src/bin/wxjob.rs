//! Script runner: real start_job + simulated child (installed through the public spawn hook), virtual time.
use std::{future::Future, io::{BufRead, Result, Write}, os::unix::process::ExitStatusExt, process::ExitStatus, sync::{Arc, Mutex}, time::Duration};
use process_wrap::tokio::{TokioChildWrapper, TokioCommandWrap, TokioCommandWrapper};
use tokio::{process::{Child, Command as TokioCommand}, sync::Notify, time::Instant};
use watchexec_supervisor::{command::{Command, Program}, job::{start_job, CommandState, Job, Ticket}};
use watchexec_signals::Signal;

#[derive(Debug, Clone, Copy, PartialEq)]
enum Beh { ExitsAfter(u64), ExitsAfterSignal(u64), Ignores, SpawnFails, KillFails(u64), SignalFails, WaitFails }

#[derive(Debug)]
struct Shared { t0: Instant, log: Mutex<Vec<(u128, String)>>, n: Mutex<usize>, behs: Vec<Beh> }
impl Shared {
    fn log(&self, s: String) { let t = self.t0.elapsed().as_millis(); self.log.lock().unwrap().push((t, s)); }
    fn beh_at(&self, i: usize) -> Beh { *self.behs.get(i).or(self.behs.last()).unwrap_or(&Beh::Ignores) }
}

#[derive(Debug)]
struct SimWrapper(Arc<Shared>);
impl TokioCommandWrapper for SimWrapper {
    fn pre_spawn(&mut self, _c: &mut TokioCommand, _core: &TokioCommandWrap) -> Result<()> {
        let mut n = self.0.n.lock().unwrap();
        if self.0.beh_at(*n) == Beh::SpawnFails { *n += 1; self.0.log("spawnfail".into()); return Err(std::io::Error::other("injected spawn failure")); }
        Ok(())
    }
    fn wrap_child(&mut self, inner: Box<dyn TokioChildWrapper>, _core: &TokioCommandWrap) -> Result<Box<dyn TokioChildWrapper>> {
        let mut n = self.0.n.lock().unwrap();
        let id = *n; *n += 1;
        let beh = self.0.beh_at(id);
        self.0.log(format!("spawn:c{id}"));
        let exit_at = match beh { Beh::ExitsAfter(ms) => Some(Instant::now() + Duration::from_millis(ms)), Beh::KillFails(ms) if ms > 0 => Some(Instant::now() + Duration::from_millis(ms)), _ => None };
        Ok(Box::new(SimChild { inner, id, beh, sh: self.0.clone(), exit_at: Mutex::new(exit_at), status: Mutex::new(0), wake: Arc::new(Notify::new()), reaped: false, wait_failed: false }))
    }
}

#[derive(Debug)]
struct SimChild { inner: Box<dyn TokioChildWrapper>, id: usize, beh: Beh, sh: Arc<Shared>, exit_at: Mutex<Option<Instant>>, status: Mutex<i32>, wake: Arc<Notify>, reaped: bool, wait_failed: bool }
impl TokioChildWrapper for SimChild {
    fn inner(&self) -> &Child { self.inner.inner() }
    fn inner_mut(&mut self) -> &mut Child { self.inner.inner_mut() }
    fn into_inner(self: Box<Self>) -> Child { unimplemented!() }
    fn id(&self) -> Option<u32> { Some(100_000 + self.id as u32) }
    fn start_kill(&mut self) -> Result<()> {
        // fault injection (scripts of the `job-faults` stream only): kill() fails and the child lives on — for ever (K0) or until it exits by itself
        if let Beh::KillFails(_) = self.beh { if self.exit_at.lock().unwrap().map(|t| t > Instant::now()).unwrap_or(true) { self.sh.log(format!("killfail:c{}", self.id)); return Err(std::io::Error::other("injected kill failure")); } }
        self.sh.log(format!("kill:c{}", self.id));
        *self.exit_at.lock().unwrap() = Some(Instant::now()); *self.status.lock().unwrap() = 9; self.wake.notify_waiters(); Ok(())
    }
    fn signal(&self, sig: i32) -> Result<()> {
        if self.beh == Beh::SignalFails { self.sh.log(format!("signalfail:c{}:{sig}", self.id)); return Err(std::io::Error::other("injected signal failure")); }
        self.sh.log(format!("signal:c{}:{sig}", self.id));
        if let Beh::ExitsAfterSignal(ms) = self.beh {
            let mut e = self.exit_at.lock().unwrap();
            if e.is_none() { *e = Some(Instant::now() + Duration::from_millis(ms)); *self.status.lock().unwrap() = sig; }
        }
        self.wake.notify_waiters();
        Ok(())
    }
    // non-blocking: a status only if the simulated process has exited by now (the unchanged code never calls this)
    fn try_wait(&mut self) -> Result<Option<ExitStatus>> {
        let at = *self.exit_at.lock().unwrap();
        match at {
            Some(t) if t <= Instant::now() => { let st = *self.status.lock().unwrap(); if !self.reaped { self.reaped = true; self.sh.log(format!("reaped:c{}:{st}", self.id)); } Ok(Some(ExitStatus::from_raw(st))) }
            _ => Ok(None),
        }
    }
    fn wait(&mut self) -> Box<dyn Future<Output = Result<ExitStatus>> + Send + '_> {
        Box::new(async move {
            // fault injection (fault scripts only): the first wait() on this child fails, the process lives on
            if self.beh == Beh::WaitFails && !self.wait_failed { self.wait_failed = true; self.sh.log(format!("waitfail:c{}", self.id)); return Err(std::io::Error::other("injected wait failure")); }
            loop {
                let notified = self.wake.notified();
                tokio::pin!(notified);
                notified.as_mut().enable();
                let at = *self.exit_at.lock().unwrap();
                match at {
                    Some(t) => { tokio::select! { _ = tokio::time::sleep_until(t) => { if *self.exit_at.lock().unwrap() == Some(t) { break; } } _ = &mut notified => {} } }
                    None => notified.await,
                }
            }
            let st = *self.status.lock().unwrap();
            if !self.reaped { self.reaped = true; self.sh.log(format!("reaped:c{}:{st}", self.id)); }
            Ok(ExitStatus::from_raw(st))
        })
    }
}

struct WakeRec { w: usize, sh: Arc<Shared>, done: std::sync::atomic::AtomicBool }
impl WakeRec { fn resolve(&self) { if !self.done.swap(true, std::sync::atomic::Ordering::SeqCst) { self.sh.log(format!("tk:{}", self.w)); } } }
impl std::task::Wake for WakeRec { fn wake(self: Arc<Self>) { self.resolve(); } fn wake_by_ref(self: &Arc<Self>) { self.resolve(); } }

fn cs_name(c: &CommandState) -> String { match c { CommandState::Pending => "P".into(), CommandState::Running{..} => "R".into(),
    CommandState::Finished{status,..} => { let raw = status.into_exitstatus(); format!("F{}", raw.signal().unwrap_or_else(|| raw.code().unwrap_or(0))) } } }

async fn settle() { for _ in 0..40 { tokio::task::yield_now().await; } }

fn api(job: &Job, parts: &[&str], sh: &Arc<Shared>) -> Option<Ticket> {
    let sig = |s: &str| Signal::from(s.parse::<i32>().unwrap());
    let ms = |s: &str| Duration::from_millis(s.parse().unwrap());
    Some(match parts {
        ["start"] => job.start(), ["stop"] => job.stop(),
        ["gstop", g, t] => job.stop_with_signal(sig(g), ms(t)),
        ["restart"] => job.restart(), ["grestart", g, t] => job.restart_with_signal(sig(g), ms(t)),
        ["tryrestart"] => job.try_restart(), ["gtryrestart", g, t] => job.try_restart_with_signal(sig(g), ms(t)),
        ["signal", g] => job.signal(sig(g)), ["towait"] => job.to_wait(),
        ["delete"] => job.delete(), ["deletenow"] => job.delete_now(),
        ["run", id] => { let sh = sh.clone(); let id = id.to_string(); job.run(move |ctx| { sh.log(format!("run:{id}:{}:{}", cs_name(ctx.current), ctx.previous.map(cs_name).unwrap_or("-".into()))); }) }
        // the internal continuation control is part of the public `Control` enum: anyone can send it
        ["continue"] => job.control(watchexec_supervisor::job::Control::ContinueTryGracefulRestart),
        // async variants: the observable effect happens INSIDE the returned future, which the job task has to await
        ["runasync", id] => { let sh = sh.clone(); let id = id.to_string(); job.run_async(move |ctx| { let line = format!("run:{id}:{}:{}", cs_name(ctx.current), ctx.previous.map(cs_name).unwrap_or("-".into())); Box::new(async move { tokio::task::yield_now().await; sh.log(line); }) }) }
        ["seterrasync"] => { let sh = sh.clone(); job.set_async_error_handler(move |_| { let sh = sh.clone(); Box::new(async move { tokio::task::yield_now().await; sh.log("errh".into()); }) }) }
        // replacing the spawn hook: the new hook installs the simulated child too, so the only difference is WHICH hook ran
        ["sethook"] => { let sh = sh.clone(); job.set_spawn_hook(move |c, _| { sh.log("hook".into()); c.wrap(SimWrapper(sh.clone())); }) }
        ["sethookasync"] => { let sh = sh.clone(); job.set_spawn_async_hook(move |c, _| { c.wrap(SimWrapper(sh.clone())); let sh = sh.clone(); Box::new(async move { tokio::task::yield_now().await; sh.log("hook".into()); }) }) }
        ["seterr"] => { let sh = sh.clone(); job.set_error_handler(move |_| sh.log("errh".into())) }
        ["unseterr"] => job.unset_error_handler(),
        _ => return None,
    })
}

/// `m:<api>` — a send from ANOTHER thread that lands while the job task is between dequeuing a control and its next `recv`: the
/// closure parked here is run from inside the job task, by the tracing subscriber below, when the task logs "got control message"
static PENDING: Mutex<Option<Box<dyn FnOnce() + Send>>> = Mutex::new(None);
struct Inj;
impl tracing::Subscriber for Inj {
    fn enabled(&self, m: &tracing::Metadata<'_>) -> bool { m.target().starts_with("watchexec_supervisor::job::task") }
    fn new_span(&self, _: &tracing::span::Attributes<'_>) -> tracing::span::Id { tracing::span::Id::from_u64(1) }
    fn record(&self, _: &tracing::span::Id, _: &tracing::span::Record<'_>) {}
    fn record_follows_from(&self, _: &tracing::span::Id, _: &tracing::span::Id) {}
    fn enter(&self, _: &tracing::span::Id) {}
    fn exit(&self, _: &tracing::span::Id) {}
    fn event(&self, ev: &tracing::Event<'_>) {
        struct V(bool);
        impl tracing::field::Visit for V {
            fn record_debug(&mut self, f: &tracing::field::Field, v: &dyn std::fmt::Debug) { if f.name() == "message" && format!("{v:?}").contains("got control message") { self.0 = true; } }
        }
        let mut v = V(false); ev.record(&mut v);
        if v.0 { let f = PENDING.lock().unwrap().take(); if let Some(f) = f { f(); } }
    }
}

async fn run_case(behs: Vec<Beh>, ops: Vec<String>) -> String {
    let sh = Arc::new(Shared { t0: Instant::now(), log: Default::default(), n: Mutex::new(0), behs });
    let cmd = Arc::new(Command { program: Program::Exec { prog: "true".into(), args: vec![] }, options: Default::default() });
    let (job, task) = start_job(cmd);
    // the hook is part of the harness: installed and settled before the script starts
    job.set_spawn_hook({ let sh = sh.clone(); move |c, _| { sh.log("hook".into()); c.wrap(SimWrapper(sh.clone())); } }).await;
    settle().await;
    let mut job = Some(job);
    let mut waiters: Vec<(Arc<WakeRec>, std::pin::Pin<Box<Ticket>>)> = vec![];
    let mut nticket = 0usize;
    for op in &ops {
        let parts: Vec<&str> = op.split(':').collect();
        match parts[0] {
            "a" => { settle().await; tokio::time::sleep(Duration::from_millis(parts[1].parse().unwrap())).await; settle().await; }
            "y" => settle().await,
            "drop" => { job.take(); }
            "m" | "M" => {
                let Some(j) = job.as_ref() else { continue };
                let (j2, sh2, ps) = (j.clone(), sh.clone(), parts[1..].iter().map(|s| s.to_string()).collect::<Vec<_>>());
                // the awaiting task of `M:` polls its ticket at the moment of the send (inside the closure), as the model's `inject … true` does:
                // polled only after the settle, a flag raised in between would be noticed late and the trace would show the ticket too late
                type Fired = Option<Option<(Arc<WakeRec>, std::pin::Pin<Box<Ticket>>)>>;
                let slot: Arc<Mutex<Fired>> = Default::default(); let s2 = slot.clone();
                let (w, awaited) = (nticket, parts[0] == "M");
                *PENDING.lock().unwrap() = Some(Box::new(move || {
                    let p: Vec<&str> = ps.iter().map(|s| s.as_str()).collect();
                    let t = api(&j2, &p, &sh2);
                    *s2.lock().unwrap() = Some(match t {
                        Some(t) if awaited => {
                            let rec = Arc::new(WakeRec { w, sh: sh2.clone(), done: Default::default() });
                            let waker = std::task::Waker::from(rec.clone());
                            let mut fut = Box::pin(t);
                            if fut.as_mut().poll(&mut std::task::Context::from_waker(&waker)).is_ready() { rec.resolve(); }
                            Some((rec, fut))
                        }
                        _ => None,
                    });
                }));
                settle().await;
                *PENDING.lock().unwrap() = None;      // the task went idle without handling a control: nothing is sent
                let fired = slot.lock().unwrap().take();
                if let Some(t) = fired {
                    nticket += 1;
                    if let Some(wf) = t { waiters.push(wf); settle().await; }
                }
            }
            // `c:<k>`: another task awaits a CLONE of the ticket that waiter k holds (its own waker, polled once right now)
            "c" => {
                let w = nticket; nticket += 1;
                let k: usize = parts[1].parse().unwrap();
                let Some(t) = waiters.iter().find(|(r, _)| r.w == k).map(|(_, f)| (**f).clone()) else { continue };
                let rec = Arc::new(WakeRec { w, sh: sh.clone(), done: Default::default() });
                let waker = std::task::Waker::from(rec.clone());
                let mut fut = Box::pin(t);
                if fut.as_mut().poll(&mut std::task::Context::from_waker(&waker)).is_ready() { rec.resolve(); }
                waiters.push((rec, fut));
            }
            "s" | "n" => {
                let w = nticket; nticket += 1;
                let Some(j) = job.as_ref() else { continue };
                let Some(t) = api(j, &parts[1..], &sh) else { return "bad-op".into() };
                if parts[0] == "s" {
                    // a waiter = its own Waker; the ticket is polled once, right now, like a freshly spawned task would
                    let rec = Arc::new(WakeRec { w, sh: sh.clone(), done: Default::default() });
                    let waker = std::task::Waker::from(rec.clone());
                    let mut fut = Box::pin(t);
                    if fut.as_mut().poll(&mut std::task::Context::from_waker(&waker)).is_ready() { rec.resolve(); }
                    waiters.push((rec, fut));
                }
            }
            _ => return "bad-op".into(),
        }
    }
    settle().await;
    if task.is_finished() { match (&mut { task }).await { Err(e) if e.is_panic() => sh.log("panicked".into()), _ => sh.log("ended".into()) } } else { drop(task); }
    let unres: Vec<String> = waiters.iter().filter(|(r, _)| !r.done.load(std::sync::atomic::Ordering::SeqCst)).map(|(r, _)| r.w.to_string()).collect();
    // sanity: a recorded wake-up means the ticket really is ready
    for (r, fut) in waiters.iter_mut() { if r.done.load(std::sync::atomic::Ordering::SeqCst) { let wk = std::task::Waker::from(r.clone()); assert!(fut.as_mut().poll(&mut std::task::Context::from_waker(&wk)).is_ready(), "woken but not ready"); } }
    // canonical trace
    let log = sh.log.lock().unwrap().clone();
    // maximal runs of consecutive ticket entries are sorted; every other entry keeps its place (see Jm.sortTkRuns)
    let mut out: Vec<String> = vec![]; let mut run: Vec<(u128, String)> = vec![];
    for e in log.into_iter() {
        if e.1.starts_with("tk:") { run.push(e); continue; }
        run.sort(); for r in run.drain(..) { out.push(format!("{}:{}", r.0, r.1)); }
        out.push(format!("{}:{}", e.0, e.1));
    }
    run.sort(); for r in run.drain(..) { out.push(format!("{}:{}", r.0, r.1)); }
    { out.push(format!("unres:{}", unres.join(","))); out.join("|") }
}

fn main() {
    let _ = tracing::subscriber::set_global_default(Inj);
    std::panic::set_hook(Box::new(|_| {}));
    let stdin = std::io::stdin(); let stdout = std::io::stdout(); let mut o = stdout.lock();
    for line in stdin.lock().lines() {
        let line = line.unwrap(); let f: Vec<&str> = line.split(' ').collect();
        if f.len() != 3 { writeln!(o, "bad-line").unwrap(); continue; }
        let behs: Vec<Beh> = f[1].split(',').map(|b| match b.as_bytes()[0] { b'E' => Beh::ExitsAfter(b[1..].parse().unwrap()), b'S' => Beh::ExitsAfterSignal(b[1..].parse().unwrap()), b'F' => Beh::SpawnFails, b'K' => Beh::KillFails(b[1..].parse().unwrap_or(0)), b'G' => Beh::SignalFails, b'W' => Beh::WaitFails, _ => Beh::Ignores }).collect();
        let ops: Vec<String> = f[2].split(';').map(|s| s.to_string()).collect();
        let rt = tokio::runtime::Builder::new_current_thread().enable_all().start_paused(true).build().unwrap();
        let res = rt.block_on(run_case(behs, ops));
        rt.shutdown_background();
        writeln!(o, "{} {}", f[0], res).unwrap();
    }
}
