//! Shared helpers of the correspondence harness: where output goes, and the one PRNG every
//! generator derives its choices from (so a seed replays a run exactly).

/// Path of an output file: `$WX_OUT/<name>` (default: current directory).
pub fn out(name: &str) -> String {
    let dir = std::env::var("WX_OUT").unwrap_or_else(|_| ".".into());
    let dir = std::path::absolute(&dir).map(|p| p.display().to_string()).unwrap_or(dir);
    format!("{dir}/{name}")
}

/// xorshift64 — small, deterministic, good enough for case generation.
pub struct Rng(pub u64);
impl Rng {
    pub fn new(seed: u64) -> Self { Rng(seed.wrapping_mul(0x9E3779B97F4A7C15) | 1) }
    pub fn next(&mut self) -> u64 { self.0 ^= self.0 << 13; self.0 ^= self.0 >> 7; self.0 ^= self.0 << 17; self.0 }
    pub fn below(&mut self, n: u64) -> u64 { self.next() % n }
    pub fn pick<'a, T>(&mut self, v: &'a [T]) -> &'a T { &v[(self.next() % v.len() as u64) as usize] }
    pub fn chance(&mut self, num: u64, den: u64) -> bool { self.below(den) < num }
}

pub fn hex(s: &[u8]) -> String { let mut o = String::from("x"); for b in s { o.push_str(&format!("{b:02x}")); } o }
