"""Per-property plans: which Lean modules / theorems are the obligations, which harness binaries
and correspondence streams tie the model to /repo, and how cases are classified."""
from . import core
from .core import simple_stream

PLANS = {}

# ------------------------------------------------------------------------------------------------
# C20 project origins

def c20_streams(ctx):
    n = 4000 if ctx["thorough"] else 600
    def classify(c, obs):
        k = []
        o = obs.split("|")[0]
        k.append("origins=" + str(len([x for x in o[len("origins="):].split(",") if x])))
        k.append("has-types" if any(p.split(":")[1] for p in obs.split("|types=")[1].split(";") if ":" in p) else "no-types")
        return k
    s = simple_stream("C20", "origins", "lib", "wxtables", ["origins", ctx["seed"], n], ["tables"],
                      nontrivial=lambda c, obs: "origins=|" not in obs, classify=classify)
    s.note = ("on-disk chains of 1-4 directories; the first 106 cases place each of the 53 recognised markers alone, once with the right "
              "node type and once with the wrong one; then random subsets of markers/decoys at random levels; real project_origins::origins/types")
    return [s]

PLANS["C20"] = dict(
    translate=True,
    modules=["Wx.Pure.Origins"],
    theorems=["Wp.origins_exact", "Wp.origins_sublist", "Wp.types_exact", "Wp.typeMarkers_documented", "Wp.typeMarkers_are_originMarkers",
              "Wp.originMarkers_recognised", "Wp.isVcs_documented", "Wp.isSoft_documented", "Wp.exactlyOne_holds", "Wp.classified", "Wp.all_complete"],
    bins=[("lib", ["wxtables"])],
    streams=c20_streams,
    sources=["crates/project-origins/src/lib.rs"],
    rule="a case is one directory chain on disk; non-trivial = at least one origin reported; distinct by (chain, observation)",
    assumptions=["DirList::obtain lists a directory as (name, file|dir) pairs — modelled as the Listing argument, exercised on a real filesystem",
                 "the documented type-marker table and the recognised-marker list are transcribed by hand in Wx/Pure/Origins.lean"],
)

# ------------------------------------------------------------------------------------------------
# C19 signals and exit statuses

def c19_streams(ctx):
    n = 6000 if ctx["thorough"] else 1000
    def classify(c, obs):
        kind = c.split("\t")[0]
        if kind == "SIGP": return ["parse-" + ("ok" if obs.startswith("ok") else "err")]
        if kind == "ST": return ["status-" + obs.split(":")[0]]
        return [kind]
    s = simple_stream("C19", "signals", "lib", "wxtables", ["signals", ctx["seed"], n], ["tables"],
                      nontrivial=lambda c, obs: obs not in ("err", "success"), classify=classify)
    s.note = ("exhaustive: numbers -3..70 in three spellings, every nix signal name x {SIG-name, short} x {upper, lower, capitalised, mixed}, "
              "the control names, From<i32> on -3..70 and extremes, ALL raw wait statuses 0..=0xFFFF; plus random edits of valid spellings")
    s.exhaustive = False
    return [s]

PLANS["C19"] = dict(
    translate=True,
    modules=["Wx.Pure.Signals"],
    theorems=["Wp.display_parse", "Wp.posix_numbers", "Wp.spellings_agree", "Wp.only_stop_is_shadowed", "Wp.fromI32_fromNix",
              "Wp.exit_codes", "Wp.term_signals"],
    bins=[("lib", ["wxtables"])],
    streams=c19_streams,
    sources=["crates/signals/src/lib.rs", "crates/events/src/process.rs"],
    rule="a case is one string to parse, one number, or one raw wait status; non-trivial = parses / is not plain success; distinct by (case, observation)",
    assumptions=["number<->name table of the linked nix crate is dumped at run time (Gen/NixTable.lean)",
                 "std::process::ExitStatus decoding is modelled by hand (wifexited/…); validated on all 65536 raw statuses every run",
                 "Windows-only code (cfg(windows)) is not modelled"],
)

# ------------------------------------------------------------------------------------------------
# C16 JSON round trip

def c16_streams(ctx):
    n = 8000 if ctx["thorough"] else 1500
    def classify(c, obs):
        kind = c.split("\t")[0]
        if kind == "ENC": return ["enc-" + c.split("\t")[1].split(":")[0]]
        if kind == "DEC": return ["dec->" + obs.split(":")[0]]
        return [kind]
    s = simple_stream("C16", "json", "lib", "wxtables", ["json", ctx["seed"], n], ["tables"],
                      nontrivial=lambda c, obs: obs not in ("-", "unknown", "kind=none"), classify=classify)
    s.note = ("ENC: every one of the 41 file event kinds, every first-class signal and custom numbers -3..70 and extremes, both as signal tags and exit "
              "signals, then random tags — serde_json output (field names and values) vs the model's encode, plus real round trip; EVT: whole "
              "events (0-5 tags, metadata, arrays) judged by the real round trip; DEC: tag objects of every kind with each other field present / "
              "absent / contradictory (completion: disposition x code x signal completely), then random objects — serde's result vs decode")
    return [s]

PLANS["C16"] = dict(
    translate=True,
    modules=["Wx.Pure.SerdeTag", "Wx.Pure.C16"],
    theorems=["Wp.kind_roundtrip", "Wp.kind_roundtrip_all", "Wp.table_rows_are_printed", "Wp.allKinds_complete",
              "Wp.decode_encode", "Wp.decode_total", "Wp.decode_wf"],
    bins=[("lib", ["wxtables"])],
    streams=c16_streams,
    sources=["crates/events/src/serde_formats.rs", "crates/events/src/event.rs", "crates/events/src/process.rs", "crates/signals/src/lib.rs"],
    rule="a case is one tag to encode, one whole event to round-trip, or one JSON tag object to decode; non-trivial = not the unknown tag; distinct by (case, observation)",
    assumptions=["serde / serde_json follow the rename attributes (validated: the JSON field names and values are compared with the documented names in the driver)",
                 "Tag <-> SerdeTag conversions are modelled by hand (Wx/Pure/SerdeTag.lean); the 41-row kind table is generated from the source"],
)
