"""Per-property plans: which Lean modules / theorems are the obligations, which harness binaries
and correspondence streams tie the model to /repo, and how cases are classified."""
from . import core
from .core import simple_stream

PLANS = {}

# ------------------------------------------------------------------------------------------------
# C20 project origins

def c20_streams(ctx):
    n = 4000 if ctx["thorough"] else 600
    def classify(c, obs):
        k = []
        o = obs.split("|")[0]
        k.append("origins=" + str(len([x for x in o[len("origins="):].split(",") if x])))
        k.append("has-types" if any(p.split(":")[1] for p in obs.split("|types=")[1].split(";") if ":" in p) else "no-types")
        return k
    s = simple_stream("C20", "origins", "lib", "wxtables", ["origins", ctx["seed"], n], ["tables"],
                      nontrivial=lambda c, obs: "origins=|" not in obs, classify=classify)
    s.note = ("on-disk chains of 1-4 directories; the first 106 cases place each of the 53 recognised markers alone, once with the right "
              "node type and once with the wrong one; then random subsets of markers/decoys at random levels; real project_origins::origins/types")
    return [s]

PLANS["C20"] = dict(
    translate=True,
    modules=["Wx.Pure.Origins"],
    theorems=["Wp.origins_exact", "Wp.origins_sublist", "Wp.types_exact", "Wp.typeMarkers_documented", "Wp.typeMarkers_are_originMarkers",
              "Wp.originMarkers_recognised", "Wp.isVcs_documented", "Wp.isSoft_documented", "Wp.exactlyOne_holds", "Wp.classified", "Wp.all_complete"],
    bins=[("lib", ["wxtables"])],
    streams=c20_streams,
    sources=["crates/project-origins/src/lib.rs"],
    rule="a case is one directory chain on disk; non-trivial = at least one origin reported; distinct by (chain, observation)",
    assumptions=["DirList::obtain lists a directory as (name, file|dir) pairs — modelled as the Listing argument, exercised on a real filesystem",
                 "the documented type-marker table and the recognised-marker list are transcribed by hand in Wx/Pure/Origins.lean"],
)

# ------------------------------------------------------------------------------------------------
# C19 signals and exit statuses

def c19_streams(ctx):
    n = 6000 if ctx["thorough"] else 1000
    def classify(c, obs):
        kind = c.split("\t")[0]
        if kind == "SIGP": return ["parse-" + ("ok" if obs.startswith("ok") else "err")]
        if kind == "ST": return ["status-" + obs.split(":")[0]]
        return [kind]
    s = simple_stream("C19", "signals", "lib", "wxtables", ["signals", ctx["seed"], n], ["tables"],
                      nontrivial=lambda c, obs: obs not in ("err", "success"), classify=classify)
    s.note = ("exhaustive: numbers -3..70 in three spellings, every nix signal name x {SIG-name, short} x {upper, lower, capitalised, mixed}, "
              "the control names, From<i32> on -3..70 and extremes, ALL raw wait statuses 0..=0xFFFF; plus random edits of valid spellings")
    s.exhaustive = False
    return [s]

PLANS["C19"] = dict(
    translate=True,
    modules=["Wx.Pure.Signals"],
    theorems=["Wp.display_parse", "Wp.posix_numbers", "Wp.spellings_agree", "Wp.only_stop_is_shadowed", "Wp.fromI32_fromNix",
              "Wp.exit_codes", "Wp.term_signals"],
    bins=[("lib", ["wxtables"])],
    streams=c19_streams,
    sources=["crates/signals/src/lib.rs", "crates/events/src/process.rs"],
    rule="a case is one string to parse, one number, or one raw wait status; non-trivial = parses / is not plain success; distinct by (case, observation)",
    assumptions=["number<->name table of the linked nix crate is dumped at run time (Gen/NixTable.lean)",
                 "std::process::ExitStatus decoding is modelled by hand (wifexited/…); validated on all 65536 raw statuses every run",
                 "Windows-only code (cfg(windows)) is not modelled"],
)

# ------------------------------------------------------------------------------------------------
# C16 JSON round trip

def c16_streams(ctx):
    n = 8000 if ctx["thorough"] else 1500
    def classify(c, obs):
        kind = c.split("\t")[0]
        if kind == "ENC": return ["enc-" + c.split("\t")[1].split(":")[0]]
        if kind == "DEC": return ["dec->" + obs.split(":")[0]]
        return [kind]
    s = simple_stream("C16", "json", "lib", "wxtables", ["json", ctx["seed"], n], ["tables"],
                      nontrivial=lambda c, obs: obs not in ("-", "unknown", "kind=none"), classify=classify)
    s.note = ("ENC: every one of the 41 file event kinds, every first-class signal and custom numbers -3..70 and extremes, both as signal tags and exit "
              "signals, then random tags — serde_json output (field names and values) vs the model's encode, plus real round trip; EVT: whole "
              "events (0-5 tags, metadata, arrays) judged by the real round trip; DEC: tag objects of every kind with each other field present / "
              "absent / contradictory (completion: disposition x code x signal completely), then random objects — serde's result vs decode")
    return [s]

PLANS["C16"] = dict(
    translate=True,
    modules=["Wx.Pure.SerdeTag", "Wx.Pure.C16"],
    theorems=["Wp.kind_roundtrip", "Wp.kind_roundtrip_all", "Wp.table_rows_are_printed", "Wp.allKinds_complete",
              "Wp.decode_encode", "Wp.decode_total", "Wp.decode_wf"],
    bins=[("lib", ["wxtables"])],
    streams=c16_streams,
    sources=["crates/events/src/serde_formats.rs", "crates/events/src/event.rs", "crates/events/src/process.rs", "crates/signals/src/lib.rs"],
    rule="a case is one tag to encode, one whole event to round-trip, or one JSON tag object to decode; non-trivial = not the unknown tag; distinct by (case, observation)",
    assumptions=["serde / serde_json follow the rename attributes (validated: the JSON field names and values are compared with the documented names in the driver)",
                 "Tag <-> SerdeTag conversions are modelled by hand (Wx/Pure/SerdeTag.lean); the 41-row kind table is generated from the source"],
)

# ------------------------------------------------------------------------------------------------
# C17 path summaries

def c17_streams(ctx):
    n = 40000 if ctx["thorough"] else 4000
    def classify(c, obs):
        k = ["common-" + ("none" if obs.startswith("COMMON=-") else "set")]
        for v in ("CREATED", "META_CHANGED", "REMOVED", "RENAMED", "WRITTEN", "OTHERWISE_CHANGED"):
            if "|" + v + "=" in obs: k.append(v)
        return k
    s = simple_stream("C17", "summary", "cli", "wxsummary", [ctx["seed"], n], ["pure"],
                      nontrivial=lambda c, obs: "=" in obs.split("||")[0][len("COMMON="):], classify=classify)
    s.note = ("batches of 0-4 events x 0-3 paths x 0-2 kinds, relative and absolute paths, shared bases, duplicates, paths equal to the common prefix, all file "
              "types; real summarise_events_to_env and (hook H1) events_to_simple_format vs the model; the harness also evaluates the property itself on the "
              "real output (entry in the variable of its kind, COMMON joined with the entry gives the path, strictly increasing entries, nothing else listed)")
    return [s]

PLANS["C17"] = dict(
    modules=["Wx.Pure.C17", "Wx.Pure.C17b"],
    theorems=["Wp.common_is_prefix", "Wp.common_is_longest", "Wp.common_none", "Wp.trunk_under", "Wp.strip_join", "Wp.sortDedup_spec", "Wp.bucket_mem",
              "Wp.summarise_vars", "Wp.summarise_entries", "Wp.summarise_complete", "Wp.entry_faithful", "Wp.entry_no_common", "Wp.common_longest",
              "Wp.simpleFormat_eq", "Wp.simpleFormat_append", "Wp.eventLines_length"],
    bins=[("cli", ["wxsummary"])],
    streams=c17_streams,
    sources=["crates/lib/src/paths.rs", "crates/cli/src/emits.rs"],
    rule="a case is one batch of events; non-trivial = at least one variable besides COMMON is set; distinct by (batch, observation)",
    assumptions=["std::path component semantics (strip_prefix, join, parent, ==) are modelled by hand as lists of components with an optional root"],
)

# ------------------------------------------------------------------------------------------------
# C18 spawned commands

def c18_streams(ctx):
    n, nspawn = (30000, 600) if ctx["thorough"] else (3000, 120)
    def classify(c, obs):
        f = c.split("\t")
        return [("exec" if f[1] == "E" else "shell"), "wraps=" + obs.split("wraps=")[1]]
    s = simple_stream("C18", "spawn", "lib", "wxspawn", [ctx["seed"], n, nspawn], ["pure"], classify=classify,
                      nontrivial=lambda c, obs: True)
    s.note = (f"random commands (strings assembled from the empty string, blanks, tabs, newlines, quotes, $HOME, *, back-ticks, ;, |, &&, \\, -c, --, multi-byte "
              f"UTF-8): program/arguments/wrappers of the real to_spawnable() vs the model; the first {nspawn} are really spawned through start_job with a spawn hook "
              "that sets an environment variable and the working directory — the helper child reports argv (hex), whether its process group / session differ "
              "from the harness's, cwd and the variable (oracle)")
    return [s]

PLANS["C18"] = dict(
    modules=["Wx.Pure.C18"],
    theorems=["Wp.argv_exec", "Wp.argv_shell", "Wp.wrappers_session", "Wp.wrappers_grouped", "Wp.wrappers_plain", "Wp.interpret_noshell",
              "Wp.interpret_shell", "Wp.splitWs_clean", "Wp.splitWs_flatten"],
    bins=[("lib", ["wxspawn"])],
    streams=c18_streams,
    sources=["crates/supervisor/src/command/conversions.rs", "crates/supervisor/src/command/program.rs", "crates/supervisor/src/command/shell.rs", "crates/cli/src/config.rs"],
    rule="a case is one Command (program + spawn options); every case is non-trivial; distinct by (command, observation)",
    assumptions=["execve delivers argv byte for byte and process-wrap's ProcessGroup / ProcessSession / KillOnDrop do what they document: validated by the real spawns, not proved"],
    partial="OS behaviour (execve fidelity, effect of the group/session wrappers) is validated by real spawns, not proved",
)
