"""Per-property plans: which Lean modules / theorems are the obligations, which harness binaries
and correspondence streams tie the model to /repo, and how cases are classified."""
from . import core
from .core import simple_stream

PLANS = {}

# ------------------------------------------------------------------------------------------------
# C20 project origins

def c20_streams(ctx):
    n = 4000 if ctx["thorough"] else 600
    def classify(c, obs):
        k = []
        o = obs.split("|")[0]
        k.append("origins=" + str(len([x for x in o[len("origins="):].split(",") if x])))
        k.append("has-types" if any(p.split(":")[1] for p in obs.split("|types=")[1].split(";") if ":" in p) else "no-types")
        return k
    s = simple_stream("C20", "origins", "lib", "wxtables", ["origins", ctx["seed"], n], ["tables"],
                      nontrivial=lambda c, obs: "origins=|" not in obs, classify=classify)
    s.note = ("on-disk chains of 1-4 directories; the first 106 cases place each of the 53 recognised markers alone, once with the right "
              "node type and once with the wrong one; then random subsets of markers/decoys at random levels; real project_origins::origins/types")
    return [s]

PLANS["C20"] = dict(
    translate=True,
    modules=["Wx.Pure.Origins"],
    theorems=["Wp.origins_exact", "Wp.origins_sublist", "Wp.types_exact", "Wp.typeMarkers_documented", "Wp.typeMarkers_are_originMarkers",
              "Wp.originMarkers_recognised", "Wp.isVcs_documented", "Wp.isSoft_documented", "Wp.exactlyOne_holds", "Wp.classified", "Wp.all_complete"],
    bins=[("lib", ["wxtables"])],
    streams=c20_streams,
    sources=["crates/project-origins/src/lib.rs"],
    rule="a case is one directory chain on disk; non-trivial = at least one origin reported; distinct by (chain, observation)",
    assumptions=["DirList::obtain lists a directory as (name, file|dir) pairs — modelled as the Listing argument, exercised on a real filesystem",
                 "the documented type-marker table and the recognised-marker list are transcribed by hand in Wx/Pure/Origins.lean"],
)

# ------------------------------------------------------------------------------------------------
# C19 signals and exit statuses

def c19_streams(ctx):
    n = 6000 if ctx["thorough"] else 1000
    def classify(c, obs):
        kind = c.split("\t")[0]
        if kind == "SIGP": return ["parse-" + ("ok" if obs.startswith("ok") else "err")]
        if kind == "ST": return ["status-" + obs.split(":")[0]]
        return [kind]
    s = simple_stream("C19", "signals", "lib", "wxtables", ["signals", ctx["seed"], n], ["tables"],
                      nontrivial=lambda c, obs: obs not in ("err", "success"), classify=classify)
    s.note = ("exhaustive: numbers -3..70 in three spellings, every nix signal name x {SIG-name, short} x {upper, lower, capitalised, mixed}, "
              "the control names, From<i32> on -3..70 and extremes, ALL raw wait statuses 0..=0xFFFF; plus random edits of valid spellings")
    s.exhaustive = False
    return [s]

PLANS["C19"] = dict(
    translate=True,
    modules=["Wx.Pure.Signals"],
    theorems=["Wp.display_parse", "Wp.posix_numbers", "Wp.spellings_agree", "Wp.only_stop_is_shadowed", "Wp.fromI32_fromNix",
              "Wp.exit_codes", "Wp.term_signals"],
    bins=[("lib", ["wxtables"])],
    streams=c19_streams,
    sources=["crates/signals/src/lib.rs", "crates/events/src/process.rs"],
    rule="a case is one string to parse, one number, or one raw wait status; non-trivial = parses / is not plain success; distinct by (case, observation)",
    assumptions=["number<->name table of the linked nix crate is dumped at run time (Gen/NixTable.lean)",
                 "std::process::ExitStatus decoding is modelled by hand (wifexited/…); validated on all 65536 raw statuses every run",
                 "Windows-only code (cfg(windows)) is not modelled"],
)

# ------------------------------------------------------------------------------------------------
# C16 JSON round trip

def c16_streams(ctx):
    n = 8000 if ctx["thorough"] else 1500
    def classify(c, obs):
        kind = c.split("\t")[0]
        if kind == "ENC": return ["enc-" + c.split("\t")[1].split(":")[0]]
        if kind == "DEC": return ["dec->" + obs.split(":")[0]]
        return [kind]
    s = simple_stream("C16", "json", "lib", "wxtables", ["json", ctx["seed"], n], ["tables"],
                      nontrivial=lambda c, obs: obs not in ("-", "unknown", "kind=none"), classify=classify)
    s.note = ("ENC: every one of the 41 file event kinds, every first-class signal and custom numbers -3..70 and extremes, both as signal tags and exit "
              "signals, then random tags — serde_json output (field names and values) vs the model's encode, plus real round trip; EVT: whole "
              "events (0-5 tags, metadata, arrays) judged by the real round trip; DEC: tag objects of every kind with each other field present / "
              "absent / contradictory (completion: disposition x code x signal completely), then random objects — serde's result vs decode")
    return [s]

PLANS["C16"] = dict(
    translate=True,
    modules=["Wx.Pure.SerdeTag", "Wx.Pure.C16"],
    theorems=["Wp.kind_roundtrip", "Wp.kind_roundtrip_all", "Wp.table_rows_are_printed", "Wp.allKinds_complete",
              "Wp.decode_encode", "Wp.decode_total", "Wp.decode_wf"],
    bins=[("lib", ["wxtables"])],
    streams=c16_streams,
    sources=["crates/events/src/serde_formats.rs", "crates/events/src/event.rs", "crates/events/src/process.rs", "crates/signals/src/lib.rs"],
    rule="a case is one tag to encode, one whole event to round-trip, or one JSON tag object to decode; non-trivial = not the unknown tag; distinct by (case, observation)",
    assumptions=["serde / serde_json follow the rename attributes (validated: the JSON field names and values are compared with the documented names in the driver)",
                 "Tag <-> SerdeTag conversions are modelled by hand (Wx/Pure/SerdeTag.lean); the 41-row kind table is generated from the source"],
)

# ------------------------------------------------------------------------------------------------
# C17 path summaries

def c17_streams(ctx):
    n = 40000 if ctx["thorough"] else 4000
    def classify(c, obs):
        k = ["common-" + ("none" if obs.startswith("COMMON=-") else "set")]
        for v in ("CREATED", "META_CHANGED", "REMOVED", "RENAMED", "WRITTEN", "OTHERWISE_CHANGED"):
            if "|" + v + "=" in obs: k.append(v)
        return k
    s = simple_stream("C17", "summary", "cli", "wxsummary", [ctx["seed"], n], ["pure"],
                      nontrivial=lambda c, obs: "=" in obs.split("||")[0][len("COMMON="):], classify=classify)
    s.note = ("batches of 0-4 events x 0-3 paths x 0-2 kinds, relative and absolute paths, shared bases, duplicates, paths equal to the common prefix, all file "
              "types; real summarise_events_to_env and (hook H1) events_to_simple_format vs the model; the harness also evaluates the property itself on the "
              "real output (entry in the variable of its kind, COMMON joined with the entry gives the path, strictly increasing entries, nothing else listed)")
    return [s]

PLANS["C17"] = dict(
    modules=["Wx.Pure.C17", "Wx.Pure.C17b"],
    theorems=["Wp.common_is_prefix", "Wp.common_is_longest", "Wp.common_none", "Wp.trunk_under", "Wp.strip_join", "Wp.sortDedup_spec", "Wp.bucket_mem",
              "Wp.summarise_vars", "Wp.summarise_entries", "Wp.summarise_complete", "Wp.entry_faithful", "Wp.entry_no_common", "Wp.common_longest",
              "Wp.simpleFormat_eq", "Wp.simpleFormat_append", "Wp.eventLines_length"],
    bins=[("cli", ["wxsummary"])],
    streams=c17_streams,
    sources=["crates/lib/src/paths.rs", "crates/cli/src/emits.rs"],
    rule="a case is one batch of events; non-trivial = at least one variable besides COMMON is set; distinct by (batch, observation)",
    assumptions=["std::path component semantics (strip_prefix, join, parent, ==) are modelled by hand as lists of components with an optional root"],
)

# ------------------------------------------------------------------------------------------------
# C18 spawned commands

def c18_streams(ctx):
    n, nspawn = (30000, 600) if ctx["thorough"] else (3000, 120)
    def classify(c, obs):
        f = c.split("\t")
        return [("exec" if f[1] == "E" else "shell"), "wraps=" + obs.split("wraps=")[1]]
    s = simple_stream("C18", "spawn", "lib", "wxspawn", [ctx["seed"], n, nspawn], ["pure"], classify=classify,
                      nontrivial=lambda c, obs: True)
    s.note = (f"random commands (strings assembled from the empty string, blanks, tabs, newlines, quotes, $HOME, *, back-ticks, ;, |, &&, \\, -c, --, multi-byte "
              f"UTF-8): program/arguments/wrappers of the real to_spawnable() vs the model; the first {nspawn} are really spawned through start_job with a spawn hook "
              "that sets an environment variable and the working directory — the helper child reports argv (hex), whether its process group / session differ "
              "from the harness's, cwd and the variable (oracle)")
    return [s]

PLANS["C18"] = dict(
    modules=["Wx.Pure.C18"],
    theorems=["Wp.argv_exec", "Wp.argv_shell", "Wp.wrappers_session", "Wp.wrappers_grouped", "Wp.wrappers_plain", "Wp.interpret_noshell",
              "Wp.interpret_shell", "Wp.splitWs_clean", "Wp.splitWs_flatten"],
    bins=[("lib", ["wxspawn"])],
    streams=c18_streams,
    sources=["crates/supervisor/src/command/conversions.rs", "crates/supervisor/src/command/program.rs", "crates/supervisor/src/command/shell.rs", "crates/cli/src/config.rs"],
    rule="a case is one Command (program + spawn options); every case is non-trivial; distinct by (command, observation)",
    assumptions=["execve delivers argv byte for byte and process-wrap's ProcessGroup / ProcessSession / KillOnDrop do what they document: validated by the real spawns, not proved"],
    partial="OS behaviour (execve fidelity, effect of the group/session wrappers) is validated by real spawns, not proved",
)

# ------------------------------------------------------------------------------------------------
# glob family: C03 ignore files, C11 globset filterer, C14 discovery

import os, subprocess

def glob_base_stream(pid, ctx):
    n = 60000 if ctx["thorough"] else 8000
    s = simple_stream(pid, "glob", "lib", "wxglob", [ctx["seed"], n], ["glob"],
                      nontrivial=lambda c, obs: obs != "none", classify=lambda c, obs: [obs.split(":")[0], "mode-" + c.split("\t")[3]])
    s.note = ("validation of the glob matcher model against the real `ignore` crate: 35 pattern shapes (classes, every ** position, escapes, trailing space, "
              "non-ASCII), three roots, files and directories, matched and matched_path_or_any_parents")
    return s

def second_pass(pid, name, rewrite, driver_args):
    """run the driver again on rewritten case lines (used for spec / oracle evaluation); returns list of lines"""
    d = core.WORK / pid / name
    cases = core.read_lines(d / "cases.txt")
    with open(d / "cases2.txt", "w") as f:
        for c in cases: f.write(rewrite(c) + "\n")
    ok, err = core.run_driver(driver_args, d / "cases2.txt", d / "spec.txt")
    return core.read_lines(d / "spec.txt") if ok else None

def c03_streams(ctx):
    n = 20000 if ctx["thorough"] else 2500
    def prefix_sibling(c):
        # a probe is non-trivial when some ignore file's directory is a STRING prefix but not a component ancestor of it
        f = c.split("\t")
        keys = [x.split("\x1e")[0] for x in f[3].split("\x1d") if x]
        for pr in f[4].split("\x1d"):
            p = pr.split("\x1e")[0]
            for k in keys:
                if k != "-" and p.startswith(k) and not (p == k or p.startswith(k + "/")): return True
        return False
    def classify(c, obs):
        k = ["mode-" + c.split("\t")[2]]
        if obs != "error":
            for r in obs.split(";"): k.append("verdict-" + r.split(":")[0].split("/")[0])
        if prefix_sibling(c): k.append("prefix-sibling-probe")
        return k
    s = simple_stream("C03", "ignore-filter", "lib", "wxignore", [ctx["seed"], n], ["glob"],
                      nontrivial=lambda c, obs: prefix_sibling(c), classify=classify)
    s.note = ("1-4 ignore files at prefix-related directories (a/ab, test/tests, x.d/x.d2) or global, built by IgnoreFilter::new (same-directory files included, some padded so "
              "that read completion order differs from listed order) or by successive add_file; six probes each, inside and outside the origin, files and directories; "
              "real match_path + check_dir vs the model (repaired lookup). Oracle: 'is it ignored' vs the component-wise specification, unspecified case excluded")
    # oracle pass: the component-wise specification on the same constructions
    spec = second_pass("C03", "ignore-filter", lambda c: "\t".join((lambda f: f[:2] + ["spec" if f[2] == "new" else "specadd"] + f[3:])(c.split("\t"))), ["glob"])
    if spec is None:
        s.error = "spec pass of the driver failed"
    elif not s.error:
        impl = core.read_lines(core.WORK / "C03" / "ignore-filter" / "impl.txt")
        cases = core.read_lines(core.WORK / "C03" / "ignore-filter" / "cases.txt")
        for i, (c, im, sp) in enumerate(zip(cases, impl, spec)):
            if im == "error" or sp == "error": continue
            for j, (a, b) in enumerate(zip(im.split(";"), sp.split(";"))):
                if b == "unspecified": continue
                ign_impl = a.startswith("ignore:")
                ign_spec = b.startswith("ignore:")
                if ign_impl != ign_spec:
                    probe = c.split("\t")[4].split("\x1d")[j].split("\x1e")
                    s.oracle_failures.append((i, c, im, f"probe {probe[0]} (dir={probe[1]}): the code says {'ignored' if ign_impl else 'not ignored'} ({a}), git-style evaluation of its ancestors' files says {'ignored' if ign_spec else 'not ignored'} ({b})"))
                    break
    return [s, glob_base_stream("C03", ctx)]

PLANS["C03"] = dict(
    modules=["Wx.Glob.C03", "Wx.Glob.IgnoreFilterC", "Wx.Glob.Prefix"],
    theorems=["Sp.IF.matchPathC_eq_spec", "Sp.C03.go_eq_spec", "Sp.C03.spec_congr", "Sp.C03.spec_keys_congr", "Sp.C03.scoping_law", "Sp.C03.goOld_ne_spec",
              "Sp.C03.ancestor_spec", "Sp.Pfx.body_prefix_shape", "Sp.IF.splitComps_ok"],
    bins=[("lib", ["wxignore", "wxglob"])],
    streams=c03_streams,
    sources=["crates/ignore-files/src/filter.rs", "crates/filterer/ignore/src/lib.rs"],
    rule="a case is one filter construction with six probes; non-trivial = some ignore file's directory is a string prefix but not an ancestor of a probe (prefix-sibling probe); distinct by (construction, observation)",
    assumptions=["radix_trie::get_ancestor returns the longest key that is a string prefix (modelled)", "the ignore crate's gitignore matching is modelled in Wx/Glob/Glob.lean and validated by the glob stream; the theorems are parametric in the per-node verdict function",
                 "tokio file reads: only the order in which same-directory files are applied matters (listed order)"],
)

def c11_streams(ctx):
    n = 20000 if ctx["thorough"] else 3000
    def classify(c, obs):
        f = c.split("\t")
        k = [("filters" if f[2] else "no-filters"), ("ignores" if f[3] else "no-ignores"), ("exts" if f[6] else "no-exts"), ("whitelist" if f[4] else "no-whitelist")]
        for v in obs.split(";"): k.append("verdict-" + v)
        return k
    s = simple_stream("C11", "globset", "lib", "wxglobset", [ctx["seed"], n], ["glob"],
                      nontrivial=lambda c, obs: "true" in obs and "false" in obs, classify=classify)
    s.note = ("random GlobsetFilterer configurations (filters, ignores, whitelist, ignore files, extensions) x 6 events (0-3 paths, file/dir/unknown, inside and outside the "
              "origin): real check_event vs the abstract decision of Wx/Glob/C11.lean instantiated with the concrete matcher (checkEventC), i.e. the right-hand side of the documented rule")
    return [s, glob_base_stream("C11", ctx)]

PLANS["C11"] = dict(
    modules=["Wx.Glob.C11", "Wx.Glob.C11Inst"],
    theorems=["Sp.C11.no_paths_pass", "Sp.C11.whitelisted_pass", "Sp.C11.igf_rejects", "Sp.C11.check_iff", "Sp.C11.wanted_iff", "Sp.C11.wanted_empty",
              "Sp.C11.ignore_precedence", "Sp.C11.verdict_append", "Sp.C11.verdict_insert", "Sp.C11.ignore_monotone", "Sp.C11.empty_passes",
              "Sp.GS.c11_no_paths", "Sp.GS.c11_whitelisted", "Sp.GS.c11_empty_config"],
    bins=[("lib", ["wxglobset", "wxglob"])],
    streams=c11_streams,
    sources=["crates/filterer/globset/src/lib.rs", "crates/filterer/ignore/src/lib.rs"],
    rule="a case is one filterer configuration with six events; non-trivial = the six verdicts are not all equal; distinct by (configuration, observation)",
    assumptions=["the glob matcher, Path::extension and the ignore-file layer are parameters of the theorems (Env); their concrete models are validated by the streams"],
)

def c14_streams(ctx):
    n = 6000 if ctx["thorough"] else 700
    def classify(c, obs):
        f = c.split("\t")
        k = ["found=" + str(min(len([x for x in obs.split(";") if x]), 5)), ("watch-list" if f[2] else "no-watch-list"), ("explicit" if f[5] else "no-explicit")]
        for v in (".git", ".hg", ".svn", "_darcs", ".bzr", ".pijul", ".fossil-settings"):
            if f[1] + "/" + v + "\x1e" in f[3] or "\x1f" + f[1] + "/" + v in f[3]: k.append("origin-has-" + v)
        return k
    s = simple_stream("C14", "discover", "lib", "wxdiscover", [ctx["seed"], n], ["glob"],
                      nontrivial=lambda c, obs: ";" in obs, classify=classify, timeout=3000)
    s.note = ("random trees on disk (depth <= 3, prefix-related names, every VCS metadata directory name at the origin and deeper, empty ignore files, origin-level VCS files, "
              "watch lists, explicit ignore files); the model is fed the real read_dir order; ordered result list of the real from_origin vs the model walker; oracle: the "
              "result set (minus explicit files) equals the specification (files of directories reachable without entering a directory its proper ancestors' files ignore)")
    spec = second_pass("C14", "discover", lambda c: "DSPEC" + c[4:], ["glob"])
    if spec is None:
        s.error = "spec pass of the driver failed"
    elif not s.error:
        d = core.WORK / "C14" / "discover"
        for i, (c, im, sp) in enumerate(zip(core.read_lines(d / "cases.txt"), core.read_lines(d / "impl.txt"), spec)):
            f = c.split("\t")
            explicit = set(f[5].split("\x1f")) if f[5] else set()
            got = sorted(set(x.split("@")[0] for x in im.split(" ERRS=")[0].split(";") if x) - explicit)
            exp = sorted(x for x in sp.split(";") if x)
            if got != exp:
                miss = [x for x in exp if x not in got]; extra = [x for x in got if x not in exp]
                s.oracle_failures.append((i, c, im, f"discovery result differs from the specification: missing {miss} unexpected {extra}"))
    return [s]

PLANS["C14"] = dict(
    modules=["Wx.Disc.C14", "Wx.Disc.C14wf", "Wx.Glob.C03"],
    theorems=["Dw.visit_spec", "Dw.sv_order", "Dw.sv_sound", "Dw.sv_complete", "Dw.visit_spec'", "Sp.C03.scoping_law"],
    bins=[("lib", ["wxdiscover"])],
    streams=c14_streams,
    sources=["crates/ignore-files/src/discover.rs", "crates/ignore-files/src/filter.rs"],
    rule="a case is one directory tree on disk with its ignore files; non-trivial = at least two ignore files discovered; distinct by (tree, observation)",
    assumptions=["read_dir / file_type / find_file (regular and non-empty) are inputs of the model (the real listing order is recorded and fed to it)",
                 "the walker theorems are about the structural recursion of Wx/Disc/Walk.lean (filter as a parameter with the scoping law proved in C03); that the real stack walk is this recursion is validated by the discover stream, not proved"],
    partial="walker = specification is proved for the structural-recursion model with the filter as a parameter; the stack-and-skip-list code is tied to it by correspondence only",
)
