"""Per-property plans: which Lean modules / theorems are the obligations, which harness binaries
and correspondence streams tie the model to /repo, and how cases are classified."""
from . import core
from .core import simple_stream

PLANS = {}

# ------------------------------------------------------------------------------------------------
# C20 project origins

def model_is_spec(s, describe):
    """for streams whose model output IS the property's right-hand side (the documented rule evaluated on the case):
    a disagreement is a violation on the implementation, with that case as the replay"""
    for (i, c, obs, mo) in s.disagreements:
        if c: s.oracle_failures.append((i, c, obs, describe(c, obs, mo)))
    return s

def c20_streams(ctx):
    n = 4000 if ctx["thorough"] else 600
    def classify(c, obs):
        k = []
        o = obs.split("|")[0]
        k.append("origins=" + str(len([x for x in o[len("origins="):].split(",") if x])))
        k.append("has-types" if any(p.split(":")[1] for p in obs.split("|types=")[1].split(";") if ":" in p) else "no-types")
        return k
    s = simple_stream("C20", "origins", "lib", "wxtables", ["origins", ctx["seed"], n], ["tables"],
                      nontrivial=lambda c, obs: "origins=|" not in obs, classify=classify)
    s.note = ("on-disk chains of 1-4 directories; the first 106 cases place each of the 53 recognised markers alone, once with the right "
              "node type and once with the wrong one; then random subsets of markers/decoys at random levels; real project_origins::origins/types")
    model_is_spec(s, lambda c, obs, mo: f"origins()/types() returned `{obs[:300]}`, the marked members of the chain / the documented markers present are `{mo[:300]}`")
    return [s]

PLANS["C20"] = dict(
    translate=True,
    modules=["Wx.Pure.Origins", "Wx.Pure.OriginsThm"],
    theorems=["Wp.origins_eq_doc", "Wp.types_eq_doc", "Wp.documentedS_typed", "Wp.origins_exact", "Wp.origins_sublist", "Wp.types_exact", "Wp.typeMarkers_documented", "Wp.typeMarkers_are_originMarkers",
              "Wp.originMarkers_recognised", "Wp.origins_translator_complete", "Wp.isVcs_documented", "Wp.isSoft_documented", "Wp.exactlyOne_holds", "Wp.classified", "Wp.all_complete"],
    bins=[("lib", ["wxtables"])],
    streams=c20_streams,
    sources=["crates/project-origins/src/lib.rs"],
    rule="a case is one directory chain on disk; non-trivial = at least one origin reported; distinct by (chain, observation)",
    assumptions=["DirList::obtain lists a directory as (name, file|dir) pairs — modelled as the Listing argument, exercised on a real filesystem",
                 "the documented type-marker table and the recognised-marker list are transcribed by hand in Wx/Pure/Origins.lean (the model the stream runs); Wx/Pure/OriginsThm.lean proves the regenerated tables equal to them"],
)

# ------------------------------------------------------------------------------------------------
# C19 signals and exit statuses

def c19_streams(ctx):
    n = 6000 if ctx["thorough"] else 1000
    def classify(c, obs):
        kind = c.split("\t")[0]
        if kind == "SIGP": return ["parse-" + ("ok" if obs.startswith("ok") else "err")]
        if kind == "ST": return ["status-" + obs.split(":")[0]]
        return [kind]
    s = simple_stream("C19", "signals", "lib", "wxtables", ["signals", ctx["seed"], n], ["tables"],
                      nontrivial=lambda c, obs: obs not in ("err", "success"), classify=classify)
    s.note = ("exhaustive: numbers -3..70 in three spellings, every nix signal name x {SIG-name, short} x {upper, lower, capitalised, mixed}, "
              "the control names, From<i32> on -3..70 and extremes, ALL raw wait statuses 0..=0xFFFF; plus random edits of valid spellings")
    s.exhaustive = False
    return [s]

PLANS["C19"] = dict(
    translate=True,
    modules=["Wx.Pure.Signals", "Wx.Pure.SignalsThm"],
    theorems=["Wp.display_parse", "Wp.posix_numbers", "Wp.spellings_agree", "Wp.only_stop_is_shadowed", "Wp.fromI32_fromNix", "Wp.translator_complete",
              "Wp.exit_codes", "Wp.term_signals"],
    bins=[("lib", ["wxtables"])],
    streams=c19_streams,
    sources=["crates/signals/src/lib.rs", "crates/events/src/process.rs"],
    rule="a case is one string to parse, one number, or one raw wait status; non-trivial = parses / is not plain success; distinct by (case, observation)",
    assumptions=["number<->name table of the linked nix crate is dumped at run time (Gen/NixTable.lean)",
                 "std::process::ExitStatus decoding is modelled by hand (wifexited/…); validated on all 65536 raw statuses every run",
                 "Windows-only code (cfg(windows)) is not modelled"],
)

# ------------------------------------------------------------------------------------------------
# C16 JSON round trip

def c16_streams(ctx):
    n = 8000 if ctx["thorough"] else 1500
    def classify(c, obs):
        kind = c.split("\t")[0]
        if kind == "ENC": return ["enc-" + c.split("\t")[1].split(":")[0]]
        if kind == "DEC": return ["dec->" + obs.split(":")[0]]
        return [kind]
    s = simple_stream("C16", "json", "lib", "wxtables", ["json", ctx["seed"], n], ["tables"],
                      nontrivial=lambda c, obs: obs not in ("-", "unknown", "kind=none"), classify=classify)
    s.note = ("ENC: every one of the 41 file event kinds, every first-class signal and custom numbers -3..70 and extremes, both as signal tags and exit "
              "signals, then random tags — serde_json output (field names and values) vs the model's encode, plus real round trip; EVT: whole "
              "events (0-5 tags, metadata, arrays) judged by the real round trip; DEC: tag objects of every kind with each other field present / "
              "absent / contradictory (completion: disposition x code x signal completely), then random objects — serde's result vs decode")
    return [s]

PLANS["C16"] = dict(
    translate=True,
    modules=["Wx.Pure.SerdeTag", "Wx.Pure.C16", "Wx.Pure.SerdeTagThm", "Wx.Pure.C16Thm"],
    theorems=["Wp.kind_roundtrip", "Wp.kind_roundtrip_all", "Wp.table_rows_are_printed", "Wp.allKinds_complete",
              "Wp.decode_encode", "Wp.decode_total", "Wp.decode_wf"],
    bins=[("lib", ["wxtables"])],
    streams=c16_streams,
    sources=["crates/events/src/serde_formats.rs", "crates/events/src/event.rs", "crates/events/src/process.rs", "crates/signals/src/lib.rs"],
    rule="a case is one tag to encode, one whole event to round-trip, or one JSON tag object to decode; non-trivial = not the unknown tag; distinct by (case, observation)",
    assumptions=["serde / serde_json follow the rename attributes (validated: the JSON field names and values are compared with the documented names in the driver)",
                 "Tag <-> SerdeTag conversions are modelled by hand (Wx/Pure/SerdeTag.lean); the 41-row kind table is generated from the source"],
)

# ------------------------------------------------------------------------------------------------
# C17 path summaries

def c17_streams(ctx):
    n = 40000 if ctx["thorough"] else 4000
    def classify(c, obs):
        k = ["common-" + ("none" if obs.startswith("COMMON=-") else "set")]
        for v in ("CREATED", "META_CHANGED", "REMOVED", "RENAMED", "WRITTEN", "OTHERWISE_CHANGED"):
            if "|" + v + "=" in obs: k.append(v)
        return k
    s = simple_stream("C17", "summary", "cli", "wxsummary", [ctx["seed"], n], ["pure"],
                      nontrivial=lambda c, obs: "=" in obs.split("||")[0][len("COMMON="):], classify=classify)
    s.note = ("batches of 0-4 events x 0-3 paths x 0-2 kinds, relative and absolute paths, shared bases, duplicates, paths equal to the common prefix, all file "
              "types; real summarise_events_to_env and (hook H1) events_to_simple_format vs the model; the harness also evaluates the property itself on the "
              "real output (entry in the variable of its kind, COMMON joined with the entry gives the path, strictly increasing entries, nothing else listed)")
    return [s]

PLANS["C17"] = dict(
    translate=True,
    modules=["Wx.Pure.C17", "Wx.Pure.C17b"],
    theorems=["Wp.bucket_is_code", "Wp.common_is_prefix", "Wp.common_is_longest", "Wp.common_none", "Wp.trunk_under", "Wp.strip_join", "Wp.sortDedup_spec", "Wp.bucket_mem",
              "Wp.summarise_vars", "Wp.summarise_entries", "Wp.summarise_complete", "Wp.entry_faithful", "Wp.entry_no_common", "Wp.common_longest",
              "Wp.simpleFormat_eq", "Wp.simpleFormat_append", "Wp.eventLines_length"],
    bins=[("cli", ["wxsummary"])],
    streams=c17_streams,
    sources=["crates/lib/src/paths.rs", "crates/cli/src/emits.rs"],
    rule="a case is one batch of events; non-trivial = at least one variable besides COMMON is set; distinct by (batch, observation)",
    assumptions=["std::path component semantics (strip_prefix, join, parent, ==) are modelled by hand as lists of components with an optional root"],
)

# ------------------------------------------------------------------------------------------------
# C18 spawned commands

def c18_streams(ctx):
    n, nspawn = (30000, 600) if ctx["thorough"] else (3000, 120)
    def classify(c, obs):
        f = c.split("\t")
        return [("exec" if f[1] == "E" else "shell"), "wraps=" + obs.split("wraps=")[1]]
    s = simple_stream("C18", "spawn", "lib", "wxspawn", ["generate", ctx["seed"], n, nspawn], ["pure"], classify=classify,
                      nontrivial=lambda c, obs: True)
    s.note = (f"random commands (strings assembled from the empty string, blanks, tabs, newlines, quotes, $HOME, *, back-ticks, ;, |, &&, \\, -c, --, multi-byte "
              f"UTF-8): program/arguments/wrappers of the real to_spawnable() vs the model; the first {nspawn} are really spawned through start_job with a spawn hook "
              "that sets an environment variable and the working directory — the helper child reports argv (hex), whether its process group / session differ "
              "from the harness's, cwd and the variable (oracle)")
    n2 = 3000 if ctx["thorough"] else 500
    def noshell_oracle(c, obs, mo):
        # "Without a shell the child receives the program and every argument byte for byte … with no splitting or interpretation": with -n the
        # argv captured right before the spawn is the command vector of the command line, word for word
        f = c.split("\t")
        if f[1] == "1" and obs.startswith("argv=") and obs.split(" wraps=")[0][5:] != f[5]:
            return f"-n (no shell): the command line's words are `{f[5]}` (hex), the child's argv is `{obs.split(' wraps=')[0][5:]}`"
        return None
    s2 = simple_stream("C18", "cli-argv", "cli", "wxcliargv", [ctx["seed"], n2], ["pure"], oracle=noshell_oracle,
                       classify=lambda c, obs: ["noshell=" + c.split("\t")[1], "wrap=" + c.split("\t")[4], ("exec" if " x2d63" not in obs else "shell -c")])
    s2.note = ("the CLI half: random -n / --shell=<x> / $SHELL / --wrap-process and command words through the REAL argument parser and make_config (hook H1); the program, "
               "arguments and wrappers captured in the CLI's spawn hook right before the spawn vs interpret + argv + wrappers of the model")
    return [s, s2]

PLANS["C18"] = dict(
    modules=["Wx.Pure.C18"],
    theorems=["Wp.argv_exec", "Wp.argv_shell", "Wp.wrappers_session", "Wp.wrappers_grouped", "Wp.wrappers_plain", "Wp.interpret_noshell",
              "Wp.interpret_shell", "Wp.splitWs_clean", "Wp.splitWs_flatten"],
    bins=[("lib", ["wxspawn"]), ("cli", ["wxcliargv"])],
    streams=c18_streams,
    sources=["crates/supervisor/src/command/conversions.rs", "crates/supervisor/src/command/program.rs", "crates/supervisor/src/command/shell.rs", "crates/cli/src/config.rs"],
    rule="a case is one Command (program + spawn options); every case is non-trivial; distinct by (command, observation)",
    assumptions=["execve delivers argv byte for byte and process-wrap's ProcessGroup / ProcessSession / KillOnDrop do what they document: validated by the real spawns, not proved"],
    partial="OS behaviour (execve fidelity, effect of the group/session wrappers) is validated by real spawns, not proved",
)

# ------------------------------------------------------------------------------------------------
# glob family: C03 ignore files, C11 globset filterer, C14 discovery

import os, subprocess

def glob_base_stream(pid, ctx):
    n = 60000 if ctx["thorough"] else 8000
    s = simple_stream(pid, "glob", "lib", "wxglob", [ctx["seed"], n], ["glob"],
                      nontrivial=lambda c, obs: obs != "none", classify=lambda c, obs: [obs.split(":")[0], "mode-" + c.split("\t")[3]])
    s.note = ("validation of the glob matcher model against the real `ignore` crate: 35 pattern shapes (classes, every ** position, escapes, trailing space, "
              "non-ASCII), three roots, files and directories, matched and matched_path_or_any_parents")
    return s

def second_pass(pid, name, rewrite, driver_args):
    """run the driver again on rewritten case lines (used for spec / oracle evaluation); returns list of lines"""
    d = core.WORK / pid / name
    cases = core.read_lines(d / "cases.txt")
    with open(d / "cases2.txt", "w") as f:
        for c in cases: f.write(rewrite(c) + "\n")
    ok, err = core.run_driver(driver_args, d / "cases2.txt", d / "spec.txt")
    return core.read_lines(d / "spec.txt") if ok else None

def c03_streams(ctx):
    n = 30000 if ctx["thorough"] else 4000
    def prefix_sibling(c):
        # a probe is non-trivial when some ignore file's directory is a STRING prefix but not a component ancestor of it
        f = c.split("\t")
        keys = [x.split("\x1e")[0] for x in f[3].split("\x1d") if x]
        for pr in f[4].split("\x1d"):
            p = pr.split("\x1e")[0]
            for k in keys:
                if k != "-" and p.startswith(k) and not (p == k or p.startswith(k + "/")): return True
        return False
    def classify(c, obs):
        k = ["mode-" + c.split("\t")[2]]
        if obs != "error":
            for r in obs.split(";"): k.append("verdict-" + r.split(":")[0].split("/")[0])
        if prefix_sibling(c): k.append("prefix-sibling-probe")
        return k
    s = simple_stream("C03", "ignore-filter", "lib", "wxignore", [ctx["seed"], n], ["glob"],
                      nontrivial=lambda c, obs: prefix_sibling(c), classify=classify)
    s.note = ("1-4 ignore files at prefix-related directories (a/ab, test/tests, x.d/x.d2) or global, built by IgnoreFilter::new (same-directory files included, some padded so "
              "that read completion order differs from listed order) or by successive add_file; six probes each, inside and outside the origin, files and directories; "
              "real match_path + check_dir vs the model (repaired lookup). Oracle: 'is it ignored' vs the component-wise specification, unspecified case excluded")
    # oracle pass: the component-wise specification on the same constructions
    spec = second_pass("C03", "ignore-filter", lambda c: "\t".join((lambda f: f[:2] + ["spec" if f[2] == "new" else "specadd"] + f[3:])(c.split("\t"))), ["glob"])
    if spec is None:
        s.error = "spec pass of the driver failed"
    elif not s.error:
        impl = core.read_lines(core.WORK / "C03" / "ignore-filter" / "impl.txt")
        cases = core.read_lines(core.WORK / "C03" / "ignore-filter" / "cases.txt")
        for i, (c, im, sp) in enumerate(zip(cases, impl, spec)):
            if im == "error" or sp == "error": continue
            for j, (a, b) in enumerate(zip(im.split(";"), sp.split(";"))):
                if b == "unspecified": continue
                ign_impl = a.startswith("ignore:")
                ign_spec = b.startswith("ignore:")
                if ign_impl != ign_spec:
                    probe = c.split("\t")[4].split("\x1d")[j].split("\x1e")
                    s.oracle_failures.append((i, c, im, f"probe {probe[0]} (dir={probe[1]}): the code says {'ignored' if ign_impl else 'not ignored'} ({a}), git-style evaluation of its ancestors' files says {'ignored' if ign_spec else 'not ignored'} ({b})"))
                    break
    return [s, glob_base_stream("C03", ctx)]

PLANS["C03"] = dict(
    modules=["Wx.Glob.C03", "Wx.Glob.IgnoreFilterC", "Wx.Glob.Prefix", "Wx.Glob.GlobThm", "Wx.Glob.GlobPath"],
    theorems=["Sp.IF.matchPathC_eq_spec", "Sp.C03.go_eq_spec", "Sp.C03.spec_congr", "Sp.C03.spec_keys_congr", "Sp.C03.scoping_law", "Sp.C03.goOld_ne_spec",
              "Sp.C03.ancestor_spec", "Sp.Pfx.body_prefix_shape", "Sp.IF.splitComps_ok",
              "Sp.Glob.name_ignores_iff", "Sp.Glob.up_iff", "Sp.Glob.parentOf_join_snoc", "Sp.Glob.mtch_name_join", "Sp.Glob.addLine_name", "Sp.Glob.addLine_ok", "Sp.Glob.parseGo_fuel"],
    bins=[("lib", ["wxignore", "wxglob"])],
    streams=c03_streams,
    sources=["crates/ignore-files/src/filter.rs", "crates/filterer/ignore/src/lib.rs"],
    rule="a case is one filter construction with six probes; non-trivial = some ignore file's directory is a string prefix but not an ancestor of a probe (prefix-sibling probe); distinct by (construction, observation)",
    assumptions=["radix_trie::get_ancestor returns the longest key that is a string prefix (modelled)", "the ignore crate's gitignore matching is modelled in Wx/Glob/Glob.lean and validated by the glob stream; the theorems are parametric in the per-node verdict function",
                 "tokio file reads: only the order in which same-directory files are applied matters (listed order)"],
)

def c11_streams(ctx):
    n = 30000 if ctx["thorough"] else 5000
    def classify(c, obs):
        f = c.split("\t")
        k = [("filters" if f[2] else "no-filters"), ("ignores" if f[3] else "no-ignores"), ("exts" if f[6] else "no-exts"), ("whitelist" if f[4] else "no-whitelist")]
        for v in obs.split(";"): k.append("verdict-" + v)
        return k
    s = simple_stream("C11", "globset", "lib", "wxglobset", [ctx["seed"], n], ["glob"],
                      nontrivial=lambda c, obs: "true" in obs and "false" in obs, classify=classify)
    s.note = ("random GlobsetFilterer configurations (filters, ignores, whitelist, ignore files, extensions) x 6 events (0-3 paths, file/dir/unknown, inside and outside the "
              "origin): real check_event vs the abstract decision of Wx/Glob/C11.lean instantiated with the concrete matcher (checkEventC), i.e. the right-hand side of the documented rule")
    model_is_spec(s, lambda c, obs, mo: f"check_event verdicts for the six events are `{obs}`, the documented rule gives `{mo}`")
    return [s, glob_base_stream("C11", ctx)]

PLANS["C11"] = dict(
    modules=["Wx.Glob.C11", "Wx.Glob.C11Inst", "Wx.Glob.GlobThm", "Wx.Glob.GlobPath", "Wx.Glob.GlobPath2", "Wx.Glob.GlobPath3"],
    theorems=["Sp.Glob.parseGo_fuel", "Sp.Glob.addLine_ok", "Sp.Glob.addLine_name", "Sp.Glob.name_matches", "Sp.Glob.addLine_star_ext", "Sp.Glob.star_ext_matches", "Sp.Glob.addLine_rooted", "Sp.Glob.rooted_matches", "Sp.Glob.addLine_inner_slash", "Sp.Glob.addLine_dir_contents", "Sp.Glob.dir_contents_matches", "Sp.Glob.recPrefix_lits_iff", "Sp.Glob.star_ext_iff", "Sp.Glob.dir_contents_iff", "Sp.Glob.parse_plain", "Sp.Glob.ext_ignores_iff", "Sp.Glob.lastComp_ignores_iff", "Sp.Glob.extGlob_lastComp", "Sp.Glob.nameGlob_lastComp", "Sp.Glob.name_ignores_iff", "Sp.Glob.dir_line_ignores_iff", "Sp.Glob.lastCompDir_ignores_iff",
              "Sp.C11.no_paths_pass", "Sp.C11.whitelisted_pass", "Sp.C11.igf_rejects", "Sp.C11.check_iff", "Sp.C11.wanted_iff", "Sp.C11.wanted_empty",
              "Sp.C11.ignore_precedence", "Sp.C11.verdict_append", "Sp.C11.verdict_insert", "Sp.C11.ignore_monotone", "Sp.C11.empty_passes",
              "Sp.GS.c11_no_paths", "Sp.GS.c11_whitelisted", "Sp.GS.c11_empty_config"],
    bins=[("lib", ["wxglobset", "wxglob"])],
    streams=c11_streams,
    sources=["crates/filterer/globset/src/lib.rs", "crates/filterer/ignore/src/lib.rs"],
    rule="a case is one filterer configuration with six events; non-trivial = the six verdicts are not all equal; distinct by (configuration, observation)",
    assumptions=["the glob matcher, Path::extension and the ignore-file layer are parameters of the theorems (Env); their concrete models are validated by the streams",
                 "the glob model (Wx/Glob/Glob.lean: add_line pre-processing, globset parser, matcher) is tied to the real `ignore` crate by the glob stream; what it MEANS on the property's grammar (name, *.ext, /rooted, a/b, x/**, with ! and trailing /) is proved (Wx/Glob/GlobThm.lean): the token list each line parses to and exactly which relative paths it matches, for every name / extension / path"],
)

def c14_streams(ctx):
    n = 8000 if ctx["thorough"] else 1000
    def classify(c, obs):
        f = c.split("\t")
        k = ["found=" + str(min(len([x for x in obs.split(";") if x]), 5)), ("watch-list" if f[2] else "no-watch-list"), ("explicit" if f[5] else "no-explicit")]
        for v in (".git", ".hg", ".svn", "_darcs", ".bzr", ".pijul", ".fossil-settings"):
            if f[1] + "/" + v + "\x1e" in f[3] or "\x1f" + f[1] + "/" + v in f[3]: k.append("origin-has-" + v)
        return k
    s = simple_stream("C14", "discover", "lib", "wxdiscover", [ctx["seed"], n], ["glob"],
                      nontrivial=lambda c, obs: ";" in obs, classify=classify, timeout=3000)
    s.note = ("random trees on disk (depth <= 3, prefix-related names, every VCS metadata directory name at the origin and deeper, empty ignore files, origin-level VCS files, "
              "watch lists, explicit ignore files); the model is fed the real read_dir order; ordered result list of the real from_origin vs the model walker; oracle: the "
              "result set (minus explicit files) equals the specification (files of directories reachable without entering a directory its proper ancestors' files ignore)")
    spec = second_pass("C14", "discover", lambda c: "DSPEC" + c[4:], ["glob"])
    if spec is None:
        s.error = "spec pass of the driver failed"
    elif not s.error:
        d = core.WORK / "C14" / "discover"
        for i, (c, im, sp) in enumerate(zip(core.read_lines(d / "cases.txt"), core.read_lines(d / "impl.txt"), spec)):
            f = c.split("\t")
            explicit = set(f[5].split("\x1f")) if f[5] else set()
            got = sorted(set(x.split("@")[0] for x in im.split(" ERRS=")[0].split(";") if x) - explicit)
            exp = sorted(x for x in sp.split(";") if x)
            if got != exp:
                miss = [x for x in exp if x not in got]; extra = [x for x in got if x not in exp]
                s.oracle_failures.append((i, c, im, f"discovery result differs from the specification: missing {miss} unexpected {extra}"))
        # third pass: the PROVED abstract walker (Dw.visits' over Dw.specEnv = C03's filter specification), instantiated on the same tree
        proved = second_pass("C14", "discover", lambda c: "DPROVED" + c[4:], ["glob"])
        if proved is None: s.error = "proved-walker pass of the driver failed"
        else:
            nb = 0
            for i, (c, im, pr) in enumerate(zip(core.read_lines(d / "cases.txt"), core.read_lines(d / "impl.txt"), proved)):
                f = c.split("\t")
                explicit = set(f[5].split("\x1f")) if f[5] else set()
                got = sorted(set(x.split("@")[0] for x in im.split(" ERRS=")[0].split(";") if x) - explicit)
                if got != sorted(x for x in pr.split(";") if x):
                    nb += 1
                    if len(s.disagreements) < 40: s.disagreements.append((i, c, im, "proved walker (visits' over specEnv): " + pr))
            s.bump("trees also run through the proved abstract walker", len(proved)); s.bump("proved walker differs", nb)
    return [s]

PLANS["C14"] = dict(
    modules=["Wx.Disc.C14", "Wx.Disc.C14wf", "Wx.Glob.C03", "Wx.Disc.C14Inst", "Wx.Disc.Concrete"],
    theorems=["Dw.discovery_with_c03_filter", "Dw.visit_spec", "Dw.sv_order", "Dw.sv_sound", "Dw.sv_complete", "Dw.visit_spec'", "Sp.C03.scoping_law"],
    bins=[("lib", ["wxdiscover"])],
    streams=c14_streams,
    sources=["crates/ignore-files/src/discover.rs", "crates/ignore-files/src/filter.rs"],
    rule="a case is one directory tree on disk with its ignore files; non-trivial = at least two ignore files discovered; distinct by (tree, observation)",
    assumptions=["read_dir / file_type / find_file (regular and non-empty) are inputs of the model (the real listing order is recorded and fed to it)",
                 "the walker theorems are about the structural recursion of Wx/Disc/Walk.lean (filter as a parameter with the scoping law proved in C03); that the real stack walk is this recursion is validated by the discover stream, not proved"],
    partial="walker = specification is proved for the structural-recursion model with the filter as a parameter; the stack-and-skip-list code is tied to it by correspondence only",
)

# ------------------------------------------------------------------------------------------------
# the job task: C04, C06, C07, C09, C10 share the `job-sim` stream

import random, hashlib
from concurrent.futures import ThreadPoolExecutor

JOB_FIXED = [l for l in """
f1 S30 s:start;y;a:10;s:gstop:15:100;a:300
f1b S30 s:start;y;a:10;s:gstop:15:100;s:run:1;a:300
f6 I s:towait;a:50;s:start;y
f6b F,I s:start;y;s:towait;a:50
ign I s:start;y;a:10;s:gstop:15:100;a:300
f4 I,E50,E50,E50 s:start;y;a:10;s:gtryrestart:15:20;a:300
f2 S10,F,I s:start;y;s:seterr;y;s:gtryrestart:15:100;a:300
f2b S10,F,I s:start;y;s:gtryrestart:15:100;s:run:1;a:300
rst E1000,I s:start;a:5;s:restart;a:5;s:run:1;y
grst S30,I s:start;a:5;s:grestart:2:100;a:200;s:run:1;y
grst0 I,I s:start;a:5;s:grestart:15:0;a:5;s:run:1;y
q I s:run:1;s:run:2;s:run:3;y
try I s:tryrestart;y;s:run:1;s:start;y;s:tryrestart;y;s:run:2;y
sigs I s:start;y;s:signal:10;s:signal:0;s:signal:99;y
del I s:start;y;s:towait;s:delete;a:10;s:start;y
f16 I s:towait;y;drop;y
f16b I s:start;y;s:towait;drop;a:10
f16c I s:start;y;s:gstop:15:50;drop;a:100
nat E50 s:start;s:towait;a:100;s:run:1;s:towait;y
f5 I s:towait;s:towait;s:towait;y;s:deletenow;y
f5b I s:start;y;s:towait;s:towait;s:stop;y
f7a I y;s:run:1;s:deletenow;y
f7b I y;s:start;s:towait;a:10
f7c I y;s:run:1;s:run:2;s:towait;s:deletenow;y
f7d I,I s:start;y;s:gstop:15:50;y;s:run:1;s:towait;s:deletenow;a:100
edge S50 s:start;y;s:gstop:15:50;a:100
edge2 E60 s:start;a:10;s:gstop:15:50;a:100
inj1 I s:start;y;s:gstop:15:0;m:towait;a:50
inj2 I s:start;y;s:gstop:15:40;m:deletenow;a:100
inj3 I,I s:start;y;s:run:1;m:restart;s:run:2;a:50
inj4 I m:start;a:10
inj5 E20 s:start;a:20;s:run:3;m:stop;a:30
inj6 I,I s:start;y;s:gtryrestart:15:0;m:towait;s:run:4;a:50
inj7 I s:start;y;s:gstop:15:0;m:deletenow;a:50
inj8 I s:start;y;s:gstop:15:0;M:towait;a:50
inj9 I,I s:start;y;s:gtryrestart:15:0;M:towait;s:run:4;a:50
inj10 I s:start;y;s:gstop:15:0;M:stop;a:20
""".strip().splitlines()]

JOB_ALPHABET = ["start", "stop", "gstop:15:20", "restart", "grestart:15:20", "tryrestart", "gtryrestart:15:20", "signal:10", "towait", "delete", "deletenow", "run:1", "seterr", "continue"]

JOB_ASYNC = [
    "as1 E30,I s:runasync:1;s:start;s:runasync:2;y;s:seterrasync;s:sethookasync;a:50;s:start;y;s:runasync:3;y",
    "as2 F,I s:seterrasync;s:start;y;s:sethook;s:start;y;s:unseterr;s:tryrestart;y",
    "as3 I s:sethookasync;s:start;s:runasync:4;s:deletenow;s:runasync:5;y",
    "as4 F,F,I s:seterrasync;s:restart;s:runasync:6;y;s:seterr;s:start;y;s:start;a:10",
    "as5 S20,I s:start;y;s:sethookasync;s:gtryrestart:15:50;s:runasync:7;a:30;s:runasync:8;a:100",
]
JOB_CLONES = [
    "cl1 E30 s:start;y;s:towait;c:1;c:1;c:2;a:50",
    "cl2 I s:start;y;s:gstop:15:20;c:1;a:10;c:1;a:50;c:1",
    "cl3 I s:deletenow;a:10;s:start;c:1;y",
    "cl4 I s:towait;c:0;s:delete;c:1;c:0;y",
    "cl5 I s:start;s:towait;c:1;c:1;s:deletenow;c:3;y;c:1",
    "cl6 S20,I s:start;y;s:gtryrestart:15:50;c:1;c:1;a:30;c:1;a:100",
    "cl7 F s:start;c:0;c:0;y;c:0",
    "cl8 I s:start;y;s:towait;c:1;drop;c:1;a:50;c:2",
]

# "all queue contents at the time the job task looks at its queues": far more controls pending in one queue than any fixed-size buffer
# would hold (a burst from a sender that never yields; controls piling up behind an armed grace timer; many wait-for-end tickets)
JOB_BIG = [
    "big1 I s:start;y;" + ";".join(f"n:run:{k}" for k in range(150)) + ";s:run:999;y",
    "big2 I,I s:start;y;s:gstop:15:50;" + ";".join(f"n:run:{k}" for k in range(140)) + ";s:start;a:100",
    "big3 E40 s:start;y;" + ";".join("n:towait" for _ in range(150)) + ";s:towait;a:100",
    "big4 I s:start;y;" + ";".join(f"n:run:{k}" for k in range(135)) + ";s:deletenow;y",
]

def job_scripts(seed, n_random, exhaustive_len):
    r = random.Random(seed)
    out = list(JOB_FIXED) + JOB_CLONES + JOB_ASYNC + JOB_BIG
    # bounded-exhaustive: every sequence of `exhaustive_len` API calls over the public alphabet, burst and settled, x 3 behaviours
    def seqs(k):
        if k == 0: yield []; return
        for s in seqs(k - 1):
            for a in JOB_ALPHABET: yield s + [a]
    i = 0
    for behs in ("I", "S10,E30", "F,I"):
        for sq in seqs(exhaustive_len):
            for sep in ("", "y"):
                ops = []
                for a in sq:
                    ops.append("s:" + a)
                    if sep: ops.append(sep)
                ops.append("a:100")
                out.append(f"x{i} {behs} {';'.join(ops)}"); i += 1
    # C10-shaped: let the task park, then a burst mixing priorities, with and without an armed timer
    for j in range(60):
        pre = r.choice(["y", "s:start;y", "s:start;y;s:gstop:15:50;y", "s:start;y;s:gtryrestart:15:50;y"])
        burst = [r.choice(["s:run:%d" % k, "s:run:%d" % k, "s:towait", "s:deletenow", "s:start", "s:stop", "n:run:%d" % (k + 50)]) for k in range(r.randint(2, 5))]
        out.append(f"p{j} {r.choice(['I', 'I,I', 'S30,I'])} {pre};{';'.join(burst)};a:{r.choice([10, 100])}")
    # a second sender on another thread: the send lands while the task is between dequeuing a control and its next `recv`
    # (`m:<api>`), with zero and non-zero grace periods, every priority
    for j in range(120):
        pre = r.choice(["s:start;y", "s:start;y", "y", "s:start;y;s:gstop:15:30;a:10"])
        first = r.choice(["s:gstop:15:0", "s:gstop:15:0", "s:gstop:15:30", "s:gtryrestart:15:0", "s:gtryrestart:15:30", "s:run:7", "s:stop", "s:restart", "s:start", "s:grestart:15:0"])
        inj = r.choice(["M:towait", "M:towait", "m:towait", "M:deletenow", "m:run:8", "M:run:8", "M:stop", "m:start", "M:signal:10", "m:delete"])
        tail = [r.choice(["s:run:%d" % (k + 20), "s:towait", "n:start", "s:signal:10"]) for k in range(r.randint(0, 2))]
        out.append(f"m{j} {r.choice(['I', 'I,I', 'S30,I', 'E40,I'])} {pre};{first};{inj};{';'.join(tail + ['a:' + str(r.choice([10, 60, 100]))])}")
    def beh():
        k = r.random()
        if k < 0.3: return f"E{r.choice([0,1,5,10,20,50,100,200])}"
        if k < 0.6: return f"S{r.choice([0,1,5,10,30,50,100,150])}"
        if k < 0.9: return "I"
        return "F"
    def api():
        k = r.choice(["start", "start", "stop", "gstop", "restart", "grestart", "tryrestart", "gtryrestart", "signal", "towait", "towait", "delete", "deletenow", "run", "run", "seterr", "unseterr", "continue",
                      "runasync", "seterrasync", "sethook", "sethookasync"])
        g = r.choice([1, 2, 3, 9, 10, 12, 15, 15, 15, 0, 64]); ms = r.choice([0, 1, 5, 10, 20, 50, 100])
        if k in ("gstop", "grestart", "gtryrestart"): return f"{k}:{g}:{ms}"
        if k == "signal": return f"signal:{g}"
        if k in ("run", "runasync"): return f"{k}:{r.randrange(100)}"
        return k
    for i in range(n_random):
        behs = ",".join(beh() for _ in range(r.randint(1, 4)))
        ops = []
        nt = 0; awaited = []        # ticket numbers handed out so far; those somebody awaits (and can clone)
        for _ in range(r.randint(2, 12)):
            ops.append(("s:" if r.random() < 0.85 else "n:") + api())
            if ops[-1][0] == "s": awaited.append(nt)
            nt += 1
            k = r.random()
            if k < 0.35: ops.append("y")
            elif k < 0.75: ops.append(f"a:{r.choice([0,1,5,10,20,30,50,100,150,300])}")
            # "every clone of a ticket, any number of tasks waiting": further tasks await clones of earlier tickets (also of clones)
            while awaited and r.random() < 0.12:
                ops.append(f"c:{r.choice(awaited)}"); awaited.append(nt); nt += 1
        if r.random() < 0.08:
            # every Job handle is dropped at a random point: nothing can be sent afterwards
            k = r.randrange(len(ops) + 1)
            ops = ops[:k] + ["drop"] + [o for o in ops[k:] if o[0] in "ay"]
        ops.append(f"a:{r.choice([50,300,500])}")
        out.append(f"r{seed}_{i} {behs} {';'.join(ops)}")
    return out

def job_norm(t):
    return "|".join(e for e in t.split("|") if not e.endswith(":ended"))

def job_oracles(script, trace):
    """sound trace-level checks of the job properties on one implementation trace; returns list of (property, what)"""
    out = []
    ev = [e for e in trace.split("|") if e and not e.startswith("unres:")]
    unres = [x for x in trace.rsplit("unres:", 1)[1].split(",") if x] if "unres:" in trace else []
    # C04: never two spawned-and-unreaped children
    live = set()
    for e in ev:
        p = e.split(":")
        if p[1] == "spawn":
            if live: out.append(("C04", f"spawn of {p[2]} at {p[0]} ms while {sorted(live)} not yet reaped"))
            live.add(p[2])
        elif p[1] == "reaped": live.discard(p[2])
    # C07: the task must not die by panic; once the job has ended no ticket may stay unresolved
    if any(e.split(":")[1] == "panicked" for e in ev): out.append(("C07", "the job task panicked"))
    ops = script.split(" ")[2].split(";")
    ended = any(e.endswith(":ended") for e in ev)
    if ended and unres: out.append(("C07", f"job ended but tickets {unres} never resolved"))
    # C07 / C09: with no child left (every spawned one reaped) nothing can hold a control back, so by the end of the
    # script (which ends with a long quiet period) every awaited ticket must have resolved
    sends = []
    for o in ops:
        if o[:2] in ("s:", "n:", "m:", "M:"): sends.append(o)
        elif o[:2] == "c:": sends.append(sends[int(o[2:])] if int(o[2:]) < len(sends) else "s:?")      # a clone waits for what its original waits for
    has_inj = any(o[:2] in ("m:", "M:") for o in ops)    # an injected send may have been dropped: ticket numbers after it are then one lower
    if not live and unres:
        for u in unres:
            o = sends[int(u)] if int(u) < len(sends) else "?"
            if has_inj: o = "?:(a control of this script)"
            if o.split(":")[1] == "towait": out.append(("C09", f"wait-for-end ticket {u} not resolved although nothing is running"))
            out.append(("C07", f"ticket {u} of `{o}` never resolved although no process is left and the script has gone quiet"))
            if not ended: out.append(("C10", f"the control behind ticket {u} (`{o}`) was never executed: the job is alive and idle, nothing can hold a control back, yet its ticket never resolved — controls are executed exactly once"))
    # C06 / C09: each spawn is caused by one spawning control (start, restart, try-restart and graceful variants)
    nspawnctl = sum(1 for o in sends if o.split(":")[1] in ("start", "restart", "grestart", "tryrestart", "gtryrestart", "continue"))
    nspawn = sum(1 for e in ev if e.split(":")[1] in ("spawn", "spawnfail"))
    if nspawn > nspawnctl:
        out.append(("C06", f"{nspawn} spawn attempts for {nspawnctl} controls that can spawn: a restart started more than once"))
        out.append(("C09", f"{nspawn} spawn attempts for {nspawnctl} controls that can spawn"))
    # C10: normal-priority run markers execute in send order
    sent_runs = [o.split(":")[2] for o in ops if o[:2] in ("s:", "n:", "m:", "M:") and o.split(":")[1] in ("run", "runasync")]
    ran = [e.split(":")[2] for e in ev if e.split(":")[1] == "run"]
    it = iter(sent_runs)
    if len(set(sent_runs)) == len(sent_runs) and not all(any(x == y for y in it) for x in ran):
        out.append(("C10", f"run markers executed as {ran}, sent as {sent_runs}"))
    if len(ran) != len(set(ran)) and len(set(sent_runs)) == len(sent_runs): out.append(("C07", f"a run marker executed twice: {ran}"))
    # C10: urgent before normal — a run marker sent in the same burst as a delete_now (nothing runs between the sends of a
    # burst: the harness is single-threaded) is still pending when the urgent Stop+Delete is, so it must never execute
    burst = []
    for o in ops + ["y"]:
        if o[:2] in ("s:", "n:"): burst.append(o); continue
        if o[:2] == "c:": continue       # cloning a ticket does not yield to the job task
        if any(b.split(":")[1] == "deletenow" for b in burst):
            for b in burst:
                if b.split(":")[1] in ("run", "runasync") and b.split(":")[2] in ran and sent_runs.count(b.split(":")[2]) == 1:
                    out.append(("C10", f"normal control run:{b.split(':')[2]} executed although an urgent delete-now was pending with it (burst {burst})"))
        burst = []
    # C06: no kill before the grace period of some graceful control has elapsed, in scripts without forceful controls
    forceful = any(o[:2] in ("s:", "n:", "m:", "M:") and o.split(":")[1] in ("stop", "restart", "tryrestart", "delete", "deletenow", "continue") for o in ops) or "drop" in ops
    if not forceful:
        now = 0; deadlines = []
        for o in ops:
            p = o.split(":")
            if p[0] == "a": now += int(p[1])
            elif p[0] in ("s", "n", "m", "M") and p[1] in ("gstop", "grestart", "gtryrestart"): deadlines.append(now + int(p[3]))
        for e in ev:
            p = e.split(":")
            if p[1] == "kill" and not any(d <= int(p[0]) for d in deadlines):
                out.append(("C06", f"kill of {p[2]} at {p[0]} ms, before any grace period had elapsed (deadlines {deadlines})"))
    return out

def job_stream(pid, ctx, n_random=None):
    n_random = n_random or (60000 if ctx["thorough"] else 12000)
    s = core.StreamResult("job-sim")
    d = core.WORK / pid / "job-sim"; d.mkdir(parents=True, exist_ok=True)
    scripts = core.corpus("job-sim") + job_scripts(ctx["seed"], n_random, 3 if ctx["thorough"] else 2)
    # corpus first
    corpus = core.VERIF / "corpus" / "job"
    if corpus.exists():
        for f in sorted(corpus.glob("*.txt")): scripts = [l for l in f.read_text().splitlines() if l.strip()] + scripts
    (d / "cases.txt").write_text("\n".join(scripts) + "\n")
    impl, culprits, fatal = core.run_chunks("wxjob", scripts, 12, 600 if ctx["thorough"] else 150)
    if fatal: s.error = fatal; return s
    for c, why in culprits: s.oracle_failures.append((scripts.index(c), c, "", f"[{pid}] the job task gave no answer on this script: {why}"))
    scripts = [c for c in scripts if c in impl]
    (d / "cases.txt").write_text("\n".join(scripts) + "\n")
    (d / "impl.txt").write_text("\n".join(impl[c] for c in scripts) + "\n")
    ok, err = core.run_driver(["job", "all"], d / "cases.txt", d / "model.txt")
    if not ok: s.error = "wxdriver job failed: " + err[-800:]; return s
    model = core.read_lines(d / "model.txt")
    s.evaluations = len(scripts)
    for i, (c, mo) in enumerate(zip(scripts, model)):
        ia, ta = impl[c].split(" ", 1); ib, tb = mo.split(" ", 1) if " " in mo else (mo, "")
        alts = [job_norm(x) for x in tb.split(" ## ")]
        if len(alts) > 1: s.bump("racy (model admits several traces)")
        if not ta.endswith("unres:"): s.bump("ends with unresolved tickets")
        if "spawn:" in ta: s.bump("spawns a child")
        if "kill:" in ta: s.bump("kills a child")
        if "drop" in c: s.bump("drops the handles")
        s.bump("kind-" + c[0])
        if job_norm(ta) not in alts and len(s.disagreements) < 200:
            s.disagreements.append((i, c, ta, " ## ".join(alts[:3])))
        for prop, what in job_oracles(c, ta):
            s.oracle_failures.append((i, c, ta, f"[{prop}] {what}"))
        # C06 "force-kills it when the grace period elapses": the model kills exactly at expiry (theorems timer_fires / expiry_kills,
        # c07_timer_fresh), so a kill of the same child later than in EVERY admissible model trace came after the grace period had elapsed
        # C09 "the moments at which tickets resolve are those of the documented semantics": the model's raise moments are proved to be
        # the documented machine's (handle_refines / waitBranch_refines, third conjunct), so a ticket that resolves at a moment no
        # admissible model trace has (or never, although every model trace resolves it) resolves at an undocumented moment
        # a moment = the instant AND the place among the process-visible effects of that instant (a ticket that resolves before the spawn hook
        # and the respawn of its restart have run resolves earlier than documented, although the virtual clock shows the same millisecond:
        # an async hook may take any amount of real time)
        def tks(t):
            out = {}; seen = 0
            for e in t.split("|"):
                f = e.split(":")
                if f[1:2] == ["tk"]: out[f[2]] = (int(f[0]), seen)
                elif len(f) > 1 and f[1] in ("hook", "spawn", "spawnfail", "signal", "kill", "reaped", "run", "errh"): seen += 1
            return out
        if job_norm(ta) not in alts:
            it = tks(ta); ats = [tks(a) for a in alts]
            for u in sorted(set(it) | set().union(*[set(a) for a in ats]) if ats else set(it)):
                want = {a.get(u) for a in ats}
                if it.get(u) not in want:
                    fmt = lambda x: "never" if x is None else f"at {x[0]} ms after {x[1]} process-visible effects (hook calls, spawns, signals, kills, reaps, run markers, error-handler calls) of the run"
                    s.oracle_failures.append((i, c, ta, f"[C09] ticket {u} resolves {fmt(it.get(u))}; the documented semantics resolve it {' or '.join(sorted(fmt(w) for w in want))}"))
                # C07 "its ticket resolves no later than the completion of that control (graceful stop: the earlier of the process exiting and the
                # grace period expiring)": in the model a control's flag is raised when the control completes (c07_noLost, c07_ticket_by_deadline),
                # so a ticket that EVERY admissible run resolves and the real task resolves later — or never — is late
                if ats and all(a.get(u) is not None for a in ats):
                    latest = max(a[u][0] for a in ats)
                    if it.get(u) is None: s.oracle_failures.append((i, c, ta, f"[C07] ticket {u} never resolves; its control completes (and every admissible run resolves the ticket) at {latest} ms at the latest"))
                    elif it[u][0] > latest: s.oracle_failures.append((i, c, ta, f"[C07] ticket {u} resolves at {it[u][0]} ms, later than the completion of its control ({latest} ms at the latest)"))
                    # C10 "awaiting the last ticket implies every earlier control has run": a ticket is the flag of the LAST control its API call sent
                    # (c10_ran: raised ⇒ taken, and everything sent before it in that queue taken before it). Resolving earlier — at an earlier instant,
                    # or before effects that every admissible run puts in front of it — means it resolved before that control had run
                    # C10 "urgent before high before normal, which is what lets … wait-for-end overtake queued work": the ticket of a wait-for-end
                    # that resolves LATER (instant, or place among the effects of its instant) than in every admissible run did not overtake
                    ops_ = c.split(" ")[2].split(";"); sends_ = []
                    for o_ in ops_:
                        if o_[:2] in ("s:", "n:"): sends_.append(o_)
                        elif o_[:2] == "c:": sends_.append(sends_[int(o_[2:])] if int(o_[2:]) < len(sends_) else "s:?")
                    if not any(o_[:2] in ("m:", "M:") for o_ in ops_) and u.isdigit() and int(u) < len(sends_) and sends_[int(u)].split(":")[1] == "towait":
                        latest_ = max(a[u] for a in ats)
                        if it.get(u) is not None and it[u] > latest_:
                            s.oracle_failures.append((i, c, ta, f"[C10] the wait-for-end behind ticket {u} (high priority) resolves at {it[u][0]} ms after {it[u][1]} process-visible effects; in every admissible run it has overtaken the queued normal controls and resolves at {latest_[0]} ms after {latest_[1]} effects at the latest"))
                    earliest = min(a[u] for a in ats)
                    if it.get(u) is not None and it[u] < earliest:
                        s.oracle_failures.append((i, c, ta, f"[C10] ticket {u} resolves at {it[u][0]} ms after {it[u][1]} process-visible effects; in every admissible run the control it stands for (the last one its API call sent) has run only at {earliest[0]} ms after {earliest[1]} effects: awaiting the ticket does not imply the controls have run"))
        # C09 "the job's observable state (pending, running, finished with status, and the previous run's result)": what a run marker saw
        # (JobTaskContext.current / previous) must be what some admissible run of the documented machine shows at that marker (c09_whole_run)
        def marks(t): return {e.split(":")[2]: ":".join(e.split(":")[3:5]) for e in t.split("|") if e.split(":")[1:2] == ["run"] and len(e.split(":")) >= 5}
        if job_norm(ta) not in alts:
            im_ = marks(ta); am_ = [marks(a) for a in alts]
            for k_, v_ in sorted(im_.items()):
                want = {a[k_] for a in am_ if k_ in a}
                if want and v_ not in want:
                    s.oracle_failures.append((i, c, ta, f"[C09] run marker {k_} saw the job as current:previous = {v_}; the documented state machine shows {' or '.join(sorted(want))} there (P pending, R running, F<n> finished with status n, - none)"))
        # C06 "delivers the requested signal to the running process immediately": a signal (child, number) that EVERY admissible run of the model
        # delivers — the model signals in the step that handles the graceful control (graceful_stop_step, signalChild_log) — and the real task
        # delivers less often, or later than in every admissible run, was not delivered as requested
        def sigs(t):
            out = {}
            for e in t.split("|"):
                f = e.split(":")
                if f[1:2] == ["signal"] and len(f) >= 4: out.setdefault((f[2], f[3]), []).append(int(f[0]))
            return out
        if job_norm(ta) not in alts and alts:
            isg = sigs(ta); asg = [sigs(a) for a in alts]
            for key in sorted(set.intersection(*[set(a) for a in asg])):
                need = min(len(a[key]) for a in asg); got_ = isg.get(key, [])
                if len(got_) < need:
                    s.oracle_failures.append((i, c, ta, f"[C06] signal {key[1]} was delivered to {key[0]} {len(got_)} time(s); every admissible run of the documented machine delivers it {need} time(s) (at {sorted(set(t_ for a in asg for t_ in a[key]))} ms): a graceful control did not deliver its signal"))
                elif got_ and need and min(got_) > max(min(a[key]) for a in asg):
                    s.oracle_failures.append((i, c, ta, f"[C06] signal {key[1]} reached {key[0]} at {min(got_)} ms; the graceful control that requests it delivers it immediately, at {max(min(a[key]) for a in asg)} ms at the latest"))
        def kills(t): return {e.split(":")[2]: int(e.split(":")[0]) for e in t.split("|") if ":kill:" in e}
        ik = kills(ta)
        if ik and job_norm(ta) not in alts:
            mk = [kills(a) for a in alts]
            for ch, t in ik.items():
                if all(ch in m for m in mk) and t > max(m[ch] for m in mk):
                    s.oracle_failures.append((i, c, ta, f"[C06] {ch} was force-killed at {t} ms, {t - max(m[ch] for m in mk)} ms after its grace period had elapsed (the kill is due at {max(m[ch] for m in mk)} ms)"))
        if "spawn:" in ta: s.nontrivial.add(hashlib.md5((c.split(" ", 1)[1] + ta).encode()).digest()[:8])
        if i % max(1, len(scripts) // 4) == 0 and len(s.samples) < 4: s.samples.append({"script": c, "impl": ta[:300], "model": tb[:300]})
    # fault scripts (kill(), signal() or wait() of the child fails): compared with the fault-aware model AND judged by the trace-level oracles
    r = random.Random(ctx["seed"] * 131 + 7)
    fscripts = ["kf1 K0,I s:start;y;s:tryrestart;a:50", "kf2 K0,I s:start;y;s:restart;a:50;s:run:1;y", "kf3 K40,I s:start;y;s:stop;a:10;s:start;a:100",
                "kf4 K0 s:start;y;s:gstop:15:20;a:100;s:towait;s:deletenow;a:50", "kf5 G,I s:start;y;s:gstop:15:30;a:100;s:start;y", "kf6 K0,I s:start;y;s:gtryrestart:15:20;a:100;s:run:2;y",
                "wf1 W,I s:start;y;s:start;a:50", "wf2 W,I s:start;a:10;s:restart;a:50;s:run:3;y", "wf3 W s:start;y;s:stop;y;s:start;a:20"]
    for i in range(1500 if ctx["thorough"] else 300):
        behs = ",".join(r.choice(["K0", "K0", "K30", "K100", "G", "W", "W", "I", "E30", "S20", "F"]) for _ in range(r.randint(1, 3)))
        ops = []
        for _ in range(r.randint(2, 8)):
            a = r.choice(["start", "start", "stop", "gstop:15:20", "restart", "grestart:15:20", "tryrestart", "tryrestart", "gtryrestart:15:20", "signal:10", "towait", "run:%d" % r.randrange(50), "deletenow", "continue"])
            ops.append(("s:" if r.random() < 0.8 else "n:") + a)
            k = r.random()
            if k < 0.4: ops.append("y")
            elif k < 0.8: ops.append(f"a:{r.choice([0, 10, 20, 50, 100])}")
        ops.append("a:200")
        fscripts.append(f"kf{ctx['seed']}_{i} {behs} {';'.join(ops)}")
    fimpl, fculprits, ffatal = core.run_chunks("wxjob", fscripts, 4, 600 if ctx["thorough"] else 150)
    if ffatal: s.error = ffatal; return s
    for c, why in fculprits: s.oracle_failures.append((0, c, "", f"[{pid}] the job task gave no answer on this fault script: {why}"))
    (d / "faults.txt").write_text("\n".join(f"{c}\t{fimpl.get(c, '')}" for c in fscripts) + "\n")
    # the fault-aware task of the model (Wx/Job/Faults.lean: Jf.handleF / Jf.waitTurnsF) runs the same scripts
    (d / "fcases.txt").write_text("\n".join(fscripts) + "\n")
    ok, err = core.run_driver(["jobf", "all"], d / "fcases.txt", d / "fmodel.txt")
    if not ok: s.error = "wxdriver jobf failed: " + err[-600:]; return s
    fmodel = dict(zip(fscripts, core.read_lines(d / "fmodel.txt")))
    for i, c in enumerate(fscripts):
        if c not in fimpl: continue
        ta = fimpl[c].split(" ", 1)[1] if " " in fimpl[c] else ""
        s.evaluations += 1; s.bump("fault script (kill / signal / wait failure injected; fault-aware model Jf + oracles)")
        mo = fmodel.get(c, "")
        falts = [job_norm(x) for x in (mo.split(" ", 1)[1] if " " in mo else "").split(" ## ")]
        if job_norm(ta) not in falts:
            if len(s.disagreements) < 200: s.disagreements.append((len(scripts) + i, c, ta, " ## ".join(falts[:3])))
            # C07 / C09 under faults: a ticket resolving at a moment (or never) that no admissible run of the fault-aware model has
            def ftks(t): return {e.split(":")[2]: int(e.split(":")[0]) for e in t.split("|") if e.split(":")[1:2] == ["tk"]}
            it = ftks(ta); ats = [ftks(a) for a in falts]
            for u in sorted(set(it) | set().union(*[set(a) for a in ats])):
                want = {a.get(u) for a in ats}
                if it.get(u) not in want:
                    fmt = lambda x: "never" if x is None else f"at {x} ms"
                    for prop in ("C07", "C09"):
                        s.oracle_failures.append((len(scripts) + i, c, ta, f"[{prop}] with failing kill / signal / wait calls injected, ticket {u} resolves {fmt(it.get(u))}; a failed call ends its control (error handler, flag raised), which resolves it {' or '.join(sorted(fmt(w) for w in want))}"))
        for prop, what in job_oracles(c, ta):
            if prop in ("C04", "C07") and ("spawn of" in what or "panicked" in what or "job ended but" in what):
                s.oracle_failures.append((len(scripts) + i, c, ta, f"[{prop}] {what}"))
        # C07 "… and when spawning, signalling or killing fails": a failed kill / signal ends its control (error handler, flag raised), so
        # after the long quiet tail only wait-for-end tickets may still be open
        unres = [x for x in ta.rsplit("unres:", 1)[1].split(",") if x] if "unres:" in ta else []
        sends = [o for o in c.split(" ")[2].split(";") if o[:2] in ("s:", "n:")]
        for u in unres:
            o = sends[int(u)] if int(u) < len(sends) else "?:?"
            if o.split(":")[1] != "towait":
                s.oracle_failures.append((len(scripts) + i, c, ta, f"[C07] ticket {u} of `{o}` never resolved although the script has gone quiet (kill / signal failures injected: a failed call ends its control)"))
    s.note = ("scripts of API calls / virtual-time gaps / settles / handle drops against the real start_job (simulated child through the public spawn hook, paused clock, "
              "tickets polled by hand with recording wakers) vs the model's set of admissible traces: fixed scripts for every past finding, bounded-exhaustive sequences over the "
              "14-call public alphabet x {burst, settled} x 3 child behaviours, 60 park-then-mixed-priority-burst scripts, then seeded random scripts")
    return s

def jobmt_stream(pid, ctx):
    """C04 / C07 / C10 "concurrent senders on a multi-threaded runtime", "several concurrent senders (per-sender order must be preserved)":
    2-4 tasks send controls to clones of one Job at the same time, real time, multi-thread runtime, simulated child. The interleaving is the
    scheduler's, so there is no model comparison: schedule-independent oracles only."""
    n = 1500 if ctx["thorough"] else 300
    r = random.Random(ctx["seed"] * 977 + 5)
    s = core.StreamResult("job-mt")
    cases = []
    for i in range(n):
        behs = ",".join(r.choice(["I", "I", "S0", "S2", "S5", "E1", "E5", "E20", "F"]) for _ in range(r.randint(1, 4)))
        ends = r.random() < 0.15
        senders = []
        for si in range(r.randint(2, 4)):
            ops = []; k = 0
            for _ in range(r.randint(2, 7)):
                a = r.choice(["start", "start", "stop", f"gstop:15:{r.choice([0, 5, 20])}", "restart", f"grestart:15:{r.choice([0, 5, 20])}", "tryrestart", f"gtryrestart:15:{r.choice([0, 5, 20])}",
                              "signal:10", "run", "run", "run", "towait"] + (["delete", "deletenow"] if ends else []))
                if a == "run": a = f"run:{si}_{k}"; k += 1
                # wait-for-end is never awaited here: with a child that ignores signals and nobody stopping it, it legitimately never resolves
                ops.append(("n:" if a == "towait" or r.random() < 0.25 else "s:") + a)
                if r.random() < 0.2: ops.append(f"z:{r.choice([0, 1, 2])}")
            senders.append(";".join(ops))
        cases.append(f"mt{ctx['seed']}_{i} {behs} {'|'.join(senders)}")
    impl, culprits, fatal = core.run_chunks("wxjobmt", cases, 8, 600 if ctx["thorough"] else 200)
    if fatal: s.error = fatal; return s
    for c, why in culprits: s.oracle_failures.append((cases.index(c), c, "", f"[{pid}] no answer with concurrent senders: {why}"))
    s.evaluations = len([c for c in cases if c in impl])
    for i, c in enumerate(cases):
        if c not in impl: continue
        o = impl[c].split(" ", 1)[1]
        m = re.match(r"(\S*) unres=(\S*) dead=(\d) task=(\S+)$", o)
        if not m: s.oracle_failures.append((i, c, o, f"[{pid}] unparsable answer")); continue
        ev = [e for e in m.group(1).split("|") if e]; unres = [u for u in m.group(2).split(",") if u]; dead = m.group(3) == "1"; task = m.group(4)
        what = []
        live = set()
        for e in ev:
            f = e.split(":")
            if f[0] == "spawn":
                if live: what.append(("C04", f"{f[1]} was spawned while {sorted(live)} had not been reaped (concurrent senders)"))
                live.add(f[1])
            elif f[0] == "reaped": live.discard(f[1])
        if task == "panicked": what.append(("C07", "the job task panicked under concurrent senders"))
        # every awaited control other than wait-for-end completes: grace periods are at most 20 ms, the limit was 3 s
        for u in unres: what.append(("C07", f"ticket of `{u}` did not resolve within 3 s although every grace period of the script is at most 20 ms"))
        ran = [e.split(":")[1] for e in ev if e.startswith("run:")]
        if len(ran) != len(set(ran)): what.append(("C10", f"a run marker executed twice: {ran}"))
        for si, sd in enumerate(c.split(" ")[2].split("|")):
            sent = [o_.split(":")[2] for o_ in sd.split(";") if o_[:2] in ("s:", "n:") and o_.split(":")[1] == "run"]
            mine = [x for x in ran if x.split("_")[0] == str(si)]
            if mine != [x for x in sent if x in mine]: what.append(("C10", f"sender {si} sent its run markers as {sent}, they executed as {mine}: per-sender order not preserved"))
            awaited = [o_.split(":")[2] for o_ in sd.split(";") if o_[:2] == "s:" and o_.split(":")[1] == "run"]
            # an awaited marker whose ticket resolved while the job was never deleted has been executed
            if not dead and not unres:
                for x in awaited:
                    if x not in ran: what.append(("C10", f"sender {si} awaited run marker {x}: its ticket resolved, the job was not deleted, yet the marker never executed"))
        for prop, w in what:
            if prop == pid: s.oracle_failures.append((i, c, o, f"[{prop}] {w}"))
        s.bump(f"senders={len(c.split(' ')[2].split('|'))}"); s.bump("deleted" if dead else "alive-at-end"); s.bump(f"spawns={min(sum(1 for e in ev if e.startswith('spawn:')), 5)}")
        if len(ran) >= 3: s.nontrivial.add(hashlib.md5((c.split(" ", 1)[1] + o).encode()).digest()[:8])
        if i % max(1, len(cases) // 3) == 0 and len(s.samples) < 3: s.samples.append({"case": c, "impl": o[:300]})
    s.note = ("2-4 tasks on a multi-thread runtime send controls to clones of one Job concurrently (real time, simulated child through the public spawn hook); no model comparison — "
              "oracles only: never two un-reaped children, every awaited ticket resolves, run markers execute at most once and in each sender's own order, an awaited marker whose ticket resolved was executed")
    return s

def spawnfail_stream(pid, ctx):
    """C04: the model treats a failed spawn as 'no process' (Jm.St.spawn with a failing behaviour). A spawn that fails AFTER the fork — a
    wrapper's post_spawn errors — has already created one; that it is gone before the job spawns again rests on process-wrap's
    KillOnDrop being applied to every command. Validation of that assumption with real `sleep` children, every spawn option."""
    s = core.StreamResult("spawn-fail")
    p = subprocess.run([str(core.TARGET / "wxspawnfail")], capture_output=True, text=True, timeout=120)
    if p.returncode != 0: s.error = f"wxspawnfail failed rc={p.returncode}: {p.stderr[-400:]}"; return s
    for i, line in enumerate(l for l in p.stdout.splitlines() if l.strip()):
        s.evaluations += 1
        m = re.match(r"(\S+) maxlive=(\d+) rounds=(\S*)$", line)
        if not m: s.oracle_failures.append((i, line, line, f"[{pid}] unparsable answer")); continue
        s.bump("options=" + m.group(1).split("-")[1]); s.nontrivial.add(m.group(1).encode())
        if int(m.group(2)) > 1:
            s.oracle_failures.append((i, m.group(1), line, f"[C04] scenario {m.group(1)}: {m.group(2)} processes of one job alive at once (live counts after each restart: {m.group(3)}): the process of a spawn that failed after the fork was still there when the job spawned again"))
    s.note = ("real `sleep 30` children through start_job, spawn options plain / grouped / session, a wrapper (public spawn hook) whose post_spawn fails at spawn 0 or 1, restarts "
              "(plain and graceful): never more than one live process of the job (checked in /proc). Oracle only.")
    return s

def job_plan(pid, modules, theorems, rule_extra, partial=""):
    def streams(ctx):
        s = job_stream(pid, ctx)
        # an oracle failure is reported under the property it belongs to; others are left to that property's own check
        s.oracle_failures = [f for f in s.oracle_failures if f[3].startswith(f"[{pid}]")]
        return [s] + ([jobmt_stream(pid, ctx)] if pid in ("C04", "C07", "C10") else []) + ([spawnfail_stream(pid, ctx)] if pid == "C04" else [])
    return dict(translate=True, modules=modules + ["Wx.Job.Api", "Wx.Job.ApiThm", "Wx.Job.ShapesThm", "Wx.Job.Faults", "Wx.Job.FaultsThm"], theorems=theorems + ["Jf.runOpsF_noFaults", "Jf.FInv.runOpsF", "Jm.api_generated", "Jm.jobApi_documented", "Jm.every_control_is_modelled", "Jm.every_model_control_exists", "Jm.priorities_are_the_models", "Jm.command_states_are_the_models"], bins=[("lib", ["wxjob"] + (["wxjobmt"] if pid in ("C04", "C07", "C10") else []) + (["wxspawnfail"] if pid == "C04" else []))], streams=streams,
                sources=["crates/supervisor/src/job/task.rs", "crates/supervisor/src/job/priority.rs", "crates/supervisor/src/job/state.rs", "crates/supervisor/src/job/job.rs",
                         "crates/supervisor/src/job/messages.rs", "crates/supervisor/src/flag.rs"],
                rule="a case is one script (behaviour list + operation list); non-trivial = at least one child is spawned; distinct by (script body, implementation trace). " + rule_extra,
                assumptions=["tokio: unbounded mpsc is FIFO, select! (biased) polls in order, paused-clock timers fire in deadline order — modelled; the eager scheduler of the model is the paused current-thread runtime of the harness",
                             "process-wrap child (wait/kill/signal) is replaced by a scripted child installed through the public spawn hook; real processes are exercised by C18/C08 streams only",
                             "Relaxed atomics in flag.rs are modelled as sequentially consistent",
                             "failing kill() / signal() / wait() calls on the child are modelled by the overlay Jf (Wx/Job/Faults.lean), which the fault scripts of the stream are compared with; without faults Jf IS Jm (runOpsF_noFaults), C04, the no-lost-flag invariant of C07 and the queue order of C10 are proved for every fault script (c04_faults, c07_faults, c10_faults); the other whole-run theorems (C06 grace, C08 deadline, C09 refinement) are about fault-free runs",
                             "a second sender on another thread is modelled by Op.inject (a send landing between a control's dequeue and the next recv); finer interleavings inside one control's handling do not exist in the code (no await between dequeue and the state change except the child's own kill/wait)"],
                partial=partial)

PLANS["C04"] = job_plan("C04", ["Wx.Job.C04Sim", "Wx.Props.C04"], ["Jm.c04", "Jm.inv_runOps", "Jm.inv_stepOp", "Jf.c04_faults", "Jf.inv_turnsF", "Props.C04.at_most_one_live_under_faults"], "Oracle: at most one spawned-and-unreaped child at every point of the implementation trace.")
PLANS["C06"] = job_plan("C06", ["Wx.Job.C06", "Wx.Job.C10b", "Wx.Job.C06w"],
    ["Jm.c06_no_early_kill", "Jm.c06_timer_not_short", "Jm.graceInv_simInv", "Jm.ext_handle", "Jm.handle_timer", "Jm.kill_in_spec", "Jm.graceful_stop_step", "Jm.graceful_restart_step", "Jm.signalChild_log", "Jm.timer_fires", "Jm.timer_not_early", "Jm.held_back", "Jm.killReap_log", "Jm.expiry_kills",
     "Jm.continue_clears", "Jm.no_extra_respawn_fixed", "Jm.extra_respawn_today", "Jm.c10_priority"],
    "Oracle: in scripts without forceful controls no kill happens before some graceful control's grace period has elapsed.")
PLANS["C07"] = job_plan("C07", ["Wx.Job.C07b", "Wx.Job.C07w", "Wx.Job.C10c", "Wx.Job.C07t", "Wx.Props.C07"],
    ["Jf.c07_faults", "Jf.inv7_turnsF", "Jf.failCtl_raises", "Props.C07.no_flag_lost_under_faults", "Jm.c07_ticket_by_deadline", "Jm.c07_timer_fresh", "Jm.timerFresh_simInv", "Jm.c07_noLost", "Jm.c07_noLost_fails_today", "Jm.c07_tickets", "Jm.c07_tickets_fails_today", "Jm.c10_ran", "Jm.timer_fires", "Jm.expiry_kills"],
    "Oracle: the task never panics; after the job has ended no ticket stays unresolved; no run marker executes twice.",
    partial="bounded liveness is a theorem for grace timers (c07_ticket_by_deadline: a flag held by a timer has an unexpired deadline, virtual clock of the eager scheduler); a wait-for-end ticket on a child that never ends legitimately never resolves; real-time promptness is observed by the stream only")
PLANS["C09"] = job_plan("C09", ["Wx.Job.C09", "Wx.Job.C09b", "Wx.Job.C09c"], ["Jm.handle_refines", "Jm.waitBranch_refines", "Jm.spawn_refines", "Jm.spawnB_refines", "Jm.continue_idle", "Jm.runInv_turns", "Jm.runInv_simInv", "Jm.c09_whole_run"],
    "The run markers record (current, previous) state, so the observable state is compared step by step with the model, which refines the documented machine (specStep).")
PLANS["C10"] = job_plan("C10", ["Wx.Job.C10b", "Wx.Job.C10c", "Wx.Props.C10"], ["Jf.c10_faults", "Jf.handleF_qv", "Props.C10.order_kept_under_faults", "Jm.c10_fifo", "Jm.c10_priority", "Jm.c10_priority_fails_today", "Jm.c10_ran"],
    "Oracle: normal-priority run markers execute in send order.")

# ------------------------------------------------------------------------------------------------
# C13 fs worker

def fs_scripts(seed, n):
    r = random.Random(seed * 7919 + 13)
    names = "abcd"
    fixed = [
        "kind set:a+:N;set:a+:P;poke",                         # F8a: kind change with an unchanged path set
        "incall set:a+:N;hook:b:a+,b+,c+:N;set:a+,b+:N;poke",   # F8b: change made inside a watch call
        "flip set:a+:N;set:a-:N;poke",                          # recursion mode flips on a path that stays configured
        "flip2 set:a+,b-:N;set:a-,b+:N;set:a-,b+:P;poke",
        "empty set:a+,b+:N;set::N;set:b+:N;poke",
        "failw failw:a;set:a+,b+:N;okw:a;poke;set:a+,b+,c-:N;poke",
        "failu set:a+,b+:N;failu:a;set:b+:N;poke", "oku set:a+,b+:N;failu:a;set:b+:N;oku:a;poke", "oku2 set:a+,b+,c+:N;failu:a:s;failu:b;set:c+:N;oku:b;set:c+:N;oku:a;poke;poke",
        # what the back-end's error names: nothing, the configured path, a child of it (recursive back-ends), both, two children
        "shape0 failw:a:0;set:a+,b+:N;poke", "shapes failw:a:s;set:a+,b+:N;poke", "shape1 failw:a:1;set:a+,b+:N;poke",
        "shapes1 failw:a:s1;set:a+,b-:N;poke", "shape2 failw:a:2;failw:b:1;set:a+,b+,c+:N;okw:a;poke;set:a+,b+,c+,d-:P;poke",
        "shapeu set:a+,b+:N;failu:a:1;set:b+:N;poke", "shapeu2 set:a+,b+:N;failu:a:2;failu:b:s;set::N;poke",
        "konly set:a+:N;hookk:b:P;set:a+,b+:N;poke", "konly2 set:a+,b-:N;kind:P;poke;kind:N;kind:P;poke", "konly3 hookk:a:P;set:a+:N;poke;hookk:a:N;set:a-:P;poke",
        # … and nothing after it: no later notification heals a kind change that was lost
        # a kind change landing inside the creation of the watcher itself (oracle only)
        "knew1 hookn:P;set:a+:N", "knew2 set:a+:N;hookn:N;set:a+,b-:P", "knew3 set:a+:N;hookn:N;kind:P;poke", "knew4 hookn:P;set:a+,b+:N;set:a+:N;poke", "knew5 set:a-:P;hookn:P;kind:N",
        # the poll INTERVAL alone changes (P = 50 ms, Q = 80 ms): Watcher::Poll carries it, so it is a change of kind
        "pq1 set:a+:P;set:a+:Q;poke", "pq2 set:a+,b-:Q;kind:P;kind:Q", "pq3 set:a+:N;set:a+:P;set:a+,b+:Q;set:b+:P",
        "konly4 set:a+:N;hookk:b:P;set:a+,b+:N", "konly5 hookk:a:P;set:a+,b-:N", "konly6 set:a+:P;failw:b;hookk:b:N;set:a+,b+:P",
        "nest set:a+,a.x-:N;set:a.x-:N;set:a+,a.x+,a.x.y-:P;poke", "nest2 set:a.x.y+:N;set:a+,a.x.y+:N;set:a+:N;poke",
    ]
    out = [f"f{i}_{l}" for i, l in enumerate(fixed)]
    # bounded-exhaustive: every sequence of up to 3 path-set changes over a universe of 2 paths x 2 modes (incl. empty)
    sets = ["", "a+", "a-", "b+", "a+,b+", "a-,b+", "a+,b-"]
    i = 0
    for s1 in sets:
        for s2 in sets:
            for k2 in "NP":
                out.append(f"x{i} set:{s1}:N;set:{s2}:{k2};poke"); i += 1
    for j in range(n):
        flips = r.random() < 0.4
        # a third of the scripts: NESTED paths — a watched directory inside another watched (recursive or not) directory is a path of its own
        names = ["a", "b", "a.x", "a.x.y", "b.z"] if j % 3 == 2 else "abcd"
        flag = {x: r.choice("++-") for x in names}
        def paths():
            k = r.choice([0, 1, 1, 2, 2, 3])
            return ",".join(x + (r.choice("+-") if flips else flag[x]) for x in r.sample(names, k))
        ops = []
        for _ in range(r.randint(1, 7)):
            k = r.random()
            if k < 0.09: ops.append(f"hook:{r.choice(names)}:{paths()}:{r.choice('NNP')}")
            # ONE setter alone: Config::file_watcher from inside a watch / unwatch call, or while the worker is parked
            elif k < 0.12: ops.append(f"hookk:{r.choice(names)}:{r.choice('NP')}")
            elif k < 0.14: ops.append(f"kind:{r.choice('NPQ')}")
            elif k < 0.2: ops.append(f"failw:{r.choice(names)}" + r.choice(["", "", ":0", ":s", ":1", ":1", ":s1", ":2"]))
            elif k < 0.25: ops.append(f"okw:{r.choice(names)}")
            elif k < 0.3 and not flips:
                fu = [o.split(":")[1] for o in ops if o.startswith("failu:")]
                if fu and r.random() < 0.5: ops.append(f"oku:{r.choice(fu)}")
                else: ops.append(f"failu:{r.choice(names)}" + r.choice(["", ":s", ":1", ":2"]))
            elif k < 0.4: ops.append("poke")
            else: ops.append(f"set:{paths()}:{r.choice('NNNPPQ')}")
        # (a quarter of the scripts end without the extra notification: what the last change left behind is final)
        if j % 4 != 1 or ops[-1].split(":")[0] not in ("set", "poke", "kind"): ops.append("poke")
        out.append(f"w{seed}_{j} {';'.join(ops)}")
    return out

def fs_oracle(script, trace, conf):
    """C13 at quiescence: after the last op (a poke with nothing pending) the registered set is the configured one
    with the configured modes, minus paths whose registration was made to fail; empty configured set = no watcher.
    `conf` is what the real Config holds at the end (in-call changes included)."""
    ops = script.split(" ", 1)[1].split(";")
    failing = set(); everfail = False
    for o in ops:
        p = o.split(":")
        if p[0] == "failw": failing.add(p[1]); everfail = True
        elif p[0] == "okw": failing.discard(p[1])
        elif p[0] == "failu": everfail = True
    paths, kind, livekind = (conf.split("|") + [""])[:3]
    want = sorted(x for x in paths.split(",") if x)
    last = trace.split(";")[-1]
    live = last.split("/")[-1]
    got = [] if live in ("none", "empty") else sorted(live.split(","))
    if not want and live != "none": return "configured set is empty but the watcher was not released" + (" (after an injected registration failure)" if everfail else "")
    # "… with the configured recursion mode and watcher KIND": the active watcher is the one created last
    if want and live != "none" and livekind not in ("", "none", kind):
        return f"the configured watcher kind is {kind} but the active watcher is of kind {livekind} once changes stopped"
    if everfail:
        # C13 / C15 with injected faults: "a path that fails to register is reported (once per attempt) without preventing the others".
        # (1) paths never named by a fault behave as in a fault-free run; (2) in a segment without unwatch calls the number of errors
        # is the number of watch attempts on paths failing at that moment. The exact end state of the faulted paths is left to the model.
        faulted = {o.split(":")[1] for o in ops if o.split(":")[0] in ("failw", "failu")}
        clean = lambda l: [x for x in l if x[:-1] not in faulted]
        if clean(want) != clean(got): return f"paths without any injected fault: configured {clean(want) or 'nothing'} but registered {clean(got) or 'nothing'} once changes stopped (faults were injected on {sorted(faulted)} only)"
        # (3) a failed registration is attempted again: a path that stopped failing (`okw:x`) before a later change / poke, never
        # fails again and is configured at the end must be registered at the end (names with unwatch faults are left to the model)
        ufaulted = {o.split(":")[1] for o in ops if o.split(":")[0] == "failu"}
        for x in sorted(faulted - ufaulted):
            idx = [i for i, o in enumerate(ops) if o.split(":")[0] in ("failw", "okw") and o.split(":")[1] == x]
            if ops[idx[-1]].split(":")[0] != "okw": continue
            if not any(o.split(":")[0] in ("set", "poke") for o in ops[idx[-1] + 1:]): continue
            wx_ = [w for w in want if w[:-1] == x]
            if wx_ and wx_[0] not in got:
                return f"path {wx_[0]} failed to register earlier, stopped failing before the last change, is configured — and is still not registered: the failed registration was never attempted again"
        # (4) a failed UNregistration is attempted again: a path whose unwatch stopped failing (`oku:x`) before a later change / poke, never
        # fails to unwatch again, never has a watch fault and is not configured at the end must not be registered at the end
        for x in sorted(ufaulted - {o.split(":")[1] for o in ops if o.split(":")[0] == "failw"}):
            idx = [i for i, o in enumerate(ops) if o.split(":")[0] in ("failu", "oku") and o.split(":")[1] == x]
            if ops[idx[-1]].split(":")[0] != "oku": continue
            if not any(o.split(":")[0] in ("set", "poke") for o in ops[idx[-1] + 1:]): continue
            if not any(w[:-1] == x for w in want) and any(g_[:-1] == x for g_ in got):
                return f"path {x} is not configured any more, its unregistration failed earlier and stopped failing before the last change — yet it is still registered: the failed unregistration was never attempted again"
        failing = set(); worth = {}
        segs = trace.split(";"); si = 0
        for o in ops:
            p = o.split(":")
            # one runtime error per path the back-end's error names; one (for the configured path) when it names none
            # (`failw:x` without a shape resets x's shape, `failu:x` without one keeps it — as the harness and the model do)
            if p[0] == "failw" or (p[0] == "failu" and len(p) > 2): worth[p[1]] = 2 if len(p) > 2 and p[2] in ("s1", "2") else 1
            if p[0] == "failw": failing.add(p[1])
            elif p[0] == "okw": failing.discard(p[1])
            if p[0] not in ("set", "poke", "kind") or si >= len(segs): continue     # only these three produce a trace segment
            seg = segs[si]; si += 1
            f = seg.split("/")
            if len(f) != 3 or not f[1].startswith("e"): continue
            calls = [c for c in f[0].split(",") if c]
            if any(c.startswith("unwatch:") for c in calls): continue
            nfail = sum(worth.get(c.split(":")[1][:-1], 1) for c in calls if c.startswith("watch:") and c.split(":")[1][:-1] in failing)
            if int(f[1][1:]) != nfail: return f"the failing watch attempt(s) in step `{o}` ({f[0]}) name {nfail} path(s) in all (one error per named path, one for an error naming none) but {f[1][1:]} runtime error(s) were reported"
        return None
    if want != got: return f"configured {want or 'nothing'} but registered {got or live} once changes stopped"
    if not want and live != "none": return "configured set is empty but the watcher was not released"
    return None

def c13_streams(ctx):
    n = 40000 if ctx["thorough"] else 8000
    s = core.StreamResult("fs-worker")
    d = core.WORK / ctx.get("pid13", "C13") / "fs-worker"; d.mkdir(parents=True, exist_ok=True)
    scripts = core.corpus("fs-worker") + fs_scripts(ctx["seed"], n)
    (d / "cases.txt").write_text("\n".join(scripts) + "\n")
    impl, culprits, fatal = core.run_chunks("wxfs", scripts, 8, 600 if ctx["thorough"] else 150)
    if fatal: s.error = fatal; return [s]
    for c, why in culprits: s.oracle_failures.append((scripts.index(c), c, "", f"the fs worker gave no answer on this script (deadlock while reconfiguring?): {why}"))
    scripts = [c for c in scripts if c in impl]
    (d / "cases.txt").write_text("\n".join(scripts) + "\n")
    conf = {c: impl[c].split("\tCFG=")[1] for c in scripts}
    impl = {c: impl[c].split("\tCFG=")[0] for c in scripts}
    (d / "impl.txt").write_text("\n".join(impl[c] for c in scripts) + "\n")
    ok, err = core.run_driver(["fs", "all"], d / "cases.txt", d / "model.txt")
    if not ok: s.error = "wxdriver fs failed: " + err[-800:]; return [s]
    model = core.read_lines(d / "model.txt")
    s.evaluations = len(scripts)
    for i, (c, mo) in enumerate(zip(scripts, model)):
        im = impl[c]
        # (scripts with `hookn:` — a kind change made from inside the watcher's CREATION — are outside the model: judged by the oracle only)
        if im != mo and "hookn:" not in c: s.disagreements.append((i, c, im, mo) if len(s.disagreements) < 40 else (i, "", "", ""))
        w = fs_oracle(c, im.split(" ", 1)[1] if " " in im else im, conf[c])
        if w: s.oracle_failures.append((i, c, im, w))
        for key in ("hook:", "failw", "failu", ":P", "set::"):
            if key in c: s.bump("has " + key.strip(":"))
        if "new:" in im and ("unwatch:" in im or "dropwatcher" in im): s.nontrivial.add(hashlib.md5((c.split(" ", 1)[1] + im).encode()).digest()[:8])
        if i % max(1, len(scripts) // 4) == 0 and len(s.samples) < 4: s.samples.append({"script": c, "impl": im[:300], "model": mo[:300]})
    s.note = ("scripts of configuration changes (path sets over 4 names with recursion modes incl. mode flips, watcher kind), pokes, in-call changes (made from inside a watch/unwatch call "
              "of the recording watcher, hook H2), injected watch/unwatch failures; per op the sorted call log, the number of runtime errors and the set registered with the active "
              "watcher are compared with the model; bounded-exhaustive pairs of path-set changes over 2 paths x 2 modes x 2 kinds come first")
    return [s]

def c13_reconf(ctx):
    """changes made from inside handlers: a real Watchexec instance whose action / error handlers reconfigure it (path set, watcher kind,
    the very handler that is running) from inside their own invocation, vs the handler-cell model Rc (Wx/Fs/Reconf.lean)"""
    n = 900 if ctx["thorough"] else 150
    r = random.Random(ctx["seed"] * 53 + 13)
    s = core.StreamResult("handler-reconf")
    d = core.WORK / ctx.get("pid13", "C13") / "handler-reconf"; d.mkdir(parents=True, exist_ok=True)
    names = "abcd"
    def pset(): return ",".join(sorted(x + r.choice("+-") for x in r.sample(names, r.randint(0, 3))))
    cases = core.corpus("handler-reconf")
    for i in range(n):
        faulty = i % 3 == 2
        ops = []
        if faulty:
            ops.append("bad:" + r.choice(names))
            for _ in range(r.randint(0, 4)): ops.append("eh:" + r.choice(["E", "-", "E|E", "E"]))
        for _ in range(r.randint(2, 6)):
            k = r.random()
            if k < 0.2: ops.append(f"set:{pset()}:{r.choice('NP')}")
            elif faulty and k < 0.3: ops.append(r.choice(["bad:", "good:"]) + r.choice(names))
            else:
                alphabet = ["P" + pset(), "K" + r.choice("NP"), "A", "A", "T", "-"] + ([] if faulty else ["E", "E"])
                ops.append("ev:" + "|".join(r.choice(alphabet) for _ in range(r.randint(1, 4))))
        cases.append(f"h{i} {';'.join(ops)}")
    impl, culprits, fatal = core.run_chunks("wxreconf", cases, 12, 900 if ctx["thorough"] else 300)
    if fatal: s.error = fatal; return s
    for c, why in culprits: s.oracle_failures.append((cases.index(c), c, "", f"Watchexec gave no answer while a handler was reconfiguring it: {why}"))
    cases = [c for c in cases if c in impl]
    lines = []
    for c in cases:
        o = impl[c]
        f = dict(x.split("=", 1) for x in o.split(" ")[1:] if "=" in x)
        counts = [str(sum(1 for e in seg.split(",") if e.startswith("s"))) for seg in f.get("err", "").split("|")] if "err" in f else ["0"]
        lines.append(f"RC\t{c.split(' ', 1)[1]}\t{','.join(counts)}")
    (d / "cases.txt").write_text("\n".join(lines) + "\n"); (d / "impl.txt").write_text("\n".join(impl[c] for c in cases) + "\n")
    ok, err = core.run_driver(["reconf"], d / "cases.txt", d / "model.txt")
    if not ok: s.error = "wxdriver reconf failed: " + err[-600:]; return s
    model = core.read_lines(d / "model.txt")
    s.evaluations = len(cases)
    for i, (c, mo) in enumerate(zip(cases, model)):
        o = impl[c]
        if o.endswith(" HUNG"):
            s.oracle_failures.append((i, c, o, "deadlock: the instance stopped answering after a handler reconfigured it from inside its own invocation (the case did not finish within 6 s)"))
            s.disagreements.append((i, c, o, mo)); continue
        f = dict(x.split("=", 1) for x in o.split(" ")[1:])
        im = f"act={f['act']} err={f['err']} cfg={f['cfg']}"
        if im != mo: s.disagreements.append((i, c, o, mo))
        ops = c.split(" ", 1)[1].split(";")
        what = None
        segops = [x for x in ops if x.split(":")[0] in ("ev", "set")]
        for op, seg in zip(segops, f["act"].split("|")):
            es = [e for e in seg.split(",") if e]
            if what: break
            if op.startswith("ev:") and len(es) != 2: what = f"one event, but the action handler log of `{op}` is {es or 'empty'}: the invocation did not run exactly once to its end"
            elif len(es) == 2 and es[0][1:] != es[1][1:]: what = f"the invocation that started as handler generation {es[0][1:]} ended as generation {es[1][1:]}"
        # paths never named by a `bad:` op behave as in a fault-free run; the others are left to the fs-worker stream (a path that starts
        # failing AFTER it was registered stays registered, one that stopped failing is registered at the next change only)
        everbad = {x.split(":")[1] for x in ops if x.startswith("bad:")}
        conf = [x for x in f["cfg"].split("|")[0].split(",") if x]
        reg = [x for x in f["reg"].split(",") if x not in ("none", "empty", "")]
        must = sorted(x for x in conf if x[:-1] not in everbad)
        if not what and not (set(must) <= set(reg) <= set(conf)):
            what = f"configured {conf or 'nothing'} (faults were injected on {sorted(everbad) or 'no path'} only) but registered {reg or f['reg']} once changes made from inside the handlers had stopped"
        if not what and not conf and f["reg"] != "none": what = "the configured set is empty but the watcher was not released"
        if not what and f.get("main") != "running": what = f"the main task ended ({f.get('main')}) after a handler reconfigured the instance"
        if what: s.oracle_failures.append((i, c, o, what))
        s.bump("faulty paths" if any(x.startswith("bad:") for x in ops) else "no faults")
        for a in "PKAET": s.bump(f"in-handler {a}", sum(1 for x in ops if x[:3] in ("ev:", "eh:") and a in [y[:1] for y in x[3:].split("|")]))
        if "A" in c or "E" in c: s.nontrivial.add(hashlib.md5((c.split(" ", 1)[1] + o).encode()).digest()[:8])
        if i % max(1, len(cases) // 3) == 0 and len(s.samples) < 3: s.samples.append({"case": c, "impl": o, "model": mo})
    s.note = ("a real Watchexec instance (main(), action worker, error hook, fs worker with the recording watcher of hook H2); the action and error handlers change the path set, "
              "the watcher kind, the throttle and replace THEMSELVES from inside their own invocation; vs the handler-cell model Rc (generation per invocation, configured set); "
              "oracle: every invocation ends (6 s watchdog), as the generation it started as; registered = configured minus failing paths once quiet; the number of errors per step is an input of the model")
    return s

PLANS["C13"] = dict(
    modules=["Wx.Fs.C13", "Wx.Fs.C13f", "Wx.Fs.Reconf"],
    theorems=["Rc.invocation_keeps_its_generation", "Rc.replacement_is_for_the_next_invocation", "Rc.handler_changes_are_configured", "Fw.iteration_faults", "Fw.empty_set_releases", "Fw.others_are_registered", "Fw.errors_once_per_attempt", "Fw.failing_path_stays_out", "Fw.dropFold_errs", "Fw.c13_converges", "Fw.J_runWorker", "Fw.J_iteration", "Fw.J_applyCfg", "Fw.J_addHook", "Fw.J_init", "Fw.iteration_core", "Fw.f8a_witness", "Fw.f8b_witness"],
    bins=[("lib", ["wxfs", "wxreconf"])],
    streams=lambda ctx: c13_streams(ctx) + [c13_reconf(ctx)],
    sources=["crates/lib/src/sources/fs.rs", "crates/lib/src/config.rs", "crates/lib/src/changeable.rs"],
    rule="a case is one script of configuration changes; non-trivial = a watcher is created and something is unregistered or released; distinct by (script body, observation)",
    assumptions=["handler cells (ChangeableFn): a call runs the handler that was in the cell when the call started, a replacement is visible to the next call; the model Rc is total, so a call that never returns (a handler blocked on its own cell) shows as a missing answer; races between a replacement made by the action handler and one made concurrently by the error handler are not generated",
                 "tokio Notify::notify_waiters wakes only an armed Notified (modelled); the recording watcher stands in for the notify back-ends (hook H2)",
                 "HashSet iteration order inside the worker is not modelled: call logs are compared sorted, and failing unwatch is not combined with mode flips in generated scripts"],
    partial="convergence is proved for the fault-free case; with failing registrations one iteration is characterised exactly (iteration_faults: every non-failing configured path registered, failing new ones left out and retried, one error per failing attempt); failing UNWATCH calls are tied by correspondence only; the number of worker iterations is not bounded by a theorem",
)

# ------------------------------------------------------------------------------------------------
# C15 runtime errors

def c15_streams(ctx):
    n = 2400 if ctx["thorough"] else 480
    r = random.Random(ctx["seed"] * 31 + 15)
    s = core.StreamResult("errors")
    d = core.WORK / "C15" / "errors"; d.mkdir(parents=True, exist_ok=True)
    cases = core.corpus("errors")
    for i in range(n):
        cap = r.choice([1, 1, 2, 64])
        nev = r.randint(1, 10)
        evs = ",".join(f"v{j}:{r.choice('ppreee' if i % 3 else 'eeeeep')}" for j in range(nev))
        behs = "".join(r.choice("iiiisr" + ("ec" if r.random() < 0.4 else "")) for _ in range(r.randint(0, 6))) or "-"
        cases.append(f"k{i} {cap} {behs} {evs}")
    # F18's shape, many times over (the outcome is a race inside the runtime): a critical / elevated error raised by the handler while
    # the action worker is blocked on the full error channel — the main task must end with THAT error, not with the worker's send failure
    for i in range(240 if ctx["thorough"] else 120):
        behs = r.choice(["irsic", "iic", "sc", "isse", "ic", "se", "iisc", "rsie"])
        cases.append(f"x{i} 1 {behs} " + ",".join(f"v{j}:e" for j in range(r.randint(7, 10))))
    # the same sentence from another side: the critical error is raised while ANOTHER worker (the fs worker, a path that cannot be watched)
    # has an error to report and the error hook is still tearing down a queue of errors whose payloads are slow to drop (`E` verdicts, `C`
    # behaviour, capacity 64 so the action worker is not the one that blocks): whichever worker notices the closed channel, the main task ends
    # with the handler's critical error
    for i in range(24 if ctx["thorough"] else 8):
        cases.append(f"xw{i} 64 {r.choice(['sC', 'C', 'isC'])} " + ",".join(f"v{j}:E" for j in range(r.randint(8, 11))))
    impl, culprits, fatal = core.run_chunks("wxerr", cases, 1, 1500 if ctx["thorough"] else 400)
    if fatal: s.error = fatal; return [s]
    hung = [(cases.index(c), c, "", f"Watchexec gave no answer on this fault script (stopped processing?): {why}") for c, why in culprits]
    hung += [(i, c, impl[c], "Watchexec stopped processing on this fault script: the case did not finish within 8 s (a call that never returns?)") for i, c in enumerate(cases) if impl.get(c, "").endswith(" HUNG")]
    s.bump("cases skipped after four hangs", sum(1 for c in cases if impl.get(c, "").endswith(" SKIPPED")))
    cases = [c for c in cases if c in impl and not impl[c].endswith(" HUNG") and not impl[c].endswith(" SKIPPED")]
    outs = [impl[c] for c in cases]
    lines = []
    parsed = []
    for c, o in zip(cases, outs):
        cid, cap, beh, evs = c.split(" ")
        f = dict(x.split("=", 1) for x in o.split(" ")[1:])
        handled = [h for h in f["handled"].split(",") if h]
        names = [h[2:] if h.startswith("N:") else h for h in handled]
        errs = ["inj-" + e.split(":")[0] for e in evs.split(",") if e.endswith(":e") or e.endswith(":E")]
        order = names + [e for e in errs if e not in names]
        lines.append(f"ERR\t{cap}\t{beh.replace('C', 'c')}\t{','.join(order)}")
        parsed.append((c, o, f, handled, names, errs, [e.split(":")[0] for e in evs.split(",") if e.endswith(":p")]))
    (d / "cases.txt").write_text("\n".join(lines) + "\n")
    (d / "impl.txt").write_text("\n".join(outs) + "\n")
    ok, err = core.run_driver(["err"], d / "cases.txt", d / "model.txt")
    if not ok: s.error = "wxdriver err failed: " + err[-600:]; return [s]
    model = core.read_lines(d / "model.txt")
    s.evaluations = len(cases)
    s.oracle_failures += hung
    for i, ((c, o, f, handled, names, errs, passes), mo) in enumerate(zip(parsed, model)):
        im = f"handled={f['handled']} main={f['main']}"
        if im != mo: s.disagreements.append((i, c, o, mo))
        acts = [a for a in f["actions"].split(",") if a]
        what = None
        if len(set(names)) != len(names): what = f"an error was passed to the handler twice: {names}"
        elif not set(names) <= set(errs): what = f"the handler saw an error that was not raised: {names} vs {errs}"
        elif f["main"] == "running":
            if sorted(names) != sorted(errs): what = f"errors raised {sorted(errs)} but handled {sorted(names)} although nothing was elevated"
            elif sorted(acts) != sorted(passes): what = f"accepted events {sorted(passes)} but delivered {sorted(acts)}: an error stopped event processing"
        elif len(set(acts)) != len(acts) or not set(acts) <= set(passes): what = f"delivered events {acts} are not a duplicate-free subset of the accepted ones {passes}"
        behs_used = (c.split(" ")[2][:len(handled)].replace("C", "c") if c.split(" ")[2] != "-" else "")
        if f["main"] == "running" and any(b in "ec" for b in behs_used): what = "the handler elevated / raised a critical error but the main task kept running"
        # "the main task ends with THAT critical error": the first elevating / critical call decides (e -> Elevated, c -> the External one it raised)
        first = next((b for b in behs_used if b in "ec"), None)
        want_main = {"e": "err:Elevated", "c": "err:External"}.get(first)
        if want_main and f["main"] != "running" and f["main"] != want_main:
            what = f"the handler {'elevated the error' if first == 'e' else 'raised a critical error'}, but the main task ended with `{f['main']}` instead of that critical error"
        # "passed to THE error handler": once a call has replaced the handler (Config::on_error returns before the call does), every later
        # error goes to the replacement and none to the handler that is no longer installed
        if "r" in behs_used:
            k = behs_used.index("r")
            stale = [h for h in handled[k + 1:] if not h.startswith("N:")]
            if stale and not what: what = f"the handler replaced itself during call #{k + 1}, yet {stale} were still passed to the old handler: the installed handler never saw them"
        if what: s.oracle_failures.append((i, c, o, what))
        s.bump("main=" + f["main"]); s.bump("cap=" + c.split(" ")[1])
        if len(errs) >= 2: s.nontrivial.add(hashlib.md5((c.split(" ", 1)[1] + o).encode()).digest()[:8])
        if i % max(1, len(cases) // 3) == 0 and len(s.samples) < 3: s.samples.append({"case": c, "impl": o, "model": mo})
    s.note = ("a real Watchexec instance (with_config, main()), a scripted filterer failing on chosen events, error_channel_size 1 / 2 / 64, handlers that ignore, sleep, elevate, raise a "
              "critical error or replace themselves from inside the call; the order in which the handler saw the errors is an input of the model (the event channel is a heap), which "
              "predicts the handler generation per error and how main ends; watch/unwatch failures -> one runtime error per attempt are covered by the fs-worker stream (field e<n>)")
    return [s]

def c15_fs(ctx):
    # the fs worker's side of C15: one runtime error per failed watch / unwatch attempt (the e<n> field of every op), loop continues
    xs = c13_streams(dict(ctx, pid13="C15"))
    for x in xs:
        x.name = "fs-worker-errors"; x.oracle_failures = [f for f in x.oracle_failures if "injected fault" in f[3] or "runtime error(s) reported" in f[3] or "runtime error(s) were reported" in f[3]]
    return xs

PLANS["C15"] = dict(
    modules=["Wx.Err.C15", "Wx.Fs.C13f"],
    theorems=["Fw.errors_once_per_attempt", "Fw.others_are_registered", "Eh.c15_conserved", "Eh.hook_end", "Eh.ended_stops", "Eh.inv_step", "Eh.inv_init"],
    bins=[("lib", ["wxerr", "wxfs", "wxfsreal"])],
    streams=lambda ctx: c15_streams(ctx) + c15_fs(ctx) + [fs_real_stream("C15", ctx)],
    sources=["crates/lib/src/watchexec.rs", "crates/lib/src/action/worker.rs", "crates/lib/src/sources/fs.rs", "crates/lib/src/error/runtime.rs", "crates/lib/src/error/critical.rs"],
    rule="a case is one fault script (channel capacity, handler behaviours, events with filter verdicts); non-trivial = at least two injected errors; distinct by (script, observation)",
    assumptions=["tokio bounded mpsc: senders wait in arrival order, nothing is dropped by send().await, try_send drops when no permit is free (modelled)",
                 "async-priority-channel is a heap: the order in which equal-priority events (and hence their filter errors) reach the handler is an input of the model"],
    partial="real-time runs (each case 200 ms of wall clock); 'every error handled exactly once' is proved on the channel model and observed on the real instance; callback (try_send) errors are modelled, and provoked on the real instance by the fs-overflow stream (event queue of 2, slow handler, bursts of real file creations): every later operation must still be reported and the main task keeps running; that each overflow is reported AT MOST once is not decided by that stream (the number of events inotify emits is not known to it)",
)

# ------------------------------------------------------------------------------------------------
# C01 / C02 action worker (real time)

import re

def worker_cases(seed, n):
    r = random.Random(seed * 101 + 1)
    cases = []
    for i in range(n):
        slow = (i % 4 == 3)                       # every fourth case has a slow handler: judged by the oracle only
        changing = (i % 4 == 1)                   # every fourth case changes the throttle at run time (100 ms grid, changes at x70, edges at x40)
        grid = 100 if changing else 50
        thr = r.choice([140, 240]) if changing else (r.choice([120, 120, 170, 220, 0]) if not slow else r.choice([120, 170]))
        k = r.randint(1, 6 if changing else 9); t = grid if changing else 0; arr = []
        for j in range(k):
            t += r.choice([0, 1, 1, 2, 3, 5]) * grid if j else 0
            if arr and t == arr[-1][0]: t += grid
            prio = r.choice("nnnnhlu"); kind = r.choice("ttttte"); v = r.choice("ppprre")
            # events of IDENTICAL content (same tags, same metadata: two signals of one kind, two writes to one file): the previous event again
            if arr and r.random() < 0.2: arr.append((t,) + arr[-1][1:])
            else: arr.append((t, f"{i}x{j}", prio, kind, v))
        changes = []
        if changing:
            for _ in range(r.randint(1, 2)):
                off = r.randrange(0, arr[-1][0] // 100 + 2) * 100 + 70
                if all(c[0] != off for c in changes): changes.append((off, r.choice([140, 240, 340])))
            changes.sort()
        cases.append((f"c{i}", thr, r.choice([60, 130]) if slow else 0, arr, changes))
    # bursts of filter errors against a tiny runtime-error channel drained by a slow error handler (capacity 1-2, 60-90 ms per error):
    # the error channel is full while further events error; judged by the schedule-independent oracle only
    for i in range(max(6, n // 8)):
        k = r.randint(3, 8); t = 0; arr = []
        for j in range(k):
            t += r.choice([0, 10, 10, 20, 50]) if j else 0
            if arr and t == arr[-1][0]: t += 10
            arr.append((t, f"b{i}x{j}", r.choice("nnnnhl"), "t", r.choice("eeeeppr")))
        cases.append((f"eb{i}", r.choice([100, 150]), f"0e{r.choice([1, 1, 2])}x{r.choice([60, 90])}", arr, []))
    # "a small or large event queue", "bursts inside a window": 3-6 times more events than the event queue holds (queue of 4 / 8 / 16, Config::
    # event_channel_size set to match), sent back to back inside one window; oracle only (conservation, one window's lower bound)
    for i in range(max(4, n // 24)):
        q = r.choice([4, 8, 16]); k = q * r.randint(3, 6); thr = r.choice([150, 250])
        arr = [(j // 8, f"q{i}x{j}" if r.random() < 0.85 or not j else f"q{i}x{j - 1}", "n", "t", "p") for j in range(k)]
        arr = [a if a[1] == f"q{i}x{j}" else (a[0],) + arr[j - 1][1:] for j, a in enumerate(arr)]
        cases.append((f"qb{i}", thr, f"0q{q}", arr, []))
    # a flood of filter-REJECTED events that starts inside the window and goes on long after it: the pending batch must still be
    # delivered within a bounded delay after the window ends (`off:F:ms` items; the model's run is unaffected by rejected events)
    for i in range(max(6, n // 16)):
        thr = r.choice([120, 170]); arr = [(0, f"f{i}x0", "n", "t", "p")]
        if r.random() < 0.5: arr.append((r.choice([10, 30, 60]), f"f{i}x1", r.choice("nl"), "t", r.choice("pr")))
        cases.append((f"fl{i}", thr, 0, arr, [(r.choice([40, 80, thr - 20]), "F", r.choice([600, 900]))]))
    return cases

def worker_oracle(thr, arr, sent, got, errs, filtered, changes=()):
    """schedule-independent: conservation, never-rejected, non-empty, filter bypass, error count, strict lower bound"""
    byid = {a[1]: a for a in arr}
    acc = sorted(a[1] for a in arr if a[2] == "u" or a[3] == "e" or a[4] == "p")
    delivered = sorted(x for _, ids in got for x in ids)
    out = []
    if any(not ids or ids == [""] for _, ids in got): out.append(("C01", "the handler was invoked with an empty batch"))
    if delivered != acc:
        extra = [x for x in delivered if x not in acc]; missing = [x for x in acc if x not in delivered]
        dup = sorted(set(x for x in delivered if delivered.count(x) > 1))
        out.append(("C01", f"accepted events {acc} but delivered {delivered}" + (f"; rejected/erroring delivered: {extra}" if extra else "") + (f"; never delivered: {missing}" if missing else "") + (f"; delivered twice: {dup}" if dup else "")))
    nonbypass = sorted(a[1] for a in arr if not (a[2] == "u" or a[3] == "e"))
    if sorted(filtered) != nonbypass: out.append(("C02", f"filter was asked about {sorted(filtered)}, expected exactly the non-urgent non-empty events {nonbypass}"))
    if errs != sum(1 for a in arr if a[4] == "e" and not (a[2] == "u" or a[3] == "e")): out.append(("C01", f"{errs} runtime errors for the erroring events"))
    for tg, ids in got:
        if any(byid[x][2] == "u" for x in ids if x in byid): continue
        first = min(sent[x] for x in ids if x in sent) if any(x in sent for x in ids) else None
        if first is None: continue
        # the throttle values configured at any time between the first event and the delivery (run-time changes included)
        vals = [thr]; cur = thr
        for off, v in [c for c in changes if len(c) == 2]:
            if off * 1000 <= first: cur = v; vals = [cur]
            elif off * 1000 <= tg: vals.append(v)
        bound = min(vals)
        if tg < first + bound * 1000:
            out.append(("C02", f"batch {ids} reached the handler {(first + bound * 1000 - tg) / 1000:.2f} ms before its window ({bound} ms after its first event, the smallest throttle configured meanwhile) had elapsed"))
        # bounded delay under rejected traffic (flood cases only; real time, so the margin is generous: 350 ms)
        if any(len(c) == 3 for c in changes) and tg > first + thr * 1000 + 350000:
            out.append(("C02", f"batch {ids} reached the handler {(tg - first - thr * 1000) / 1000:.0f} ms after its window ({thr} ms) had ended, held back while filter-rejected events kept arriving"))
    return out

def worker_stream(pid, ctx):
    n = 960 if ctx["thorough"] else 144
    s = core.StreamResult("worker-rt")
    d = core.WORK / pid / "worker-rt"; d.mkdir(parents=True, exist_ok=True)
    cases = worker_cases(ctx["seed"], n)
    # every second generated case installs its handler with on_action_async (the handler's time is spent in an awaited future)
    def is_async(cid): return cid[0] == "c" and cid[1:].isdigit() and int(cid[1:]) % 2 == 1
    lines = [f"{cid} {thr} {'a' if is_async(cid) else ''}{hm} " + ",".join([f"{t}:{i}:{p}:{k}:{v}" for (t, i, p, k, v) in a] + [(f"{c[0]}:F:{c[2]}" if len(c) == 3 else f"{c[0]}:T:{c[1]}") for c in ch]) for cid, thr, hm, a, ch in cases]
    (d / "cases.txt").write_text("\n".join(lines) + "\n")
    def run_all(ls):
        p = subprocess.run([str(core.TARGET / "wxthrottle")], input="\n".join(ls) + "\n", capture_output=True, text=True, timeout=3000)
        return p.returncode, p.stdout.splitlines(), p.stderr[-600:]
    rc, outs, err = run_all(lines)
    if rc != 0 or len(outs) != len(lines): s.error = f"wxthrottle failed rc={rc}: {err}"; return s
    (d / "impl.txt").write_text("\n".join(outs) + "\n")
    ok, err = core.run_driver(["throttle"], d / "cases.txt", d / "model.txt")
    if not ok: s.error = "wxdriver throttle failed: " + err[-600:]; return s
    model = core.read_lines(d / "model.txt")
    s.evaluations = len(cases)
    worst_late = 0
    def parse(line):
        m = re.match(r"\S+ sent=(\S*) batches=(\S*) errs=(\d+) filtered=(\S*)", line)
        sent = {}
        for x in m.group(1).split(","):
            if x and x.split("@")[0] not in sent: sent[x.split("@")[0]] = int(x.split("@")[1])      # events of identical content: the earliest send
        got = [(int(b.split("@")[1]), b.split("@")[0].split("+")) for b in m.group(2).split(",") if b]
        return sent, got, int(m.group(3)), [x for x in m.group(4).split("+") if x]
    suspects = []
    for i, ((cid, thr, hm, arr, changes), line, mo) in enumerate(zip(cases, outs, model)):
        sent, got, errs, filtered = parse(line)
        canon = f"{cid} batches={','.join('+'.join(ids) for _, ids in got)} errs={errs} filtered={'+'.join(filtered)}"
        if hm == 0 and canon != mo: suspects.append(i)
        for prop, what in worker_oracle(thr, arr, sent, got, errs, filtered, changes):
            if prop == pid or (pid == "C02" and prop == "C01" and False): s.oracle_failures.append((i, lines[i], line, f"[{prop}] {what}"))
        for tg, ids in got:
            if not any(a[2] == "u" for a in arr if a[1] in ids) and all(x in sent for x in ids):
                if not changes: worst_late = max(worst_late, tg - (min(sent[x] for x in ids) + thr * 1000))
        s.bump("async handler (on_action_async)" if is_async(cid) else "sync handler (on_action)")
        s.bump(f"throttle={thr}"); s.bump("error-burst, full error channel" if isinstance(hm, str) else "slow-handler" if hm else "instant-handler"); s.bump("rejected-event flood" if any(len(c) == 3 for c in changes) else "throttle-changes-at-run-time" if changes else "fixed-throttle"); s.bump(f"batches={min(len(got), 4)}")
        if len(got) >= 2: s.nontrivial.add(hashlib.md5((lines[i].split(" ", 1)[1] + canon).encode()).digest()[:8])
        if i % max(1, len(cases) // 3) == 0 and len(s.samples) < 3: s.samples.append({"case": lines[i], "impl": line[:300], "model": mo[:300]})
    # a composition mismatch in a deterministic case depends on wall-clock scheduling: it counts only if it persists in 3 re-runs
    if suspects:
        persistent = set(suspects)
        for _ in range(3):
            rc, outs2, err = run_all([lines[i] for i in sorted(persistent)])
            if rc != 0: break
            for i, line in zip(sorted(persistent), outs2):
                sent, got, errs, filtered = parse(line)
                canon = f"{cases[i][0]} batches={','.join('+'.join(ids) for _, ids in got)} errs={errs} filtered={'+'.join(filtered)}"
                if canon == model[i]: persistent.discard(i)
            if not persistent: break
        for i in sorted(persistent):
            s.disagreements.append((i, lines[i], outs[i], model[i]))
            # C02 "one action per window … all accepted events that arrive within that window are in that same batch": in these cases (instant
            # handler, arrivals 20-30 ms away from every window edge) a batch that persistently — in four runs — holds an event sent well after
            # the window of its first event had elapsed is a window that did not end when it should have
            cid, thr, hm, arr, changes = cases[i]
            if pid == "C02" and not changes:
                sent, got, errs, filtered = parse(outs[i])
                pr = {a[1]: a[2] for a in arr}
                for tg, ids in got:
                    if any(pr.get(x) == "u" for x in ids): continue
                    known = [x for x in ids if x in sent]
                    if not known: continue
                    first = min(sent[x] for x in known)
                    late = [x for x in known if sent[x] > first + thr * 1000 + 15000]
                    if late:
                        s.oracle_failures.append((i, lines[i], outs[i], f"[C02] batch {ids} holds {late}, sent {(max(sent[x] for x in late) - first) / 1000:.0f} ms after the batch's first event although the window is {thr} ms: the window did not end with its first event's throttle period (one action per window)")); break
        s.bump("timing-suspects-rerun", len(suspects))
    s.distribution["worst lateness after window end (us)"] = worst_late
    s.note = ("the real action::worker with own channels in REAL time (std Instant is not virtualised): arrivals on a 50 ms grid with throttles 0/120/170/220 ms (every arrival 20-30 ms away "
              "from a window edge), a quarter of the cases on a 100 ms grid with the throttle changed at run time (140/240/340 ms, changes 30 ms away from arrivals and edges), scripted filter verdicts keyed by event id, priorities incl. urgent, empty events; 3/4 of the cases have an instant handler and their batch "
              "composition / error count / filter-call list must equal the model's zero-latency run (a mismatch counts only if it persists in three re-runs); 1/4 have a slow handler, and a further eighth "
              "are bursts of filter errors against a runtime-error channel of capacity 1-2 drained by a slow error handler (the worker blocks on the full channel); these "
              "are judged by the schedule-independent oracle only (conservation, never-rejected, non-empty, filter bypass, strict lower bound)")
    return s

def fs_real_stream(pid, ctx):
    """real filesystem operations under the native and the poll watcher against a real Watchexec instance; judged by Fsrc.segOk"""
    only_overflow = pid == "C15"        # C15 runs the queue-overflow cases only
    n = (60 if ctx["thorough"] else 12) if only_overflow else (220 if ctx["thorough"] else 48)
    r = random.Random(ctx["seed"] * 71 + 3)
    s = core.StreamResult("fs-overflow" if only_overflow else "fs-real")
    d = core.WORK / pid / "fs-real"; d.mkdir(parents=True, exist_ok=True)
    cases = core.corpus("fs-real")
    for i in range(n):
        kind = "P" if i % 4 == 3 else "N"; mode = "RNF"[i % 3] if i % 5 else "R"
        files = {"a.txt", "skip.txt", "sub/b.txt", "sub/deep/c.txt", "other/o.txt"}; dirs = {"", "sub", "sub/deep", "other"}
        ops = []
        for _ in range(r.randint(3, 7)):
            k = r.random(); dd = r.choice(sorted(dirs)); pre = dd + "/" if dd else ""
            name = r.choice(["n%d.txt" % r.randrange(5), "n%d.rs" % r.randrange(3), "skipme%d.txt" % r.randrange(2), "boom%d.txt" % r.randrange(2), "x'y&z.txt", "ü%d.txt" % r.randrange(2)])
            movable = sorted(f for f in files if f not in ("a.txt", "skip.txt") and "skip" not in f and "boom" not in f)
            if k < 0.35 and pre + name not in files: ops.append("c:" + pre + name); files.add(pre + name)
            elif k < 0.55: ops.append("w:" + r.choice(sorted(f for f in files if "boom" not in f)))
            elif k < 0.7 and movable:
                f = r.choice(movable); g = pre + "m%d.txt" % r.randrange(9)
                if g not in files: ops.append(f"mv:{f}:{g}"); files.discard(f); files.add(g)
            elif k < 0.82 and movable: f = r.choice(movable); ops.append("rm:" + f); files.discard(f)
            elif k < 0.95:
                nd = pre + "d%d" % r.randrange(4)
                if nd not in dirs and nd.count("/") < 3: ops.append("mk:" + nd); dirs.add(nd)
            else: ops.append("rm:" + pre + "nosuch.txt")      # an operation that fails: nothing happens, nothing is owed
        if not ops: ops = ["c:z.txt"]
        if i % 8 == 5 or only_overflow:
            # C15 "errors raised from the watcher's own callback (event-queue overflow)": a queue of 2, a slow handler and a burst of
            # creations — events are lost with one runtime error each, and Watchexec keeps processing what comes later
            kind, mode = "N", "Q"; k = r.randrange(len(ops)); ops = ops[:k] + [f"burst:{r.choice([30, 50, 80])}"] + ops[k:]
        cases.append(f"fr{i} {kind} {mode} {';'.join(ops)}")
    def attempt(cs, k):
        impl, culprits, fatal = core.run_chunks("wxfsreal", cs, k, 400 if ctx["thorough"] else 200)
        if fatal: return None, fatal, culprits
        cs = [c for c in cs if c in impl and " HUNG" not in impl[c] and impl[c].count(" ") >= 2]
        lines = []
        for c in cs:
            f = c.split(" ", 3); segs = impl[c].split(" ", 1)[1].split(" n=")[0]
            lines.append(f"FR\t{f[1]}\t{f[2]}\t{f[3]}\t{segs}")
        (d / "cases.txt").write_text("\n".join(lines) + "\n")
        ok, err = core.run_driver(["fsreal"], d / "cases.txt", d / "model.txt")
        if not ok: return None, "wxdriver fsreal failed: " + err[-600:], culprits
        return {c: (impl[c], m) for c, m in zip(cs, core.read_lines(d / "model.txt"))}, None, culprits
    res, fatal, culprits = attempt(cases, 12)
    if fatal: s.error = fatal; return s
    for c, why in culprits: s.oracle_failures.append((cases.index(c), c, "", f"Watchexec gave no answer while real filesystem events were arriving: {why}"))
    # a report that is merely LATE (a loaded machine) shows as `missing`: such cases run again, two at a time, and count only if the
    # path is missing in all three runs (a change that loses events loses them every time)
    for _ in range(2):
        late = [c for c in cases if c in res and "missing:" in res[c][1]]
        if not late: break
        s.bump("timing-suspects-rerun", len(late))
        again, fatal, _c = attempt(late, 2)
        if fatal: s.error = fatal; return s
        res.update(again)
    cases = [c for c in cases if c in res]
    impl = {c: res[c][0] for c in cases}; model = [res[c][1] for c in cases]
    (d / "cases.txt").write_text("\n".join(cases) + "\n"); (d / "impl.txt").write_text("\n".join(impl[c] for c in cases) + "\n"); (d / "model.txt").write_text("\n".join(model) + "\n")
    s.evaluations = len(cases)
    for i, (c, mo) in enumerate(zip(cases, model)):
        o = impl[c]; f = dict(x.split("=", 1) for x in o.split(" ") if "=" in x and x[0] in "nrem")
        ops = c.split(" ", 3)[3].split(";"); what = None
        for op, verdict in zip(ops, mo.split("|")):
            if verdict.startswith("missing:"): what = f"`{op}` happened under a watched path and the filter accepts it, yet no event naming {verdict[8:]} reached the action handler"; break
            if verdict.startswith("forbidden:"): what = f"after `{op}` the action handler was handed an event naming {verdict[10:]}, which the filter rejects / fails on or which lies outside the watched paths"; break
        if mo != "|".join(["ok"] * len(ops)): s.disagreements.append((i, c, o, mo))
        nd, na = f["n"].split("/")
        if not what and nd != na: what = f"the filter accepted {na} events but the action handler was handed {nd}: an accepted event was lost or handed over twice"
        if not what and f["empty"] != "0": what = f"the action handler was invoked with an empty batch {f['empty']} time(s)"
        ne, nh = f["err"].split("/")
        overflow = c.split(" ")[2] == "Q"
        if overflow: s.bump("queue-overflow errors handled", int(nh) - int(ne))
        # (the watcher itself may report further runtime errors — a watch on a directory that was moved away, a queue overflow — so the
        # handler may see more errors than the filter raised, never fewer)
        if not what and int(nh) < int(ne): what = f"the filter failed on {ne} events but the error handler saw only {nh} runtime errors"
        if int(nh) > int(ne) and not overflow: s.bump("runtime errors raised by the watcher itself", int(nh) - int(ne))
        if not what and f.get("main") != "running": what = f"the main task ended ({f.get('main')}) while filesystem events were being processed"
        if what: s.oracle_failures.append((i, c, o, what))
        s.bump("watcher=" + c.split(" ")[1]); s.bump("mode=" + c.split(" ")[2])
        for op in ops: s.bump("op " + op.split(":")[0])
        s.bump("events delivered", int(nd)); s.bump("events rejected by the filter", int(f["rej"])); s.bump("filter errors", int(f["err"].split("/")[0]))
        if int(nd) >= 3: s.nontrivial.add(hashlib.md5((c.split(" ", 1)[1] + o).encode()).digest()[:8])
        if i % max(1, len(cases) // 3) == 0 and len(s.samples) < 3: s.samples.append({"case": c, "impl": o, "model": mo})
    s.note = ("a real Watchexec instance (main(), fs worker with the NATIVE (inotify) or the POLL watcher, action worker, error hook) over a temp tree; real create / append / rename / "
              "remove / mkdir operations, watch configurations root recursive / root non-recursive / subtree + single file, a filterer that rejects `skip` paths and fails on `boom` paths; "
              "judged by Fsrc.segOk (every operation on a visible accepted path is reported, nothing rejected / erroring / outside the watched area is delivered) and by the counters "
              "(delivered = accepted, no empty batch, one handled error per filter failure); appends under the poll watcher are not demanded (notify compares whole seconds)")
    return s

def kbd_stream(pid, ctx):
    """the keyboard source on a real Watchexec instance whose fd 0 is a pipe the harness holds the write end of (one process per case)"""
    import itertools
    r = random.Random(ctx["seed"] * 53 + 1)
    s = core.StreamResult("keyboard")
    d = core.WORK / pid / "keyboard"; d.mkdir(parents=True, exist_ok=True)
    cases = core.corpus("keyboard")
    # every script of up to 3 (quick) / 4 (thorough) steps, each settled; `d` and `c` always stand alone between two settles (a close
    # signal and an end of input that reach the watch task in the same instant are decided by an unbiased select!)
    L = 4 if ctx["thorough"] else 3
    k = 0
    for n in range(1, L + 1):
        for ops in itertools.product(["on", "off", "t", "d", "c"], repeat=n):
            if sum(1 for o in ops if o == "c") > 1: continue
            cases.append(f"kx{k} " + ";".join(o + ";y" for o in ops)); k += 1
    # longer random scripts with bursts of configuration changes the worker sees as ONE wake-up
    for i in range(160 if ctx["thorough"] else 48):
        ops = []; closed = False
        for _ in range(r.randint(3, 8)):
            x = r.random()
            if x < 0.5: ops.append(";".join(r.choice(["on", "off", "t"]) for _ in range(r.randint(1, 4))))
            elif x < 0.75: ops.append("d")
            elif not closed: ops.append("c"); closed = True
            else: ops.append("d")
        cases.append(f"kr{i} " + ";".join(o + ";y" for o in ops))
    impl, culprits, fatal = core.run_chunks("wxkbd", cases, 12, 600 if ctx["thorough"] else 200)
    if fatal: s.error = fatal; return s
    for c, why in culprits: s.oracle_failures.append((cases.index(c), c, "", f"no answer on this keyboard script: {why}"))
    def attempt(cs, kk):
        im, _c, _f = core.run_chunks("wxkbd", cs, kk, 200)
        return im
    (d / "cases.txt").write_text("\n".join(cases) + "\n")
    ok, err = core.run_driver(["kbd"], d / "cases.txt", d / "model.txt")
    if not ok: s.error = "wxdriver kbd failed: " + err[-600:]; return s
    model = dict(zip(cases, core.read_lines(d / "model.txt")))
    # an event that is merely late on a loaded machine shows as a smaller count: such cases run again, two at a time
    late = [c for c in cases if c in impl and impl[c].split(" ")[1:2] != model[c].split(" ")[1:2] and "HUNG" not in impl[c] and "DIED" not in impl[c]]
    if late:
        s.bump("timing-suspects-rerun", len(late))
        impl.update(attempt(late, 2))
    cases = [c for c in cases if c in impl]
    (d / "impl.txt").write_text("\n".join(impl[c] for c in cases) + "\n")
    s.evaluations = len(cases)
    for i, c in enumerate(cases):
        o, mo = impl[c], model[c]
        ops = c.split(" ")[1].split(";")
        if " HUNG" in o or " DIED" in o or "=" not in o:
            s.oracle_failures.append((i, c, o, "the Watchexec instance hung or died while its keyboard source was being driven")); continue
        f = dict(x.split("=", 1) for x in o.split(" ")[1:])
        if f"{c.split(' ')[0]} eof={f['eof']}" != mo: s.disagreements.append((i, c, o, mo))
        eof = int(f["eof"]); what = None
        ons = sum(1 for x in ops if x == "on")
        # the state at the end of the script: configured value, whether stdin is at end of input
        enabled = next((x == "on" for x in reversed(ops) if x in ("on", "off")), False)
        # switches from disabled to enabled as the worker can see them: the configured value at every settling point
        seq, cur = [False], False
        for x in ops + ["y"]:
            if x in ("on", "off"): cur = x == "on"
            elif x == "y": seq.append(cur)
        edges = sum(1 for a, b in zip(seq, seq[1:]) if b and not a)
        if f["other"] != "0": what = f"the action handler was handed {f['other']} event(s) that are no keyboard EOF although nothing else happened"
        elif int(f["batches"]) != eof: what = f"{eof} keyboard EOF event(s) were handed over in {f['batches']} batch(es): an event in two batches, two in one although they were settled apart, or an empty batch"
        elif ons == 0 and eof: what = f"keyboard events were never enabled, yet {eof} EOF event(s) reached the action handler"
        elif "c" not in ops and eof: what = f"stdin never reached end of input, yet {eof} EOF event(s) reached the action handler"
        elif eof > ons: what = f"{eof} EOF events for {ons} call(s) of keyboard_events(true): more than one per watch task"
        elif eof > edges: what = f"{eof} EOF events although the source was switched from disabled to enabled only {edges} time(s) (as seen whenever things had settled): one end of input was reported twice"
        elif enabled and "c" in ops and eof == 0: what = "the keyboard source is enabled and stdin is at end of input, yet no EOF event reached the action handler: the event was lost"
        elif f["errors"] != "0": what = f"{f['errors']} runtime error(s) although nothing failed"
        elif f["main"] != "running": what = "the main task ended while only the keyboard source was being driven"
        # the plain use: enabled once (settled), never switched again, then end of input: exactly one event
        if not what and ons == 1 and "off" not in ops and "c" in ops and eof != 1: what = f"enabled once, one end of input: exactly one EOF event is due, {eof} were handed over"
        if what: s.oracle_failures.append((i, c, o, what))
        s.bump(f"eof={eof}"); s.bump("enabled at the end" if enabled else "disabled at the end")
        if any(ops[j] in ("on", "off", "t") and ops[j + 1] in ("on", "off", "t") for j in range(len(ops) - 1)): s.bump("coalesced changes")
        if "t" in ops: s.bump("another configuration value changed while the source ran")
        if eof >= 1 and ons >= 2: s.nontrivial.add(hashlib.md5((c.split(" ", 1)[1] + o).encode()).digest()[:8])
        elif eof >= 1 or ("c" in ops and ons): s.nontrivial.add(hashlib.md5((c.split(" ", 1)[1] + o).encode()).digest()[:8])
        if i % max(1, len(cases) // 3) == 0 and len(s.samples) < 3: s.samples.append({"case": c, "impl": o, "model": mo})
    s.exhaustive = False
    s.note = (f"a real Watchexec instance per case in its own process whose fd 0 is a pipe held by the harness: every script of up to {L} settled steps over "
              "{keyboard_events(true), keyboard_events(false), a change of another configuration value, input bytes, end of input} plus random longer ones with bursts of unsettled configuration changes; the model (Kb) "
              "predicts the number of Keyboard::Eof events the action handler sees; the oracle demands each in exactly one batch, none while disabled or before end of input, at most "
              "one per enabling, none lost when the source ends up enabled at end of input, exactly one in the plain use")
    return s


SPAN_UNITS = {"nsec": 1, "ns": 1, "usec": 10**3, "us": 10**3, "msec": 10**6, "ms": 10**6, "seconds": 10**9, "second": 10**9, "sec": 10**9, "s": 10**9, "minutes": 60 * 10**9, "minute": 60 * 10**9,
              "min": 60 * 10**9, "m": 60 * 10**9, "hours": 3600 * 10**9, "hour": 3600 * 10**9, "hr": 3600 * 10**9, "h": 3600 * 10**9, "days": 86400 * 10**9, "day": 86400 * 10**9, "d": 86400 * 10**9,
              "weeks": 604800 * 10**9, "week": 604800 * 10**9, "w": 604800 * 10**9}

def timespan_stream(pid, ctx):
    """the CLI's time-span options through the real argument parser and make_config: unitless = milliseconds (--debounce, --poll) or seconds
    (--stop-timeout, --delay-run), a unit overrides that; --debounce IS the throttle of the action worker"""
    r = random.Random(ctx["seed"] * 41 + 7)
    s = core.StreamResult("cli-timespan")
    d = core.WORK / pid / "cli-timespan"; d.mkdir(parents=True, exist_ok=True)
    cases = []
    opts = ["--debounce", "--poll", "--stop-timeout", "--delay-run"]
    nums = [0, 1, 3, 7, 15, 50, 250, 500, 1000, 65535, 86400, 10**9]
    for o in opts:
        for n in nums: cases.append(f"ts{len(cases)} {o} {n}")
        cases.append(f"ts{len(cases)} {o} +{r.choice(nums)}"); cases.append(f"ts{len(cases)} {o} 00{r.choice(nums)}")
        for u in SPAN_UNITS:
            for n in r.sample(nums[:-1], 3 if ctx["thorough"] else 2): cases.append(f"ts{len(cases)} {o} {n}{u}")
    impl, culprits, fatal = core.run_chunks("wxspan", cases, 4, 120)
    if fatal: s.error = fatal; return s
    for c, why in culprits: s.oracle_failures.append((cases.index(c), c, "", f"the CLI's argument parser gave no answer on this value (it rejects a documented spelling?): {why}"))
    cases = [c for c in cases if c in impl]
    (d / "cases.txt").write_text("\n".join(cases) + "\n"); (d / "impl.txt").write_text("\n".join(impl[c] for c in cases) + "\n")
    ok, err = core.run_driver(["span"], d / "cases.txt", d / "model.txt")
    if not ok: s.error = "wxdriver span failed: " + err[-600:]; return s
    model = core.read_lines(d / "model.txt")
    s.evaluations = len(cases)
    for i, (c, mo) in enumerate(zip(cases, model)):
        o = impl[c]
        if o != mo: s.disagreements.append((i, c, o, mo))
        cid, opt, val = c.split(" ", 2)
        m = re.match(r"\+?(\d+)([a-z]*)$", val)
        want = int(m.group(1)) * (SPAN_UNITS[m.group(2)] if m.group(2) else (10**6 if opt in ("--debounce", "--poll") else 10**9))
        f = o.split(" ")
        what = None
        if len(f) < 2 or not f[1].isdigit(): what = f"`{opt}={val}` was not accepted: {o[:120]}"
        elif int(f[1]) != want: what = f"`{opt}={val}` became {int(f[1])} ns, documented is {want} ns ({'a value without a unit is ' + ('milliseconds' if opt in ('--debounce', '--poll') else 'seconds') if not m.group(2) else 'the unit given'})"
        elif opt == "--debounce" and f[2:] != [f"throttle={want}"]: what = f"`--debounce={val}` ({want} ns) but the action worker's throttle is configured as {f[2:]}"
        if what: s.oracle_failures.append((i, c, o, what))
        s.bump(opt); s.bump("unitless" if not m.group(2) else "with unit")
        s.nontrivial.add(hashlib.md5(c.split(" ", 1)[1].encode()).digest()[:8])
        if i % max(1, len(cases) // 3) == 0 and len(s.samples) < 3: s.samples.append({"case": c, "impl": o, "model": mo})
    s.note = ("clap + TimeSpan::from_str + make_config for real (hook H1) on every option taking a time span: unitless values (also with `+` and leading zeros) and every unit spelling of "
              "humantime's table with whole-nanosecond units; the model is Ca.Ts.parseSpan (one-part forms), the oracle the documented meaning; values the parser rejects are not sent "
              "(clap exits the process)")
    return s


def worker_plan(pid, theorems, rule_extra):
    fsreal = pid == "C01"
    return dict(modules=["Wx.Glob.Throttle", "Wx.Glob.ThrottleRun"] + (["Wx.Fs.Source", "Wx.Kb.Thm"] if fsreal else ["Wx.Cli.TimeSpanThm"]),
                theorems=theorems + (["Fsrc.rejected_never_ok", "Fsrc.outside_never_ok", "Fsrc.missing_is_flagged",
                                      "Kb.eof_never_lost", "Kb.eof_exactly_once", "Kb.delivered_le_enables", "Kb.disabled_delivers_nothing", "Kb.inv_run", "Kb.spawned_eq_edges", "Kb.delivered_le_edges"] if fsreal else ["Ca.Ts.unitless_is_scaled", "Ca.Ts.unit_is_respected", "Ca.Ts.parseU64_with_unit"]),
                bins=[("lib", ["wxthrottle"] + (["wxfsreal", "wxkbd"] if fsreal else []))] + ([] if fsreal else [("cli", ["wxspan"])]),
                streams=(lambda ctx: [worker_stream(pid, ctx), fs_real_stream(pid, ctx), kbd_stream(pid, ctx)]) if fsreal else (lambda ctx: [worker_stream(pid, ctx), timespan_stream(pid, ctx)]),
                sources=["crates/lib/src/action/worker.rs", "crates/lib/src/watchexec.rs", "crates/lib/src/filter.rs", "crates/events/src/event.rs"] + (["crates/lib/src/sources/fs.rs", "crates/lib/src/sources/keyboard.rs", "crates/lib/src/config.rs"] if fsreal else ["crates/cli/src/args.rs", "crates/cli/src/args/events.rs", "crates/cli/src/config.rs"]),
                rule="a case is one arrival script (throttle, handler time, events with time / priority / emptiness / filter verdict); non-trivial = at least two batches; distinct by (script, observation). " + rule_extra,
                assumptions=["async-priority-channel is a bounded priority heap (order within one priority unspecified) — external, modelled as the turn input",
                             "tokio::time::timeout and std::time::Instant: each clock reading is an input of a turn; only monotonicity is relied on",
                             "which events inotify / the poll watcher emit for an operation is not modelled (notify is external); the fs-real stream of C01 demands only that every operation on a watched, accepted path is reported at least once and nothing else is; delivery of signals by the OS is not modelled"],
                partial="the real-time stream cannot place arrivals exactly on window edges; the theorems cover every clock reading, the stream validates the model away from the edges")

PLANS["C01"] = worker_plan("C01", ["Sp.Th.worker_conserve", "Sp.Th.worker_nonempty", "Sp.Th.worker_only_accepted", "Sp.Th.turn_rejected", "Sp.Th.collect_conserve", "Sp.Th.turn_batch", "Sp.Th.turn_next_set", "Sp.Th.turn_filtered", "Sp.Th.classify_spec", "Sp.Th.accepted_iff"],
                           "Oracle: every accepted event in exactly one batch, no rejected or erroring event in any, no empty batch, one runtime error per erroring event.")
PLANS["C02"] = worker_plan("C02", ["Sp.Th.worker_bound", "Sp.Th.collect_bound", "Sp.Th.turn_urgent", "Sp.Th.turn_window_over", "Sp.Th.turn_rejected", "Sp.Th.worker_conserve", "Sp.Th.turn_lower_bound", "Sp.Th.turn_batch", "Sp.Th.turn_filtered", "Sp.Th.collect_conserve", "Sp.Th.classify_spec"],
                           "Oracle: a batch without urgent events reaches the handler no earlier than throttle after its first event was sent (strict, microseconds); urgent and empty events never reach the filter.")

# ------------------------------------------------------------------------------------------------
# C12 CLI ignore-discovery flags

def c12_streams(ctx):
    flags = ["no-vcs", "no-project", "no-global", "no-default", "no-discover", "ignore-nothing"]
    def removed_by(src, on):
        v, p, g, d, disc, allf = on
        if allf: v = p = g = d = disc = True
        return {"gg": g or v or disc, "ga": g or disc, "pv": p or v or disc, "pg": p or disc, "gc": p or g or v or disc, "pyc": d}.get(src, False)
    def oracle(c, obs, mo):
        # the property itself: a probe owned by a source is ignored unless a set flag names that source; explicit options always act
        f = c.split("\t"); gc = f[1] == "1"; mask = int(f[2]); on = [bool(mask & (1 << i)) for i in range(6)]
        rows = obs.split("|")
        a = dict(x.split(":") for x in rows[0].split(" ")) if ":" in rows[0] else {}
        for src in ("gg", "ga", "pv", "pg", "pyc") + (("gc",) if gc else ()):
            want = "pass" if removed_by(src, on) else "ign"
            if src == "gg" and gc and not (on[1] or on[5]): want = "pass"     # the project's own core.excludesFile replaces the global git excludes
            if src == "gg" and f[1] == "3": want = "pass"                      # no VCS marker at the origin: the global git excludes are not a source of this project at all
            if a.get(src) != want: return f"flags [{' '.join(n for n, o in zip(flags, on) if o)}]{' (project git config)' if gc else ''}: probe owned by source `{src}` is {a.get(src)}, the flags say {want}"
        for lab, want in (("ex", "ign"), ("ip", "ign"), ("ok", "pass"), ("keep", "pass"), ("kpyc", "pass")):
            if a.get(lab) != want: return f"flags [{' '.join(n for n, o in zip(flags, on) if o)}]: explicit option probe `{lab}` is {a.get(lab)}, expected {want} whatever the flags"
        fixed = ["fl:pass ok:ign ex:ign", "ff:pass ok:ign", "rs:pass toml:pass brs:ign ok:ign", "create:pass modify:ign",
                 "rs:pass toml:pass ok:ign", "fl:pass ok:ign", "ip:ign ok:pass kpyc:pass", "ex:ign ok:pass keep:pass"]
        for got, want in zip(rows[1:], fixed):
            if got != want: return f"flags [{' '.join(n for n, o in zip(flags, on) if o)}]: explicit option row is `{got}`, expected `{want}` whatever the flags"
        return None
    s = simple_stream("C12", "cli-flags", "cli", "wxflags", [], ["flags"], oracle=oracle,
                      nontrivial=lambda c, obs: True, classify=lambda c, obs: ["gitcfg=" + c.split("\t")[1], "sources-active=" + str(obs.split("|")[0].count(":ign"))])
    s.exhaustive = True
    s.note = ("exhaustive: all 64 combinations of the six flags x 4 fixtures (a git project; one with a project-level core.excludesFile; the first one started from a subdirectory; one WITHOUT a VCS marker that ships a .gitignore) x 5 explicit-option variants (--ignore-file + --ignore, "
              "--filter + --ignore-file, --filter-file, --exts + --ignore, --fs-events); fixture: global git ignore and global application ignore through HOME / XDG_CONFIG_HOME, project "
              ".gitignore and .ignore, paths hit by the built-in defaults; the real WatchexecFilterer::new(args_from(argv)) (hook H1) is probed with one event per source")
    return [s]

PLANS["C12"] = dict(
    modules=["Wx.Cli.C12"],
    theorems=["C12.c12_explicit_always", "C12.c12_flags_effective", "C12.c12_exact", "C12.c12_exact_gitcfg", "C12.c12_exact_novcs", "C12.c12_explicit_all", "C12.c12_fixed_0", "C12.c12_today_52"],
    bins=[("cli", ["wxflags"])],
    streams=c12_streams,
    sources=["crates/cli/src/filterer.rs", "crates/cli/src/dirs.rs", "crates/cli/src/args/filtering.rs"],
    rule="a case is one flag combination in one fixture project (5 filterer constructions, 20 probes); every case is non-trivial; the space is enumerated completely",
    assumptions=["ignore_files::from_origin / from_environment return the discovered files with the applies_in / applies_to tags the model's provenance classes stand for (validated on the fixture)",
                 "clap parsing and Args::normalise are exercised for real (hook H1), modelled only as the --ignore-nothing expansion"],
)

# ------------------------------------------------------------------------------------------------
# C08 quit

def quit_cases(seed, n):
    r = random.Random(seed * 53 + 8)
    fixed = [
        "q_run g:15:100 50 I~n:start", "q_exit g:15:100 51 S30~n:start/I~n:start/I~", "q_abort abort 50 I~n:start/E10~n:start",
        "q_timer g:15:100 20 I,I~n:start;y;n:gtryrestart:2:500", "q_pending g:15:40 10 I~n:start;y;n:gstop:15:300;n:run:1",
        "q_deleted g:15:100 10 I~n:start;y;n:delete/I~n:start", "q_never g:15:100 0 I~/F,I~n:start", "q_three g:15:200 30 I~n:start/I~n:start/I~n:start",
        "q_f4 g:15:50 100 I,E1000,I~n:start;y;n:gtryrestart:15:20", "q_grace0 g:9:0 5 I~n:start", "q_abort_timer abort 21 I,I~n:start;y;n:gtryrestart:2:500",
        # jobs created and started inside the very action that requests the quit (`+`)
        # controls sent from INSIDE the quitting action, just before the quit (`!`): the job is still on its way out when the worker's quit reaches it
        "i_del g:15:500 100 I~n:start;y!n:delete", "i_del_abort abort 100 I~n:start;y!n:delete;n:start", "i_delnow g:15:300 20 I~n:start;y!n:deletenow/I~n:start",
        "i_gstop g:15:100 10 I~n:start;y!n:gstop:2:300;n:delete", "i_restart g:15:50 0 S30,I~n:start;y!n:restart",
        # a graceful stop / restart pending at the quit whose remaining grace is far longer than the quit's own (+ any fixed allowance): the
        # shutdown legitimately takes the remainder plus the quit's grace, and nothing is given up on before that
        "q_long g:15:100 50 I~n:start;y;n:gstop:15:3000", "q_long2 g:2:40 20 I,I~n:start;y;n:gtryrestart:15:2500", "q_long3 g:15:300 10 I~n:start;y;n:gstop:15:1500/I~n:start",
        "q_long4 g:15:0 100 I~n:start;y;n:gstop:2:5000/S2000~n:start",
        "l_g g:15:100 50 I~n:start/+I~", "l_abort abort 50 I~n:start/+I~", "l_only g:15:40 10 +E500~", "l_only_abort abort 10 +I~", "l_two g:2:30 0 +S10~/+I~/F,I~n:start",
    ]
    out = list(fixed)
    def beh():
        k = r.random()
        return f"E{r.choice([0, 5, 20, 100, 400])}" if k < 0.25 else f"S{r.choice([0, 5, 30, 100, 250])}" if k < 0.5 else "I" if k < 0.9 else "F"
    def op():
        k = r.choice(["start", "start", "start", "stop", "gstop", "restart", "grestart", "tryrestart", "gtryrestart", "signal", "towait", "delete", "deletenow", "run"])
        g = r.choice([1, 2, 9, 15, 15]); ms = r.choice([0, 10, 50, 200, 500, 500, 1500, 4000])
        if k in ("gstop", "grestart", "gtryrestart"): return f"n:{k}:{g}:{ms}"
        if k == "signal": return f"n:signal:{g}"
        if k == "run": return f"n:run:{r.randrange(50)}"
        return "n:" + k
    for i in range(n):
        jobs = []
        for _ in range(r.choice([1, 1, 2, 2, 3, 4])):
            ops = []
            for _ in range(r.choice([0, 1, 1, 2, 3])):
                ops.append(op())
                if r.random() < 0.4: ops.append("y")
            inact = ""
            if r.random() < 0.2: inact = "!" + ";".join(op() for _ in range(r.randint(1, 2)))
            jobs.append(",".join(beh() for _ in range(r.randint(1, 3))) + "~" + ";".join(ops) + inact)
        for _ in range(r.choice([0, 0, 0, 1, 1, 2])):
            jobs.append("+" + ",".join(beh() for _ in range(r.randint(1, 2))) + "~")
        manner = "abort" if r.random() < 0.25 else f"g:{r.choice([15, 2, 9, 10])}:{r.choice([0, 40, 100, 300])}"
        out.append(f"q{seed}_{i} {manner} {r.choice([0, 1, 10, 20, 21, 50, 51, 100, 300])} {'/'.join(jobs)}")
    return out

def c08_streams(ctx):
    n = 15000 if ctx["thorough"] else 3000
    s = core.StreamResult("quit-sim")
    d = core.WORK / "C08" / "quit-sim"; d.mkdir(parents=True, exist_ok=True)
    cases = core.corpus("quit-sim") + quit_cases(ctx["seed"], n)
    (d / "cases.txt").write_text("\n".join(cases) + "\n")
    impl, culprits, fatal = core.run_chunks("wxquit", cases, 12, 600 if ctx["thorough"] else 150)
    if fatal: s.error = fatal; return [s]
    for c, why in culprits: s.oracle_failures.append((cases.index(c), c, "", f"the quit did not terminate (or the instance crashed): {why}"))
    cases = [c for c in cases if c in impl]
    (d / "cases.txt").write_text("\n".join(cases) + "\n")
    (d / "impl.txt").write_text("\n".join(impl[c] for c in cases) + "\n")
    # the model: every job is one run of the job-task model — its own script, then at the quit instant the controls the worker sends
    # (stop_with_signal then delete: GracefulStop, then Stop + Delete, all normal priority), or nothing more for an abort
    jl = []
    for c in cases:
        cid, manner, adv, jobs = c.split(" ")
        for ji, j in enumerate(jobs.split("/")):
            late = j.startswith("+")
            behs, ops = j.lstrip("+").split("~")
            ops, _, inact = ops.partition("!")
            ops = [o for o in ops.split(";") if o]
            # a late job is created and started by the quitting action itself: Start is queued just before the quit's controls;
            # in-action controls (`!`) are queued there too, without the task getting a turn in between
            # (an abort follows the action at once: the job task gets no turn between the in-action controls and its own abort)
            tail = [f"a:{adv}"] + ([o for o in inact.split(";") if o] if manner != "abort" else []) + (["n:start"] if late else []) + (["y"] if late and manner == "abort" else []) + ([] if manner == "abort" else [f"n:gstop:{manner.split(':')[1]}:{manner.split(':')[2]}", "n:delete", "a:12000"])
            jl.append(f"{cid}.{ji} {behs} {';'.join(ops + tail)}")
    (d / "jobs.txt").write_text("\n".join(jl) + "\n")
    ok, err = core.run_driver(["job", "all"], d / "jobs.txt", d / "model.txt")
    if not ok: s.error = "wxdriver job failed: " + err[-600:]; return [s]
    model = dict(l.split(" ", 1) for l in core.read_lines(d / "model.txt"))
    s.evaluations = len(cases)
    for i, c in enumerate(cases):
        cid, manner, adv, jobs = c.split(" "); adv = int(adv)
        im = impl[c].split(" ", 1)[1]
        m = re.match(r"main=(\S+)@(\d+) dead=(\S*) ?(.*)$", im)
        if not m: s.disagreements.append((i, c, im, "unparsable")); continue
        mainres, took, traces = m.group(1), int(m.group(2)), m.group(4).split(" // ")
        njobs = len(jobs.split("/"))
        while len(traces) < njobs: traces.append("")
        exp_end = 0; spec_end = 0; bad = None; alive = []; bound = 0
        for ji in range(njobs):
            alts = model[f"{cid}.{ji}"].split(" ## ")
            got = traces[ji].strip()
            cands = []
            for a in alts:
                ev = [e for e in a.split("|") if e and not e.startswith("unres:")]
                ended = [int(e.split(":")[0]) for e in ev if e.endswith(":ended")]
                body = [e for e in ev if not e.endswith(":ended")]
                if manner == "abort":
                    live = set()
                    for e in body:
                        p = e.split(":")
                        if p[1] == "spawn": live.add(p[2])
                        elif p[1] == "reaped": live.discard(p[2])
                    body = body + [f"{adv}:dropped:{x}" for x in sorted(live)]
                cands.append(("|".join(body), max(ended) if ended else None))
            if manner == "abort" and jobs.split("/")[ji].startswith("+"): cands.append(("", None))   # the new task is aborted before it was ever polled
            # C08: nothing started by a job survives (judged on the implementation's own log, whatever the model says)
            live = set()
            for e in got.split("|"):
                p = e.split(":")
                if len(p) > 2 and p[1] == "spawn": live.add(p[2])
                elif len(p) > 2 and p[1] in ("reaped", "dropped"): live.discard(p[2])
            alive += [f"job{ji}:{x}" for x in live]
            hit = [cnd for cnd in cands if cnd[0] == got]
            # when this job's task is gone by the model: over the matching traces, or — if the implementation's trace matches none — over all
            if manner != "abort": spec_end = max(spec_end, max((h[1] if h[1] is not None else adv) for h in (hit or cands)))
            if not hit:
                if bad is None: bad = f"job {ji}: implementation `{got}` not among the model's traces {[x[0] for x in cands[:3]]}"
                continue
            if manner != "abort": exp_end = max(exp_end, max((h[1] if h[1] is not None else adv) for h in hit))
        exp_took = 0 if manner == "abort" else max(0, exp_end - adv)
        if bad is None and (mainres != "ok" or took != exp_took): bad = f"main finished {mainres} {took} ms after the quit, the model says ok after {exp_took} ms"
        if bad: s.disagreements.append((i, c, im, bad))
        # oracle: the property's own bound — abort: at once; graceful: remaining armed grace periods + the quit's own (scripts arm at most one timer per job before the quit)
        if mainres != "ok": s.oracle_failures.append((i, c, im, f"main task did not finish cleanly after the quit: {mainres}"))
        if alive: s.oracle_failures.append((i, c, im, f"processes left behind after shutdown: {alive}"))
        # a graceful quit stops every job through its task (signal, grace, kill, reap): a process that was merely DROPPED was given up on —
        # its task was aborted before the grace periods in effect had elapsed, and nothing kills the rest of its process group
        if manner != "abort" and any(":dropped:" in t for t in traces): s.oracle_failures.append((i, c, im, f"graceful quit: a job's process was dropped (its task aborted) {took} ms after the quit instead of being stopped by the job: " + " // ".join(t for t in traces if ":dropped:" in t)[:300]))
        if manner == "abort" and took > 0: s.oracle_failures.append((i, c, im, f"abort quit took {took} ms of virtual time"))
        # the time bound, from the model (c08_quit_bound: a job is gone once the clock passes its deadline — the armed timer's expiry plus
        # the grace periods still queued plus the quit's own): the main task must not take longer than the slowest job's model run
        if manner != "abort" and mainres == "ok" and took > max(0, spec_end - adv):
            s.oracle_failures.append((i, c, im, f"graceful quit took {took} ms; by the grace periods then in effect every job is gone after {max(0, spec_end - adv)} ms"))
        if manner != "abort":
            g = int(manner.split(":")[2])
            pend = 0
            for j in jobs.split("/"):
                graces = [int(o.split(":")[3]) for o in j.split("~")[1].replace("!", ";").split(";") if o.split(":")[1:2] and o.split(":")[1] in ("gstop", "grestart", "gtryrestart")]
                pend = max(pend, sum(graces))
            if took > pend + g: s.oracle_failures.append((i, c, im, f"graceful quit took {took} ms, more than the grace periods in effect ({pend} ms pending + {g} ms of the quit)"))
        s.bump("abort" if manner == "abort" else "graceful"); s.bump(f"jobs={njobs}")
        if "gtryrestart" in c or "gstop" in c or "grestart" in c: s.bump("armed-or-queued graceful control")
        if took > 0: s.nontrivial.add(hashlib.md5((c.split(" ", 1)[1] + im).encode()).digest()[:8])
        if i % max(1, len(cases) // 3) == 0 and len(s.samples) < 3: s.samples.append({"case": c, "impl": im[:400]})
    s.note = ("a real Watchexec instance (with_config, main()) on a paused current-thread runtime; its action handler creates 1-4 jobs (simulated children through the public spawn "
              "hook), the script puts them into states (never started, running, finished, failed spawn, armed graceful-stop / restart timers, queued controls, already deleted, handle "
              "clones kept or dropped), then a second action quits gracefully (signal, grace) or aborts; per job the child call log must be one of the job model's traces for "
              "'script; GracefulStop; Stop; Delete' (abort: script, then every live child's handle dropped), and main must finish exactly when the slowest job's task ends")
    return [s]

def registry_stream(pid, ctx):
    """the action worker's job registry, the handler's create / get-or-create / get calls and Id::default() on several OS threads, on a real
    Watchexec instance with real processes; then a graceful quit: which processes survive, does the main task return"""
    r = random.Random(ctx["seed"] * 97 + 19)
    s = core.StreamResult("registry")
    d = core.WORK / pid / "registry"; d.mkdir(parents=True, exist_ok=True)
    cases = core.corpus("registry") + ["rf0 all m0;g0;g0", "rf1 all c0;c1;m1;g2|g0;g2;q1/1|q1;c0", "rf2 all c0;c2;c3|m1;m2;g3;g4|q0;q1", "rf3 all m1|m2|g0;g1|m0;g2;g2;g0",
                                        "rf4 all c1;c1;c2|c0;c0", "rf5 all m1;m2;m3;m1;m2;m3;g0;g1;g2;g3;g4;g5", "rf6 all m0;g0;g0|c1;g0 abort", "rf7 all c0;c1;m2;g2|g0;g1/0 abort"]
    for i in range(90 if ctx["thorough"] else 26):
        acts = []; nids = 0; njobs = 0
        for _ in range(r.randint(1, 4)):
            ops = []
            for _ in range(r.randint(1, 5)):
                x = r.random()
                if x < 0.25: ops.append(f"c{r.randrange(4)}"); nids += 1; njobs += 1
                elif x < 0.5: ops.append(f"m{r.randrange(4)}"); nids += 1
                elif x < 0.85 and nids: ops.append(f"g{r.randrange(nids)}"); njobs += 1
                elif nids: ops.append(f"q{r.randrange(nids)}")
            kills = [str(r.randrange(njobs))] if njobs and r.random() < 0.2 else []
            acts.append(";".join(ops) + ("/" + ",".join(kills) if kills else ""))
        cases.append(f"rg{i} all {'|'.join(acts)}" + (" abort" if i % 4 == 3 else ""))
    impl, culprits, fatal = core.run_chunks("wxreg", cases, 12, 600 if ctx["thorough"] else 240)
    if fatal: s.error = fatal; return s
    for c, why in culprits: s.oracle_failures.append((cases.index(c), c, "", f"no answer on this registry script: {why}"))
    cases = [c for c in cases if c in impl]
    (d / "cases.txt").write_text("\n".join(cases) + "\n"); (d / "impl.txt").write_text("\n".join(impl[c] for c in cases) + "\n")
    ok, err = core.run_driver(["reg"], d / "cases.txt", d / "model.txt")
    if not ok: s.error = "wxdriver reg failed: " + err[-600:]; return s
    model = core.read_lines(d / "model.txt")
    s.evaluations = len(cases)
    for i, (c, mo) in enumerate(zip(cases, model)):
        o = impl[c]
        f = dict(x.split("=", 1) for x in o.split(" ")[1:]); g = dict(x.split("=", 1) for x in mo.split(" ")[1:])
        # a handle to a job that has ended cannot say which job it is (`e?`): any existing job is accepted there
        fo, go = f["out"].split(","), g["out"].split(",")
        same_out = len(fo) == len(go) and all(a == b or (a == "e?" and b.startswith("e")) for a, b in zip(fo, go))
        if not (same_out and f["leaked"] == g["leaked"] and f["main"] == g["main"]): s.disagreements.append((i, c, o, mo))
        what = None
        aborting = c.endswith(" abort")
        if aborting and f["main"] != "ok": what = "abort quit: the main task had not finished 3 s later"
        elif aborting and f["leaked"]: what = f"after the ABORT quit and the end of the main task the process(es) of job(s) {f['leaked']} are still running: the worker does not hold that job's task, so dropping its task set did not end it"
        elif f["main"] != "ok": what = "graceful quit (grace 300 ms, commands that exit on the signal): the main task had not finished 3 s later — it waits for a job task that the quit never stopped"
        elif f["leaked"]: what = f"after the graceful quit and the end of the main task the process(es) of job(s) {f['leaked']} (numbered by creation) are still running: the job was started by an action but is not in the worker's registry, so the quit never reached it"
        if what: s.oracle_failures.append((i, c, o, what))
        s.bump("jobs created", sum(1 for x in fo if x.startswith("n"))); s.bump("existing job returned", sum(1 for x in fo if x.startswith("e")))
        for a in c.split(" ")[2].split("|"):
            ops = a.split("/")[0].split(";")
            if len({x for x in ops if x.startswith("g")}) < len([x for x in ops if x.startswith("g")]): s.bump("same id asked for twice in one action")
            if "/" in a: s.bump("deletion between actions")
        if sum(1 for x in fo if x.startswith("n")) >= 2: s.nontrivial.add(hashlib.md5((c.split(" ", 1)[1] + o).encode()).digest()[:8])
        if i % max(1, len(cases) // 3) == 0 and len(s.samples) < 3: s.samples.append({"case": c, "impl": o, "model": mo})
    s.note = ("a real Watchexec instance (multi-thread runtime) whose action handler calls create_job (on its own and on other OS threads), Id::default() (own thread, persistent helper "
              "threads), get_or_create_job and get_job with the ids it holds, keeps every handle, deletes jobs between actions; each job runs a real `sleep`; then a graceful quit: the "
              "model (Rg) predicts what every call returns (new job / which existing job / nothing), which processes survive and whether the main task returns")
    return s


def c08_real(ctx):
    s = core.StreamResult("quit-real")
    reps = 3 if ctx["thorough"] else 1
    for rep in range(reps):
        p = subprocess.run([str(core.TARGET / "wxquitreal")], capture_output=True, text=True, timeout=600)
        if p.returncode != 0: s.error = f"wxquitreal failed rc={p.returncode}: {p.stderr[-500:]}"; return s
        for i, line in enumerate(p.stdout.splitlines()):
            f = line.split(" "); name = f[0]; kv = dict(x.split("=", 1) for x in f[1:])
            s.evaluations += 1; s.nontrivial.add(name.encode()); s.bump("manner-" + name.split("-")[0]); s.bump("grouped" if "grouped" in name else "ungrouped")
            if len(s.samples) < 3: s.samples.append({"scenario": line})
            if kv["main"] != "ok": s.oracle_failures.append((i, name, line, f"scenario {name}: the main task did not finish within 6 s of the quit"))
            elif int(kv["took"]) > int(kv["grace"]) + 400: s.oracle_failures.append((i, name, line, f"scenario {name}: shutdown took {kv['took']} ms, grace period {kv['grace']} ms (+400 ms margin)"))
            if kv["alive"]: s.oracle_failures.append((i, name, line, f"scenario {name}: process(es) {kv['alive']} of the job's process group still alive 300 ms after the main task returned"))
    s.note = ("real sh commands under a real Watchexec instance (real time, multi-thread runtime): exit on TERM, ignore TERM, grouped commands whose leader or another group member ignores TERM, "
              "two jobs at once; graceful quit (500 ms grace) and abort; liveness of every recorded pid via /proc after main returned. No model comparison: oracle only (validation of the OS-level part)")
    return s

PLANS["C08"] = dict(
    modules=["Wx.Job.C08", "Wx.Job.C08b", "Wx.Job.C06", "Wx.Job.C08t", "Wx.Job.C08m", "Wx.Job.SimInduct3", "Wx.Cli.Action", "Wx.Cli.SignalPrioThm", "Wx.Reg.Thm"],
    translate=True,
    theorems=["Wp.interrupt_and_terminate_are_urgent", "Wp.listened_signals_are_reported_as_themselves", "Wp.other_signals_are_high", "Wp.only_two_signals_are_singled_out", "Wp.signalPrio_translated", "Jm.c08_main_bound", "Jm.dead_stays_dead", "Ca.first_interrupt_quits_gracefully", "Ca.graceful_quit_sequence", "Ca.other_signals_pass", "Ca.interrupts_escalate", "Ca.unmapped_signals_pass_unchanged", "Ca.mapped_interrupt_does_not_quit", "Ca.translate_one", "Ca.last_mapping_wins", "Ca.keyboard_eof_quits_gracefully", "Ca.keyboard_eof_ignored_without_option", "Rg.no_job_outside_the_registry", "Rg.abort_reaches_every_job_task", "Rg.minted_ids_are_fresh", "Rg.inv_step", "Rg.inv_endAction", "Rg.get_or_create_twice_leaks_today", "Jm.c08_quit_bound", "Jm.c08_deadline", "Jm.quit_deadline", "Jm.idle_timer", "Jm.deadline_simInv", "Jm.nextEvent_some", "Jm.nextEvent_none", "Jm.c08_delete_after_stop", "Jm.c08_delete_idle", "Jm.c08_same_script_fixed", "Jm.c08_fails_today", "Jm.timer_fires", "Jm.expiry_kills", "Jm.graceful_stop_step", "Jm.held_back", "Jm.c04"],
    bins=[("lib", ["wxquit", "wxquitreal", "wxreg"]), ("cli", ["wxcli-main", "wxcliaction"])],
    streams=lambda ctx: c08_streams(ctx) + [c08_real(ctx), registry_stream("C08", ctx), cli_e2e(ctx, "C08")] + c05_streams(ctx, "cli-quit", "C08", cliquit_cases, cliquit_oracle) + c05_streams(ctx, "cli-sigmap", "C08", sigmap_cases, sigmap_oracle),
    sources=["crates/lib/src/action/worker.rs", "crates/lib/src/action/handler.rs", "crates/lib/src/id.rs", "crates/lib/src/watchexec.rs", "crates/lib/src/late_join_set.rs", "crates/supervisor/src/job/task.rs", "crates/cli/src/config.rs"],
    rule="a case is one quit scenario (manner, instant, 1-4 jobs with behaviours and pre-quit controls); non-trivial = the shutdown takes virtual time; distinct by (scenario, observation)",
    assumptions=["the worker's quit branch (one task per job: stop_with_signal, delete().await; join; join job tasks) is a product of per-job runs of the job model read at one common instant (Jm.Finals): job tasks share nothing but the clock; the check driver composes the per-job model runs the same way and compares the real worker with them",
                 "process-wrap KillOnDrop kills a child whose handle is dropped (abort); real process groups are exercised by the quit-real stream only"],
    partial="the per-job time bound is a Lean theorem (c08_quit_bound: virtual clock, time passes only while the task is idle and never beyond an armed timer); the composition over any number of jobs in any states is the Lean theorem c08_main_bound (no job task alive once the clock has passed the LARGEST per-job bound; ended tasks stay ended: dead_stays_dead); real-time margins are measured by the quit-real stream; process-group members surviving a graceful quit is a recorded known finding (F15)",
)

# ------------------------------------------------------------------------------------------------
# C05 on-busy policy (CLI action handler)

C05_FIXED = """sgo1 --on-busy-update=restart,--signal=SIGUSR1 I init;a:30;chg;a:100
sgo2 --on-busy-update=queue,--signal=SIGHUP E100,E100 init;a:30;chg;a:300
mx1 --on-busy-update=restart,--stop-timeout=50ms I,I a:10;mix:10;a:100;mix:1;a:300
mx2 --on-busy-update=queue E50,E50 init;a:10;mix:12;a:200
mx3 --on-busy-update=do-nothing E20 a:5;mix:10;a:100;mix:1;a:100
dn --on-busy-update=do-nothing E100 init;a:30;chg;a:30;chg;a:200;chg;a:300
rs --on-busy-update=restart S20 init;a:30;chg;a:100;chg;a:300
rs2 --on-busy-update=restart,--stop-timeout=50ms I init;a:30;chg;a:300
rs3 -r,--stop-signal=SIGINT,--stop-timeout=80ms I,S10 init;a:30;chg;a:40;chg;a:300
sg --on-busy-update=signal,--signal=SIGUSR1 I init;a:30;chg;a:30;chg;a:100
sg2 --signal=SIGHUP,--stop-signal=SIGUSR2 I init;a:30;chg;a:100
sg3 --on-busy-update=signal I init;a:30;chg;a:100
qu --on-busy-update=queue E100 init;a:30;chg;a:10;chg;a:300;chg;a:300
qu2 --on-busy-update=queue E100,E50,E50 init;a:30;chg;a:90;chg;a:5;chg;a:400
pp --on-busy-update=queue E100 a:50;chg;a:300
atexit --on-busy-update=restart E100,E100,E100 init;a:100;chg;a:400
atexitq --on-busy-update=queue E100,E100,E100 init;a:100;chg;a:400
fail --on-busy-update=restart F,E50 init;a:20;chg;a:200""".splitlines()

def c05_cases(seed, n):
    r = random.Random(seed * 977 + 5)
    out = list(C05_FIXED)
    # the last change arrives at the very instant the command exits by itself: whichever the job task notices first, a run must follow
    for j in range(60):
        dly = r.choice([10, 20, 50, 100, 150])
        mode = r.choice(["restart", "restart", "queue"])
        tail = r.choice(["I", "E300", "S10"])
        out.append(f"x{j} --on-busy-update={mode}{r.choice(['', ',--stop-timeout=50ms'])} E{dly},{tail} init;a:{dly};chg;a:600")
    # --delay-run sleeps inside the job task: the command exits unnoticed during the sleep, the query then sees a stale "running"
    for j in range(40):
        dl = r.choice([40, 80, 120]); mode = r.choice(["restart", "restart", "queue", "signal", "do-nothing"])
        out.append(f"z{j} --on-busy-update={mode},--delay-run={dl}ms E{dl + 70},{r.choice(['I', 'E300'])} init;a:{dl + 90};chg;a:1200")
    for i in range(n):
        mode = r.choice(["do-nothing", "queue", "restart", "signal"])
        flags = ["--on-busy-update=" + mode] if r.random() < 0.8 else ({"restart": ["-r"], "signal": ["--signal=" + r.choice(["SIGUSR1", "SIGHUP"])], "do-nothing": [""]}.get(mode, ["--on-busy-update=" + mode]))   # "" = no mode flag at all: the default (do-nothing)
        if r.random() < 0.3: flags.append("--stop-signal=" + r.choice(["SIGINT", "SIGUSR2", "SIGTERM", "SIGQUIT"]))
        if r.random() < 0.5: flags.append("--stop-timeout=" + r.choice(["0ms", "20ms", "50ms", "120ms"]))
        if r.random() < 0.2: flags.append("--delay-run=" + r.choice(["20ms", "50ms", "100ms"]))
        if mode == "signal" and r.random() < 0.3 and not any(f.startswith("--signal") for f in flags): flags.append("--signal=" + r.choice(["SIGUSR1", "SIGHUP", "SIGINT"]))
        # --signal next to an explicit OTHER mode: still signal mode
        if mode in ("restart", "queue", "do-nothing") and flags and flags[0].startswith("--on-busy-update=") and r.random() < 0.08: flags.append("--signal=" + r.choice(["SIGUSR1", "SIGHUP"]))
        behs = []
        for _ in range(r.randint(1, 4)):
            k = r.random()
            behs.append(f"E{r.choice([0, 20, 50, 100, 100, 200])}" if k < 0.45 else f"S{r.choice([0, 10, 30, 100])}" if k < 0.7 else "I" if k < 0.93 else "F")
        ops = []
        if r.random() < 0.85: ops.append("init"); ops.append(r.choice(["y", "a:10", "a:30", "a:50", "a:100"]))
        for _ in range(r.randint(1, 6)):
            # one change in eight shares its action with a signal that does not quit (the change must still take its course)
            ops.append("chg" if r.random() < 0.875 else "mix:" + r.choice(["1", "10", "12"]))
            # gaps: back-to-back, inside a run, at the moment of exit (multiples of the exit delays), during the grace period
            ops.append(r.choice(["y", "a:0", "a:5", "a:10", "a:20", "a:30", "a:50", "a:50", "a:100", "a:100", "a:150", "a:400"]))
        ops.append("a:" + r.choice(["300", "600", "1500"]))
        flags = [f for f in flags if f] or ["--stop-timeout=10s"]     # (the default stop timeout, spelled out, when no other flag is given)
        out.append(f"k{seed}_{i} {','.join(flags)} {','.join(behs)} {';'.join(ops)}")
    return out

def c05_oracle(case, trace):
    cid, flags, behs, ops = case.split(" ")
    fl = flags.split(",")
    # the documented normalisation: --signal implies signal mode (also next to an explicit other mode), else -r, else the given mode
    mode = "do-nothing"
    for f in fl:
        if f in ("-r", "--restart"): mode = "restart"
        if f.startswith("--on-busy-update="): mode = f.split("=")[1]
    if any(f.startswith("--signal=") for f in fl): mode = "signal"
    ev = [e.split(":") for e in trace.split("|") if e]
    out = []
    live = set()
    for p in ev:
        if p[1] == "spawn":
            if live: out.append(f"runs overlap: {p[2]} spawned at {p[0]} ms while {sorted(live)} not reaped")
            live.add(p[2])
        elif p[1] == "reaped": live.discard(p[2])
    has_mix = any(o.startswith("mix:") for o in ops.split(";"))
    if mode == "do-nothing" and any(p[1] in (("kill",) if has_mix else ("signal", "kill")) for p in ev): out.append("do-nothing mode signalled or killed the command")
    if mode == "signal" and any(p[1] == "kill" for p in ev): out.append("signal mode killed the command")
    if mode == "queue" and any(p[1] in (("kill",) if has_mix else ("signal", "kill")) for p in ev): out.append("queue mode signalled or killed the command")
    # the configured signal (documented for --stop-signal / --signal): signal mode sends --stop-signal, else --signal, else TERM;
    # restart mode stops with --stop-signal, else TERM
    SIGNUM = {"SIGHUP": 1, "SIGINT": 2, "SIGQUIT": 3, "SIGUSR1": 10, "SIGUSR2": 12, "SIGTERM": 15}
    stop_sig = next((SIGNUM.get(f.split("=")[1]) for f in fl if f.startswith("--stop-signal=")), None)
    sig = next((SIGNUM.get(f.split("=")[1]) for f in fl if f.startswith("--signal=")), None)
    want = {"signal": stop_sig or sig or 15, "restart": stop_sig or 15}.get(mode)
    passed_on = {o.split(":")[1] for o in ops.split(";") if o.startswith("mix:")}     # signals a mixed action hands to the command as they are
    if want is not None:
        bad = sorted({p[3] for p in ev if p[1] == "signal" and len(p) > 3 and p[3] != str(want) and p[3] not in passed_on})
        if bad: out.append(f"{mode} mode sent signal {','.join(bad)}, configured is {want}")
    # freshness: the last change is followed by a run (attempt) that started after it — restart always; queue when every run ends by itself soon
    now = 0; last_chg = None
    for o in ops.split(";"):
        if o.startswith("a:"): now += int(o[2:])
        elif o in ("chg", "init") or o.startswith("mix:"): last_chg = now
    final = int(ops.split(";")[-1][2:])
    # queue mode: the follow-up run starts when the run that is CURRENT at the last change has ended; only the runs started before that change
    # have to end by themselves soon (what the follow-up run itself does afterwards is irrelevant)
    bl = behs.split(",")
    nbefore = max(1, sum(1 for p in ev if p[1] == "spawn" and last_chg is not None and int(p[0]) <= last_chg))
    ends_soon = all((bl[i] if i < len(bl) else bl[-1])[0] == "E" and int((bl[i] if i < len(bl) else bl[-1])[1:]) <= 300 for i in range(nbefore))
    tmo = 10000
    for f in fl:
        if f.startswith("--stop-timeout="): tmo = int(f.split("=")[1][:-2])
    # --delay-run sleeps inside the job task once per event: everything is pushed back by up to (events x delay)
    nev = sum(1 for o in ops.split(";") if o in ("chg", "init") or o.startswith("mix:"))
    backlog = 0
    for f in fl:
        if f.startswith("--delay-run="): backlog = nev * int(f.split("=")[1][:-2])
    first_chg = None; t = 0
    for o in ops.split(";"):
        if o.startswith("a:"): t += int(o[2:])
        elif o in ("chg", "init") or o.startswith("mix:"): first_chg = t; break
    if first_chg is not None and final >= first_chg + backlog + 50 and not any(p[1] in ("spawn", "spawnfail") for p in ev):
        out.append(f"a change while the command was idle (at {first_chg} ms) did not start it")
    if last_chg is not None and ((mode == "restart" and (final >= tmo + backlog + 250 or (not live and final >= backlog + 250))) or (mode == "queue" and ends_soon and final >= 600 + backlog)):
        if not any(p[1] in ("spawn", "spawnfail") and int(p[0]) >= last_chg for p in ev):
            out.append(f"{mode} mode: the last change (at {last_chg} ms) is not followed by a run that started after it")
    return out

def cliquit_cases(seed, n):
    """C08, CLI part: INT / TERM (and other signals) delivered to watchexec while the command is idle, running, exiting, in a grace period"""
    r = random.Random(seed * 389 + 8)
    out = ["q1 --stop-timeout=50ms I init;a:30;sig:15;a:300", "q2 --stop-signal=SIGUSR1,--stop-timeout=80ms S10 init;a:30;sig:2;a:300",
           "q3 --on-busy-update=restart I init;a:30;sig:10;a:50;sig:1;a:100", "q4 --stop-timeout=50ms I init;a:30;sig:15;a:10;sig:15;a:5;chg;a:300",
           "q5 --stop-timeout=50ms E20 init;a:100;sig:2;a:100", "q6 --on-busy-update=restart,--stop-timeout=100ms I,I init;a:30;chg;a:40;sig:15;a:400",
           "q7 --on-busy-update=queue,--stop-timeout=60ms E100,E100 init;a:30;chg;a:20;sig:2;a:400", "q8 --stop-timeout=0ms I a:10;sig:15;a:50"]
    for i in range(n):
        mode = r.choice(["do-nothing", "queue", "restart", "signal"])
        flags = ["--on-busy-update=" + mode]
        if r.random() < 0.4: flags.append("--stop-signal=" + r.choice(["SIGINT", "SIGUSR2", "SIGTERM", "SIGQUIT", "SIGHUP"]))
        flags.append("--stop-timeout=" + r.choice(["0ms", "20ms", "50ms", "120ms", "300ms"]))
        behs = []
        for _ in range(r.randint(1, 3)):
            k = r.random()
            behs.append(f"E{r.choice([0, 20, 50, 100, 200])}" if k < 0.35 else f"S{r.choice([0, 10, 30, 100])}" if k < 0.65 else "I" if k < 0.95 else "F")
        ops = []
        if r.random() < 0.85: ops.append("init"); ops.append(r.choice(["y", "a:10", "a:30", "a:50", "a:100"]))
        for _ in range(r.randint(0, 3)):
            ops.append(r.choice(["chg", "chg", "sig:10", "sig:1", "sig:12", "mix:10", "mix:15"]))
            ops.append(r.choice(["y", "a:0", "a:5", "a:20", "a:50", "a:100", "a:150"]))
        ops.append("sig:" + r.choice(["15", "2"]))
        for _ in range(r.randint(0, 2)):
            ops.append(r.choice(["y", "a:0", "a:10", "a:40"])); ops.append(r.choice(["chg", "sig:15", "sig:2", "sig:10"]))
        ops.append("a:" + r.choice(["400", "800"]))
        out.append(f"cq{seed}_{i} {','.join(flags)} {','.join(behs)} {';'.join(ops)}")
    return out

SIGNUM_ALL = {"SIGHUP": 1, "SIGINT": 2, "SIGQUIT": 3, "SIGUSR1": 10, "SIGUSR2": 12, "SIGTERM": 15}

def sigmap_cases(seed, n):
    """--map-signal (translate / discard signals sent to watchexec, also INT and TERM) and keyboard EOF events in the CLI's action handler"""
    r = random.Random(seed * 613 + 5)
    out = ["sm1 --stop-timeout=50ms,--map-signal=SIGTERM:SIGUSR1 I init;a:30;sig:15;a:300", "sm2 --stop-timeout=50ms,--map-signal=SIGINT: I init;a:30;sig:2;a:100;sig:15;a:200",
           "sm3 --map-signal=SIGHUP:SIGUSR2,--map-signal=SIGHUP:SIGUSR1 I init;a:30;sig:1;a:30;eof;a:30;sig:10;a:50", "sm4 --map-signal=SIGUSR1:SIGTERM,--stop-timeout=40ms I init;a:30;sig:10;a:100",
           "sm5 --map-signal=SIGTERM:SIGINT,--stop-timeout=40ms I init;a:30;sig:15;a:60;sig:2;a:200", "sm6 --on-busy-update=restart,--map-signal=SIGINT:SIGHUP I,I init;a:30;eof;a:10;sig:2;a:10;chg;a:400"]
    names = sorted(SIGNUM_ALL)
    for i in range(n):
        mode = r.choice(["do-nothing", "queue", "restart", "signal"])
        flags = ["--on-busy-update=" + mode, "--stop-timeout=" + r.choice(["20ms", "50ms", "120ms"])]
        if r.random() < 0.3: flags.append("--stop-signal=" + r.choice(["SIGINT", "SIGUSR2", "SIGQUIT", "SIGHUP"]))
        for _ in range(r.randint(1, 3)):
            flags.append("--map-signal=" + r.choice(["SIGTERM", "SIGINT", "SIGTERM", "SIGINT", "SIGHUP", "SIGUSR1", "SIGUSR2", "SIGQUIT"]) + ":" + r.choice([""] * 2 + names))
        behs = []
        for _ in range(r.randint(1, 3)):
            k = r.random()
            behs.append(f"E{r.choice([20, 100, 200])}" if k < 0.25 else f"S{r.choice([0, 10, 30])}" if k < 0.5 else "I")
        ops = []
        if r.random() < 0.85: ops += ["init", r.choice(["a:10", "a:30", "a:50"])]
        for _ in range(r.randint(1, 5)):
            ops.append(r.choice(["chg", "eof", "sig:15", "sig:2", "sig:15", "sig:2", "sig:10", "sig:1", "sig:12", "sig:3"]))
            ops.append(r.choice(["a:5", "a:20", "a:50", "a:100", "a:150"]))
        ops.append("a:" + r.choice(["400", "800"]))
        out.append(f"sm{seed}_{i} {','.join(flags)} {','.join(behs)} {';'.join(ops)}")
    return out

def sigmap_oracle(case, trace):
    cid, flags, behs, ops = case.split(" ")
    fl = flags.split(",")
    m = {}
    for f in fl:
        if f.startswith("--map-signal="):
            a, b = f.split("=", 1)[1].split(":")
            m[SIGNUM_ALL[a]] = SIGNUM_ALL[b] if b else None          # the last mapping given for a signal counts
    ev = [e.split(":") for e in trace.split("|") if e]
    out = []
    now = 0; tq = None; rew = []
    mode = next((f.split("=")[1] for f in fl if f.startswith("--on-busy-update=")), "do-nothing")
    held = False        # restart mode: once a graceful restart may be pending, normal-priority controls (the passed-on signal) are held back
    for o in ops.split(";"):
        if o.startswith("a:"): now += int(o[2:]); rew.append(o); continue
        if o == "chg" and mode == "restart": held = True
        if o.startswith("sig:"):
            n = int(o[4:])
            if n in (15, 2) and n not in m:
                if tq is None: tq = now
                rew.append(o); continue
            rew.append("sig:99")         # not a quit: passed on, translated or discarded
            if tq is not None or held: continue  # the action worker handles nothing once it is quitting
            want = m[n] if n in m else n
            got = [p[3] for p in ev if p[1] == "signal" and int(p[0]) == now and len(p) > 3]
            # is a process certainly there at this instant (spawned earlier, not reaped until later)?
            there = [p[2] for p in ev if p[1] == "spawn" and int(p[0]) < now and not any(q[1] == "reaped" and q[2] == p[2] and int(q[0]) <= now for q in ev)]
            what = f"signal {n} sent to watchexec at {now} ms (--map-signal: " + ("not mapped" if n not in m else "discarded" if want is None else f"mapped to {want}") + ")"
            if want is None and got: out.append(f"{what}: the command was sent signal {','.join(got)} although the signal is to be discarded")
            elif want is not None and any(g != str(want) for g in got): out.append(f"{what}: the command was sent signal {','.join(got)}")
            elif want is not None and there and not got: out.append(f"{what}: the running command {there[0]} was sent nothing")
            elif len(got) > 1: out.append(f"{what}: the command was signalled {len(got)} times")
        elif o == "eof": rew.append("sig:99")
        else: rew.append(o)
    if tq is None:
        if any(p[1] == "mainend" or p[1].startswith("mainerr") or p[1] == "mainpanic" for p in ev):
            out.append("the main task ended although no unmapped interrupt / terminate signal was received (mapped ones are for the command, a keyboard EOF without --stdin-quit is nothing)")
        return out
    return out + cliquit_oracle(f"{cid} {flags} {behs} {';'.join(rew)}", trace)


def cliquit_oracle(case, trace):
    cid, flags, behs, ops = case.split(" ")
    fl = flags.split(",")
    SIGNUM = {"SIGHUP": 1, "SIGINT": 2, "SIGQUIT": 3, "SIGUSR1": 10, "SIGUSR2": 12, "SIGTERM": 15}
    stop_sig = next((SIGNUM.get(f.split("=")[1]) for f in fl if f.startswith("--stop-signal=")), None) or 15
    tmo = next((int(f.split("=")[1][:-2]) for f in fl if f.startswith("--stop-timeout=")), 10000)
    now = 0; tq = None; nchg = 0
    mode = next((f.split("=")[1] for f in fl if f.startswith("--on-busy-update=")), "do-nothing")
    for o in ops.split(";"):
        if o.startswith("a:"): now += int(o[2:])
        elif o in ("sig:15", "sig:2", "mix:15", "mix:2") and tq is None: tq = now
        elif (o == "chg" or o.startswith("mix:")) and tq is None: nchg += 1
    if tq is None: return []
    # the property's bound: the grace periods then in effect — graceful restarts still pending (at most one per earlier change in
    # restart mode, each with the stop timeout) plus the quit's own
    bound = tmo * (1 + (nchg if mode == "restart" else 0))
    ev = [e.split(":") for e in trace.split("|") if e]
    out = []
    ends = [int(p[0]) for p in ev if p[1] == "mainend"]
    if any(p[1].startswith("mainerr") or p[1] == "mainpanic" for p in ev): out.append("the main task ended with an error after the interrupt / terminate signal")
    if not ends:
        if now >= tq + bound + 1: out.append(f"interrupt / terminate signal at {tq} ms: the main task had not finished by the end of the script ({now} ms; grace periods in effect {bound} ms)")
        else: return out
    elif ends[0] - tq > bound: out.append(f"interrupt / terminate signal at {tq} ms: shutdown took {ends[0] - tq} ms, the grace periods in effect add up to {bound} ms")
    live = {}
    for p in ev:
        if p[1] == "spawn": live[p[2]] = int(p[0])
        elif p[1] in ("reaped", "dropped"): live.pop(p[2], None)
    if live: out.append(f"process(es) {sorted(live)} started by the job were neither reaped nor dropped by the end of the shutdown")
    if ends and any(p[1] == "spawn" and int(p[0]) > ends[0] for p in ev): out.append("a process was started after the main task had finished")
    # the shutdown is the graceful one: the running command gets the stop signal at the quit, no kill before the stop timeout has elapsed
    running_at_quit = [c for c, t in [(p[2], int(p[0])) for p in ev if p[1] == "spawn"] if t <= tq and not any(q[1] == "reaped" and q[2] == c and int(q[0]) <= tq for q in ev)]
    for c in running_at_quit:
        sigs = [q for q in ev if q[1] == "signal" and q[2] == c and int(q[0]) == tq]
        pending_restart = any(q[1] == "signal" and q[2] == c and int(q[0]) < tq for q in ev)    # a graceful restart may already hold the queue
        if not sigs and not pending_restart: out.append(f"interrupt / terminate at {tq} ms: the running command {c} did not get the stop signal ({stop_sig}) at that moment")
        elif sigs and not pending_restart and all(q[3] != str(stop_sig) for q in sigs): out.append(f"interrupt / terminate at {tq} ms: the command got signal {sigs[0][3]}, the configured stop signal is {stop_sig}")
        kills = [int(q[0]) for q in ev if q[1] == "kill" and q[2] == c]
        if kills and not pending_restart and kills[0] < tq + tmo: out.append(f"the command was killed {kills[0] - tq} ms after the interrupt / terminate signal, before the stop timeout ({tmo} ms) had elapsed")
    return out

def c05_streams(ctx, name="cli-action", pid="C05", gen=None, oracle=None):
    n = (15000 if ctx["thorough"] else 2500) if gen is None else (6000 if ctx["thorough"] else 1200)
    gen = gen or c05_cases; oracle = oracle or c05_oracle
    s = core.StreamResult(name)
    d = core.WORK / pid / name; d.mkdir(parents=True, exist_ok=True)
    cases = core.corpus(name) + gen(ctx["seed"], n)
    (d / "cases.txt").write_text("\n".join(cases) + "\n")
    impl, culprits, fatal = core.run_chunks("wxcliaction", cases, 12, 600 if ctx["thorough"] else 150, cwd=str(d))
    if fatal: s.error = fatal; return [s]
    for c, why in culprits: s.oracle_failures.append((cases.index(c), c, "", f"the CLI's action handler / job gave no answer on this script: {why}"))
    cases = [c for c in cases if c in impl]
    (d / "cases.txt").write_text("\n".join(cases) + "\n")
    (d / "impl.txt").write_text("\n".join(impl[c] for c in cases) + "\n")
    ok, err = core.run_driver(["cli"], d / "cases.txt", d / "model.txt")
    if not ok: s.error = "wxdriver cli failed: " + err[-600:]; return [s]
    model = core.read_lines(d / "model.txt")
    s.evaluations = len(cases)
    for i, (c, mo) in enumerate(zip(cases, model)):
        im = impl[c].split(" ", 1)[1] if " " in impl[c] else ""
        tr = "|".join(e for e in im.split("|") if e and not re.match(r"\d+:chg\d+$", e))
        alts = (mo.split(" ", 1)[1] if " " in mo else "").split(" ## ")
        if len(alts) > 1: s.bump("racy (model admits several traces)")
        if tr not in alts: s.disagreements.append((i, c, tr, " ## ".join(alts[:3])) if len(s.disagreements) < 60 else (i, "", "", ""))
        for what in oracle(c, tr): s.oracle_failures.append((i, c, tr, what))
        for f in c.split(" ")[1].split(","): s.bump(f.split("=")[0] + ("=" + f.split("=")[1] if f.startswith("--on-busy") else ""))
        if "sig:" in c: s.bump("signal delivered to watchexec")
        if tr.count("spawn:") >= 2 or "mainend" in tr: s.nontrivial.add(hashlib.md5((c.split(" ", 1)[1] + tr).encode()).digest()[:8])
        if i % max(1, len(cases) // 3) == 0 and len(s.samples) < 3: s.samples.append({"case": c, "impl": tr[:300], "model": alts[0][:300]})
    s.note = ("the CLI's REAL action handler (hook H1: args_from(argv) -> make_config -> Watchexec::with_config) on a paused current-thread runtime with simulated children (H1's extra spawn "
              "hook): the four --on-busy-update modes and the -r / --signal shorthands x --stop-signal x --stop-timeout x child behaviours x change bursts placed before start, mid-run, at "
              "the moment of exit, during the grace period, back-to-back; the child call log must be one of the traces of Ca.react composed with the job-task model. "
              "--delay-run is modelled as the job task sleeping (taking no turn) after it executes the delay closure. Not covered here: the start-up event of run_watchexec "
              "(the harness always passes --postpone and sends it itself)")
    return [s]

def c05_e2e(ctx):
    """End to end, real time, the built binary: queue mode with a change made while the queued run is starting (the
    window is held open by not draining stderr, so the job task blocks inside the 90 KB `[Running: …]` banner write —
    a legal schedule). The change must be followed by a third run. Which task wins once the write completes is up to
    the scheduler, so several attempts run side by side; on code that keeps the property none of them may lose the change."""
    import threading, time, shutil
    s = core.StreamResult("e2e-queue")
    base = core.WORK / "C05" / "e2e"
    def attempt(k):
        d = base / f"t{k}"; shutil.rmtree(d, ignore_errors=True); (d / "proj").mkdir(parents=True); (d / "home").mkdir()
        log = d / "log"; f = d / "proj" / "f"; f.write_text("0")
        script = f'echo "START $(date +%s.%N)" >> {log}; sleep 1; echo "END $(date +%s.%N)" >> {log}'
        cmd = [str(core.TARGET / "wxcli-main"), "--on-busy-update=queue", "--project-origin", str(d / "proj"), "-w", str(d / "proj"), "--no-vcs-ignore", "-n", "--", "sh", "-c", script, "sh", "A" * 90000]
        # the whole process is pinned to ONE cpu (8 tokio workers): when the unblocked job task raises the flag that wakes the
        # follow-up task, no other worker thread can run before the job task has gone on to its next control — this makes the
        # outcome of the race a property of the code rather than of the machine's load
        cpus = sorted(os.sched_getaffinity(0)); cpu = cpus[(1 + k) % len(cpus)]
        p = subprocess.Popen(cmd, stderr=subprocess.PIPE, stdout=subprocess.DEVNULL, env=dict(os.environ, HOME=str(d / "home"), TOKIO_WORKER_THREADS="8"), cwd=str(d / "proj"),
                             preexec_fn=lambda: os.sched_setaffinity(0, {cpu}))
        paused = threading.Event(); stop = [False]
        def reader():
            fd = p.stderr.fileno()
            while not stop[0]:
                if paused.is_set(): time.sleep(0.01); continue
                try: b = os.read(fd, 65536)
                except OSError: break
                if not b: break
        threading.Thread(target=reader, daemon=True).start()
        t0 = time.time()
        def at(x):
            dl = t0 + x - time.time()
            if dl > 0: time.sleep(dl)
        at(0.35); f.write_text("c1")       # during run 1: a follow-up start is queued
        at(0.7); paused.set()              # stop draining stderr: run 2's banner write will block the job task
        at(1.45); f.write_text("c2"); t_c2 = time.time()   # run 2 has been spawned, its banner is stuck: the window
        at(1.9); paused.clear()
        at(4.6)
        p.terminate()
        try: p.wait(timeout=10)
        except Exception: p.kill()
        stop[0] = True
        lines = log.read_text().splitlines() if log.exists() else []
        starts = [float(l.split()[1]) for l in lines if l.startswith("START")]
        # (number of runs, runs started before the change, runs started after it, start times)
        return (len(starts), sum(1 for t in starts if t < t_c2), sum(1 for t in starts if t >= t_c2), " ".join(f"{t - t0:.2f}" for t in starts))
    n = 6 if ctx["thorough"] else 3
    with ThreadPoolExecutor(n) as ex: results = list(ex.map(attempt, range(n)))
    s.evaluations = n
    s.samples.append({"attempts (runs, started before the last change, started after it, start times)": results})
    s.nontrivial.add(b"e2e-queue"); s.nontrivial.add(b"stalled-stderr")
    # an attempt counts when the scenario was really set up: run 2 had been started before the change was made
    setup_ok = [r for r in results if r[1] >= 2]
    lost = [r for r in setup_ok if r[2] == 0]
    s.bump("attempts set up", len(setup_ok)); s.bump("attempts that lost the change", len(lost))
    if lost:
        s.oracle_failures.append((0, "e2e queue mode, change during the start of the queued run (stderr not drained)", str(results),
                                  f"queue mode: the last change is not followed by a run that started after it, in {len(lost)} of {len(setup_ok)} end-to-end attempts (start times per attempt: {[r[3] for r in results]})"))
    s.note = (f"built binary, real files, real time: {len(setup_ok)} of {n} attempts set the scenario up (two runs started before the last change), {len(lost)} lost the change; "
              "attempts where the scenario did not form are inconclusive and not counted")
    return s

def cli_e2e(ctx, pid):
    """End to end with the built CLI binary, real files, real time, real signals: the parts of C05 and C08 that live in
    run_watchexec / the signal source rather than in the action handler — the start-up run and --postpone (C05), and an
    interrupt or terminate signal sent to watchexec itself leading to the graceful shutdown (C08)."""
    import time, shutil, signal as sg
    s = core.StreamResult("e2e-cli")
    base = core.WORK / pid / "e2e-cli"
    def setup(name):
        d = base / name; shutil.rmtree(d, ignore_errors=True); (d / "proj").mkdir(parents=True); (d / "home").mkdir()
        return d, d / "log"
    def launch(d, extra, script):
        cmd = [str(core.TARGET / "wxcli-main"), "--project-origin", str(d / "proj"), "-w", str(d / "proj"), "--no-vcs-ignore", "-n", "-q"] + extra + ["--", "sh", "-c", script]
        return subprocess.Popen(cmd, stderr=subprocess.DEVNULL, stdout=subprocess.DEVNULL, env=dict(os.environ, HOME=str(d / "home")), cwd=str(d / "proj"))
    def wait_line(log, word, secs):
        t0 = time.time()
        while time.time() - t0 < secs:
            if log.exists() and any(l.startswith(word) for l in log.read_text().splitlines()): return time.time() - t0
            time.sleep(0.02)
        return None
    def alive(pid_):
        try:
            st = open(f"/proc/{pid_}/stat").read().rsplit(")", 1)[1].split()[0]
            return st != "Z"
        except OSError: return False
    def finish(p):
        if p.poll() is None:
            p.kill()
            try: p.wait(timeout=5)
            except Exception: pass
    def startup(postpone):
        d, log = setup("postpone" if postpone else "startup")
        p = launch(d, ["--postpone"] if postpone else [], f'echo "START $$" >> {log}; sleep 20')
        try:
            if not postpone:
                t = wait_line(log, "START", 6.0)
                return [] if t is not None else ["without --postpone the command was not started at start-up (no run within 6 s, no change made)"]
            t = wait_line(log, "START", 1.5)
            if t is not None: return [f"with --postpone the command was started at start-up ({t:.2f} s), before any change"]
            (d / "proj" / "f").write_text("x")
            t = wait_line(log, "START", 6.0)
            return [] if t is not None else ["with --postpone the first change did not start the command within 6 s"]
        finally:
            finish(p)
            for l in (log.read_text().splitlines() if log.exists() else []):
                try: os.kill(int(l.split()[1]), 9)
                except Exception: pass
    def startup_long_debounce():
        """the start-up run does not wait for the debounce window: the start-up event is urgent"""
        d, log = setup("startup-debounce")
        p = launch(d, ["--debounce=4s"], f'echo "START $$" >> {log}; sleep 20')
        try:
            t = wait_line(log, "START", 2.0)
            return [] if t is not None else ["with --debounce=4s the command had not been started 2 s after start-up: the first run waited for the debounce window (the start-up run happens at start-up unless postponed)"]
        finally:
            finish(p)
            for l in (log.read_text().splitlines() if log.exists() else []):
                try: os.kill(int(l.split()[1]), 9)
                except Exception: pass
    def quit_on(signame, ignoring):
        d, log = setup(f"quit-{signame}-{'ignoring' if ignoring else 'exiting'}")
        script = (f'trap "" TERM; echo "START $$" >> {log}; while :; do sleep 0.1; done') if ignoring else (f'trap "exit 0" TERM; echo "START $$" >> {log}; while :; do sleep 0.1; done')
        p = launch(d, ["--stop-timeout=700ms"], script)
        try:
            if wait_line(log, "START", 6.0) is None: return None     # inconclusive: the command never started
            child = int(log.read_text().split()[1])
            time.sleep(0.2)
            t0 = time.time(); p.send_signal(getattr(sg, signame))
            try: p.wait(timeout=8)
            except Exception: return [f"{signame} sent to watchexec: it had not exited after 8 s (stop timeout 700 ms, command {'ignores' if ignoring else 'exits on'} the stop signal)"]
            took = time.time() - t0
            out = []
            bound = 0.7 + 1.5
            if took > bound: out.append(f"{signame} sent to watchexec: shutdown took {took:.2f} s, stop timeout 0.7 s (+1.5 s margin)")
            if ignoring and took < 0.6: out.append(f"{signame} sent to watchexec: it exited after {took:.2f} s although the command ignores the stop signal and the stop timeout is 0.7 s (killed early or left behind)")
            time.sleep(0.3)
            if alive(child): out.append(f"{signame} sent to watchexec: the command (pid {child}) is still alive after watchexec exited")
            return out
        finally:
            finish(p)
            for l in (log.read_text().splitlines() if log.exists() else []):
                try: os.kill(int(l.split()[1]), 9)
                except Exception: pass
    def quit_in_window(signame):
        """the signal arrives while a debounce window is open (a change is pending): INT / TERM are urgent, the shutdown does not wait for the window"""
        d, log = setup(f"quit-{signame}-in-window")
        p = launch(d, ["--stop-timeout=500ms", "--debounce=4s"], f'trap "exit 0" TERM; echo "START $$" >> {log}; while :; do sleep 0.1; done')
        try:
            if wait_line(log, "START", 6.0) is None: return None
            time.sleep(0.3)
            (d / "proj" / "f").write_text("x")          # opens a 4 s window
            time.sleep(0.5)
            t0 = time.time(); p.send_signal(getattr(sg, signame))
            try: p.wait(timeout=10)
            except Exception: return [f"{signame} sent to watchexec while a 4 s debounce window was open: it had not exited after 10 s"]
            took = time.time() - t0
            return [f"{signame} sent to watchexec 0.5 s into a 4 s debounce window: the shutdown took {took:.2f} s — it waited for the window instead of flushing it (an interrupt / terminate signal is an urgent event)"] if took > 2.2 else []
        finally:
            finish(p)
            for l in (log.read_text().splitlines() if log.exists() else []):
                try: os.kill(int(l.split()[1]), 9)
                except Exception: pass
    def stdin_quit():
        """--stdin-quit: input on watchexec's stdin is nothing, end of input is the graceful shutdown (keyboard source -> Keyboard::Eof -> Ca.onEof)"""
        d, log = setup("stdin-quit")
        cmd = [str(core.TARGET / "wxcli-main"), "--project-origin", str(d / "proj"), "-w", str(d / "proj"), "--no-vcs-ignore", "-n", "-q", "--stdin-quit", "--stop-timeout=700ms", "--", "sh", "-c",
               f'trap "exit 0" TERM; echo "START $$" >> {log}; while :; do sleep 0.1; done']
        p = subprocess.Popen(cmd, stdin=subprocess.PIPE, stderr=subprocess.DEVNULL, stdout=subprocess.DEVNULL, env=dict(os.environ, HOME=str(d / "home")), cwd=str(d / "proj"))
        try:
            if wait_line(log, "START", 6.0) is None: return None
            child = int(log.read_text().split()[1])
            p.stdin.write(b"some input\n"); p.stdin.flush()
            time.sleep(0.8)
            if p.poll() is not None: return ["--stdin-quit: watchexec exited on mere INPUT on its stdin (only end of input quits)"]
            t0 = time.time(); p.stdin.close()
            try: p.wait(timeout=8)
            except Exception: return ["--stdin-quit: end of input on watchexec's stdin: it had not exited after 8 s (stop timeout 700 ms, the command exits on the stop signal)"]
            took = time.time() - t0; out = []
            if took > 0.7 + 1.5: out.append(f"--stdin-quit: end of input: the shutdown took {took:.2f} s, stop timeout 0.7 s (+1.5 s margin)")
            time.sleep(0.3)
            if alive(child): out.append(f"--stdin-quit: the command (pid {child}) is still alive after watchexec exited")
            return out
        finally:
            finish(p)
            for l in (log.read_text().splitlines() if log.exists() else []):
                try: os.kill(int(l.split()[1]), 9)
                except Exception: pass
    def mapped_signal():
        """--map-signal=TERM:USR1: a TERM sent to watchexec is for the command (as USR1) and does not quit; the unmapped INT still quits"""
        d, log = setup("map-signal")
        p = launch(d, ["--map-signal=TERM:USR1", "--stop-timeout=700ms"], f'trap "echo GOTUSR1 >> {log}" USR1; trap "exit 0" TERM; echo "START $$" >> {log}; while :; do sleep 0.1; done')
        try:
            if wait_line(log, "START", 6.0) is None: return None
            child = int(log.read_text().split()[1])
            time.sleep(0.3)
            p.send_signal(sg.SIGTERM)
            got = wait_line(log, "GOTUSR1", 4.0)
            out = []
            if p.poll() is not None: return ["--map-signal=TERM:USR1: a TERM sent to watchexec made it exit although the signal is mapped (it is for the command)"]
            if got is None: out.append("--map-signal=TERM:USR1: a TERM sent to watchexec did not reach the command as USR1 within 4 s")
            if not alive(child): out.append("--map-signal=TERM:USR1: the command was ended by a TERM sent to watchexec (it should have received USR1)")
            t0 = time.time(); p.send_signal(sg.SIGINT)
            try: p.wait(timeout=8)
            except Exception: return out + ["--map-signal=TERM:USR1: the unmapped INT did not make watchexec exit within 8 s"]
            if time.time() - t0 > 0.7 + 1.5: out.append(f"--map-signal=TERM:USR1: the unmapped INT: shutdown took {time.time() - t0:.2f} s, stop timeout 0.7 s (+1.5 s margin)")
            time.sleep(0.3)
            if alive(child): out.append(f"--map-signal=TERM:USR1: the command (pid {child}) is still alive after the INT shutdown")
            return out
        finally:
            finish(p)
            for l in (log.read_text().splitlines() if log.exists() else []):
                try: os.kill(int(l.split()[1]), 9)
                except Exception: pass
    def pass_on():
        """every other signal watchexec listens for (HUP, QUIT, USR1, USR2) is handed to the command as ITSELF and quits nothing: signal source ->
        event -> handler -> job.signal -> process, for real"""
        d, log = setup("pass-on")
        traps = "; ".join(f'trap "echo GOT{n} >> {log}" {n}' for n in ("HUP", "QUIT", "USR1", "USR2"))
        p = launch(d, ["--stop-timeout=700ms"], f'{traps}; trap "exit 0" TERM; echo "START $$" >> {log}; while :; do sleep 0.1; done')
        try:
            if wait_line(log, "START", 6.0) is None: return None
            child = int(log.read_text().split()[1])
            time.sleep(0.3)
            out = []
            for n in ("HUP", "QUIT", "USR1", "USR2"):
                before = log.read_text().splitlines()
                p.send_signal(getattr(sg, "SIG" + n))
                got = wait_line(log, "GOT" + n, 4.0)
                if p.poll() is not None: return out + [f"SIG{n} sent to watchexec made it exit (only an interrupt or terminate signal quits)"]
                new_lines = [l for l in log.read_text().splitlines()[len(before):] if l.startswith("GOT")]
                if got is None: out.append(f"SIG{n} sent to watchexec did not reach the command within 4 s (the command saw {new_lines or 'nothing'})")
                elif new_lines != ["GOT" + n]: out.append(f"SIG{n} sent to watchexec reached the command as {new_lines}")
                if not alive(child): return out + [f"SIG{n} sent to watchexec ended the command"]
            return out
        finally:
            finish(p)
            for l in (log.read_text().splitlines() if log.exists() else []):
                try: os.kill(int(l.split()[1]), 9)
                except Exception: pass
    jobs = ([("start-up run", lambda: startup(False)), ("--postpone", lambda: startup(True)), ("start-up run with a long debounce", startup_long_debounce)] if pid == "C05" else
            [(f"{sn} {'ignored' if ig else 'honoured'}", (lambda sn=sn, ig=ig: quit_on(sn, ig))) for sn in ("SIGINT", "SIGTERM") for ig in (False, True)] +
            [(f"{sn} inside a debounce window", (lambda sn=sn: quit_in_window(sn))) for sn in ("SIGINT", "SIGTERM")] +
            [("--stdin-quit: end of input", stdin_quit), ("--map-signal: mapped TERM, unmapped INT", mapped_signal), ("HUP QUIT USR1 USR2 passed on", pass_on)])
    with ThreadPoolExecutor(len(jobs)) as ex: results = list(ex.map(lambda j: j[1](), jobs))
    for i, ((name, _), r) in enumerate(zip(jobs, results)):
        s.evaluations += 1; s.bump(name if r is not None else name + " (inconclusive)"); s.nontrivial.add(name.encode())
        for what in (r or []): s.oracle_failures.append((i, "e2e " + name, "", what))
    s.samples.append({"scenarios": [j[0] for j in jobs]})
    s.note = "built watchexec binary (harness-cli/wxcli-main = watchexec_cli::run), real files, real signals, wall-clock margins of seconds; oracle only"
    return s

PLANS["C05"] = dict(
    translate=True,
    modules=["Wx.Cli.Action", "Wx.Queue.Props", "Wx.Job.C04Sim", "Wx.Job.C06", "Wx.Cli.Compose", "Wx.Cli.ComposeThm", "Wx.Job.Reach", "Wx.Job.ShapesThm"],
    theorems=["Ca.signal_flag_implies_signal_mode", "Ca.restart_flag_means_restart", "Ca.default_mode_is_do_nothing", "Jm.on_busy_modes_are_the_models", "Jm.cli_defaults_are_the_models", "Ca.cli_runs_never_overlap", "Ca.cli_never_kills_early", "Ca.cli_other_modes_never_kill", "Ca.runEvs_good", "Ca.maySend_gentle", "Jm.SimInv2.reach", "Ca.react_idle", "Ca.react_doNothing", "Ca.react_signal", "Ca.react_restart", "Ca.react_queue_first", "Ca.react_queue_again", "Ca.react_no_forceful",
              "Qm.perRun_fresh", "Qm.f10_today", "Qm.reorder_insufficient", "Jm.c04", "Jm.graceful_restart_step", "Jm.graceful_stop_step"],
    bins=[("cli", ["wxcliaction", "wxcli-main"])],
    streams=lambda ctx: c05_streams(ctx) + [c05_e2e(ctx), cli_e2e(ctx, "C05")],
    sources=["crates/cli/src/config.rs", "crates/cli/src/lib.rs", "crates/cli/src/args/events.rs", "crates/supervisor/src/job/job.rs"],
    rule="a case is one script (CLI flags, child behaviours, init / change / advance ops); non-trivial = at least two runs are started; distinct by (script, observation)",
    assumptions=["the action handler's reaction is one function of (mode, job state when the query closure runs, queued-for record); its composition with the job-task model is the Lean model Wx/Cli/Compose.lean (the driver only parses), proved to stay inside the closure Jm.Reach of primitive job steps, so the whole-run job theorems apply to every CLI script",
                 "queue-mode freshness over ALL interleavings of handler, job task and follow-up tasks is proved on the abstract protocol model Wx/Queue (perRun_fresh); its tie to the code is this stream (deterministic schedules) plus the end-to-end stalled-stderr replay recorded in DESIGN.md",
                 "clap parsing and the normalise() functions run for real (hook H1)"],
    partial="the start-up event is outside the model (it is exercised end to end with the built binary: e2e-cli); the all-interleavings freshness theorem is about the abstract queue protocol, not about the composed model",
)

# ------------------------------------------------------------------------------------------------
# the property-facing layer: lean/Wx/Props/<ID>.lean states each property's clauses in one place; every theorem in it is an obligation

def _props_layer():
    for pid, plan in PLANS.items():
        f = core.LEAN / "Wx" / "Props" / f"{pid}.lean"
        if not f.exists(): continue
        names = re.findall(r"^theorem\s+([\w']+)", f.read_text(), re.M)
        mod = f"Wx.Props.{pid}"
        if mod not in plan["modules"]: plan["modules"] = [mod] + plan["modules"]
        plan["theorems"] = [f"Props.{pid}.{n}" for n in names] + [t for t in plan["theorems"]]

# C06 / C08's grace period enters the CLI through --stop-timeout (unit-less = seconds): the time-span stream runs under C06 as well
def _c06_with_spans():
    plan = PLANS["C06"]; inner = plan["streams"]
    plan["streams"] = lambda ctx: inner(ctx) + [timespan_stream("C06", ctx)]
    plan["bins"] = list(plan.get("bins", [])) + [("cli", ["wxspan"])]
    plan["modules"] = plan["modules"] + ["Wx.Cli.TimeSpanThm"]
    plan["theorems"] = plan["theorems"] + ["Ca.Ts.unitless_is_scaled", "Ca.Ts.unit_is_respected"]
    plan["sources"] = plan["sources"] + ["crates/cli/src/args.rs", "crates/cli/src/args/command.rs"]
_c06_with_spans()
_props_layer()
PLANS["C19"]["modules"].append("Wx.Pure.SignalsCase"); PLANS["C19"]["theorems"] += ["Wp.parse_case_insensitive", "Wp.parse_toUpper"]
