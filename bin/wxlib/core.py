"""Core of the check driver: translate, prove + audit, build, correspond, oracle, verdict, evidence.

One run of `bin/check <ID>` (DESIGN.md §2, §5):
  P  every obligation (property theorem) elaborates and depends only on the allowed axioms
  K  no correspondence disagreement between the Lean model (wxdriver) and the real code (harness)
  O  the property's own oracle holds on every implementation observation explored
P ∧ K ∧ O → exit 0.  ¬O → VIOLATION with the failing case as replay.  (¬P ∨ ¬K) ∧ O → search, then
VIOLATION … no-failing-input-found with a replay naming the theorem / stream that no longer checks.
"""
import fcntl, hashlib, json, os, re, subprocess, sys, time
from pathlib import Path

VERIF = Path(__file__).resolve().parents[2]
REPO = Path(os.environ.get("WX_REPO", "/repo"))
LEAN = VERIF / "lean"
HARNESS = {"lib": VERIF / "harness", "cli": VERIF / "harness-cli"}
TARGET = VERIF / "harness" / "target" / "debug"
DRIVER = LEAN / ".lake" / "build" / "bin" / "wxdriver"
WORK = VERIF / "work"
ALLOWED_AXIOMS = {"propext", "Classical.choice", "Quot.sound"}
FORBIDDEN = re.compile(r"\b(sorry|admit|native_decide|bv_decide|implemented_by|unsafe)\b|^\s*axiom\s|maxHeartbeats\s+0")
ENV = dict(os.environ, CARGO_NET_OFFLINE="true", CARGO_TERM_COLOR="never")
TRUSTED_BASE = [
    "Lean 4.33.0 kernel (thorough tier re-checks the property modules with leanchecker)",
    "axioms propext, Classical.choice, Quot.sound only (audited with #print axioms on every run); no native_decide, no bv_decide, no own axioms",
    "the correspondence harness (/verif/harness*) and its generators: the hand-written model is known to agree with the code only on the cases explored",
    "the translator wxtranslate (syn) for the generated tables under lean/Wx/Pure/Gen",
    "the Lean compiler/runtime for wxdriver (correspondence and search only, never a proof)",
]


def log(*a):
    print(*a, file=sys.stderr, flush=True)


def sh(cmd, cwd=None, timeout=3600, env=None, stdin=None, stdout=None):
    t = time.time()
    p = subprocess.run(cmd, cwd=cwd, env=env or ENV, timeout=timeout, stdin=stdin,
                       stdout=stdout if stdout is not None else subprocess.PIPE, stderr=subprocess.STDOUT if stdout is None else subprocess.PIPE, text=True)
    log(f"[{time.time()-t:6.1f}s rc={p.returncode}] {' '.join(map(str, cmd))[:160]}")
    return p


class Lock:
    """serialise builds (cargo / lake) between concurrently running checks"""
    def __init__(self, name):
        WORK.mkdir(exist_ok=True)
        self.f = open(WORK / f".{name}.lock", "w")
    def __enter__(self):
        fcntl.flock(self.f, fcntl.LOCK_EX); return self
    def __exit__(self, *a):
        fcntl.flock(self.f, fcntl.LOCK_UN)


def source_hashes(paths):
    out = {}
    for p in paths:
        f = REPO / p
        out[p] = hashlib.sha256(f.read_bytes()).hexdigest()[:16] if f.exists() else "missing"
    return out


# ---------------------------------------------------------------------------------------------
# build steps

def cargo_build(crate, bins):
    with Lock("cargo"):
        lock = HARNESS[crate] / "Cargo.lock"
        repo_lock = REPO / "Cargo.lock"
        if not lock.exists() and repo_lock.exists():
            lock.write_text(repo_lock.read_text())
        cmd = ["cargo", "build", "--offline"] + sum((["--bin", b] for b in bins), [])
        p = sh(cmd, cwd=HARNESS[crate], timeout=3000)
        return p.returncode == 0, p.stdout


def translate():
    ok, out = cargo_build("lib", ["wxtranslate"])
    if not ok:
        return False, "building the translator failed:\n" + out[-3000:]
    with Lock("lake"):
        p = sh([TARGET / "wxtranslate", REPO, LEAN / "Wx" / "Pure" / "Gen"])
    return p.returncode == 0, p.stdout


def lake_build(targets):
    with Lock("lake"):
        p = sh(["lake", "build"] + targets, cwd=LEAN, timeout=3000)
    return p.returncode == 0, p.stdout


def forbidden_scan():
    hits = []
    for f in sorted(LEAN.glob("Wx/**/*.lean")) + [LEAN / "Main.lean"]:
        in_block = 0
        for i, line in enumerate(f.read_text().splitlines(), 1):
            code = line
            # strip block comments (nesting-aware enough for this code base) and line comments
            res = ""
            j = 0
            while j < len(code):
                if code.startswith("/-", j): in_block += 1; j += 2; continue
                if code.startswith("-/", j) and in_block: in_block -= 1; j += 2; continue
                if not in_block:
                    if code.startswith("--", j): break
                    res += code[j]
                j += 1
            if FORBIDDEN.search(res):
                hits.append(f"{f.relative_to(LEAN)}:{i}: {line.strip()[:120]}")
    return hits


def audit(pid, modules, theorems):
    """#print axioms for every property theorem; returns {theorem: (ok, axioms|error)}.
    One audit file per module, so a module that no longer builds only takes its own theorems with it."""
    d = WORK / pid
    d.mkdir(parents=True, exist_ok=True)
    res = {}
    texts = []
    for k, m in enumerate(modules):
        todo = [t for t in theorems if not (t in res and res[t][0])]
        if not todo: break
        f = d / (f"Audit{k}.lean" if k else "Audit.lean")
        f.write_text(f"import {m}\n" + "".join(f"#print axioms {t}\n" for t in todo))
        with Lock("lake"):
            p = sh(["lake", "env", "lean", str(f)], cwd=LEAN, timeout=1200)
        text = p.stdout; texts.append(text)
        for t in todo:
            mm = re.search(r"'" + re.escape(t) + r"' depends on axioms: \[([^\]]*)\]", text, re.S)
            if mm:
                ax = [a.strip() for a in mm.group(1).replace("\n", " ").split(",") if a.strip()]
                bad = [a for a in ax if a not in ALLOWED_AXIOMS]
                res[t] = (not bad, ax)
            elif re.search(r"'" + re.escape(t) + r"' does not depend on any axioms", text):
                res[t] = (True, [])
            elif t not in res:
                err = [l for l in text.strip().splitlines() if "error" in l and (t in l or "object file" in l or "import" in l)]
                res[t] = (False, "not checked: " + (err[0][:300] if err else "not found in the audited modules"))
    return res, "\n".join(texts)


def failing_decls(build_log):
    """map `error: Wx/X.lean:LINE:COL` to the nearest preceding declaration name"""
    out = []
    for m in re.finditer(r"error: (?:\./)?(Wx/[\w/]+\.lean):(\d+):(\d+): (.*)", build_log):
        f, ln, msg = m.group(1), int(m.group(2)), m.group(4)
        name = "?"
        try:
            lines = (LEAN / f).read_text().splitlines()
            for k in range(min(ln, len(lines)) - 1, -1, -1):
                mm = re.match(r"\s*(?:private\s+|protected\s+)?(theorem|lemma|def|example|instance|abbrev)\s+([\w.'«»]+)?", lines[k])
                if mm:
                    name = f"{mm.group(1)} {mm.group(2) or ''}".strip(); break
        except OSError:
            pass
        out.append(f"{f}:{ln}: {name}: {msg[:200]}")
    return out


# ---------------------------------------------------------------------------------------------
# streams

class StreamResult:
    def __init__(self, name):
        self.name = name
        self.evaluations = 0
        self.nontrivial = set()          # distinct non-trivial case keys
        self.disagreements = []          # (index, case, impl, model)
        self.oracle_failures = []        # (index, case, impl, what)
        self.distribution = {}
        self.samples = []
        self.error = None                # harness / driver could not run
        self.exhaustive = False
        self.note = ""

    def bump(self, key, n=1):
        self.distribution[key] = self.distribution.get(key, 0) + n


def run_driver(args, cases_path, out_path):
    with open(cases_path) as fin, open(out_path, "w") as fout:
        p = subprocess.run([str(DRIVER)] + args, stdin=fin, stdout=fout, stderr=subprocess.PIPE, text=True, timeout=900)
    return p.returncode == 0, p.stderr


def read_lines(p):
    with open(p, encoding="utf-8", errors="replace") as f:
        return f.read().split("\n")[:-1] if os.path.getsize(p) else []


def simple_stream(pid, name, crate, binary, bin_args, driver_args, *, compare=None, nontrivial=None,
                  classify=None, oracle=None, timeout=1800, env_extra=None, max_keep=40):
    """generate+run the real code (harness writes cases.txt / impl.txt), run the model on the same
    cases, compare line by line. An impl line may carry `\\t!<oracle failure>` written by the harness."""
    r = StreamResult(name)
    d = WORK / pid / name
    d.mkdir(parents=True, exist_ok=True)
    for f in ("cases.txt", "impl.txt", "model.txt"):
        (d / f).unlink(missing_ok=True)
    env = dict(ENV, WX_OUT=str(d)); env.update(env_extra or {})
    p = sh([str(TARGET / binary)] + [str(a) for a in bin_args], cwd=d, env=env, timeout=timeout)
    if p.returncode != 0 or not (d / "cases.txt").exists():
        r.error = f"harness {binary} failed (rc={p.returncode}): {p.stdout[-1500:]}"
        return r
    ok, err = run_driver(driver_args, d / "cases.txt", d / "model.txt")
    if not ok:
        r.error = f"wxdriver {driver_args} failed: {err[-1500:]}"
        return r
    cases, impl, model = read_lines(d / "cases.txt"), read_lines(d / "impl.txt"), read_lines(d / "model.txt")
    if not (len(cases) == len(impl) == len(model)):
        r.error = f"line counts differ: cases {len(cases)} impl {len(impl)} model {len(model)}"
        return r
    r.evaluations = len(cases)
    for i, (c, im, mo) in enumerate(zip(cases, impl, model)):
        obs, _, orc = im.partition("\t!")
        if orc and len(r.oracle_failures) < max_keep:
            r.oracle_failures.append((i, c, obs, orc))
        elif orc:
            r.oracle_failures.append((i, "", "", ""))
        same = compare(c, obs, mo) if compare else obs == mo
        if not same:
            r.disagreements.append((i, c, obs, mo) if len(r.disagreements) < max_keep else (i, "", "", ""))
        if oracle:
            what = oracle(c, obs, mo)
            if what:
                r.oracle_failures.append((i, c, obs, what) if len(r.oracle_failures) < max_keep else (i, "", "", ""))
        if nontrivial is None or nontrivial(c, obs):
            r.nontrivial.add(hashlib.md5((c + "\0" + obs).encode()).digest()[:8])
        if classify:
            for k in classify(c, obs):
                r.bump(k)
        if i % max(1, len(cases) // 4) == 0 and len(r.samples) < 4:
            r.samples.append({"case": c[:400], "impl": obs[:400], "model": mo[:400]})
    return r


# ---------------------------------------------------------------------------------------------
# verdict and evidence

def known_findings():
    p = VERIF / "known_findings.json"
    return json.loads(p.read_text()) if p.exists() else {"findings": [], "fixed": []}


def run_chunks(binary, cases, k=12, timeout=180, cwd=None, max_culprits=4):
    """Run a harness binary (one answer line per case line, flushed case by case) over `cases`, split over k processes.
    A process that crashes or does not finish within `timeout` seconds has answered a prefix of its chunk: the first
    unanswered case is the culprit (hang / deadlock / abort on that input); it is recorded and the rest of the chunk is run
    again. Returns (impl: case -> answer line, culprits: [(case, why)], fatal: str | None)."""
    import subprocess
    from concurrent.futures import ThreadPoolExecutor
    def run_one(ch):
        impl, culprits, fatal = {}, [], None
        rest = list(ch)
        while rest:
            try:
                p = subprocess.run([str(TARGET / binary)], input="\n".join(rest) + "\n", capture_output=True, text=True, timeout=timeout, cwd=cwd)
                outs, rc, err, timed = p.stdout.splitlines(), p.returncode, p.stderr[-400:], False
            except subprocess.TimeoutExpired as e:
                o = e.stdout or b""
                outs = (o.decode("utf-8", "replace") if isinstance(o, bytes) else o).splitlines()
                rc, err, timed = -9, "", True
            for c, l in zip(rest, outs): impl[c] = l
            if len(outs) >= len(rest) and rc == 0: break
            if len(outs) >= len(rest): fatal = f"{binary} exited with {rc} after answering every case: {err}"; break
            bad = rest[len(outs)]
            culprits.append((bad, (f"no answer within {timeout} s (hang / deadlock)" if timed else f"the harness process died (exit {rc}) {err.strip()[-200:]}")))
            rest = rest[len(outs) + 1:]
            if len(culprits) >= max_culprits: break      # enough evidence: the remaining cases of this chunk stay unanswered
        return impl, culprits, fatal
    chunks = [cases[i::k] for i in range(k)]
    with ThreadPoolExecutor(k) as ex: res = list(ex.map(run_one, chunks))
    impl, culprits, fatal = {}, [], None
    for i, c, f in res:
        impl.update(i); culprits += c; fatal = fatal or f
    return impl, culprits, fatal


def corpus(stream):
    """minimised / first failing cases of past detections (seeded changes, reverted repairs), one case line per line in
    /verif/corpus/<stream>.txt ('#' starts a comment); they run first in the stream, under ids cp0, cp1, ..."""
    f = VERIF / "corpus" / f"{stream}.txt"
    if not f.exists(): return []
    out = []
    for l in f.read_text().splitlines():
        l = l.rstrip("\n")
        if not l.strip() or l.lstrip().startswith("#"): continue
        rest = l.split(" ", 1)[1] if " " in l else ""
        out.append(f"cp{len(out)} {rest}")
    return out


def write_replay(pid, kind, content):
    d = VERIF / "replays" / pid
    d.mkdir(parents=True, exist_ok=True)
    f = d / f"{kind}.txt"
    f.write_text(content)
    return f


def finish(pid, tier, seed, t0, *, level, obligations, streams, build_errors, extra_cov=None, assumptions=None,
           checker_cmd="", rule="", partial_note=""):
    """compute P/K/O, print the verdict lines, write the evidence file, return the exit code"""
    thms = obligations["results"]
    discharged = sum(1 for ok, _ in thms.values() if ok)
    P = discharged == len(thms) and not obligations.get("forbidden") and not build_errors
    dis = [(s.name, d) for s in streams for d in s.disagreements]
    orc = [(s.name, d) for s in streams for d in s.oracle_failures]
    errs = [(s.name, s.error) for s in streams if s.error]
    K = not dis and not errs
    known = known_findings()
    lines, rc, violations = [], 0, 0

    # oracle failures: genuine violations on the implementation, unless listed as known findings
    unknown_orc = []
    for sname, (i, c, obs, what) in orc:
        hit = None
        for f in known.get("findings", []):
            if f.get("property") == pid and f.get("status", "known") == "known" and re.search(f["match"], what or ""):
                hit = f; break
        if hit:
            hit.setdefault("_seen", 0); hit["_seen"] += 1
        else:
            unknown_orc.append((sname, i, c, obs, what))
    for f in known.get("findings", []):
        if f.get("property") == pid and f.get("status", "known") == "known" and (f.get("_seen") or f.get("always_report")):
            lines.append(f"KNOWN-FINDING: property={pid} {f['what']}")
    if unknown_orc:
        sname, i, c, obs, what = unknown_orc[0]
        rp = write_replay(pid, "violation", f"property: {pid}\nstream: {sname}\nseed: {seed}\ntier: {tier}\ncase index: {i}\ncase: {c}\nimplementation: {obs}\nwhat fails: {what}\n"
                          + f"\n{len(unknown_orc)} failing case(s) in this run; first ones:\n" + "\n".join(f"- [{s}#{j}] {w} :: {cc[:300]}" for s, j, cc, _, w in unknown_orc[:10] if cc) + "\n")
        lines.append(f"VIOLATION property={pid} replay={rp}")
        rc, violations = 1, len(unknown_orc)
    elif not (P and K):
        # broken proof or correspondence, oracle found nothing: the property is no longer shown to hold
        body = [f"property: {pid}", f"seed: {seed}", f"tier: {tier}", ""]
        if not P:
            body.append("PROOF OBLIGATIONS THAT NO LONGER CHECK:")
            for t, (ok, info) in thms.items():
                if not ok: body.append(f"  theorem {t}: {info}")
            for e in build_errors[:20]: body.append(f"  build: {e}")
            for h in obligations.get("forbidden", [])[:20]: body.append(f"  forbidden construct: {h}")
        if errs:
            body.append("CORRESPONDENCE STREAMS THAT COULD NOT RUN:")
            for n, e in errs: body.append(f"  {n}: {e}")
        if dis:
            body.append(f"CORRESPONDENCE DISAGREEMENTS ({len(dis)}; model vs implementation), searched with the property oracle, none violates it:")
            for n, (i, c, obs, mo) in dis[:10]:
                if c: body += [f"  stream {n} case #{i}: {c[:600]}", f"    implementation: {obs[:600]}", f"    model:          {mo[:600]}"]
        rp = write_replay(pid, "unproved", "\n".join(body) + "\n")
        lines.append(f"VIOLATION property={pid} replay={rp} no-failing-input-found")
        rc, violations = 1, 1

    if rc == 0:
        for f in (VERIF / "replays" / pid).glob("*.txt"): f.unlink()
    cov = {
        "obligations": len(thms), "discharged": discharged,
        "checker_cmd": checker_cmd or f"lake build {' '.join(obligations['modules'])} && lake env lean work/{pid}/Audit.lean  (#print axioms on every property theorem)",
        "trusted_base": TRUSTED_BASE,
        "theorems": {t: {"ok": ok, "axioms": ax} for t, (ok, ax) in thms.items()},
        "evaluations": sum(s.evaluations for s in streams),
        "distinct_nontrivial": sum(len(s.nontrivial) for s in streams),
        "rule": rule,
        "samples": sum((s.samples for s in streams), [])[:8] or [{"obligation": t} for t in list(thms)[:3]],
        "traces_validated_against_impl": sum(s.evaluations for s in streams),
        "disagreements_checked": len(dis),
        "oracle_failures": len(orc),
        "streams": {s.name: {"evaluations": s.evaluations, "distinct_nontrivial": len(s.nontrivial), "disagreements": len(s.disagreements),
                             "oracle_failures": len(s.oracle_failures), "distribution": dict(sorted(s.distribution.items())),
                             "exhaustive": s.exhaustive, "note": s.note, "error": s.error} for s in streams},
        "exhaustive": bool(streams) and all(s.exhaustive for s in streams),
        "proof_ok": P, "correspondence_ok": K, "oracle_ok": not unknown_orc,
        "explanation": partial_note,
    }
    if discharged == 0:
        # the schema wants discharged >= 1 for the proof keys; a run with nothing discharged reports the counts under other names
        cov["obligations_total"] = cov.pop("obligations"); cov["discharged_count"] = cov.pop("discharged")
    cov.update(extra_cov or {})
    ev = {"property_id": pid, "tier": tier, "seed": seed, "level": level, "coverage": cov,
          "assumptions": assumptions or [], "wall_s": round(time.time() - t0, 1), "violations": violations}
    (VERIF / "evidence").mkdir(exist_ok=True)
    (VERIF / "evidence" / f"{pid}.json").write_text(json.dumps(ev, indent=1, ensure_ascii=False) + "\n")
    for l in lines: print(l)
    print(f"{pid}: proof {'ok' if P else 'BROKEN'} ({discharged}/{len(thms)} obligations), correspondence {'ok' if K else 'BROKEN'} "
          f"({cov['evaluations']} cases, {len(dis)} disagreements), oracle {'ok' if not orc else str(len(orc)) + ' failures'}; {ev['wall_s']} s")
    return rc
