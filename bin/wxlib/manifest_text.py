"""Per-property texts for MANIFEST.json (level claimed, trusted base, technique)."""

COMMON_NOTE = ("Trusted: Lean 4.33 kernel; axioms propext / Classical.choice / Quot.sound only (audited by #print axioms every run; no sorry, "
               "native_decide, bv_decide or own axioms); the translator and the correspondence harness (the model is known to agree with the code "
               "only on the cases explored); external crates and the OS are modelled, not verified. ")

TEXT = {
    "C20": dict(
        design_ref="§7 C20",
        technique="Lean 4 proof over tables regenerated from the Rust source by a translator, plus differential execution against project_origins on real directory chains",
        text=("Theorems (induction-free list lemmas for any chain length; `decide` over the complete, regenerated finite tables): origins = exactly the marked "
              "members of the chain; types = exactly the documented markers present with the right node type; the code's type table equals the documented "
              "one and its marker list equals the recognised one; origins_eq_doc / types_eq_doc: the code's functions over the regenerated tables equal the pinned specification the stream runs; every project type is exactly one of VCS / software suite. The tables are regenerated from "
              "crates/project-origins/src/lib.rs on every run, so a change to them re-checks the theorems; the listing/lookup logic is tied by a correspondence stream."),
        note=COMMON_NOTE + "Modelled: DirList::obtain as a (name, node type) listing."),
    "C19": dict(
        design_ref="§7 C19",
        technique="Lean 4 proof by complete enumeration (`decide +kernel`) over signal tables regenerated from the source and the nix table dumped from the linked crate; exhaustive differential execution",
        text=("Theorems over the complete finite domains: display∘parse keeps the OS signal for every platform signal in every constructor form; number / SIG-name / "
              "short name agree in upper, lower and capitalised spelling except where a documented control name takes over (and only STOP/KILL do); first-class "
              "signals have their POSIX numbers; From<i32> agrees with from_nix; exit codes 0–255 and terminating signals 1–64 with and without the core bit convert "
              "faithfully. Tables regenerated every run; parse/display/status decoding compared with the real code on every spelling and on all 65536 raw statuses."),
        note=COMMON_NOTE + "Modelled: std's ExitStatus decoding; cfg(windows) code out of scope."),
    "C16": dict(
        design_ref="§7 C16",
        technique="Lean 4 proof (case analysis + `decide +kernel` over the regenerated 41-row kind table) of decode∘encode = id and decode totality; differential execution against serde_json",
        text=("Theorems: every one of the 41 file event kinds survives print-then-decode (table regenerated from serde_formats.rs); decode (encode t) = t for every "
              "well-formed tag (all dispositions, codes over unbounded Int with the i32 guards, signals, pids, paths); for EVERY SerdeTag value decode yields a tag of "
              "the object's own kind or the explicit unknown tag, and a well-formed one. The JSON field names/values and the decode arms are tied to serde's actual "
              "output and input by the json stream."),
        note=COMMON_NOTE + "Modelled: serde/serde_json text layer (compared, not modelled); Tag↔SerdeTag arms transcribed by hand."),
    "C17": dict(
        design_ref="§7 C17",
        technique="Lean 4 proof (list induction, greatest-lower-bound lemmas) about an executable model of the summary functions; differential execution against summarise_events_to_env and events_to_simple_format",
        text=("Theorems for every batch: the fold of pairwise common prefixes is the greatest lower bound of all trunks (COMMON is a prefix of every trunk, the longest "
              "such, and absent only if they share not even the root); under a non-empty prefix strip succeeds and join restores the path (entry_faithful); a variable "
              "exists iff some pathed event has a kind of its bucket, its entries are exactly those events' entries, strictly increasing in byte order; events without "
              "path or kind contribute nothing; the line format is the concatenation of per-event lines (paths x kinds). Model tied to the code by the summary stream, "
              "which also evaluates the property on the real output."),
        note=COMMON_NOTE + "Modelled: std::path component semantics."),
    "C18": dict(
        design_ref="§7 C18",
        technique="Lean 4 proof about an executable model of to_spawnable / interpret_command_args; differential execution plus real spawns through start_job",
        text=("Theorems: argv(Exec prog args) = prog :: args with every string unchanged; argv(Shell) = shell, options, program option, command, extra args in that order; "
              "session wins over grouped and KillOnDrop is always present; CLI: -n / --shell=none give Exec verbatim, otherwise Shell with the single-space join; "
              "split_ascii_whitespace yields no empty or whitespace-containing word and loses nothing else. Tied by the spawn stream; byte-for-byte delivery and the "
              "effect of group/session wrappers are validated with real children (partial: OS behaviour is not proved)."),
        note=COMMON_NOTE + "Modelled/validated only: execve, process-wrap wrappers, /proc."),
    "C03": dict(
        design_ref="§7 C03",
        technique="Lean 4 refinement proof (strong induction on prefix length): the match_path lookup loop equals nearest-component-ancestor-first evaluation, parametric in the glob matcher; differential execution against IgnoreFilter plus a specification oracle",
        text=("Theorem matchPathC_eq_spec: on the model the correspondence validates, match_path (longest-string-prefix trie lookup, component check, parent hop) equals git-style "
              "evaluation over the component-wise ancestors, nearest first, then global — for every filter, path and file type; corollaries spec_congr / spec_keys_congr / "
              "scoping_law: files of non-ancestor directories (test/ vs tests/) never change a verdict, negations included; goOld_ne_spec keeps the kernel-checked witness that "
              "the pre-repair loop violated it. The proof is parametric in the per-node verdict, so it does not rest on the glob model. For the concrete matcher the commonest line is "
              "characterised completely (Wx/Glob/GlobPath.lean, name_ignores_iff): the line `name` ignores exactly the relative paths that HAVE a component `name` (the path or any "
              "directory above it, matched_path_or_any_parents), for every clean name and every path — so `test` never touches `tests/x` at the matcher level either."),
        note=COMMON_NOTE + "Modelled: radix_trie::get_ancestor, the ignore crate's gitignore matcher (validated by the glob stream)."),
    "C11": dict(
        design_ref="§7 C11",
        technique="Lean 4 proof of the documented decision rule for an abstract filterer (matcher, ignore-file layer, Path::extension as parameters), instantiated with the concrete models; differential execution against GlobsetFilterer::check_event",
        text=("Theorems for every environment and configuration: no paths -> pass; a whitelisted path -> pass; ignore-file layer rejects -> reject; otherwise pass iff some path is not "
              "matched by an ignore pattern and is wanted (filter match incl. the origin//rel re-match, or non-directory with a listed extension; everything when nothing is configured); "
              "ignore precedence; inserting a non-negated ignore pattern anywhere can only turn pass into reject; the empty configuration passes everything. The function the driver runs "
              "against the real filterer IS the abstract decision instantiated (checkEventC), so the theorems hold for it by instantiation. "
              "What the concrete glob model means on the property's grammar is proved too (Wx/Glob/GlobThm.lean, Props.C11.*_rule): for every Clean name / extension and every candidate "
              "path, the line `[!]name[/]` parses to `**/name` and matches exactly the paths whose last component is name; `*.ext` exactly a slash-free stem + .ext at any depth; `/rooted` "
              "and `a/b` exactly that relative path; `x/**` exactly the paths strictly below x; `!` and a trailing `/` set the negation / directories-only flags and nothing else "
              "(addLine_ok for every core pattern). The parser is total; its fuel (length + 1) is proved sufficient (parseGo_fuel)."),
        note=COMMON_NOTE + "Modelled: globset / ignore::gitignore matching (Wx/Glob/Glob.lean, tied to the real crate by the glob stream), std::path::Path::extension."),
    "C14": dict(
        design_ref="§7 C14",
        technique="Lean 4 proof by mutual structural induction that the discovery walker computes the specification (reachable directories judged by their proper ancestors' files), order-independence, soundness, completeness; differential execution against from_origin on real trees plus a specification oracle",
        text=("Theorems on the walker model (one growing list of loaded directories, filter as a parameter satisfying the scoping law proved in C03): visit_spec / visit_spec' (walker = "
              "specification), sv_order (result independent of listing order at every depth), sv_sound (nothing from inside an ignored or unrelated subtree), sv_complete (every "
              "applicable directory is found). Partial: the real stack-and-skip-list walk is tied to this recursion by the discover stream (ordered result lists on real trees) and by "
              "the specification oracle, not by proof."),
        note=COMMON_NOTE + "Modelled: the filesystem (read_dir order is recorded and fed to the model), find_file."),
    "C04": dict(
        design_ref="§7.0, §7 C04",
        technique="Lean 4 invariant proof by induction over every script / child behaviour / race resolution of an executable model of the job task; trace-set membership against the real start_job under a paused clock",
        text=("Theorem c04: for every fix configuration, behaviour script, operation script and race resolution, every reachable state of the job-task model has at most one "
              "spawned-and-unreaped child and it is the one the task holds. The model (all controls, timer, three queues, flags, parked select, closed queues, scripted children) is tied "
              "to crates/supervisor by the job-sim stream: the real trace must be a member of the model's set of admissible traces."),
        note=COMMON_NOTE + "Modelled: tokio mpsc/select!/paused clock, process-wrap child (scripted child through the public spawn hook), SeqCst reading of the Relaxed atomics."),
    "C06": dict(
        design_ref="§7.0, §7 C06",
        technique="Lean 4 step theorems on the job-task model (signal logged in the handling step, timer armed for now+grace, expiry message is the only candidate at expiry, normal controls held back, continuation clears the restart slot) plus kernel-checked witnesses; trace-set membership against the real start_job",
        text=("Theorems: graceful_stop_step / graceful_restart_step (signal in the same step, timer = now + grace with the control's flag, no kill), timer_not_early, timer_fires (at expiry the "
              "timer's message precedes every queue), held_back / c10_priority (no normal control while a timer is armed), expiry_kills (kill, reap, finished, flag raised), "
              "continue_clears with extra_respawn_today / no_extra_respawn_fixed (exactly one replacement). Bounded-response statements are for the eager scheduler (= the paused-clock "
              "runtime of the harness)."),
        note=COMMON_NOTE + "Modelled: tokio mpsc/select!/paused clock, process-wrap child (scripted child through the public spawn hook), SeqCst reading of the Relaxed atomics."),
    "C07": dict(
        design_ref="§7.0, §7 C07",
        technique="Lean 4 invariant proofs (no issued flag is ever lost; every waiter of a raised flag or a gone job is resolved) by the SimInv induction principle over all scripts and races; trace-set membership against the real start_job with hand-polled tickets",
        text=("Theorems: c07_noLost (every flag ever issued is queued, raised, or held by the timer / on_end / restart slot, and the restart flag lives exactly as long as its timer — for "
              "API-shaped sends), c07_tickets (with the waker list: a ticket whose flag is raised, or whose job is gone, has resolved — any number of waiters and clones), c10_ran (a raised "
              "flag belongs to a control recv has returned), and the kernel-checked witnesses that the pre-repair code violated both. Partial: 'a held flag is eventually raised' is "
              "timer_fires + expiry_kills + the wait branch under the eager scheduler; a wait-for-end on a child that never ends legitimately never resolves."),
        note=COMMON_NOTE + "Modelled: tokio mpsc/select!/paused clock, process-wrap child (scripted child through the public spawn hook), SeqCst reading of the Relaxed atomics."),
    "C09": dict(
        design_ref="§7.0, §7 C09",
        technique="Lean 4 refinement proof: every control arm and the wait branch of the job-task model is a step of the documented state machine (specStep / specExit) with the same effects and ticket moment; trace-set membership against the real start_job, state observed by run markers",
        text=("Theorem c09_whole_run: in every reachable state of every history (any controls at any priority, any child behaviour, any timing, handle drops, every race resolution) the "
              "observable state and the log of process-visible effects are those of a run of the documented machine (SpecRun: one specStep per executed control, one specExit per natural "
              "end). It is the lift, through the simulator induction principle, of handle_refines (all fourteen controls incl. the internal continuation) and waitBranch_refines: abs (handle s m) = specStep (abs s) m.ctl, the non-ticket log grows by "
              "exactly the spec's effects, the flag is raised iff the spec says now; spawn_refines (hook called once right before each spawn, previous = the finished previous run). The "
              "documented no-ops and 'wait-for-end resolves at once when nothing runs' are read off the spec."),
        note=COMMON_NOTE + "Modelled: tokio mpsc/select!/paused clock, process-wrap child (scripted child through the public spawn hook), SeqCst reading of the Relaxed atomics."),
    "C10": dict(
        design_ref="§7.0, §7 C10",
        technique="Lean 4 invariant proofs over all scripts and races: per queue taken ++ queued = sent (FIFO, exactly once), recv's candidate respects urgent > high > normal and the armed timer, a raised flag belongs to a control already returned; trace-set membership against the real start_job",
        text=("Theorems c10_fifo (every configuration: nothing lost, duplicated or reordered within a priority), c10_priority (biased receive: normal only with no timer and nothing urgent/high "
              "pending, high only with nothing urgent pending, the timer's message only after the grace period), c10_ran (awaiting the last ticket implies every earlier control of that "
              "queue has been taken), and c10_priority_fails_today as the witness for the unbiased select."),
        note=COMMON_NOTE + "Modelled: tokio mpsc/select!/paused clock, process-wrap child (scripted child through the public spawn hook), SeqCst reading of the Relaxed atomics."),
    "C13": dict(
        design_ref="§7 C13",
        technique="Lean 4 invariant proof over every sequence of configuration changes (made while the worker is parked or from inside its own watch/unwatch calls): quiescent => registered = believed = configured; differential execution of the real fs worker against a recording watcher (hook H2)",
        text=("Theorem c13_converges: for the repaired worker and no injected faults, in every reachable quiescent state (no wake-up pending, change counter seen = current) the active watcher has "
              "the configured kind, the registered set and the worker's belief equal the configured path set with the configured modes, and there is no watcher iff the set is empty; "
              "f8a_witness / f8b_witness keep the kernel-checked counterexamples for the pre-repair code. With failing registrations (iteration_faults): the others are registered, the belief stays in sync "
              "(the failed path is retried), and the runtime errors of one iteration are exactly one per path the failing attempts' notify errors name, one when an error names none "
              "(errors_per_failing_attempt; notify_multi_path_errors is inside the model). The stream covers kind-only changes (Config::file_watcher alone, also from inside a watch call), "
              "nested watched paths, scripts that end without a healing notification, and checks the kind of the ACTIVE watcher at the end. Partial: unwatch failures are tied by correspondence only."),
        note=COMMON_NOTE + "Modelled: tokio Notify, the notify back-ends (recording watcher), HashSet iteration order (call logs compared sorted)."),
    "C15": dict(
        design_ref="§7 C15",
        technique="Lean 4 conservation proof for a bounded-channel / error-hook model (every capacity, handler script, operation sequence); differential execution of a real Watchexec instance with a fault-injecting filterer and scripted handlers, plus the fs-worker stream for watch/unwatch failures",
        text=("Theorem c15_conserved: while the hook runs, the errors passed to send().await are — in order, each exactly once — the handler's calls, then the channel, then the still-waiting "
              "senders, for every channel capacity >= 1; hook_end: only the handler's verdict (elevate / critical) ends the hook, with that error; ended_stops. The real instance is run with "
              "capacities 1/2/64 and handlers that ignore, sleep, elevate, raise critical or replace themselves; the model predicts the handler generation per error and main's result."),
        note=COMMON_NOTE + "Modelled: tokio bounded mpsc, the event heap (order is an input). Real-time runs."),
    "C01": dict(
        design_ref="§7 C01",
        technique="Lean 4 proof by induction over the turns of throttle_collect (every clock reading, recv outcome, filter verdict as inputs): conservation, non-empty batches, filter bypass; differential execution of the real action worker in real time plus a schedule-independent oracle",
        text=("Theorems: worker_conserve (WHOLE RUN of the worker loop, any number of calls: the batches handed to the handler, concatenated, plus the accepted events of the unfinished "
              "last call are exactly the accepted events in receive order — every accepted event in exactly one batch), worker_nonempty, worker_only_accepted, turn_rejected; "
              "collect_conserve (the returned batch is exactly the set so far plus the accepted events received in this call, in receive order, and is non-empty), turn_next_set / "
              "turn_batch (per turn), turn_filtered (only non-urgent non-empty events reach the filter; every error comes from an erroring verdict and its event is not kept), "
              "classify_spec. The driver's zero-latency run goes through the same `turn` function and must reproduce the real worker's batches away from window edges. "
              "How a keyboard EOF gets INTO the queue is modelled too (Kb: the keyboard worker's loop around ConfigWatched, the watch_stdin task it spawns and closes): eof_never_lost, "
              "eof_exactly_once, delivered_le_enables, spawned_eq_edges / delivered_le_edges, disabled_delivers_nothing — for every script of run-time keyboard_events(..) changes, input "
              "and end of input; compared with a real instance whose fd 0 is a pipe held by the harness (stream keyboard)."),
        note=COMMON_NOTE + "Modelled: the priority channel, tokio timeout, std Instant (readings are inputs). Real-time runs."),
    "C02": dict(
        design_ref="§7 C02",
        technique="Lean 4 proof of the debounce lower bound for every turn (any throttle incl. 0 and changing, any monotone clock), urgent bypass and flush; differential execution in real time with a strict microsecond lower-bound oracle",
        text=("Theorems: worker_bound / collect_bound (WHOLE RUN: every batch without urgent events left in a turn whose throttle reading had elapsed since the clock reading taken "
              "right after its first event was received), turn_urgent (an urgent event returns the pending set plus itself in its own turn, unfiltered), turn_window_over (no "
              "starvation: once the top-of-loop reading reaches last + throttle the set is returned whatever is queued), turn_rejected; turn_lower_bound (a batch without urgent events leaves no earlier than last + throttle for the throttle value read in that turn, and last is the reading taken after "
              "its first event), turn_batch (an urgent event returns the batch in its own turn), turn_filtered (urgent events never reach the filter), collect_conserve (everything accepted "
              "in the window is in that batch). Bounded delay after the window under rejected traffic is stated for the eager scheduler; its numeric value on a real scheduler is "
              "reported (worst lateness) but not proved."),
        note=COMMON_NOTE + "Modelled: the priority channel, tokio timeout, std Instant. Real-time runs."),
    "C12": dict(
        design_ref="§7 C12",
        technique="Lean 4 proof by complete enumeration (`decide`) over all 64 flag combinations (x with/without a project git-config excludes file) of a provenance-class model of the CLI's ignore-file assembly; exhaustive differential execution of the real WatchexecFilterer over the same space",
        text=("Theorems over the complete finite space: c12_explicit_always / c12_explicit_all (the explicit ignore file, --ignore, --filter/--filter-file, --exts, --fs-events reach the "
              "filterer under every combination; built-in defaults go exactly with --no-default-ignore / --ignore-nothing), c12_exact / c12_exact_gitcfg (a discovered source reaches it iff "
              "no set flag names it; a project-level core.excludesFile replaces the global git excludes whenever the project config is read), c12_flags_effective, and c12_today_52 as the "
              "witness that the pre-repair assembly lost the explicit file in 52 combinations. The model is compared with the real CLI filterer (hook H1) on all 128 x 5 constructions."),
        note=COMMON_NOTE + "Modelled: ignore-file discovery results as provenance classes; clap and normalise() run for real."),
    "C08": dict(
        design_ref="§7 C08",
        technique="Lean 4 invariant proofs on the job-task model (after Stop nothing runs and no timer is armed, so the trailing Delete ends the task with nothing live; after GracefulStop no new process starts) lifted to any number of jobs in any states (c08_main_bound: product of per-job runs read at one instant, bound = the largest per-job deadline); differential execution of a real Watchexec instance (simulated children, virtual time) and a real-process stream",
        text=("Theorems: c08_delete_after_stop (every configuration: whenever recv is about to return a Delete queued behind a Stop, nothing is running, nothing is un-reaped, and handling "
              "it ends the task), c08_delete_idle (during a quit the restart slot is empty and no process is started), timer_fires / expiry_kills / graceful_stop_step (kill exactly at "
              "the grace deadline). The worker's quit branch is composed from per-job model runs by the driver: the real main task must finish exactly when the slowest job's model run "
              "ends, and the property's own time bound and 'nothing left alive' are checked as oracles. The per-job time bound is a theorem: c08_quit_bound / c08_deadline (from ANY state, after "
              "GracefulStop; Stop + Delete the job task is gone whenever the virtual clock exceeds the deadline = expiry of the timer armed at the quit + grace periods still queued + the "
              "quit's own; the clock passes only while the task is idle and never beyond an armed timer — SimInv3), with idle_timer (nothing but an unexpired grace timer holds a control back). "
              "CLI: first_interrupt_quits_gracefully / other_signals_pass / interrupts_escalate (config.rs' decision on INT / TERM), with --map-signal inside the model (mapped_interrupt_does_not_quit, "
              "translate_one, last_mapping_wins; stream cli-sigmap) and keyboard EOF / --stdin-quit (keyboard_eof_quits_gracefully), run against the real handler by the cli-quit and cli-sigmap streams and end to "
              "end by e2e-cli (real signals to the built binary). Which jobs a quit reaches is a theorem as well: no_job_outside_the_registry (Rg: Id::default() on any threads, the handler's create / "
              "get-or-create / get calls, the worker's registry and gc — for every script every started job is registered or has ended), compared with a real instance and real processes by the registry stream. The composition over the job map is a theorem too: c08_main_bound (any number of jobs, each in any state incl. already ended ones — dead_stays_dead —, each with its own continuation: at any common instant later than the LARGEST per-job bound no job task is alive, i.e. both join_all calls of the quit branch have returned). Partial: process-group members surviving "
              "graceful quit / abort of a grouped command are recorded known findings (F15a, F15b), observed by the real-process stream on every run."),
        note=COMMON_NOTE + "Modelled: tokio mpsc/select!/paused clock, process-wrap child (scripted child through the public spawn hook), SeqCst reading of the Relaxed atomics."),
    "C05": dict(
        design_ref="§7 C05",
        technique="Lean 4 proofs of the action handler's decision logic stated outright (per mode, per job state) and of queue-mode freshness over all interleavings of an abstract protocol model; the decision function composed with the verified job-task model is run against the CLI's real action handler (hook H1), plus an end-to-end replay with the built binary",
        text=("Theorems: react_idle / react_doNothing / react_signal / react_restart / react_queue_first / react_queue_again / react_no_forceful (what the state-query closure sends in each "
              "mode: one Start when idle; nothing; exactly one Signal with stop-signal, else signal, else TERM; GracefulStop(stop-signal or TERM, stop-timeout) then Start; one follow-up "
              "per run; never Stop/Delete/TryRestart), c04 (runs never overlap), graceful_restart_step / graceful_stop_step, and perRun_fresh (queue mode: for every interleaving of "
              "handler, job task and follow-up tasks a quiescent state is fresh) with f10_today / reorder_insufficient as kernel-checked witnesses against the old protocol and the "
              "obvious repair. The composed model (react + Jm, incl. --delay-run as a sleeping job task) must contain the real handler's child call log on every script; the F10 window "
              "is replayed end to end on the built binary pinned to one CPU; the start-up run and --postpone are exercised end to end (e2e-cli)."),
        note=COMMON_NOTE + "Modelled: tokio mpsc/select!/paused clock, process-wrap child (scripted child through the public spawn hook), SeqCst reading of the Relaxed atomics." + " The composition of react with the job model is done by the driver, not proved; perRun_fresh is about the abstract protocol."),
}

NOT_APPLICABLE = {}
for i in range(1, 21):
    NOT_APPLICABLE[f"C{i:02d}"] = "check not assembled yet in this build round (model and theorems exist as spikes, see DESIGN.md §11); will be claimed when its correspondence stream runs from bin/check"
