use wxharness_cli::out;
use std::{collections::HashMap, io::Write, path::PathBuf};
use watchexec_cli::verif;
use watchexec_events::{filekind::*, Event, FileType, Tag};

struct Rng(u64);
impl Rng { fn next(&mut self) -> u64 { self.0 ^= self.0 << 13; self.0 ^= self.0 >> 7; self.0 ^= self.0 << 17; self.0 }
  fn below(&mut self, n: u64) -> u64 { self.next() % n } }

/// the documented kind -> variable table (rustdoc of `summarise_events_to_env`), transcribed by hand
fn doc_bucket(k: &FileEventKind) -> &'static str {
    match k {
        FileEventKind::Create(_) => "CREATED",
        FileEventKind::Modify(ModifyKind::Metadata(_)) => "META_CHANGED",
        FileEventKind::Remove(_) => "REMOVED",
        FileEventKind::Modify(ModifyKind::Name(_)) => "RENAMED",
        FileEventKind::Modify(ModifyKind::Data(_)) | FileEventKind::Access(AccessKind::Close(AccessMode::Write)) => "WRITTEN",
        _ => "OTHERWISE_CHANGED",
    }
}

/// C17 on the real output: every (kind, path) of the batch is listed in the variable of its kind, joining
/// COMMON with the entry gives the path back, entries are strictly increasing in byte order, nothing else is listed
fn oracle(events: &[Event], env: &HashMap<&str, std::ffi::OsString>) -> String {
    use std::os::unix::ffi::OsStrExt;
    let common = env.get("COMMON").map(PathBuf::from);
    let join = |e: &[u8]| -> PathBuf { let e = std::path::Path::new(std::ffi::OsStr::from_bytes(e)); match &common { Some(c) => c.join(e), None => e.to_path_buf() } };
    let mut wanted: HashMap<&str, Vec<PathBuf>> = HashMap::new();
    for ev in events {
        let paths: Vec<PathBuf> = ev.tags.iter().filter_map(|t| if let Tag::Path { path, .. } = t { Some(path.clone()) } else { None }).collect();
        for t in &ev.tags { if let Tag::FileEventKind(k) = t { for p in &paths { wanted.entry(doc_bucket(k)).or_default().push(p.clone()); } } }
    }
    // "the common path is the longest common directory": the directory of a path is the path itself when it is typed as a directory, else its
    // parent; COMMON is above (or equal to) every one of them, and no longer ancestor of the first is above all of them
    let dirs: Vec<PathBuf> = events.iter().flat_map(|ev| ev.tags.iter().filter_map(|t| if let Tag::Path { path, file_type } = t {
        Some(match file_type { Some(FileType::Dir) => path.clone(), _ => path.parent().map(|p| p.to_path_buf()).unwrap_or_else(|| path.clone()) }) } else { None })).collect();
    if let Some(first) = dirs.first() {
        let longest = first.ancestors().find(|a| !a.as_os_str().is_empty() && dirs.iter().all(|d| d.starts_with(a))).map(|a| a.to_path_buf());
        if longest != common { return format!("COMMON is {:?} but the longest common directory of the batch is {:?}", common, longest); }
    }
    for (var, val) in env.iter().filter(|(k, _)| **k != "COMMON") {
        let entries: Vec<&[u8]> = val.as_bytes().split(|b| *b == b':').collect();
        for w in entries.windows(2) { if w[0] >= w[1] { return format!("{var}: entries not strictly increasing in byte order"); } }
        let Some(want) = wanted.get(var) else { return format!("{var} is set but no event has a kind of that variable") };
        // COMMON set: the property's join identity; not set: the entry is the path itself
        for e in &entries { if !want.iter().any(|p| join(e) == *p || (common.is_some() && e.is_empty() && Some(p) == common.as_ref())) { return format!("{var}: entry {:?} does not come from any event of that kind", String::from_utf8_lossy(e)); } }
    }
    for (var, want) in &wanted {
        let Some(val) = env.get(var) else { return format!("{var} missing although an event has that kind") };
        let entries: Vec<&[u8]> = val.as_bytes().split(|b| *b == b':').collect();
        for p in want { if !entries.iter().any(|e| join(e) == *p || (e.is_empty() && Some(p) == common.as_ref())) { return format!("{var}: path {} not listed (or does not join back)", p.display()); } }
    }
    String::new()
}

/// "The line-based stdin/file format lists each (kind, path) pair of the batch once per event, in event order": one line per pair
/// (one `other:` line per path of an event without a kind), each line `<word>:<path>` and terminated
fn simple_oracle(events: &[Event], simple: &str) -> String {
    let mut want: Vec<(String, bool)> = vec![];      // (path, the event has no filesystem kind)
    for e in events {
        let nk = e.tags.iter().filter(|t| matches!(t, Tag::FileEventKind(_))).count();
        for t in &e.tags { if let Tag::Path { path, .. } = t { for _ in 0..nk.max(1) { want.push((path.to_string_lossy().to_string(), nk == 0)); } } }
    }
    if !simple.is_empty() && !simple.ends_with('\n') { return format!("line format: the last line is not terminated: {:?}", simple.lines().last().unwrap_or("")); }
    let lines: Vec<&str> = simple.lines().collect();
    if lines.len() != want.len() { return format!("line format: {} (kind, path) pairs in the batch but {} lines", want.len(), lines.len()); }
    for (l, (p, kindless)) in lines.iter().zip(want.iter()) {
        match l.split_once(':') {
            Some((w, q)) if !w.is_empty() && w.chars().all(|c| c.is_ascii_lowercase()) && q == p && (!*kindless || w == "other") => {}
            _ => return format!("line format: line {l:?} does not list the pair due at its position (path {p:?}{})", if *kindless { ", an event without a kind: `other`" } else { "" }),
        }
    }
    String::new()
}

fn main() {
    let seed: u64 = std::env::args().nth(1).and_then(|s| s.parse().ok()).unwrap_or(1);
    let n: usize = std::env::args().nth(2).and_then(|s| s.parse().ok()).unwrap_or(1000);
    let mut r = Rng(seed.wrapping_mul(0x9E3779B97F4A7C15) | 1);
    let kinds = [FileEventKind::Create(CreateKind::File), FileEventKind::Modify(ModifyKind::Data(DataChange::Content)), FileEventKind::Modify(ModifyKind::Metadata(MetadataKind::Any)),
        FileEventKind::Modify(ModifyKind::Name(RenameMode::Both)), FileEventKind::Remove(RemoveKind::Folder), FileEventKind::Access(AccessKind::Close(AccessMode::Write)),
        FileEventKind::Access(AccessKind::Open(AccessMode::Read)), FileEventKind::Any, FileEventKind::Other, FileEventKind::Modify(ModifyKind::Other)];
    // siblings whose name is another name plus a byte below `/` (`.`, `-`, space, `+`): component-wise order and byte order differ there
    let names = ["a", "a.d", "a-1", "ab", "a b", "a+", "b", "c.txt", "d e", "x", "src", "src.bak", "é", "z.rs"];
    let mut cases = std::fs::File::create(out("cases.txt")).unwrap();
    let mut outs = std::fs::File::create(out("impl.txt")).unwrap();
    for _ in 0..n {
        let ne = r.below(5);
        let base: Vec<&str> = (0..r.below(3)).map(|_| names[r.below(names.len() as u64) as usize]).collect();
        let tail: Vec<&str> = if r.below(3) == 0 { (0..1 + r.below(2)).map(|_| names[r.below(names.len() as u64) as usize]).collect() } else { vec![] };
        let mut events = vec![]; let mut enc = vec![];
        for _ in 0..ne {
            let np = if r.below(6) == 0 { 0 } else { r.below(3) + 1 };
            let nk = if r.below(6) == 0 { 0 } else { r.below(2) + 1 };
            let mut tags = vec![]; let mut ps = vec![]; let mut ks = vec![];
            for _ in 0..np {
                let mut p = if r.below(8) == 0 { PathBuf::new() } else { PathBuf::from("/") };
                if r.below(5) != 0 { for b in &base { p.push(b); } }
                // a third of the cases: paths that diverge at one component and then continue with the SAME components (crates/lib/src vs
                // crates/cli/src) — equal components after the first difference are not common
                if !tail.is_empty() && r.below(2) == 0 { p.push(names[r.below(names.len() as u64) as usize]); for t in &tail { p.push(t); } if r.below(2) == 0 { p.push(names[r.below(names.len() as u64) as usize]); } }
                else { for _ in 0..r.below(3) { p.push(names[r.below(names.len() as u64) as usize]); } }
                if p.as_os_str().is_empty() { p.push("rel"); }
                let (ft, fts) = match r.below(4) { 0 => (Some(FileType::Dir), "d"), 1 => (Some(FileType::File), "f"), 2 => (None, "-"), _ => (Some(FileType::Symlink), "s") };
                ps.push(format!("{}^{}", p.display(), fts));
                tags.push(Tag::Path { path: p, file_type: ft });
            }
            for _ in 0..nk { let k = kinds[r.below(kinds.len() as u64) as usize]; ks.push(format!("{k:?}")); tags.push(Tag::FileEventKind(k)); }
            enc.push(format!("{}\x1e{}", ps.join("\x1f"), ks.join("\x1f")));
            events.push(Event { tags, metadata: Default::default() });
        }
        let env: HashMap<&str, std::ffi::OsString> = watchexec::paths::summarise_events_to_env(events.iter());
        let common = env.get("COMMON").map(|c| c.to_string_lossy().to_string()).unwrap_or("-".into());
        let mut vars: Vec<String> = env.iter().filter(|(k, _)| **k != "COMMON").map(|(k, v)| format!("{k}={}", v.to_string_lossy())).collect();
        vars.sort();
        let simple = verif::events_to_simple_format(&events).unwrap();
        let mut oracle = oracle(&events, &env);
        if oracle.is_empty() { oracle = simple_oracle(&events, &simple); }
        writeln!(cases, "SUM\t{}", enc.join("\x1d")).unwrap();
        writeln!(outs, "COMMON={}|{}||{}{}", common, vars.join("|"), simple.lines().collect::<Vec<_>>().join(";"), if oracle.is_empty() { String::new() } else { format!("\t!{oracle}") }).unwrap();
    }
}
