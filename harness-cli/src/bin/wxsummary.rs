use wxharness_cli::out;
use std::{collections::HashMap, io::Write, path::PathBuf};
use watchexec_cli::verif;
use watchexec_events::{filekind::*, Event, FileType, Tag};

struct Rng(u64);
impl Rng { fn next(&mut self) -> u64 { self.0 ^= self.0 << 13; self.0 ^= self.0 >> 7; self.0 ^= self.0 << 17; self.0 }
  fn below(&mut self, n: u64) -> u64 { self.next() % n } }

fn main() {
    let seed: u64 = std::env::args().nth(1).and_then(|s| s.parse().ok()).unwrap_or(1);
    let n: usize = std::env::args().nth(2).and_then(|s| s.parse().ok()).unwrap_or(1000);
    let mut r = Rng(seed.wrapping_mul(0x9E3779B97F4A7C15) | 1);
    let kinds = [FileEventKind::Create(CreateKind::File), FileEventKind::Modify(ModifyKind::Data(DataChange::Content)), FileEventKind::Modify(ModifyKind::Metadata(MetadataKind::Any)),
        FileEventKind::Modify(ModifyKind::Name(RenameMode::Both)), FileEventKind::Remove(RemoveKind::Folder), FileEventKind::Access(AccessKind::Close(AccessMode::Write)),
        FileEventKind::Access(AccessKind::Open(AccessMode::Read)), FileEventKind::Any, FileEventKind::Other, FileEventKind::Modify(ModifyKind::Other)];
    let names = ["a", "ab", "b", "c.txt", "d e", "x", "src", "é", "z.rs"];
    let mut cases = std::fs::File::create(out("cases.txt")).unwrap();
    let mut outs = std::fs::File::create(out("impl.txt")).unwrap();
    for _ in 0..n {
        let ne = r.below(5);
        let base: Vec<&str> = (0..r.below(3)).map(|_| names[r.below(names.len() as u64) as usize]).collect();
        let mut events = vec![]; let mut enc = vec![];
        for _ in 0..ne {
            let np = if r.below(6) == 0 { 0 } else { r.below(3) + 1 };
            let nk = if r.below(6) == 0 { 0 } else { r.below(2) + 1 };
            let mut tags = vec![]; let mut ps = vec![]; let mut ks = vec![];
            for _ in 0..np {
                let mut p = if r.below(8) == 0 { PathBuf::new() } else { PathBuf::from("/") };
                if r.below(5) != 0 { for b in &base { p.push(b); } }
                for _ in 0..r.below(3) { p.push(names[r.below(names.len() as u64) as usize]); }
                if p.as_os_str().is_empty() { p.push("rel"); }
                let (ft, fts) = match r.below(4) { 0 => (Some(FileType::Dir), "d"), 1 => (Some(FileType::File), "f"), 2 => (None, "-"), _ => (Some(FileType::Symlink), "s") };
                ps.push(format!("{}^{}", p.display(), fts));
                tags.push(Tag::Path { path: p, file_type: ft });
            }
            for _ in 0..nk { let k = kinds[r.below(kinds.len() as u64) as usize]; ks.push(format!("{k:?}")); tags.push(Tag::FileEventKind(k)); }
            enc.push(format!("{}\x1e{}", ps.join("\x1f"), ks.join("\x1f")));
            events.push(Event { tags, metadata: Default::default() });
        }
        let env: HashMap<&str, std::ffi::OsString> = watchexec::paths::summarise_events_to_env(events.iter());
        let common = env.get("COMMON").map(|c| c.to_string_lossy().to_string()).unwrap_or("-".into());
        let mut vars: Vec<String> = env.iter().filter(|(k, _)| **k != "COMMON").map(|(k, v)| format!("{k}={}", v.to_string_lossy())).collect();
        vars.sort();
        let simple = verif::events_to_simple_format(&events).unwrap();
        writeln!(cases, "SUM\t{}", enc.join("\x1d")).unwrap();
        writeln!(outs, "COMMON={}|{}||{}", common, vars.join("|"), simple.lines().collect::<Vec<_>>().join(";")).unwrap();
    }
}
