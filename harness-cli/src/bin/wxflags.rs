use std::{ffi::OsString, path::PathBuf};
use watchexec::filter::Filterer;
use watchexec_cli::verif;
use watchexec_events::{filekind::*, Event, FileType, Priority, Source, Tag};

fn probe(p: PathBuf) -> Event { Event { tags: vec![Tag::Source(Source::Filesystem), Tag::FileEventKind(FileEventKind::Modify(ModifyKind::Data(DataChange::Content))), Tag::Path { path: p, file_type: Some(FileType::File) }], metadata: Default::default() } }

#[tokio::main(flavor = "multi_thread", worker_threads = 2)]
async fn main() {
    let fx = std::env::temp_dir().join(format!("fx-{}", std::process::id()));
    let _ = std::fs::remove_dir_all(&fx);
    std::fs::create_dir_all(fx.join("proj/.git")).unwrap(); std::fs::create_dir_all(fx.join("home/.config/watchexec")).unwrap();
    let fx = std::fs::canonicalize(&fx).unwrap(); let proj = fx.join("proj");
    std::fs::write(fx.join("home/.gitignore"), "*.gg\n").unwrap();
    std::fs::write(fx.join("home/.config/watchexec/ignore"), "*.ga\n").unwrap();
    std::fs::write(proj.join(".gitignore"), "*.pv\n").unwrap();
    std::fs::write(proj.join(".ignore"), "*.pg\n").unwrap();
    std::fs::write(fx.join("ig.txt"), "*.ex\n").unwrap();
    std::env::set_var("HOME", fx.join("home")); std::env::set_var("XDG_CONFIG_HOME", fx.join("home/.config"));
    std::env::remove_var("GIT_CONFIG_GLOBAL"); std::env::set_current_dir(&proj).unwrap();
    let flags = ["--no-vcs-ignore", "--no-project-ignore", "--no-global-ignore", "--no-default-ignore", "--no-discover-ignore", "--ignore-nothing"];
    let probes = ["gg", "ga", "pv", "pg", "ex", "pyc", "ip", "ok"];
    // which flag removes which source (the spec): index into `flags`
    let removed_by = |src: &str, on: &[bool]| -> bool { let (v, p, g, d, disc, all) = (on[0], on[1], on[2], on[3], on[4], on[5]); match src {
        "gg" => g || v || disc || all, "ga" => g || disc || all, "pv" => p || v || disc || all, "pg" => p || disc || all, "pyc" => d || all, _ => false } };
    let mut bad = 0;
    for mask in 0..64u32 {
        let on: Vec<bool> = (0..6).map(|i| mask & (1 << i) != 0).collect();
        let mut argv: Vec<OsString> = vec!["watchexec".into(), "--project-origin".into(), proj.clone().into(), "-w".into(), proj.clone().into(), "--ignore-file".into(), fx.join("ig.txt").into(), "--ignore".into(), "*.ip".into()];
        for (i, f) in flags.iter().enumerate() { if on[i] { argv.push((*f).into()); } }
        argv.push("--".into()); argv.push("true".into());
        let args = verif::args_from(argv).await.unwrap();
        let filt = verif::WatchexecFilterer::new(&args).await.unwrap();
        let mut row = vec![]; let mut wrong = vec![];
        for s in probes {
            let pass = filt.check_event(&probe(proj.join(format!("a.{s}"))), Priority::Normal).unwrap();
            let want_pass = s == "ok" || removed_by(s, &on);
            row.push(format!("{s}:{}", if pass { "pass" } else { "ign" }));
            if pass != want_pass { wrong.push(s); }
        }
        if !wrong.is_empty() { bad += 1; println!("mask {:06b} [{}] -> {}   WRONG: {:?}", mask, flags.iter().enumerate().filter(|(i, _)| on[*i]).map(|(_, f)| &f[5..]).collect::<Vec<_>>().join(" "), row.join(" "), wrong); }
    }
    println!("combinations with a probe differing from the spec: {bad} of 64");
    std::fs::remove_dir_all(&fx).ok();
}
