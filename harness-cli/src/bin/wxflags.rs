//! C12: the real CLI filterer (hook H1: args_from + WatchexecFilterer::new) under all 64 mixes of the six
//! ignore-discovery flags, for each explicit filtering option, in a fixture project with one probe per source.
//! Output: one case line `FLAGS\t<mask>` and one observation line per mask.
use std::{ffi::OsString, io::Write, path::PathBuf};
use watchexec::filter::Filterer;
use watchexec_cli::verif;
use watchexec_events::{filekind::*, Event, FileType, Priority, Source, Tag};
use wxharness_cli::out;

fn probe(p: PathBuf, kind: FileEventKind) -> Event { Event { tags: vec![Tag::Source(Source::Filesystem), Tag::FileEventKind(kind), Tag::Path { path: p, file_type: Some(FileType::File) }], metadata: Default::default() } }

#[tokio::main(flavor = "multi_thread", worker_threads = 2)]
async fn main() {
    let fx = std::env::temp_dir().join(format!("wxfx-{}", std::process::id()));
    let _ = std::fs::remove_dir_all(&fx);
    std::fs::create_dir_all(fx.join("proj/.git")).unwrap(); std::fs::create_dir_all(fx.join("projb/.git")).unwrap(); std::fs::create_dir_all(fx.join("home/.config/watchexec")).unwrap();
    let fx = std::fs::canonicalize(&fx).unwrap();
    // second project: its git config names an excludes file (a discovered, origin-level, VCS-specific source)
    std::fs::write(fx.join("gc.txt"), "*.gc\n").unwrap();
    std::fs::write(fx.join("projb/.git/config"), format!("[core]\n\texcludesFile = {}\n", fx.join("gc.txt").display())).unwrap();
    // fourth project: NO VCS marker at the origin, but it ships a .gitignore (a source tarball): the file is still a VCS ignore file
    std::fs::create_dir_all(fx.join("projc/src")).unwrap();
    for p in ["proj", "projb", "projc"] { std::fs::write(fx.join(p).join(".gitignore"), "*.pv\n").unwrap(); std::fs::write(fx.join(p).join(".ignore"), "*.pg\n").unwrap(); }
    std::fs::write(fx.join("home/.gitignore"), "*.gg\n").unwrap();                  // global VCS ignore
    std::fs::write(fx.join("home/.config/watchexec/ignore"), "*.ga\n").unwrap();    // global application ignore
    // explicit --ignore-file: one plain pattern, and one NEGATED pattern that re-includes a path a global source ignores (the explicit
    // file comes last among the global-level sources, so its negation wins — whatever the flags)
    std::fs::write(fx.join("ig.txt"), "*.ex\n!keep.gg\n").unwrap();
    std::fs::write(fx.join("ff.txt"), "*.ff\n").unwrap();                           // explicit --filter-file
    std::env::set_var("HOME", fx.join("home")); std::env::set_var("XDG_CONFIG_HOME", fx.join("home/.config"));
    std::env::remove_var("GIT_CONFIG_GLOBAL"); std::env::remove_var("WATCHEXEC_IGNORE_FILES"); std::env::remove_var("WATCHEXEC_FILTER_FILES");
    let flags = ["--no-vcs-ignore", "--no-project-ignore", "--no-global-ignore", "--no-default-ignore", "--no-discover-ignore", "--ignore-nothing"];
    let modify = FileEventKind::Modify(ModifyKind::Data(DataChange::Content));
    let create = FileEventKind::Create(CreateKind::File);
    // (explicit options, probes: (label, file name, event kind))
    let variants: Vec<(Vec<OsString>, Vec<(&str, &str, FileEventKind)>)> = vec![
        // (`--ignore '!keep.pyc'`: a negated explicit pattern re-includes a path one of the BUILT-IN defaults ignores — the explicit patterns come last)
        (vec!["--ignore-file".into(), fx.join("ig.txt").into(), "--ignore".into(), "*.ip".into(), "--ignore".into(), "!keep.pyc".into()],
         vec![("gg", "a.gg", modify), ("ga", "a.ga", modify), ("pv", "a.pv", modify), ("pg", "a.pg", modify), ("gc", "a.gc", modify), ("ex", "a.ex", modify), ("pyc", "a.pyc", modify), ("ip", "a.ip", modify), ("ok", "a.ok", modify), ("keep", "keep.gg", modify), ("kpyc", "keep.pyc", modify)]),
        (vec!["--filter".into(), "*.fl".into(), "--ignore-file".into(), fx.join("ig.txt").into()], vec![("fl", "a.fl", modify), ("ok", "a.ok", modify), ("ex", "a.ex", modify)]),
        (vec!["--filter-file".into(), fx.join("ff.txt").into()], vec![("ff", "a.ff", modify), ("ok", "a.ok", modify)]),
        (vec!["--exts".into(), "rs,toml".into(), "--ignore".into(), "b.*".into()], vec![("rs", "a.rs", modify), ("toml", "a.toml", modify), ("brs", "b.rs", modify), ("ok", "a.ok", modify)]),
        (vec!["--fs-events".into(), "create".into()], vec![("create", "a.ok", create), ("modify", "a.ok", modify)]),
        // every explicit option ALONE (nothing else that would keep a pattern list non-empty)
        (vec!["--exts".into(), "rs,toml".into()], vec![("rs", "a.rs", modify), ("toml", "a.toml", modify), ("ok", "a.ok", modify)]),
        (vec!["--filter".into(), "*.fl".into()], vec![("fl", "a.fl", modify), ("ok", "a.ok", modify)]),
        (vec!["--ignore".into(), "*.ip".into(), "--ignore".into(), "!keep.pyc".into()], vec![("ip", "a.ip", modify), ("ok", "a.ok", modify), ("kpyc", "keep.pyc", modify)]),
        (vec!["--ignore-file".into(), fx.join("ig.txt").into()], vec![("ex", "a.ex", modify), ("ok", "a.ok", modify), ("keep", "keep.gg", modify)]),
    ];
    let mut cases = std::fs::File::create(out("cases.txt")).unwrap();
    let mut outs = std::fs::File::create(out("impl.txt")).unwrap();
    // third fixture: the same project as the first, but watchexec is started from a SUBDIRECTORY of the project origin (the probes lie
    // outside the working directory)
    std::fs::create_dir_all(fx.join("proj").join("app")).unwrap();
    // fifth fixture: the user's home directory lies INSIDE the project origin (a dotfiles-style repository, watchexec started from ~): the
    // global ignore files are stored under the origin, yet they are global sources — `--no-project-ignore` does not name them
    std::fs::create_dir_all(fx.join("projd/.git")).unwrap(); std::fs::create_dir_all(fx.join("projd/me/.config/watchexec")).unwrap();
    std::fs::write(fx.join("projd/.gitignore"), "*.pv\n").unwrap(); std::fs::write(fx.join("projd/.ignore"), "*.pg\n").unwrap();
    std::fs::write(fx.join("projd/me/.gitignore"), "*.gg\n").unwrap(); std::fs::write(fx.join("projd/me/.config/watchexec/ignore"), "*.ga\n").unwrap();
    for (gc, pname, sub) in [(0, "proj", ""), (1, "projb", ""), (2, "proj", "app"), (3, "projc", ""), (4, "projd", "")] { let proj = fx.join(pname); std::env::set_current_dir(if sub.is_empty() { proj.clone() } else { proj.join(sub) }).unwrap();
    if gc == 4 { std::env::set_var("HOME", proj.join("me")); std::env::set_var("XDG_CONFIG_HOME", proj.join("me/.config")); }
    for mask in 0..64u32 {
        let on: Vec<bool> = (0..6).map(|i| mask & (1 << i) != 0).collect();
        let mut rows = vec![];
        for (opts, probes) in &variants {
            let mut argv: Vec<OsString> = vec!["watchexec".into(), "--project-origin".into(), proj.clone().into(), "-w".into(), proj.clone().into()];
            argv.extend(opts.iter().cloned());
            for (i, f) in flags.iter().enumerate() { if on[i] { argv.push((*f).into()); } }
            argv.push("--".into()); argv.push("true".into());
            let row = match verif::args_from(argv).await { Err(e) => format!("args-error:{e}"), Ok(args) => match verif::WatchexecFilterer::new(&args).await { Err(e) => format!("filterer-error:{e}"), Ok(filt) =>
                probes.iter().map(|(label, file, kind)| format!("{label}:{}", match filt.check_event(&probe(proj.join(file), *kind), Priority::Normal) { Ok(true) => "pass", Ok(false) => "ign", Err(_) => "err" })).collect::<Vec<_>>().join(" ") } };
            rows.push(row);
        }
        writeln!(cases, "FLAGS\t{gc}\t{mask}").unwrap();
        writeln!(outs, "{}", rows.join("|")).unwrap();
    } }
    std::fs::remove_dir_all(&fx).ok();
}
