//! TimeSpan options of the CLI through the real argument parser (hook H1: args_from) and make_config.
//! case: `<id> <option> <value>` with option in --debounce | --poll | --stop-timeout | --delay-run; answer `<id> <ns>[ throttle=<ns>]`
//! (only values the model accepts are sent: clap exits the process on a value it rejects)
use std::{ffi::OsString, io::{BufRead, Write}};
use watchexec_cli::verif;

fn main() {
    let rt = tokio::runtime::Builder::new_current_thread().enable_all().build().unwrap();
    let stdin = std::io::stdin(); let mut o = std::io::stdout().lock();
    for line in stdin.lock().lines() {
        let line = line.unwrap(); let f: Vec<&str> = line.splitn(3, ' ').collect();
        let argv: Vec<OsString> = vec!["watchexec".into(), "-w".into(), "/dev/null".into(), "-q".into(), "-n".into(), "--postpone".into(), format!("{}={}", f[1], f[2]).into(), "--".into(), "true".into()];
        let r = rt.block_on(async {
            let args = match verif::args_from(argv).await { Ok(a) => a, Err(e) => return format!("args-error {e}") };
            let ns = match f[1] {
                "--debounce" => Some(args.events.debounce.0), "--poll" => args.events.poll.map(|t| t.0),
                "--stop-timeout" => Some(args.command.stop_timeout.0), "--delay-run" => args.command.delay_run.map(|t| t.0), _ => None };
            let mut s = ns.map(|d| d.as_nanos().to_string()).unwrap_or("-".into());
            if f[1] == "--debounce" {
                let state = verif::new_state(&args).await.unwrap();
                let config = verif::make_config(&args, &state).unwrap();
                s += &format!(" throttle={}", config.throttle.get().as_nanos());
            }
            s
        });
        writeln!(o, "{} {}", f[0], r).unwrap(); o.flush().unwrap();
    }
}
