//! C05 spike: the CLI's real action handler (hook H1), simulated child (via H1's extra spawn hook), virtual time.
use std::{ffi::OsString, future::Future, io::{BufRead, Result, Write}, os::unix::process::ExitStatusExt, process::ExitStatus, sync::{Arc, Mutex}, time::Duration};
use process_wrap::tokio::{TokioChildWrapper, TokioCommandWrap, TokioCommandWrapper};
use tokio::{process::{Child, Command as TokioCommand}, sync::Notify, time::Instant};
use watchexec::Watchexec;
use watchexec_cli::verif;
use watchexec_events::{filekind::*, Event, FileType, Keyboard, Priority, Source, Tag};

#[derive(Debug, Clone, Copy, PartialEq)]
enum Beh { ExitsAfter(u64), ExitsAfterSignal(u64), Ignores, SpawnFails }

#[derive(Debug)]
struct Shared { t0: Instant, log: Mutex<Vec<(u128, String)>>, n: Mutex<usize>, behs: Vec<Beh> }
impl Shared {
    fn log(&self, s: String) { let t = self.t0.elapsed().as_millis(); self.log.lock().unwrap().push((t, s)); }
    fn beh_at(&self, i: usize) -> Beh { *self.behs.get(i).or(self.behs.last()).unwrap_or(&Beh::Ignores) }
}

#[derive(Debug)]
struct SimWrapper(Arc<Shared>);
impl TokioCommandWrapper for SimWrapper {
    fn pre_spawn(&mut self, _c: &mut TokioCommand, _core: &TokioCommandWrap) -> Result<()> {
        let mut n = self.0.n.lock().unwrap();
        if self.0.beh_at(*n) == Beh::SpawnFails { *n += 1; self.0.log("spawnfail".into()); return Err(std::io::Error::other("injected spawn failure")); }
        Ok(())
    }
    fn wrap_child(&mut self, inner: Box<dyn TokioChildWrapper>, _core: &TokioCommandWrap) -> Result<Box<dyn TokioChildWrapper>> {
        let mut n = self.0.n.lock().unwrap();
        let id = *n; *n += 1;
        let beh = self.0.beh_at(id);
        self.0.log(format!("spawn:c{id}"));
        let exit_at = match beh { Beh::ExitsAfter(ms) => Some(Instant::now() + Duration::from_millis(ms)), _ => None };
        Ok(Box::new(SimChild { inner, id, beh, sh: self.0.clone(), exit_at: Mutex::new(exit_at), status: Mutex::new(0), wake: Arc::new(Notify::new()), reaped: false }))
    }
}

#[derive(Debug)]
struct SimChild { inner: Box<dyn TokioChildWrapper>, id: usize, beh: Beh, sh: Arc<Shared>, exit_at: Mutex<Option<Instant>>, status: Mutex<i32>, wake: Arc<Notify>, reaped: bool }
impl TokioChildWrapper for SimChild {
    fn inner(&self) -> &Child { self.inner.inner() }
    fn inner_mut(&mut self) -> &mut Child { self.inner.inner_mut() }
    fn into_inner(self: Box<Self>) -> Child { unimplemented!() }
    fn id(&self) -> Option<u32> { Some(100_000 + self.id as u32) }
    fn start_kill(&mut self) -> Result<()> {
        self.sh.log(format!("kill:c{}", self.id));
        *self.exit_at.lock().unwrap() = Some(Instant::now()); *self.status.lock().unwrap() = 9; self.wake.notify_waiters(); Ok(())
    }
    fn signal(&self, sig: i32) -> Result<()> {
        self.sh.log(format!("signal:c{}:{sig}", self.id));
        if let Beh::ExitsAfterSignal(ms) = self.beh {
            let mut e = self.exit_at.lock().unwrap();
            if e.is_none() { *e = Some(Instant::now() + Duration::from_millis(ms)); *self.status.lock().unwrap() = sig; }
        }
        self.wake.notify_waiters();
        Ok(())
    }
    // non-blocking: a status only if the simulated process has exited by now (the unchanged code never calls this)
    fn try_wait(&mut self) -> Result<Option<ExitStatus>> {
        let at = *self.exit_at.lock().unwrap();
        match at {
            Some(t) if t <= Instant::now() => { let st = *self.status.lock().unwrap(); if !self.reaped { self.reaped = true; self.sh.log(format!("reaped:c{}:{st}", self.id)); } Ok(Some(ExitStatus::from_raw(st))) }
            _ => Ok(None),
        }
    }
    fn wait(&mut self) -> Box<dyn Future<Output = Result<ExitStatus>> + Send + '_> {
        Box::new(async move {
            loop {
                let notified = self.wake.notified();
                tokio::pin!(notified);
                notified.as_mut().enable();
                let at = *self.exit_at.lock().unwrap();
                match at {
                    Some(t) => { tokio::select! { _ = tokio::time::sleep_until(t) => { if *self.exit_at.lock().unwrap() == Some(t) { break; } } _ = &mut notified => {} } }
                    None => notified.await,
                }
            }
            let st = *self.status.lock().unwrap();
            if !self.reaped { self.reaped = true; self.sh.log(format!("reaped:c{}:{st}", self.id)); }
            Ok(ExitStatus::from_raw(st))
        })
    }
}


async fn settle() { for _ in 0..80 { tokio::task::yield_now().await; } }

fn change(n: usize) -> Event {
    Event { tags: vec![Tag::Source(Source::Filesystem), Tag::FileEventKind(FileEventKind::Modify(ModifyKind::Data(DataChange::Content))),
        Tag::Path { path: format!("/x/f{n}").into(), file_type: Some(FileType::File) }], metadata: Default::default() }
}

// case: <id> <cli flags joined by ,> <behs> <ops ; separated: init | chg | a:<ms> | y>
async fn run_case(flags: Vec<String>, behs: Vec<Beh>, ops: Vec<String>) -> String {
    let sh = Arc::new(Shared { t0: Instant::now(), log: Default::default(), n: Mutex::new(0), behs });
    *verif::EXTRA_SPAWN_HOOK.lock().unwrap() = Some(Box::new({ let sh = sh.clone(); move |any| {
        let c = any.downcast_mut::<TokioCommandWrap>().expect("TokioCommandWrap");
        sh.log("hook".into()); c.wrap(SimWrapper(sh.clone())); } }));
    let mut argv: Vec<OsString> = vec!["watchexec".into(), "-w".into(), "/dev/null".into(), "--debounce".into(), "0".into(), "-q".into(), "-n".into(), "--postpone".into()];
    for f in flags { if !f.is_empty() { argv.push(f.into()); } }
    argv.push("--".into()); argv.push("true".into());
    let args = match verif::args_from(argv).await { Ok(a) => a, Err(e) => return format!("args-error {e}") };
    let state = verif::new_state(&args).await.unwrap();
    let config = verif::make_config(&args, &state).unwrap();
    let wx = Watchexec::with_config(config).unwrap();
    let main = wx.main();
    // the main task ends by itself after a quit: record when
    let main_done = Arc::new(std::sync::atomic::AtomicBool::new(false));
    let main = tokio::spawn({ let sh = sh.clone(); let main_done = main_done.clone(); async move {
        let r = main.await; main_done.store(true, std::sync::atomic::Ordering::SeqCst);
        sh.log(match r { Ok(Ok(())) => "mainend".to_string(), Ok(Err(e)) => format!("mainerr:{e:?}").replace(' ', "_").replace('|', "/"), Err(_) => "mainpanic".to_string() }); } });
    settle().await;
    let mut nchg = 0;
    for op in &ops {
        let f: Vec<&str> = op.split(':').collect();
        match f[0] {
            "init" => { if main_done.load(std::sync::atomic::Ordering::SeqCst) { continue; } wx.send_event(Event::default(), Priority::Urgent).await.unwrap(); }
            "sig" => { if main_done.load(std::sync::atomic::Ordering::SeqCst) { continue; }
                let n: i32 = f[1].parse().unwrap();
                let _ = wx.send_event(Event { tags: vec![Tag::Source(Source::Os), Tag::Signal(watchexec_signals::Signal::from(n))], metadata: Default::default() }, Priority::Urgent).await; }
            // a change and a (non-urgent-only) signal delivered in ONE action: the change opens a long debounce window, the urgent signal flushes it
            "mix" => { if main_done.load(std::sync::atomic::Ordering::SeqCst) { continue; }
                let n: i32 = f[1].parse().unwrap();
                nchg += 1; sh.log(format!("chg{nchg}"));
                wx.config.throttle(Duration::from_secs(3600));
                settle().await;
                wx.send_event(change(nchg), Priority::Normal).await.unwrap();
                settle().await;
                let _ = wx.send_event(Event { tags: vec![Tag::Source(Source::Os), Tag::Signal(watchexec_signals::Signal::from(n))], metadata: Default::default() }, Priority::Urgent).await;
                settle().await;
                wx.config.throttle(Duration::ZERO); }
            // what sources/keyboard.rs sends at end of input on stdin
            "eof" => { if main_done.load(std::sync::atomic::Ordering::SeqCst) { continue; }
                let _ = wx.send_event(Event { tags: vec![Tag::Source(Source::Keyboard), Tag::Keyboard(Keyboard::Eof)], metadata: Default::default() }, Priority::Normal).await; }
            "chg" => { if main_done.load(std::sync::atomic::Ordering::SeqCst) { continue; } nchg += 1; sh.log(format!("chg{nchg}")); wx.send_event(change(nchg), Priority::Normal).await.unwrap(); }
            "a" => { settle().await; tokio::time::sleep(Duration::from_millis(f[1].parse().unwrap())).await; settle().await; }
            "y" => settle().await,
            _ => return "bad-op".into(),
        }
    }
    settle().await;
    main.abort();
    *verif::EXTRA_SPAWN_HOOK.lock().unwrap() = None;
    let log = sh.log.lock().unwrap().clone();
    log.iter().map(|(t, s)| format!("{t}:{s}")).collect::<Vec<_>>().join("|")
}

fn main() {
    let stdin = std::io::stdin(); let mut o = std::io::stdout().lock();
    for line in stdin.lock().lines() {
        let line = line.unwrap(); let f: Vec<&str> = line.split(' ').collect();
        let behs: Vec<Beh> = f[2].split(',').map(|b| match b.as_bytes()[0] { b'E' => Beh::ExitsAfter(b[1..].parse().unwrap()), b'S' => Beh::ExitsAfterSignal(b[1..].parse().unwrap()), b'F' => Beh::SpawnFails, _ => Beh::Ignores }).collect();
        let rt = tokio::runtime::Builder::new_current_thread().enable_all().start_paused(true).build().unwrap();
        let r = rt.block_on(run_case(f[1].split(',').map(|s| s.to_string()).collect(), behs, f[3].split(';').map(|s| s.to_string()).collect()));
        rt.shutdown_background();
        writeln!(o, "{} {}", f[0], r).unwrap();
    }
}
