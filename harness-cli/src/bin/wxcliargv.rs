//! C18, CLI half: what `interpret_command_args` (through the real argument parser and make_config) hands to the
//! supervisor, captured in hook H1's extra spawn hook right before the spawn: program, arguments, wrappers.
//! usage: wxcliargv <seed> <n>  → $WX_OUT/cases.txt (`CLI\t<noshell>\t<--shell hex|->\t<$SHELL hex|->\t<wrap g|s|n|->\t<words hex …>`), impl.txt
use std::{ffi::OsString, io::Write, sync::{Arc, Mutex}};
use process_wrap::tokio::{KillOnDrop, ProcessGroup, ProcessSession, TokioCommandWrap, TokioCommandWrapper};
use watchexec::Watchexec;
use watchexec_cli::verif;
use watchexec_events::{Event, Priority};
use wxharness_cli::{hex, out, Rng};

#[derive(Debug)]
struct FailSpawn;
impl TokioCommandWrapper for FailSpawn {
    fn pre_spawn(&mut self, _c: &mut tokio::process::Command, _core: &TokioCommandWrap) -> std::io::Result<()> { Err(std::io::Error::other("not spawning in the harness")) }
}

async fn settle() { for _ in 0..80 { tokio::task::yield_now().await; } }

async fn run_case(flags: Vec<OsString>, words: Vec<String>) -> String {
    let seen: Arc<Mutex<Option<String>>> = Default::default();
    *verif::EXTRA_SPAWN_HOOK.lock().unwrap() = Some(Box::new({ let seen = seen.clone(); move |any| {
        use std::os::unix::ffi::OsStrExt;
        let c = any.downcast_mut::<TokioCommandWrap>().expect("TokioCommandWrap");
        let std = c.command().as_std();
        let mut argv = vec![hex(std.get_program().as_bytes())];
        argv.extend(std.get_args().map(|a| hex(a.as_bytes())));
        let mut w = vec![];
        if c.has_wrap::<KillOnDrop>() { w.push("K") }
        if c.has_wrap::<ProcessSession>() { w.push("S") }
        if c.has_wrap::<ProcessGroup>() { w.push("G") }
        *seen.lock().unwrap() = Some(format!("argv={} wraps={}", argv.join(" "), w.join(",")));
        c.wrap(FailSpawn);
    } }));
    let mut argv: Vec<OsString> = vec!["watchexec".into(), "-w".into(), "/dev/null".into(), "--debounce".into(), "0".into(), "-q".into(), "--postpone".into()];
    argv.extend(flags);
    argv.push("--".into());
    argv.extend(words.iter().map(OsString::from));
    let args = match verif::args_from(argv).await { Ok(a) => a, Err(e) => return format!("args-error:{}", format!("{e}").lines().next().unwrap_or("")) };
    let state = match verif::new_state(&args).await { Ok(s) => s, Err(e) => return format!("state-error:{e}") };
    let config = match verif::make_config(&args, &state) { Ok(c) => c, Err(e) => return format!("config-error:{}", format!("{e}").lines().next().unwrap_or("")) };
    let wx = Watchexec::with_config(config).unwrap();
    let main = wx.main();
    settle().await;
    wx.send_event(Event::default(), Priority::Urgent).await.unwrap();
    settle().await;
    main.abort();
    *verif::EXTRA_SPAWN_HOOK.lock().unwrap() = None;
    let r = seen.lock().unwrap().clone();
    r.unwrap_or_else(|| "no-spawn".into())
}

fn main() {
    let seed: u64 = std::env::args().nth(1).and_then(|s| s.parse().ok()).unwrap_or(1);
    let n: usize = std::env::args().nth(2).and_then(|s| s.parse().ok()).unwrap_or(300);
    let mut r = Rng::new(seed);
    let atoms = ["a", " ", "  ", "'", "\"", "$HOME", "*", "\n", "é", "日本", "-c", "--", "\\", "a b", "`x`", ";", "|", "\t", "&&", "echo", "x=1"];
    let shells = ["sh", "bash", "none", "/bin/sh", "bash -e", "zsh  -x\t-y", "sh -o pipefail ", " dash", "fish", "None", "NONE", "cmd"];
    let mut cases = std::fs::File::create(out("cases.txt")).unwrap();
    let mut outs = std::fs::File::create(out("impl.txt")).unwrap();
    for _ in 0..n {
        let noshell = r.chance(1, 4);
        let shell: Option<&str> = if r.chance(1, 2) { Some(*r.pick(&shells)) } else { None };
        let envshell: Option<&str> = if r.chance(1, 2) { Some(*r.pick(&shells)) } else { None };
        let wrap: Option<&str> = match r.below(4) { 0 => Some("group"), 1 => Some("session"), 2 => Some("none"), _ => None };
        let nw = r.below(4) as usize + 1;
        let words: Vec<String> = (0..nw).map(|i| { let k = r.below(3) + 1; let mut s: String = (0..k).map(|_| *r.pick(&atoms)).collect(); if i == 0 && s.trim().is_empty() { s = "prog".into(); } s }).collect();
        let mut flags: Vec<OsString> = vec![];
        if noshell { flags.push("-n".into()); }
        if let Some(s) = shell { flags.push(format!("--shell={s}").into()); }
        if let Some(w) = wrap { flags.push(format!("--wrap-process={w}").into()); }
        match envshell { Some(s) => std::env::set_var("SHELL", s), None => std::env::remove_var("SHELL") }
        let rt = tokio::runtime::Builder::new_current_thread().enable_all().start_paused(true).build().unwrap();
        let res = rt.block_on(run_case(flags, words.clone()));
        rt.shutdown_background();
        writeln!(cases, "CLI\t{}\t{}\t{}\t{}\t{}", noshell as u8, shell.map(|s| hex(s.as_bytes())).unwrap_or("-".into()), envshell.map(|s| hex(s.as_bytes())).unwrap_or("-".into()),
            wrap.map(|w| &w[..1]).unwrap_or("-"), words.iter().map(|w| hex(w.as_bytes())).collect::<Vec<_>>().join(" ")).unwrap();
        writeln!(outs, "{res}").unwrap();
    }
}
