//! The watchexec command-line program itself (same entry point as crates/cli/src/main.rs), built from /repo's
//! working tree into the harness target directory, for end-to-end replays.
use std::process::ExitCode;

fn main() -> Result<ExitCode, Box<dyn std::error::Error>> {
    let code = tokio::runtime::Builder::new_multi_thread().enable_all().build()?.block_on(async { watchexec_cli::run().await });
    match code { Ok(c) => Ok(c), Err(e) => { eprintln!("{e:?}"); Ok(ExitCode::FAILURE) } }
}
