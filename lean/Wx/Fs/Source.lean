/-! C01 with real filesystem operations: what the filesystem source owes the action handler.

    A path is written as its components relative to the watched tree's root. Three watch configurations are exercised:
    the root recursively, the root non-recursively, and one subtree recursively together with one single file. The
    scripted filterer rejects every event naming a path that contains `skip` and fails on `boom`.

    `segOk` is the judgement the `fs-real` stream applies to what the real instance delivered after each operation:
    every operation on a visible, accepted path shows up (`missing`), and nothing the filter rejected or errored on,
    and nothing outside the watched area, is ever delivered (`forbidden`). The exactly-once accounting of the batches
    themselves is the worker model's (`Sp.Th`, C01/C02 theorems); here the counters must agree (delivered = accepted). -/
namespace Fsrc

inductive Mode | R | N | F deriving Repr, DecidableEq

def comps (s : String) : List String := if s == "." then [] else s.splitOn "/"

def hasSub (s : String) (pat : String) : Bool := (s.splitOn pat).length > 1

/-- under the watched area? (`F`: the subtree `sub` recursively + the single file `a.txt`) -/
def visible : Mode → List String → Bool
  | .R, _ => true
  | .N, p => p.length ≤ 1
  | .F, p => p.take 1 == ["sub"] || p == ["a.txt"]

def rejected (p : List String) : Bool := p.any (hasSub · "skip")
def erroring (p : List String) : Bool := p.any (hasSub · "boom")
def accepted (p : List String) : Bool := !rejected p && !erroring p

/-- may this path be named by a delivered event at all? (the root itself may: directory-level events) -/
def allowed (m : Mode) (p : List String) : Bool := accepted p && (p.isEmpty || visible m p || (m == .F && p == ["sub"]))

inductive Op where
  | touch (p : List String)            -- create / remove / mkdir / rmdir: always observable
  | write (p : List String)            -- append: the poll watcher compares whole seconds, so it may miss it
  | move (p q : List String)
  | failed                              -- the operation itself failed: nothing is owed
  deriving Repr

/-- paths that MUST be named by some delivered event after the operation -/
def must (m : Mode) (poll : Bool) : Op → List (List String)
  | .touch p => if visible m p && accepted p then [p] else []
  | .write p => if !poll && visible m p && accepted p then [p] else []
  | .move p q =>
    if accepted p && accepted q then (if visible m p then [p] else []) ++ (if visible m q then [q] else []) else []
  | .failed => []

/-- `none` = fine; otherwise what is wrong. `got` = paths delivered after this operation, `next` = after the next one
    (a late batch still counts) -/
def segOk (m : Mode) (poll : Bool) (op : Op) (got next : List (List String)) : Option String :=
  match got.find? (fun p => !allowed m p) with
  | some p => some ("forbidden:" ++ "/".intercalate p)
  | none =>
    match (must m poll op).find? (fun p => !(got.contains p || next.contains p)) with
    | some p => some ("missing:" ++ "/".intercalate p)
    | none => none

/-- a rejected or erroring path is never tolerated in a delivery -/
theorem rejected_never_ok (m : Mode) (poll : Bool) (op : Op) (got next : List (List String)) (p : List String)
    (hp : p ∈ got) (hr : rejected p = true ∨ erroring p = true) : (segOk m poll op got next).isSome = true := by
  unfold segOk
  have hna : (!allowed m p) = true := by
    unfold allowed accepted
    rcases hr with h | h <;> simp [h]
  cases hf : got.find? (fun p => !allowed m p) with
  | some q => rfl
  | none =>
    have := List.find?_eq_none.1 hf p hp
    simp [hna] at this

/-- nothing outside the watched area is tolerated -/
theorem outside_never_ok (m : Mode) (poll : Bool) (op : Op) (got next : List (List String)) (p : List String)
    (hp : p ∈ got) (hne : p ≠ []) (hv : visible m p = false) (hs : ¬ (m = .F ∧ p = ["sub"])) :
    (segOk m poll op got next).isSome = true := by
  unfold segOk
  have hna : (!allowed m p) = true := by
    unfold allowed
    have h1 : p.isEmpty = false := by cases p <;> simp_all
    have h2 : (m == Mode.F && p == ["sub"]) = false := by
      cases hm : (m == Mode.F && p == ["sub"])
      · rfl
      · exfalso; apply hs; simpa using hm
    simp [h1, hv, h2]
  cases hf : got.find? (fun p => !allowed m p) with
  | some q => rfl
  | none =>
    have := List.find?_eq_none.1 hf p hp
    simp [hna] at this

/-- an observable operation on a visible accepted path that nobody reported is flagged -/
theorem missing_is_flagged (m : Mode) (poll : Bool) (p : List String) (hv : visible m p = true) (ha : accepted p = true) :
    segOk m poll (.touch p) [] [] = some ("missing:" ++ "/".intercalate p) := by
  simp [segOk, must, hv, ha]

end Fsrc
