/-! C13 "changes made from inside handlers … reconfiguring from within a handler neither deadlocks nor affects an
    invocation already in progress": the handler cells of `Config` (`ChangeableFn`, changeable.rs) and what a handler
    invocation may do to the configuration it runs under.

    `ChangeableFn::call` takes the handler out of the cell (an `Arc` clone under a read lock that is released before the
    call) and runs THAT handler to its end; `replace` swaps the cell's content at any time, also from inside the running
    handler. A handler is identified by its *generation* (how many replacements came before it). The model is total: an
    invocation always ends — an implementation that never answers (a handler blocked on its own cell's lock) disagrees
    with it. The `handler-reconf` stream runs this model against a real Watchexec instance. -/
namespace Rc

/-- what a handler does from inside its own invocation -/
inductive InH where
  | paths (ps : List String)      -- Config::pathset
  | kind (k : String)             -- Config::file_watcher
  | replAct                       -- Config::on_action: replace the action handler (possibly the one running)
  | replErr                       -- Config::on_error
  | nop
  deriving Repr, DecidableEq

structure R where
  paths : List String := []
  kind : String := "N"
  actGen : Nat := 0
  errGen : Nat := 0
  escripts : List (List InH) := []      -- what the next error-handler invocations will do (harness scripts)
  alog : List (List String) := []       -- per script segment: the action handler's log
  elog : List (List String) := []
  deriving Repr

def applyIn (r : R) : InH → R
  | .paths ps => { r with paths := ps }
  | .kind k => { r with kind := k }
  | .replAct => { r with actGen := r.actGen + 1 }
  | .replErr => { r with errGen := r.errGen + 1 }
  | .nop => r

def runIn (r : R) (acts : List InH) : R := acts.foldl applyIn r

/-- one invocation of the action handler: the generation current when the call STARTED logs start and end -/
def invokeAct (r : R) (acts : List InH) : R × List String :=
  let g := r.actGen
  (runIn r acts, [s!"s{g}", s!"e{g}"])

/-- one invocation of the error handler; it does what the next queued script says -/
def invokeErr (r : R) : R × List String :=
  let g := r.errGen
  let (acts, rest) := match r.escripts with | a :: l => (a, l) | [] => ([], [])
  (runIn { r with escripts := rest } acts, [s!"s{g}", s!"e{g}"])

def invokeErrs : Nat → R → R × List String
  | 0, r => (r, [])
  | k + 1, r =>
    let (r1, l1) := invokeErr r
    let (r2, l2) := invokeErrs k r1
    (r2, l1 ++ l2)

/-- a script step; `errs` = how many runtime errors reached the error handler before the instance went quiet
    (an input: it depends on how many watch attempts the fs worker made) -/
inductive Top where
  | ev (acts : List InH) (errs : Nat)                      -- an event: one action-handler invocation
  | set (ps : List String) (k : String) (errs : Nat)       -- a change from outside
  | eh (acts : List InH)                                   -- script for a later error-handler invocation
  deriving Repr

def stepTop (r : R) : Top → R
  | .ev acts k =>
    let (r1, la) := invokeAct r acts
    let (r2, le) := invokeErrs k r1
    { r2 with alog := r2.alog ++ [la], elog := r2.elog ++ [le] }
  | .set ps kd k =>
    let (r2, le) := invokeErrs k { r with paths := ps, kind := kd }
    { r2 with alog := r2.alog ++ [[]], elog := r2.elog ++ [le] }
  | .eh acts => { r with escripts := r.escripts ++ [acts] }

def run (tops : List Top) : R := tops.foldl stepTop {}

/-! ### what the model says about an invocation -/

/-- **an invocation in progress is not affected**: whatever the handler does from inside — replacing itself any number
    of times included — the call that started as generation `g` ends as generation `g` -/
theorem invocation_keeps_its_generation (r : R) (acts : List InH) :
    (invokeAct r acts).2 = [s!"s{r.actGen}", s!"e{r.actGen}"] := rfl

theorem applyIn_actGen (r : R) (a : InH) : (applyIn r a).actGen = r.actGen + (if a = .replAct then 1 else 0) := by
  cases a <;> simp [applyIn]

/-- **a replacement made from inside takes effect for the next invocation** -/
theorem replacement_is_for_the_next_invocation (r : R) (acts : List InH) :
    (invokeAct r acts).1.actGen = r.actGen + acts.count .replAct := by
  unfold invokeAct runIn
  simp only []
  induction acts generalizing r with
  | nil => simp
  | cons a l ih =>
    simp only [List.foldl_cons]
    rw [ih, applyIn_actGen]
    by_cases h : a = .replAct
    · subst h; simp [List.count_cons]; omega
    · have : (a == InH.replAct) = false := by simpa using h
      simp [List.count_cons, h, this]

def lastPaths (acts : List InH) (d : List String) : List String :=
  acts.foldl (fun acc a => match a with | .paths ps => ps | _ => acc) d

theorem applyIn_paths (r : R) (a : InH) : (applyIn r a).paths = (match a with | .paths ps => ps | _ => r.paths) := by
  cases a <;> rfl

/-- **a change made from inside a handler is a change**: the configured path set after the invocation is the last one
    the handler set (the fs worker then converges to it: `Fw.c13_converges`) -/
theorem handler_changes_are_configured (r : R) (acts : List InH) :
    (invokeAct r acts).1.paths = lastPaths acts r.paths := by
  unfold invokeAct runIn lastPaths
  simp only []
  induction acts generalizing r with
  | nil => rfl
  | cons a l ih =>
    simp only [List.foldl_cons]
    rw [ih, applyIn_paths]

/-- non-vacuity: a handler that replaces itself twice and sets the paths — this call is generation 0, the next is 2 -/
example : ((run [.ev [.replAct, .paths ["a+"], .replAct] 0, .ev [] 0]).alog, (run [.ev [.replAct, .paths ["a+"], .replAct] 0, .ev [] 0]).paths)
    = ([["s0", "e0"], ["s2", "e2"]], ["a+"]) := by decide

end Rc
