/-! fs worker (sources/fs.rs worker loop + ConfigWatched) with a recording watcher. -/
namespace Fw

/-- `poll2` is the poll watcher with ANOTHER interval: `Watcher::Poll(d)` carries its interval, so two intervals are two kinds -/
inductive Kind | native | poll | poll2 deriving Repr, DecidableEq

structure WP where
  name : String
  recursive : Bool
  deriving Repr, DecidableEq

structure Fixes where
  f8a : Bool := false   -- clear the worker-local path set when the watcher is re-created
  f8b : Bool := false   -- a change counter is compared after arming the Notified
  deriving Repr, DecidableEq

structure Cfg where
  paths : List WP := []
  kind : Kind := .native
  deriving Repr, DecidableEq

structure St where
  fx : Fixes := {}
  cfg : Cfg := {}
  ver : Nat := 0                 -- number of signal_change() calls (ghost; the repaired code keeps it for real)
  seen : Nat := 0
  pendingWake : Bool := true     -- first_run, or a notification received while parked
  watcher : Option (Kind × List WP) := none   -- active watcher and what is registered with it
  wtype : Kind := .native
  localSet : List WP := []       -- the worker's `pathset`
  failW : List String := []
  failU : List String := []
  named : List (String × Nat) := []   -- how many paths the injected notify error of a failing name carries (absent: none)
  hooks : List (String × Cfg) := []   -- one-shot: fires inside the next watch/unwatch call on that name
  log : List String := []
  errs : Nat := 0
  deriving Repr

/-- `notify_multi_path_errors`: one runtime error per path the notify error names, and one (naming the configured path)
    when it names none -/
def errNOf (named : List (String × Nat)) (name : String) : Nat :=
  match named.find? (·.1 == name) with
  | some (_, k) => if k = 0 then 1 else k
  | none => 1

def wpStr (w : WP) : String := w.name ++ (if w.recursive then "+" else "-")
def kindStr : Kind → String | .native => "N" | .poll => "P" | .poll2 => "Q"

/-- Config::file_watcher + Config::pathset: two signal_change() calls; `parked` says whether a Notified is armed -/
def applyCfg (s : St) (c : Cfg) (parked : Bool) : St :=
  { s with cfg := c, ver := s.ver + 2, pendingWake := s.pendingWake || parked }

def fire (s : St) (name : String) : St :=
  match s.hooks.find? (·.1 == name) with
  | some (_, c) => applyCfg { s with hooks := s.hooks.filter (·.1 != name) } c false
  | none => s

def regRemove (r : List WP) (name : String) : List WP := r.filter (·.name != name)

/-- RecW::unwatch -/
def doUnwatch (s : St) (p : WP) : St :=
  let s := { s with log := s!"unwatch:{p.name}" :: s.log }
  let s := fire s p.name
  match s.watcher with
  | some (k, reg) =>
    if s.failU.contains p.name || !(reg.any (·.name == p.name)) then
      { s with errs := s.errs + errNOf s.named p.name }
    else { s with watcher := some (k, regRemove reg p.name), localSet := s.localSet.filter (· != p) }
  | none => s

/-- RecW::watch -/
def doWatch (s : St) (p : WP) : St :=
  let s := { s with log := s!"watch:{wpStr p}" :: s.log }
  let s := fire s p.name
  match s.watcher with
  | some (k, reg) =>
    if s.failW.contains p.name then { s with errs := s.errs + errNOf s.named p.name }
    else { s with watcher := some (k, regRemove reg p.name ++ [p]),
                  localSet := if s.localSet.contains p then s.localSet else s.localSet ++ [p] }
  | none => s

/-- empty configured set: release the watcher -/
def release (s : St) : St :=
  let s := if s.watcher.isSome then { s with log := "dropwatcher" :: s.log } else s
  { s with watcher := none, localSet := [] }

/-- make sure a watcher of the configured kind exists (F8a: the local set survives re-creation today) -/
def ensureWatcher (s : St) : St :=
  let k := s.cfg.kind
  if s.watcher.isNone || s.wtype != k then
    let s := { s with log := s!"new:{kindStr k}" :: s.log }
    let s := if s.watcher.isSome then { s with log := "dropwatcher" :: s.log } else s
    { s with wtype := k, watcher := some (k, []), localSet := if s.fx.f8a then [] else s.localSet }
  else s

/-- (to_watch, to_drop) -/
def plan (cp localSet : List WP) : List WP × List WP :=
  if localSet.isEmpty then (cp, []) else
  (cp.filter (fun p => !localSet.contains p), localSet.filter (fun p => !cp.contains p))

/-- one iteration of the worker loop after `config_watch.next()` returned -/
def iteration (s : St) : St :=
  if s.cfg.paths.isEmpty then release s
  else
    let s1 := ensureWatcher s
    let pl := plan s1.cfg.paths s1.localSet
    pl.1.foldl doWatch (pl.2.foldl doUnwatch s1)

/-- run the worker until it parks; with F8b repaired a changed counter re-runs the loop -/
def runWorker : Nat → St → St
  | 0, s => s
  | fuel + 1, s =>
    let wake := s.pendingWake || (s.fx.f8b && s.seen != s.ver)
    if wake then
      let s := { s with pendingWake := false, seen := s.ver }
      runWorker fuel (iteration s)
    else s

end Fw
