import Wx.Fs.C13
/-! C13 with injected registration failures: "a path that fails to register is reported as a runtime error (once per
    attempt) without preventing the others". One iteration of the repaired worker, any set `failW` of failing names:
    every configured path that does not fail ends up registered, the failing ones that were not registered before stay
    out, and the error count grows by exactly the number of failing attempts. -/
namespace Fw

/-- `watch` with failures: a failing name leaves the private state alone -/
def watPF (F : List String) (p : Priv) (x : WP) : Priv := if F.contains x.name then p else watP p x

theorem fire_errs (s : St) (n : String) : (fire s n).errs = s.errs := by
  unfold fire; split <;> simp [applyCfg]

theorem fire_named (s : St) (n : String) : (fire s n).named = s.named := by
  unfold fire; split <;> simp [applyCfg]

theorem doWatch_privF (s : St) (x : WP) :
    (doWatch s x).priv = watPF s.failW s.priv x ∧ (doWatch s x).failW = s.failW ∧ (doWatch s x).failU = s.failU ∧
    (doWatch s x).fx = s.fx ∧ (doWatch s x).named = s.named ∧
    (s.watcher.isSome = true → (doWatch s x).watcher.isSome = true ∧
      (doWatch s x).errs = s.errs + (if s.failW.contains x.name then errNOf s.named x.name else 0)) := by
  unfold doWatch
  simp only []
  obtain ⟨hp, hw, hu, hf⟩ := fire_priv { s with log := s!"watch:{wpStr x}" :: s.log } x.name
  have he := fire_errs { s with log := s!"watch:{wpStr x}" :: s.log } x.name
  have hn := fire_named { s with log := s!"watch:{wpStr x}" :: s.log } x.name
  generalize fire { s with log := s!"watch:{wpStr x}" :: s.log } x.name = t at hp hw hu hf he hn
  have hn' : t.named = s.named := hn
  have hw' : t.failW = s.failW := hw
  have hpw : t.watcher = s.watcher := by have := congrArg Priv.watcher hp; simpa [St.priv] using this
  have hpl : t.localSet = s.localSet := by have := congrArg Priv.localSet hp; simpa [St.priv] using this
  have hpt : t.wtype = s.wtype := by have := congrArg Priv.wtype hp; simpa [St.priv] using this
  have he' : t.errs = s.errs := he
  unfold watPF watP
  cases hws : s.watcher with
  | none =>
    simp only [hpw, hws]
    refine ⟨?_, hw', hu, hf, hn', fun h => by simp at h⟩
    by_cases hc : s.failW.contains x.name = true <;> simp [hc, St.priv, hws, hpw, hpl, hpt]
  | some kr =>
    obtain ⟨k, reg⟩ := kr
    simp only [hpw, hws, hw']
    by_cases hc : s.failW.contains x.name = true
    · simp only [hc, if_true]
      refine ⟨?_, ?_, ?_, ?_, ?_, ?_⟩
      · simp [St.priv, hpw, hws, hpl, hpt]
      · first | trivial | exact hw'
      · first | trivial | exact hu
      · first | trivial | exact hf
      · first | trivial | exact hn'
      · intro _; exact ⟨by simp [hpw, hws], by simp [he', hn']⟩
    · simp only [hc, Bool.false_eq_true, if_false]
      refine ⟨?_, ?_, ?_, ?_, ?_, ?_⟩
      · simp [St.priv, hws, hpl, hpt]
      · first | trivial | exact hw'
      · first | trivial | exact hu
      · first | trivial | exact hf
      · first | trivial | exact hn'
      · intro _; exact ⟨rfl, by simp [he']⟩

theorem foldl_watch_privF (xs : List WP) (s : St) :
    (xs.foldl doWatch s).priv = xs.foldl (watPF s.failW) s.priv ∧ (xs.foldl doWatch s).failW = s.failW ∧
    (xs.foldl doWatch s).failU = s.failU ∧ (xs.foldl doWatch s).fx = s.fx ∧ (xs.foldl doWatch s).named = s.named ∧
    (s.watcher.isSome = true → (xs.foldl doWatch s).errs = s.errs +
      ((xs.filter (fun x => s.failW.contains x.name)).map (fun x => errNOf s.named x.name)).sum) := by
  induction xs generalizing s with
  | nil => exact ⟨rfl, rfl, rfl, rfl, rfl, fun _ => by simp⟩
  | cons x xs ih =>
    obtain ⟨a, b, c, d, n, e⟩ := doWatch_privF s x
    obtain ⟨a', b', c', d', n', e'⟩ := ih (doWatch s x)
    simp only [List.foldl_cons]
    refine ⟨by rw [a', a, b], b'.trans b, c'.trans c, d'.trans d, n'.trans n, ?_⟩
    intro hsome
    obtain ⟨e1, e2⟩ := e hsome
    rw [e' e1, e2, b, n]
    by_cases hc : s.failW.contains x.name = true
    · rw [List.filter_cons_of_pos (by simpa using hc)]
      simp only [hc, if_true, List.map_cons, List.sum_cons]; omega
    · rw [List.filter_cons_of_neg (by simpa using hc)]
      simp only [hc, Bool.false_eq_true, if_false]; omega

/-- failing names are simply skipped -/
theorem foldl_watPF (F : List String) (xs : List WP) (p : Priv) :
    xs.foldl (watPF F) p = (xs.filter (fun x => !F.contains x.name)).foldl watP p := by
  induction xs generalizing p with
  | nil => rfl
  | cons x xs ih =>
    simp only [List.foldl_cons, List.filter_cons]
    by_cases hc : F.contains x.name = true
    · simp only [watPF, hc, if_true, Bool.not_true, Bool.false_eq_true, if_false]; exact ih p
    · simp only [watPF, hc, Bool.false_eq_true, if_false, Bool.not_false, if_true, List.foldl_cons]; exact ih _


/-- one drop, with everything the next drop needs (the body of `dropFold`'s induction step) -/
theorem dropStep {p : Priv} {k : Kind} {reg : List WP} {d : WP} {ds : List WP} (hdsnd : (d :: ds).Nodup)
    (hw : p.watcher = some (k, reg)) (hn : NodupNames reg) (hs : ∀ x, x ∈ reg ↔ x ∈ p.localSet) (hnd : p.localSet.Nodup)
    (hd : ∀ e ∈ d :: ds, e ∈ p.localSet) :
    unwP p d = { p with watcher := some (k, regRemove reg d.name), localSet := p.localSet.filter (· != d) } ∧
    reg.any (·.name == d.name) = true ∧ NodupNames (regRemove reg d.name) ∧
    (∀ x, x ∈ regRemove reg d.name ↔ x ∈ p.localSet.filter (· != d)) ∧ (p.localSet.filter (· != d)).Nodup ∧
    (∀ e ∈ ds, e ∈ p.localSet.filter (· != d)) := by
  rw [List.nodup_cons] at hdsnd
  obtain ⟨hdnot, _⟩ := hdsnd
  have hdl : d ∈ p.localSet := hd d (List.mem_cons_self)
  have hdr : d ∈ reg := (hs d).mpr hdl
  have hany : reg.any (·.name == d.name) = true := List.any_eq_true.mpr ⟨d, hdr, by simp⟩
  refine ⟨by unfold unwP; simp [hw, hany], hany, ?_, ?_, List.Nodup.sublist List.filter_sublist hnd, ?_⟩
  · intro a ha b hb hab
    exact hn a (mem_regRemove.mp ha).1 b (mem_regRemove.mp hb).1 hab
  · intro x
    rw [mem_regRemove, List.mem_filter, hs x]
    constructor
    · rintro ⟨hx, hne⟩; exact ⟨hx, by simp; intro h; exact hne (by rw [h])⟩
    · rintro ⟨hx, hne⟩
      refine ⟨hx, ?_⟩
      intro hname
      have : x = d := hn x ((hs x).mpr hx) d hdr hname
      simp [this] at hne
  · intro e he
    have hed : e ≠ d := fun h => hdnot (h ▸ he)
    exact List.mem_filter.mpr ⟨hd e (List.mem_cons_of_mem _ he), by simpa using hed⟩

theorem doUnwatch_errs (s : St) (x : WP) (hU : s.failU = []) {k : Kind} {reg : List WP} (hw : s.watcher = some (k, reg))
    (hany : reg.any (·.name == x.name) = true) : (doUnwatch s x).errs = s.errs := by
  unfold doUnwatch
  simp only []
  obtain ⟨hp, _, hu, _⟩ := fire_priv { s with log := s!"unwatch:{x.name}" :: s.log } x.name
  have he := fire_errs { s with log := s!"unwatch:{x.name}" :: s.log } x.name
  generalize fire { s with log := s!"unwatch:{x.name}" :: s.log } x.name = t at hp hu he
  have hu' : t.failU = [] := by rw [hu]; exact hU
  have hpw : t.watcher = some (k, reg) := by have := congrArg Priv.watcher hp; simp [St.priv] at this; rw [this]; exact hw
  simp [hpw, hu', hany]
  exact he

/-- dropping registered paths (no unwatch failures injected) reports no error -/
theorem dropFold_errs (ds : List WP) : ∀ (s : St) (k : Kind) (reg : List WP), s.failU = [] → ds.Nodup →
    s.watcher = some (k, reg) → NodupNames reg → (∀ x, x ∈ reg ↔ x ∈ s.localSet) → s.localSet.Nodup →
    (∀ d ∈ ds, d ∈ s.localSet) → (ds.foldl doUnwatch s).errs = s.errs := by
  induction ds with
  | nil => intro s k reg _ _ _ _ _ _ _; rfl
  | cons d ds ih =>
    intro s k reg hU hdsnd hw hn hs hnd hd
    obtain ⟨hstep, hany, hn', hs', hnd', hd'⟩ := dropStep (p := s.priv) hdsnd hw hn hs hnd hd
    obtain ⟨hp, hu2, _, _⟩ := doUnwatch_priv s d hU
    have he := doUnwatch_errs s d hU hw hany
    simp only [List.foldl_cons]
    rw [hstep] at hp
    have hw2 : (doUnwatch s d).watcher = some (k, regRemove reg d.name) := by have := congrArg Priv.watcher hp; simpa [St.priv] using this
    have hl2 : (doUnwatch s d).localSet = s.localSet.filter (· != d) := by have := congrArg Priv.localSet hp; simpa [St.priv] using this
    have := ih (doUnwatch s d) k (regRemove reg d.name) hu2 (List.nodup_cons.mp hdsnd).2 hw2 hn' (by rw [hl2]; exact hs') (by rw [hl2]; exact hnd')
      (by rw [hl2]; exact hd')
    rw [this, he]


theorem doUnwatch_named (s : St) (x : WP) : (doUnwatch s x).named = s.named := by
  unfold doUnwatch
  simp only []
  have hn := fire_named { s with log := s!"unwatch:{x.name}" :: s.log } x.name
  generalize fire { s with log := s!"unwatch:{x.name}" :: s.log } x.name = t at hn
  have hn' : t.named = s.named := hn
  split
  · split <;> exact hn'
  · exact hn'

theorem foldl_unwatch_named (xs : List WP) (s : St) : (xs.foldl doUnwatch s).named = s.named := by
  induction xs generalizing s with
  | nil => rfl
  | cons x xs ih => simp only [List.foldl_cons]; rw [ih, doUnwatch_named]

theorem ensureWatcher_named (s : St) : (ensureWatcher s).named = s.named := by
  unfold ensureWatcher; simp only []; split
  · split <;> rfl
  · rfl

/-- the runtime errors one iteration raises: for every failing registration attempt, one per path its notify error names
    (one, naming the configured path, when it names none) -/
def iterationErrs (s : St) : Nat :=
  (((s.cfg.paths.filter (fun p => !(ensureWatcher s).localSet.contains p)).filter (fun x => s.failW.contains x.name)).map
    (fun x => errNOf s.named x.name)).sum

/-- **one iteration with failing registrations** (repaired worker, no unwatch failures, non-empty configuration) -/
theorem iteration_faults (s : St) (hf : s.fx.f8a = true) (hU : s.failU = []) (hs : Sync' s.priv) (hc : NodupNames s.cfg.paths)
    (hne : s.cfg.paths ≠ []) :
    Sync' (iteration s).priv ∧
    (∃ reg, (iteration s).watcher = some (s.cfg.kind, reg) ∧ (iteration s).wtype = s.cfg.kind ∧
      ∀ x, x ∈ reg ↔ x ∈ s.cfg.paths ∧ (x ∈ (ensureWatcher s).localSet ∨ s.failW.contains x.name = false)) ∧
    (iteration s).errs = s.errs + iterationErrs s ∧
    (iteration s).failW = s.failW ∧ (iteration s).failU = [] ∧ Later (iteration s) s := by
  unfold iteration iterationErrs
  have hemp : ¬ s.cfg.paths.isEmpty = true := by intro h; exact hne (by simpa using h)
  simp only [hemp, Bool.false_eq_true, if_false]
  -- step 1: the watcher
  have hnm1 := ensureWatcher_named s
  have h1 : ∃ reg1, (ensureWatcher s).priv.watcher = some (s.cfg.kind, reg1) ∧ (ensureWatcher s).priv.wtype = s.cfg.kind ∧
      NodupNames reg1 ∧ (∀ x, x ∈ reg1 ↔ x ∈ (ensureWatcher s).priv.localSet) ∧ (ensureWatcher s).priv.localSet.Nodup ∧
      (ensureWatcher s).failW = s.failW ∧ (ensureWatcher s).failU = [] ∧ (ensureWatcher s).errs = s.errs ∧
      (ensureWatcher s).cfg = s.cfg ∧ Later (ensureWatcher s) s := by
    clear hnm1
    unfold ensureWatcher
    simp only []
    by_cases hcond : (s.watcher.isNone || s.wtype != s.cfg.kind) = true
    · simp only [hcond, if_true, hf]
      refine ⟨[], ?_, ?_, ?_, ?_, ?_, ?_, ?_, ?_, ?_, ?_⟩
      · split <;> rfl
      · split <;> rfl
      · intro a ha; cases ha
      · intro x; split <;> simp [St.priv]
      · split <;> exact List.nodup_nil
      · split <;> rfl
      · split <;> exact hU
      · split <;> rfl
      · split <;> rfl
      · split <;> exact ⟨rfl, Nat.le_refl _, fun _ => ⟨rfl, rfl⟩, fun _ h => h, Or.inl rfl⟩
    · simp only [hcond, Bool.false_eq_true, if_false]
      simp only [Bool.or_eq_true, not_or] at hcond
      obtain ⟨hsome, hk⟩ := hcond
      cases hw : s.watcher with
      | none => simp [hw] at hsome
      | some kr =>
        obtain ⟨k, reg⟩ := kr
        have hok := hs.ok
        simp only [St.priv, hw] at hok
        obtain ⟨hwt, hnn, hmem⟩ := hok
        have hkk : s.wtype = s.cfg.kind := by simpa using hk
        refine ⟨reg, ?_, hkk, hnn, hmem, hs.nd, by first | rfl | trivial, hU, by first | rfl | trivial, by first | rfl | trivial, Later.refl s⟩
        simp [St.priv, hw, ← hwt, hkk]
  obtain ⟨reg1, w1, t1, nn1, m1, nd1, fw1, fu1, er1, c1, l1⟩ := h1
  generalize ensureWatcher s = s1 at *
  rw [c1, plan_eq]
  simp only []
  -- step 2: drops (no error)
  obtain ⟨pu, fu2, fw2, _⟩ := foldl_unwatch_priv (s1.localSet.filter (fun p => !s.cfg.paths.contains p)) s1 fu1
  obtain ⟨reg2, w2, t2, nn2, m2, nd2, l2⟩ := dropFold (s1.localSet.filter (fun p => !s.cfg.paths.contains p)) s1.priv
    s.cfg.kind reg1 (List.Nodup.sublist List.filter_sublist nd1) w1 nn1 m1 nd1
    (fun d hd => (List.mem_filter.mp hd).1)
  have er2 := dropFold_errs (s1.localSet.filter (fun p => !s.cfg.paths.contains p)) s1 s.cfg.kind reg1 fu1
    (List.Nodup.sublist List.filter_sublist nd1) w1 nn1 m1 nd1 (fun d hd => (List.mem_filter.mp hd).1)
  have hnm2 := foldl_unwatch_named (s1.localSet.filter (fun p => !s.cfg.paths.contains p)) s1
  generalize hs2 : List.foldl doUnwatch s1 (s1.localSet.filter (fun p => !s.cfg.paths.contains p)) = s2 at *
  have hF2 : s2.failW = s.failW := fw2.trans fw1
  have hN2 : s2.named = s.named := hnm2.trans hnm1
  -- step 3: watches, failing names skipped
  obtain ⟨pw, fw3, fu3, _, _, er3⟩ := foldl_watch_privF (s.cfg.paths.filter (fun p => !s1.localSet.contains p)) s2
  rw [foldl_watPF, pu, hF2] at pw
  have hw2some : s2.watcher.isSome = true := by
    have : s2.priv.watcher = some (s.cfg.kind, reg2) := by rw [pu]; exact w2
    simp [St.priv] at this; simp [this]
  have er3' := er3 hw2some
  have hsub : ∀ w ∈ (s.cfg.paths.filter (fun p => !s1.localSet.contains p)).filter (fun x => !s.failW.contains x.name),
      w ∈ s.cfg.paths ∧ w ∉ s1.localSet ∧ s.failW.contains w.name = false := by
    intro w hw
    obtain ⟨h1, h2⟩ := List.mem_filter.mp hw
    obtain ⟨h3, h4⟩ := List.mem_filter.mp h1
    exact ⟨h3, by simpa using h4, by simpa using h2⟩
  have hcompat : ∀ w ∈ (s.cfg.paths.filter (fun p => !s1.localSet.contains p)).filter (fun x => !s.failW.contains x.name),
      ∀ y ∈ reg2, y.name = w.name → y = w := by
    intro w hw y hy hname
    have hyl := (m2 y).mp hy
    obtain ⟨hy1, hy2⟩ := (l2 y).mp hyl
    have hycp : y ∈ s.cfg.paths := by
      by_cases h : y ∈ s.cfg.paths
      · exact h
      · exact absurd (List.mem_filter.mpr ⟨hy1, by simpa using h⟩) hy2
    exact hc y hycp w (hsub w hw).1 hname
  have hnnw : NodupNames ((s.cfg.paths.filter (fun p => !s1.localSet.contains p)).filter (fun x => !s.failW.contains x.name)) :=
    fun a ha b hb => hc a (hsub a ha).1 b (hsub b hb).1
  obtain ⟨reg3, w3, t3, m3, nd3, l3⟩ := watchFold _
    (List.foldl unwP s1.priv (s1.localSet.filter (fun p => !s.cfg.paths.contains p))) s.cfg.kind reg2 w2 m2 nd2 hcompat hnnw
  -- members of the final local set
  have hfinal : ∀ x, x ∈ (List.foldl watP (List.foldl unwP s1.priv (s1.localSet.filter (fun p => !s.cfg.paths.contains p)))
      ((s.cfg.paths.filter (fun p => !s1.localSet.contains p)).filter (fun x => !s.failW.contains x.name))).localSet ↔
      x ∈ s.cfg.paths ∧ (x ∈ s1.localSet ∨ s.failW.contains x.name = false) := by
    intro x
    rw [l3 x, l2 x, List.mem_filter, List.mem_filter, List.mem_filter]
    constructor
    · rintro (⟨hx1, hx2⟩ | ⟨⟨hx, hnl⟩, hnf⟩)
      · refine ⟨?_, Or.inl hx1⟩
        by_cases h : x ∈ s.cfg.paths
        · exact h
        · exact absurd ⟨hx1, by simpa using h⟩ hx2
      · exact ⟨hx, Or.inr (by simpa using hnf)⟩
    · rintro ⟨hx, hor⟩
      by_cases hl : x ∈ s1.priv.localSet
      · exact Or.inl ⟨hl, by rintro ⟨_, h⟩; simp [hx] at h⟩
      · rcases hor with h | h
        · exact absurd h hl
        · exact Or.inr ⟨⟨hx, by simpa [St.priv] using hl⟩, by simpa using h⟩
  have hreg : ∀ x, x ∈ reg3 ↔ x ∈ s.cfg.paths ∧ (x ∈ s1.localSet ∨ s.failW.contains x.name = false) := fun x => (m3 x).trans (hfinal x)
  have hlater : Later (List.foldl doWatch s2 (s.cfg.paths.filter (fun p => !s1.localSet.contains p))) s := by
    have := (later_foldl_watch (s.cfg.paths.filter (fun p => !s1.localSet.contains p)) s2)
    rw [← hs2] at this ⊢
    exact (this.trans (later_foldl_unwatch _ _)).trans l1
  have hwfin : (List.foldl doWatch s2 (s.cfg.paths.filter (fun p => !s1.localSet.contains p))).watcher = some (s.cfg.kind, reg3) := by
    have := congrArg Priv.watcher pw; rw [w3] at this; simpa [St.priv] using this
  have htfin : (List.foldl doWatch s2 (s.cfg.paths.filter (fun p => !s1.localSet.contains p))).wtype = s.cfg.kind := by
    have := congrArg Priv.wtype pw; rw [t3, t2, t1] at this; simpa [St.priv] using this
  refine ⟨?_, ⟨reg3, hwfin, htfin, hreg⟩, ?_, fw3.trans hF2, fu3.trans fu2, hlater⟩
  · rw [pw]
    refine ⟨nd3, ?_⟩
    rw [w3]
    refine ⟨t3.trans (t2.trans t1), ?_, m3⟩
    intro a ha b hb hab
    exact hc a ((hreg a).mp ha).1 b ((hreg b).mp hb).1 hab
  · rw [er3', hF2, hN2, er2, er1]

/-- **without preventing the others**: whatever fails, every configured path whose registration does not fail is
    registered after the iteration -/
theorem others_are_registered (s : St) (hf : s.fx.f8a = true) (hU : s.failU = []) (hs : Sync' s.priv) (hc : NodupNames s.cfg.paths)
    (x : WP) (hx : x ∈ s.cfg.paths) (hok : s.failW.contains x.name = false) :
    ∃ k reg, (iteration s).watcher = some (k, reg) ∧ x ∈ reg := by
  have hne : s.cfg.paths ≠ [] := List.ne_nil_of_mem hx
  obtain ⟨_, ⟨reg, hw, _, hreg⟩, _⟩ := iteration_faults s hf hU hs hc hne
  exact ⟨_, reg, hw, (hreg x).mpr ⟨hx, Or.inr hok⟩⟩

/-- **once per attempt**: the error count grows by exactly what the failing registration attempts of this iteration are
    worth — one error per path named by the attempt's notify error, one when it names none -/
theorem errors_once_per_attempt (s : St) (hf : s.fx.f8a = true) (hU : s.failU = []) (hs : Sync' s.priv) (hc : NodupNames s.cfg.paths)
    (hne : s.cfg.paths ≠ []) : (iteration s).errs = s.errs + iterationErrs s :=
  (iteration_faults s hf hU hs hc hne).2.2.1

/-- when no injected error names more than one path (the common case: the back-end reports the path it was given, another
    spelling of it, or nothing), that is literally one error per failing attempt -/
theorem errors_one_per_attempt (s : St) (hf : s.fx.f8a = true) (hU : s.failU = []) (hs : Sync' s.priv) (hc : NodupNames s.cfg.paths)
    (hne : s.cfg.paths ≠ []) (h1 : ∀ e ∈ s.named, e.2 ≤ 1) :
    (iteration s).errs = s.errs +
      ((s.cfg.paths.filter (fun p => !(ensureWatcher s).localSet.contains p)).filter (fun x => s.failW.contains x.name)).length := by
  rw [errors_once_per_attempt s hf hU hs hc hne]
  congr 1
  unfold iterationErrs
  have one : ∀ n, errNOf s.named n = 1 := by
    intro n
    unfold errNOf
    cases hfd : s.named.find? (·.1 == n) with
    | none => rfl
    | some e =>
      obtain ⟨a, k⟩ := e
      have := h1 _ (List.mem_of_find?_eq_some hfd)
      simp only []
      split
      · rfl
      · simp only [] at this; omega
  generalize (s.cfg.paths.filter (fun p => !(ensureWatcher s).localSet.contains p)).filter (fun x => s.failW.contains x.name) = l
  induction l with
  | nil => rfl
  | cons x l ih => simp only [List.map_cons, List.sum_cons, List.length_cons, one] at ih ⊢; omega

/-- a failing path that was not registered before stays out (and will be retried: it is not in the worker's local set) -/
theorem failing_path_stays_out (s : St) (hf : s.fx.f8a = true) (hU : s.failU = []) (hs : Sync' s.priv) (hc : NodupNames s.cfg.paths)
    (hne : s.cfg.paths ≠ []) (x : WP) (hfail : s.failW.contains x.name = true) (hnew : x ∉ (ensureWatcher s).localSet) :
    ∀ k reg, (iteration s).watcher = some (k, reg) → x ∉ reg := by
  intro k reg hw hx
  obtain ⟨_, ⟨reg', hw', _, hreg⟩, _⟩ := iteration_faults s hf hU hs hc hne
  rw [hw'] at hw; injection hw with hw; injection hw with _ hr; subst hr
  rcases ((hreg x).mp hx).2 with h | h
  · exact hnew h
  · rw [hfail] at h; cases h

/-- non-vacuity, by evaluation: `a` fails, `b` and `c` do not — `b`, `c` are registered, one error; after `a` stops failing
    the next change registers it too (it was retried because it never entered the local set) -/
example :
    let s0 : St := { runWorker 16 { fx := ⟨true, true⟩ } with failW := ["a"] }
    let s1 := runWorker 16 (applyCfg s0 ⟨[⟨"a", true⟩, ⟨"b", true⟩, ⟨"c", false⟩], .native⟩ true)
    let s2 := runWorker 16 (applyCfg { s1 with failW := [] } ⟨[⟨"a", true⟩, ⟨"b", true⟩, ⟨"c", false⟩], .native⟩ true)
    s1.watcher = some (.native, [⟨"b", true⟩, ⟨"c", false⟩]) ∧ s1.errs = 1 ∧
    s2.watcher = some (.native, [⟨"b", true⟩, ⟨"c", false⟩, ⟨"a", true⟩]) ∧ s2.errs = 1 := by decide

/-- **an empty set releases the watcher** — unconditionally: whatever failed before, whatever the worker believes -/
theorem empty_set_releases (s : St) (h : s.cfg.paths = []) : (iteration s).watcher = none ∧ (iteration s).localSet = [] := by
  unfold iteration release
  simp only [h, List.isEmpty_nil, if_true]
  exact ⟨trivial, trivial⟩

/-- `fire` (a hook that changes the configuration from inside the call) touches neither the watcher, the worker's own set nor the faults -/
theorem fire_frame (s : St) (n : String) :
    (fire s n).watcher = s.watcher ∧ (fire s n).localSet = s.localSet ∧ (fire s n).failU = s.failU := by
  unfold fire; split <;> simp [applyCfg]

/-- the part of `RecW::unwatch` after the hook has fired -/
def unwCore (s : St) (p : WP) : St :=
  match s.watcher with
  | some (k, reg) =>
    if s.failU.contains p.name || !(reg.any (·.name == p.name)) then
      { s with errs := s.errs + errNOf s.named p.name }
    else { s with watcher := some (k, regRemove reg p.name), localSet := s.localSet.filter (· != p) }
  | none => s

theorem doUnwatch_eq (s : St) (p : WP) : doUnwatch s p = unwCore (fire { s with log := s!"unwatch:{p.name}" :: s.log } p.name) p := rfl

theorem unwCore_fail (f : St) (p : WP) (h : f.failU.contains p.name = true) :
    (unwCore f p).localSet = f.localSet ∧ (unwCore f p).watcher = f.watcher ∧
    (f.watcher ≠ none → (unwCore f p).errs = f.errs + errNOf f.named p.name) := by
  have hm : p.name ∈ f.failU := by simpa using h
  unfold unwCore
  cases hw : f.watcher with
  | none => simp [hw]
  | some kr =>
    obtain ⟨k, reg⟩ := kr
    simp [hm]

/-- **a failed unregistration is remembered, so it is attempted again**: when `unwatch` fails, the path stays in the worker's own
    set and in the watcher's registrations, and exactly its runtime error(s) are reported — the next iteration, which drops every
    path of that set that is no longer configured, calls `unwatch` for it again (the seeded change C13ab forgot the path first) -/
theorem failed_unwatch_is_remembered (s : St) (p : WP) (h : s.failU.contains p.name = true) :
    (doUnwatch s p).localSet = s.localSet ∧ (doUnwatch s p).watcher = s.watcher ∧
    (s.watcher ≠ none → (doUnwatch s p).errs = s.errs + errNOf s.named p.name) := by
  obtain ⟨hw, hl, hu⟩ := fire_frame { s with log := s!"unwatch:{p.name}" :: s.log } p.name
  have he := fire_errs { s with log := s!"unwatch:{p.name}" :: s.log } p.name
  have hn := fire_named { s with log := s!"unwatch:{p.name}" :: s.log } p.name
  rw [doUnwatch_eq]
  obtain ⟨h1, h2, h3⟩ := unwCore_fail (fire { s with log := s!"unwatch:{p.name}" :: s.log } p.name) p (by rw [hu]; exact h)
  refine ⟨h1.trans hl, h2.trans hw, fun hne => ?_⟩
  rw [h3 (by rw [hw]; exact hne), he, hn]

#print axioms iteration_faults
end Fw
