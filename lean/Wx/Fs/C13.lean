import Wx.Fs.Model
/-! C13: convergence of the repaired fs worker (fault-free), and witnesses for today's code. -/
namespace Fw

/-- the worker-private part that `Converged` reads -/
structure Priv where
  watcher : Option (Kind × List WP)
  wtype : Kind
  localSet : List WP
  deriving Repr, DecidableEq

def St.priv (s : St) : Priv := ⟨s.watcher, s.wtype, s.localSet⟩

/-- registered = believed, and matches the configuration -/
def Converged (c : Cfg) (p : Priv) : Prop :=
  if c.paths = [] then p.watcher = none ∧ p.localSet = []
  else ∃ reg, p.watcher = some (c.kind, reg) ∧ p.wtype = c.kind ∧
        (∀ x, x ∈ reg ↔ x ∈ c.paths) ∧ (∀ x, x ∈ p.localSet ↔ x ∈ c.paths)

/-- invariant between iterations: the worker's belief equals what is registered -/
def Sync (p : Priv) : Prop :=
  match p.watcher with
  | none => p.localSet = []
  | some (k, reg) => p.wtype = k ∧ (∀ x, x ∈ reg ↔ x ∈ p.localSet)

def NodupNames (l : List WP) : Prop := ∀ a ∈ l, ∀ b ∈ l, a.name = b.name → a = b

/-! pure versions of the two calls (no faults) -/
def unwP (p : Priv) (x : WP) : Priv :=
  match p.watcher with
  | some (k, reg) =>
    if reg.any (·.name == x.name) then
      { p with watcher := some (k, regRemove reg x.name), localSet := p.localSet.filter (· != x) }
    else p
  | none => p

def watP (p : Priv) (x : WP) : Priv :=
  match p.watcher with
  | some (k, reg) =>
    { p with watcher := some (k, regRemove reg x.name ++ [x]),
             localSet := if p.localSet.contains x then p.localSet else p.localSet ++ [x] }
  | none => p

/-- hooks only touch the shared configuration -/
theorem fire_priv (s : St) (n : String) :
    (fire s n).priv = s.priv ∧ (fire s n).failW = s.failW ∧ (fire s n).failU = s.failU ∧ (fire s n).fx = s.fx := by
  unfold fire
  split <;> simp [applyCfg, St.priv]

theorem doUnwatch_priv (s : St) (x : WP) (hU : s.failU = []) :
    (doUnwatch s x).priv = unwP s.priv x ∧ (doUnwatch s x).failU = [] ∧ (doUnwatch s x).failW = s.failW ∧
    (doUnwatch s x).fx = s.fx := by
  unfold doUnwatch
  simp only []
  obtain ⟨hp, hw, hu, hf⟩ := fire_priv { s with log := s!"unwatch:{x.name}" :: s.log } x.name
  generalize fire { s with log := s!"unwatch:{x.name}" :: s.log } x.name = t at hp hw hu hf
  have hu' : t.failU = [] := by rw [hu]; exact hU
  have hpw : t.watcher = s.watcher := by have := congrArg Priv.watcher hp; simpa [St.priv] using this
  have hpl : t.localSet = s.localSet := by have := congrArg Priv.localSet hp; simpa [St.priv] using this
  have hpt : t.wtype = s.wtype := by have := congrArg Priv.wtype hp; simpa [St.priv] using this
  unfold unwP
  cases hws : s.watcher with
  | none => simp [hpw, hws, St.priv, hpl, hpt, hu', hw, hf]
  | some kr =>
    obtain ⟨k, reg⟩ := kr
    simp only [hpw, hws, hu', List.contains_nil, Bool.false_or]
    by_cases hany : reg.any (·.name == x.name) = true
    · simp [hany, St.priv, hws, hpl, hpt, hu', hw, hf]
    · simp [hany, St.priv, hws, hpl, hpt, hpw, hu', hw, hf]

theorem doWatch_priv (s : St) (x : WP) (hW : s.failW = []) :
    (doWatch s x).priv = watP s.priv x ∧ (doWatch s x).failW = [] ∧ (doWatch s x).failU = s.failU ∧
    (doWatch s x).fx = s.fx := by
  unfold doWatch
  simp only []
  obtain ⟨hp, hw, hu, hf⟩ := fire_priv { s with log := s!"watch:{wpStr x}" :: s.log } x.name
  generalize fire { s with log := s!"watch:{wpStr x}" :: s.log } x.name = t at hp hw hu hf
  have hw' : t.failW = [] := by rw [hw]; exact hW
  have hpw : t.watcher = s.watcher := by have := congrArg Priv.watcher hp; simpa [St.priv] using this
  have hpl : t.localSet = s.localSet := by have := congrArg Priv.localSet hp; simpa [St.priv] using this
  have hpt : t.wtype = s.wtype := by have := congrArg Priv.wtype hp; simpa [St.priv] using this
  unfold watP
  cases hws : s.watcher with
  | none => simp [hpw, hws, St.priv, hpl, hpt, hw', hu, hf]
  | some kr =>
    obtain ⟨k, reg⟩ := kr
    simp [hpw, hws, hw', St.priv, hpl, hpt, hu, hf]

/-! folds -/

theorem foldl_unwatch_priv (xs : List WP) (s : St) (hU : s.failU = []) :
    (xs.foldl doUnwatch s).priv = xs.foldl unwP s.priv ∧ (xs.foldl doUnwatch s).failU = [] ∧
    (xs.foldl doUnwatch s).failW = s.failW ∧ (xs.foldl doUnwatch s).fx = s.fx := by
  induction xs generalizing s with
  | nil => exact ⟨rfl, hU, rfl, rfl⟩
  | cons x xs ih =>
    obtain ⟨a, b, c, d⟩ := doUnwatch_priv s x hU
    obtain ⟨a', b', c', d'⟩ := ih (doUnwatch s x) b
    simp only [List.foldl_cons]
    exact ⟨by rw [a', a], b', c'.trans c, d'.trans d⟩

theorem foldl_watch_priv (xs : List WP) (s : St) (hW : s.failW = []) :
    (xs.foldl doWatch s).priv = xs.foldl watP s.priv ∧ (xs.foldl doWatch s).failW = [] ∧
    (xs.foldl doWatch s).failU = s.failU ∧ (xs.foldl doWatch s).fx = s.fx := by
  induction xs generalizing s with
  | nil => exact ⟨rfl, hW, rfl, rfl⟩
  | cons x xs ih =>
    obtain ⟨a, b, c, d⟩ := doWatch_priv s x hW
    obtain ⟨a', b', c', d'⟩ := ih (doWatch s x) b
    simp only [List.foldl_cons]
    exact ⟨by rw [a', a], b', c'.trans c, d'.trans d⟩

theorem mem_regRemove {reg : List WP} {n : String} {y : WP} : y ∈ regRemove reg n ↔ y ∈ reg ∧ y.name ≠ n := by
  unfold regRemove; simp

/-- dropping: every dropped path leaves both the registration and the belief -/
theorem dropFold (ds : List WP) : ∀ (p : Priv) (k : Kind) (reg : List WP), ds.Nodup →
    p.watcher = some (k, reg) → NodupNames reg → (∀ x, x ∈ reg ↔ x ∈ p.localSet) → p.localSet.Nodup →
    (∀ d ∈ ds, d ∈ p.localSet) →
    ∃ reg', (ds.foldl unwP p).watcher = some (k, reg') ∧ (ds.foldl unwP p).wtype = p.wtype ∧ NodupNames reg' ∧
      (∀ x, x ∈ reg' ↔ x ∈ (ds.foldl unwP p).localSet) ∧ (ds.foldl unwP p).localSet.Nodup ∧
      (∀ x, x ∈ (ds.foldl unwP p).localSet ↔ x ∈ p.localSet ∧ x ∉ ds) := by
  induction ds with
  | nil => intro p k reg _ hw hn hs hnd _; exact ⟨reg, hw, rfl, hn, hs, hnd, by simp⟩
  | cons d ds ih =>
    intro p k reg hdsnd hw hn hs hnd hd
    rw [List.nodup_cons] at hdsnd
    obtain ⟨hdnot, hdsnd'⟩ := hdsnd
    have hdl : d ∈ p.localSet := hd d (List.mem_cons_self)
    have hdr : d ∈ reg := (hs d).mpr hdl
    have hany : reg.any (·.name == d.name) = true := List.any_eq_true.mpr ⟨d, hdr, by simp⟩
    have hstep : unwP p d = { p with watcher := some (k, regRemove reg d.name), localSet := p.localSet.filter (· != d) } := by
      unfold unwP; simp [hw, hany]
    have hn' : NodupNames (regRemove reg d.name) := by
      intro a ha b hb hab
      exact hn a (mem_regRemove.mp ha).1 b (mem_regRemove.mp hb).1 hab
    have hs' : ∀ x, x ∈ regRemove reg d.name ↔ x ∈ p.localSet.filter (· != d) := by
      intro x
      rw [mem_regRemove, List.mem_filter, hs x]
      constructor
      · rintro ⟨hx, hne⟩; exact ⟨hx, by simp; intro h; exact hne (by rw [h])⟩
      · rintro ⟨hx, hne⟩
        refine ⟨hx, ?_⟩
        intro hname
        have : x = d := hn x ((hs x).mpr hx) d hdr hname
        simp [this] at hne
    have hd' : ∀ e ∈ ds, e ∈ p.localSet.filter (· != d) := by
      intro e he
      have hed : e ≠ d := fun h => hdnot (h ▸ he)
      exact List.mem_filter.mpr ⟨hd e (List.mem_cons_of_mem _ he), by simpa using hed⟩
    simp only [List.foldl_cons, hstep]
    obtain ⟨reg', h1, h2, h3, h4, h5, h6⟩ := ih
      { p with watcher := some (k, regRemove reg d.name), localSet := p.localSet.filter (· != d) } k _ hdsnd' rfl hn' hs'
      (List.Nodup.sublist List.filter_sublist hnd) hd'
    refine ⟨reg', h1, h2, h3, h4, h5, ?_⟩
    intro x
    rw [h6 x, List.mem_filter]
    simp only [List.mem_cons, not_or]
    constructor
    · rintro ⟨⟨hx, hne⟩, hnds⟩; exact ⟨hx, by simpa using hne, hnds⟩
    · rintro ⟨hx, hne, hnds⟩; exact ⟨⟨hx, by simpa using hne⟩, hnds⟩

/-- watching: every new path enters both the registration and the belief -/
theorem watchFold (ws : List WP) : ∀ (p : Priv) (k : Kind) (reg : List WP),
    p.watcher = some (k, reg) → (∀ x, x ∈ reg ↔ x ∈ p.localSet) → p.localSet.Nodup →
    (∀ w ∈ ws, ∀ y ∈ reg, y.name = w.name → y = w) → NodupNames ws →
    ∃ reg', (ws.foldl watP p).watcher = some (k, reg') ∧ (ws.foldl watP p).wtype = p.wtype ∧
      (∀ x, x ∈ reg' ↔ x ∈ (ws.foldl watP p).localSet) ∧ (ws.foldl watP p).localSet.Nodup ∧
      (∀ x, x ∈ (ws.foldl watP p).localSet ↔ x ∈ p.localSet ∨ x ∈ ws) := by
  induction ws with
  | nil => intro p k reg hw hs hnd _ _; exact ⟨reg, hw, rfl, hs, hnd, by simp⟩
  | cons w ws ih =>
    intro p k reg hw hs hnd hcompat hnn
    have hstep : watP p w = Priv.mk (some (k, regRemove reg w.name ++ [w])) p.wtype
        (if p.localSet.contains w then p.localSet else p.localSet ++ [w]) := by
      unfold watP; simp [hw]
    -- removing by name only ever removes `w` itself
    have hrem : ∀ y, y ∈ regRemove reg w.name ++ [w] ↔ y ∈ reg ∨ y = w := by
      intro y
      rw [List.mem_append, mem_regRemove, List.mem_singleton]
      constructor
      · rintro (⟨hy, _⟩ | hy); exact Or.inl hy; exact Or.inr hy
      · rintro (hy | hy)
        · by_cases hname : y.name = w.name
          · exact Or.inr (hcompat w (List.mem_cons_self) y hy hname)
          · exact Or.inl ⟨hy, hname⟩
        · exact Or.inr hy
    have hloc : ∀ y, y ∈ (if p.localSet.contains w then p.localSet else p.localSet ++ [w]) ↔ y ∈ p.localSet ∨ y = w := by
      intro y
      by_cases hc : p.localSet.contains w = true
      · simp only [hc, if_true]
        constructor
        · exact Or.inl
        · rintro (h | h); exact h; subst h; simpa using hc
      · simp only [hc, Bool.false_eq_true, if_false, List.mem_append, List.mem_singleton]
    have hs' : ∀ x, x ∈ regRemove reg w.name ++ [w] ↔ x ∈ (if p.localSet.contains w then p.localSet else p.localSet ++ [w]) := by
      intro x; rw [hrem, hloc, hs x]
    have hnd' : (if p.localSet.contains w then p.localSet else p.localSet ++ [w]).Nodup := by
      by_cases hc : p.localSet.contains w = true
      · simp only [hc, if_true]; exact hnd
      · simp only [hc, Bool.false_eq_true, if_false]
        rw [List.nodup_append]
        refine ⟨hnd, by simp, ?_⟩
        intro a ha b hb
        simp at hb; subst hb
        intro hab; subst hab
        exact hc (by simpa using ha)
    have hcompat' : ∀ w' ∈ ws, ∀ y ∈ regRemove reg w.name ++ [w], y.name = w'.name → y = w' := by
      intro w' hw' y hy hname
      rcases (hrem y).mp hy with hy | hy
      · exact hcompat w' (List.mem_cons_of_mem _ hw') y hy hname
      · subst hy; exact hnn y (List.mem_cons_self) w' (List.mem_cons_of_mem _ hw') hname
    have hnn' : NodupNames ws := fun a ha b hb => hnn a (List.mem_cons_of_mem _ ha) b (List.mem_cons_of_mem _ hb)
    simp only [List.foldl_cons, hstep]
    obtain ⟨reg', h1, h2, h3, h4, h5⟩ := ih
      (Priv.mk (some (k, regRemove reg w.name ++ [w])) p.wtype
        (if p.localSet.contains w then p.localSet else p.localSet ++ [w])) k _ rfl hs' hnd' hcompat' hnn'
    refine ⟨reg', h1, h2, h3, h4, ?_⟩
    intro x
    rw [h5 x, hloc x, List.mem_cons]
    constructor
    · rintro ((h | h) | h); exact Or.inl h; exact Or.inr (Or.inl h); exact Or.inr (Or.inr h)
    · rintro (h | h | h); exact Or.inl (Or.inl h); exact Or.inl (Or.inr h); exact Or.inr h

/-! shared part: what hooks may change -/

/-- relation between a state and a later one inside one iteration -/
structure Later (t s : St) : Prop where
  seen : t.seen = s.seen
  mono : s.ver ≤ t.ver
  same : t.ver = s.ver → t.cfg = s.cfg ∧ t.pendingWake = s.pendingWake
  hooks : ∀ h ∈ t.hooks, h ∈ s.hooks
  cfgFrom : t.cfg = s.cfg ∨ ∃ h ∈ s.hooks, t.cfg = h.2

theorem Later.refl (s : St) : Later s s := ⟨rfl, Nat.le_refl _, fun _ => ⟨rfl, rfl⟩, fun _ h => h, Or.inl rfl⟩

theorem Later.trans {a b c : St} (h1 : Later a b) (h2 : Later b c) : Later a c := by
  refine ⟨h1.seen.trans h2.seen, Nat.le_trans h2.mono h1.mono, ?_, fun h hh => h2.hooks h (h1.hooks h hh), ?_⟩
  · intro hv
    have hb : b.ver = c.ver := Nat.le_antisymm (by rw [← hv]; exact h1.mono) h2.mono
    have ha : a.ver = b.ver := by rw [hv, hb]
    obtain ⟨x1, x2⟩ := h1.same ha
    obtain ⟨y1, y2⟩ := h2.same hb
    exact ⟨x1.trans y1, x2.trans y2⟩
  · rcases h1.cfgFrom with h | ⟨h, hh, he⟩
    · rw [h]; exact h2.cfgFrom
    · exact Or.inr ⟨h, h2.hooks h hh, he⟩

theorem later_fire (s : St) (n : String) : Later (fire s n) s := by
  unfold fire
  cases hf : s.hooks.find? (·.1 == n) with
  | none => exact Later.refl s
  | some h =>
    obtain ⟨hn, c⟩ := h
    simp only [applyCfg]
    refine ⟨rfl, by simp, ?_, ?_, ?_⟩
    · intro hv; simp at hv
    · intro x hx; exact (List.mem_filter.mp hx).1
    · exact Or.inr ⟨(hn, c), List.mem_of_find?_eq_some hf, rfl⟩

theorem later_log (s : St) (l : String) : Later { s with log := l :: s.log } s :=
  ⟨rfl, Nat.le_refl _, fun _ => ⟨rfl, rfl⟩, fun _ h => h, Or.inl rfl⟩

theorem later_doUnwatch (s : St) (x : WP) : Later (doUnwatch s x) s := by
  unfold doUnwatch
  simp only []
  have h1 := (later_fire { s with log := s!"unwatch:{x.name}" :: s.log } x.name).trans (later_log s _)
  generalize fire { s with log := s!"unwatch:{x.name}" :: s.log } x.name = t at h1
  split
  · split
    · exact Later.trans (b := t) ⟨rfl, Nat.le_refl _, fun _ => ⟨rfl, rfl⟩, fun _ h => h, Or.inl rfl⟩ h1
    · exact Later.trans (b := t) ⟨rfl, Nat.le_refl _, fun _ => ⟨rfl, rfl⟩, fun _ h => h, Or.inl rfl⟩ h1
  · exact h1

theorem later_doWatch (s : St) (x : WP) : Later (doWatch s x) s := by
  unfold doWatch
  simp only []
  have h1 := (later_fire { s with log := s!"watch:{wpStr x}" :: s.log } x.name).trans (later_log s _)
  generalize fire { s with log := s!"watch:{wpStr x}" :: s.log } x.name = t at h1
  split
  · split
    · exact Later.trans (b := t) ⟨rfl, Nat.le_refl _, fun _ => ⟨rfl, rfl⟩, fun _ h => h, Or.inl rfl⟩ h1
    · exact Later.trans (b := t) ⟨rfl, Nat.le_refl _, fun _ => ⟨rfl, rfl⟩, fun _ h => h, Or.inl rfl⟩ h1
  · exact h1

theorem later_foldl_unwatch (xs : List WP) (s : St) : Later (xs.foldl doUnwatch s) s := by
  induction xs generalizing s with
  | nil => exact Later.refl s
  | cons x xs ih => exact (ih _).trans (later_doUnwatch s x)

theorem later_foldl_watch (xs : List WP) (s : St) : Later (xs.foldl doWatch s) s := by
  induction xs generalizing s with
  | nil => exact Later.refl s
  | cons x xs ih => exact (ih _).trans (later_doWatch s x)

/-! one iteration -/

/-- what holds of the private part between iterations -/
structure Sync' (p : Priv) : Prop where
  nd : p.localSet.Nodup
  ok : match p.watcher with
       | none => p.localSet = []
       | some (k, reg) => p.wtype = k ∧ NodupNames reg ∧ (∀ x, x ∈ reg ↔ x ∈ p.localSet)

theorem plan_eq (cp l : List WP) :
    plan cp l = (cp.filter (fun p => !l.contains p), l.filter (fun p => !cp.contains p)) := by
  unfold plan
  cases l with
  | nil =>
    have : cp.filter (fun _ => true) = cp := List.filter_eq_self.mpr (by simp)
    simp [this]
  | cons a l => simp

theorem converged_of_sets {c : Cfg} {p : Priv} {reg : List WP} (hne : c.paths ≠ [])
    (hw : p.watcher = some (c.kind, reg)) (ht : p.wtype = c.kind)
    (hr : ∀ x, x ∈ reg ↔ x ∈ c.paths) (hl : ∀ x, x ∈ p.localSet ↔ x ∈ c.paths) : Converged c p := by
  unfold Converged; simp only [hne, if_false]; exact ⟨reg, hw, ht, hr, hl⟩

theorem iteration_core (s : St) (hf : s.fx.f8a = true) (hW : s.failW = []) (hU : s.failU = [])
    (hs : Sync' s.priv) (hc : NodupNames s.cfg.paths) :
    Sync' (iteration s).priv ∧ Converged s.cfg (iteration s).priv ∧ (iteration s).failW = [] ∧
    (iteration s).failU = [] ∧ (iteration s).fx = s.fx ∧ Later (iteration s) s := by
  unfold iteration
  by_cases hemp : s.cfg.paths.isEmpty = true
  · simp only [hemp, if_true]
    have he : s.cfg.paths = [] := by simpa using hemp
    have hp : (release s).priv = ⟨none, s.wtype, []⟩ := by
      unfold release; simp only []; split <;> rfl
    have hl : Later (release s) s := by
      unfold release; simp only []
      split <;> exact ⟨rfl, Nat.le_refl _, fun _ => ⟨rfl, rfl⟩, fun _ h => h, Or.inl rfl⟩
    refine ⟨?_, ?_, ?_, ?_, ?_, hl⟩
    · rw [hp]; exact ⟨List.nodup_nil, rfl⟩
    · rw [hp]; unfold Converged; simp [he]
    · unfold release; simp only []; split <;> exact hW
    · unfold release; simp only []; split <;> exact hU
    · unfold release; simp only []; split <;> rfl
  · simp only [hemp, Bool.false_eq_true, if_false]
    have hne : s.cfg.paths ≠ [] := by intro h; simp [h] at hemp
    -- step 1: the watcher
    have h1 : ∃ reg1, (ensureWatcher s).priv.watcher = some (s.cfg.kind, reg1) ∧ (ensureWatcher s).priv.wtype = s.cfg.kind ∧
        NodupNames reg1 ∧ (∀ x, x ∈ reg1 ↔ x ∈ (ensureWatcher s).priv.localSet) ∧ (ensureWatcher s).priv.localSet.Nodup ∧
        (ensureWatcher s).failW = [] ∧ (ensureWatcher s).failU = [] ∧ (ensureWatcher s).fx = s.fx ∧
        (ensureWatcher s).cfg = s.cfg ∧ Later (ensureWatcher s) s := by
      unfold ensureWatcher
      simp only []
      by_cases hcond : (s.watcher.isNone || s.wtype != s.cfg.kind) = true
      · simp only [hcond, if_true, hf]
        refine ⟨[], ?_, ?_, ?_, ?_, ?_, ?_, ?_, ?_, ?_, ?_⟩
        · split <;> rfl
        · split <;> rfl
        · intro a ha; cases ha
        · intro x; split <;> simp [St.priv]
        · split <;> exact List.nodup_nil
        · split <;> exact hW
        · split <;> exact hU
        · split <;> rfl
        · split <;> rfl
        · split <;> exact ⟨rfl, Nat.le_refl _, fun _ => ⟨rfl, rfl⟩, fun _ h => h, Or.inl rfl⟩
      · simp only [hcond, Bool.false_eq_true, if_false]
        simp only [Bool.or_eq_true, not_or] at hcond
        obtain ⟨hsome, hk⟩ := hcond
        cases hw : s.watcher with
        | none => simp [hw] at hsome
        | some kr =>
          obtain ⟨k, reg⟩ := kr
          have hok := hs.ok
          simp only [St.priv, hw] at hok
          obtain ⟨hwt, hnn, hmem⟩ := hok
          have hkk : s.wtype = s.cfg.kind := by simpa using hk
          refine ⟨reg, ?_, hkk, hnn, hmem, hs.nd, hW, hU, by first | rfl | trivial, by first | rfl | trivial, Later.refl s⟩
          simp [St.priv, hw, ← hwt, hkk]
    obtain ⟨reg1, w1, t1, nn1, m1, nd1, fw1, fu1, fx1, c1, l1⟩ := h1
    generalize ensureWatcher s = s1 at *
    rw [c1, plan_eq]
    simp only []
    -- step 2: drops
    obtain ⟨pu, fu2, fw2, fx2⟩ := foldl_unwatch_priv (s1.localSet.filter (fun p => !s.cfg.paths.contains p)) s1 fu1
    have fw2' : (List.foldl doUnwatch s1 (s1.localSet.filter (fun p => !s.cfg.paths.contains p))).failW = [] := fw2.trans fw1
    obtain ⟨reg2, w2, t2, nn2, m2, nd2, l2⟩ := dropFold (s1.localSet.filter (fun p => !s.cfg.paths.contains p)) s1.priv
      s.cfg.kind reg1 (List.Nodup.sublist List.filter_sublist nd1) w1 nn1 m1 nd1
      (fun d hd => (List.mem_filter.mp hd).1)
    -- step 3: watches
    obtain ⟨pw, fw3, fu3, fx3⟩ := foldl_watch_priv (s.cfg.paths.filter (fun p => !s1.localSet.contains p)) _ fw2'
    have hcompat : ∀ w ∈ s.cfg.paths.filter (fun p => !s1.localSet.contains p), ∀ y ∈ reg2, y.name = w.name → y = w := by
      intro w hw y hy hname
      have hyl := (m2 y).mp hy
      obtain ⟨hy1, hy2⟩ := (l2 y).mp hyl
      -- y survived the drops, so y ∈ cfg.paths
      have hycp : y ∈ s.cfg.paths := by
        by_cases h : y ∈ s.cfg.paths
        · exact h
        · exact absurd (List.mem_filter.mpr ⟨hy1, by simpa using h⟩) hy2
      exact hc y hycp w (List.mem_filter.mp hw).1 hname
    have hnnw : NodupNames (s.cfg.paths.filter (fun p => !s1.localSet.contains p)) :=
      fun a ha b hb => hc a (List.mem_filter.mp ha).1 b (List.mem_filter.mp hb).1
    obtain ⟨reg3, w3, t3, m3, nd3, l3⟩ := watchFold (s.cfg.paths.filter (fun p => !s1.localSet.contains p))
      (List.foldl unwP s1.priv (s1.localSet.filter (fun p => !s.cfg.paths.contains p))) s.cfg.kind reg2 w2 m2 nd2 hcompat hnnw
    rw [pu] at pw
    -- members of the final local set = configured paths
    have hfinal : ∀ x, x ∈ (List.foldl watP (List.foldl unwP s1.priv (s1.localSet.filter (fun p => !s.cfg.paths.contains p)))
        (s.cfg.paths.filter (fun p => !s1.localSet.contains p))).localSet ↔ x ∈ s.cfg.paths := by
      intro x
      rw [l3 x, l2 x, List.mem_filter, List.mem_filter]
      constructor
      · rintro (⟨hx1, hx2⟩ | ⟨hx, _⟩)
        · by_cases h : x ∈ s.cfg.paths
          · exact h
          · exact absurd ⟨hx1, by simpa using h⟩ hx2
        · exact hx
      · intro hx
        by_cases hl : x ∈ s1.priv.localSet
        · exact Or.inl ⟨hl, by rintro ⟨_, h⟩; simp [hx] at h⟩
        · exact Or.inr ⟨hx, by simpa [St.priv] using hl⟩
    have hreg : ∀ x, x ∈ reg3 ↔ x ∈ s.cfg.paths := fun x => (m3 x).trans (hfinal x)
    have hlater : Later (List.foldl doWatch (List.foldl doUnwatch s1 (s1.localSet.filter (fun p => !s.cfg.paths.contains p)))
        (s.cfg.paths.filter (fun p => !s1.localSet.contains p))) s :=
      ((later_foldl_watch _ _).trans (later_foldl_unwatch _ _)).trans l1
    refine ⟨?_, ?_, fw3, fu3.trans fu2, (fx3.trans fx2).trans fx1, hlater⟩
    · rw [pw]
      refine ⟨nd3, ?_⟩
      rw [w3]
      refine ⟨t3.trans (t2.trans t1), ?_, m3⟩
      intro a ha b hb hab
      exact hc a ((hreg a).mp ha) b ((hreg b).mp hb) hab
    · rw [pw]
      exact converged_of_sets hne w3 (t3.trans (t2.trans t1)) hreg hfinal

/-! whole runs -/

def wake (s : St) : Bool := s.pendingWake || (s.fx.f8b && s.seen != s.ver)

/-- the invariant over every reachable state of the repaired, fault-free worker -/
structure J (s : St) : Prop where
  fx : s.fx = ⟨true, true⟩
  fW : s.failW = []
  fU : s.failU = []
  sync : Sync' s.priv
  wfc : NodupNames s.cfg.paths
  wfh : ∀ h ∈ s.hooks, NodupNames h.2.paths
  q : wake s = false → Converged s.cfg s.priv

theorem J_iteration {s : St} (h : J s) :
    J (iteration { s with pendingWake := false, seen := s.ver }) := by
  have hf : ({ s with pendingWake := false, seen := s.ver } : St).fx.f8a = true := by
    show s.fx.f8a = true; rw [h.fx]
  obtain ⟨sy, cv, fw, fu, fx, lt⟩ := iteration_core { s with pendingWake := false, seen := s.ver } hf h.fW h.fU h.sync h.wfc
  generalize iteration { s with pendingWake := false, seen := s.ver } = s1 at *
  have hcfg : NodupNames s1.cfg.paths := by
    rcases lt.cfgFrom with hc | ⟨hk, hh, hc⟩
    · rw [hc]; exact h.wfc
    · rw [hc]; exact h.wfh hk hh
  refine ⟨fx.trans h.fx, fw, fu, sy, hcfg, fun hk hh => h.wfh hk (lt.hooks hk hh), ?_⟩
  intro hw
  have hfx : s1.fx.f8b = true := by rw [fx]; show s.fx.f8b = true; rw [h.fx]
  simp only [wake, hfx, Bool.true_and, Bool.or_eq_false_iff, bne_eq_false_iff_eq] at hw
  have hv : s1.ver = ({ s with pendingWake := false, seen := s.ver } : St).ver := by
    rw [← hw.2, lt.seen]
  rw [(lt.same hv).1]
  exact cv

theorem J_runWorker (fuel : Nat) {s : St} (h : J s) : J (runWorker fuel s) := by
  induction fuel generalizing s with
  | zero => exact h
  | succ n ih =>
    unfold runWorker
    simp only []
    by_cases hw : (s.pendingWake || (s.fx.f8b && s.seen != s.ver)) = true
    · simp only [hw, if_true]; exact ih (J_iteration h)
    · simp only [hw, Bool.false_eq_true, if_false]; exact h

/-- a client changes the configuration while the worker is parked -/
theorem J_applyCfg {s : St} (c : Cfg) (hc : NodupNames c.paths) (h : J s) : J (applyCfg s c true) :=
  ⟨h.fx, h.fW, h.fU, h.sync, hc, h.wfh, fun hw => by simp [wake, applyCfg] at hw⟩

/-- … or arranges for a change to land inside the next watch/unwatch call on `n` -/
theorem J_addHook {s : St} (n : String) (c : Cfg) (hc : NodupNames c.paths) (h : J s) :
    J { s with hooks := [(n, c)] } :=
  ⟨h.fx, h.fW, h.fU, h.sync, h.wfc, fun hk hh => by simp at hh; subst hh; exact hc, h.q⟩

theorem J_init : J (runWorker 16 { fx := ⟨true, true⟩ }) := by
  apply J_runWorker
  refine ⟨rfl, rfl, rfl, ⟨List.nodup_nil, rfl⟩, ?_, ?_, ?_⟩
  · intro a ha; simp at ha
  · intro h hh; simp at hh
  · intro hw; simp [wake] at hw

/-- **C13 (convergence, repaired, fault-free)** — whatever sequence of configuration changes was made,
    while the worker was parked or from inside its own `watch`/`unwatch` calls: whenever the worker is
    quiescent again, the active watcher has the configured kind and exactly the configured paths
    registered (which is also what the worker believes), and no watcher exists iff the set is empty. -/
theorem c13_converges {s : St} (h : J s) (fuel : Nat) :
    wake (runWorker fuel s) = false → Converged (runWorker fuel s).cfg (runWorker fuel s).priv :=
  (J_runWorker fuel h).q

/-! today's code: two witnesses, checked by evaluation -/

def a' : WP := ⟨"a", true⟩
def b' : WP := ⟨"b", true⟩

/-- F8a: native → poll with the same path set registers nothing with the new watcher -/
theorem f8a_witness :
    let s1 := runWorker 16 (applyCfg (runWorker 16 {}) ⟨[a'], .native⟩ true)
    let s2 := runWorker 16 (applyCfg s1 ⟨[a'], .poll⟩ true)
    wake s2 = false ∧ s2.watcher = some (.poll, []) := by decide

/-- F8b: a change made from inside `watch(a)` is never applied -/
theorem f8b_witness :
    let s0 : St := { runWorker 16 {} with hooks := [("a", ⟨[a', b'], .native⟩)] }
    let s1 := runWorker 16 (applyCfg s0 ⟨[a'], .native⟩ true)
    wake s1 = false ∧ s1.cfg.paths = [a', b'] ∧ s1.watcher = some (.native, [a']) := by decide

#print axioms c13_converges
end Fw
