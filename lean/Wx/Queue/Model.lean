/-! Queue mode of the CLI (`--on-busy-update=queue`): action handler, job task, follow-up tasks.
    Abstract interleaving model with three variants of the follow-up protocol. -/
namespace Qm

inductive Variant
  | today        -- AtomicBool; follow-up: to_wait, start, (run), reset
  | reorder      -- AtomicBool; follow-up: to_wait, reset, start       (first repair idea — insufficient)
  | perRun       -- remembers WHICH run the follow-up waits for        (repair that works)
  deriving Repr, DecidableEq

inductive Ctl | query | start deriving Repr, DecidableEq

structure St where
  v : Variant
  running : Bool := false
  runId : Nat := 0             -- id of the current / last run (= number of spawns)
  runSince : Nat := 0          -- number of changes handled when that run was spawned
  queue : List Ctl := []       -- job's normal queue
  queued : Bool := false       -- today / reorder: the AtomicBool
  queuedFor : Option Nat := none   -- perRun: the run a follow-up is already waiting for
  waiting : Option Nat := none -- the follow-up task blocked in `to_wait` (there is at most one), and for which run
  woken : List Nat := []       -- follow-up tasks whose process has ended and that have not acted yet (their runs)
  second : Nat := 0            -- today / reorder: tasks between their two actions
  changes : Nat := 0
  deriving Repr

inductive Ev
  | change | jobStep | procEnd
  | wokenStep (r : Nat)        -- a woken follow-up task (for run r) acts
  | secondStep                 -- a task performs its second action
  deriving Repr, DecidableEq

def spawn (s : St) : St := { s with running := true, runId := s.runId + 1, runSince := s.changes }

def queryRunning (s : St) : St :=
  match s.v with
  | .perRun =>
    if s.queuedFor == some s.runId then s
    else { s with queuedFor := some s.runId, waiting := some s.runId }
  | _ => if s.queued then s else { s with queued := true, waiting := some s.runId }

def wokenStep (s : St) (r : Nat) : St :=
  if !s.woken.contains r then s else
  match s.v with
  | .today => { s with woken := s.woken.erase r, queue := s.queue ++ [.start], second := s.second + 1 }
  | .reorder => { s with woken := s.woken.erase r, queued := false, second := s.second + 1 }
  | .perRun =>
    { s with woken := s.woken.erase r, queue := s.queue ++ [.start],
             queuedFor := (if s.queuedFor == some r then none else s.queuedFor) }

def secondStep (s : St) : St :=
  if s.second == 0 then s else
  let s := { s with second := s.second - 1 }
  match s.v with
  | .today => { s with queued := false }
  | .reorder => { s with queue := s.queue ++ [.start] }
  | .perRun => s

def jobStep (s : St) : St :=
  match s.queue with
  | [] => s
  | .start :: r => if s.running then { s with queue := r } else spawn { s with queue := r }
  | .query :: r => if s.running then queryRunning { s with queue := r } else { s with queue := r ++ [.start] }

def procEnd (s : St) : St :=
  if s.running then
    match s.waiting with
    | some r => { s with running := false, waiting := none, woken := s.woken ++ [r] }
    | none => { s with running := false }
  else s

def step (s : St) : Ev → St
  | .change => { s with changes := s.changes + 1, queue := s.queue ++ [.query] }
  | .procEnd => procEnd s
  | .jobStep => jobStep s
  | .wokenStep r => wokenStep s r
  | .secondStep => secondStep s

def run (s : St) : List Ev → St
  | [] => s
  | e :: es => run (step s e) es

/-- nothing can happen any more except a process end or a new change -/
def quiescent (s : St) : Bool := s.queue.isEmpty && s.woken.isEmpty && s.second == 0

/-- the last change is followed by a run that started after it, or one is still owed behind the live process -/
def fresh (s : St) : Bool := s.runSince == s.changes || (s.running && s.waiting == some s.runId)

end Qm
