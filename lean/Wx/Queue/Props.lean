import Wx.Queue.Model
namespace Qm

/-- F10: today's protocol reaches a quiescent, stale state (change 3 is dropped while run 2 predates it) -/
theorem f10_today :
    let s := run { v := .today }
      [.change, .jobStep, .jobStep,            -- change 1: not running → start → run 1
       .change, .jobStep,                      -- change 2 while busy: follow-up task created
       .procEnd, .wokenStep 1, .jobStep,       -- run 1 ends; follow-up sends start (flag still set); run 2
       .change, .jobStep,                      -- change 3: running ∧ queued → dropped
       .secondStep]                            -- follow-up resets the flag and ends
    quiescent s = true ∧ fresh s = false := by decide

/-- resetting the flag before the start is NOT enough -/
theorem reorder_insufficient :
    let s := run { v := .reorder }
      [.change, .jobStep, .jobStep,            -- run 1
       .change, .jobStep,                      -- change 2 while busy: follow-up task (flag set)
       .procEnd,                               -- run 1 ends; the follow-up is woken but has not run yet
       .change, .jobStep, .jobStep,            -- change 3: not running → start → run 2
       .change, .jobStep,                      -- change 4: running ∧ flag still set → dropped
       .wokenStep 1, .secondStep, .jobStep]    -- follow-up: reset, then start (a no-op: run 2 is live)
    quiescent s = true ∧ fresh s = false := by decide

/-! ### the per-run protocol is always fresh -/

structure Inv (s : St) : Prop where
  v : s.v = .perRun
  mono : s.runSince ≤ s.changes
  le : ∀ r, s.queuedFor = some r → r ≤ s.runId
  a1 : s.running = true → s.queuedFor = some s.runId → s.waiting = some s.runId
  a2 : ∀ r, s.waiting = some r → r = s.runId ∧ s.running = true
  cov : s.runSince < s.changes →
        Ctl.query ∈ s.queue ∨ (s.running = true ∧ s.waiting = some s.runId) ∨
        (s.running = false ∧ (Ctl.start ∈ s.queue ∨ s.woken ≠ []))

theorem inv_init : Inv { v := .perRun } :=
  ⟨rfl, Nat.le_refl _, fun r h => by simp at h, fun h => by simp at h, fun r h => by simp at h, fun h => by simp at h⟩

theorem inv_change {s : St} (h : Inv s) : Inv { s with changes := s.changes + 1, queue := s.queue ++ [.query] } :=
  ⟨h.v, Nat.le_succ_of_le h.mono, h.le, h.a1, h.a2, fun _ => Or.inl (by simp)⟩

theorem inv_procEnd {s : St} (h : Inv s) : Inv (procEnd s) := by
  unfold procEnd
  by_cases hr : s.running = true
  · rw [if_pos hr]
    cases hw : s.waiting with
    | none =>
      refine ⟨h.v, h.mono, h.le, fun hh => by simp at hh, fun r hh => by simp [hw] at hh, ?_⟩
      intro hlt
      rcases h.cov hlt with hh | ⟨_, hh⟩ | ⟨hh, _⟩
      · exact Or.inl hh
      · rw [hw] at hh; cases hh
      · rw [hr] at hh; cases hh
    | some r =>
      refine ⟨h.v, h.mono, h.le, fun hh => by simp at hh, fun r' hh => by simp at hh, ?_⟩
      intro hlt
      rcases h.cov hlt with hh | ⟨_, _⟩ | ⟨hh, _⟩
      · exact Or.inl hh
      · exact Or.inr (Or.inr ⟨rfl, Or.inr (by simp)⟩)
      · rw [hr] at hh; cases hh
  · rw [if_neg hr]; exact h

theorem inv_jobStep {s : St} (h : Inv s) : Inv (jobStep s) := by
  unfold jobStep
  cases hq : s.queue with
  | nil => exact h
  | cons c rest =>
    have hcov' := h.cov
    rw [hq] at hcov'
    cases c with
    | start =>
      simp only []
      by_cases hr : s.running = true
      · rw [if_pos hr]
        refine ⟨(by first | exact h.v | rfl), h.mono, h.le, h.a1, h.a2, ?_⟩
        intro hlt
        rcases hcov' hlt with hh | hh | ⟨hh, _⟩
        · simp at hh; exact Or.inl hh
        · exact Or.inr (Or.inl hh)
        · rw [hr] at hh; cases hh
      · rw [if_neg hr]
        unfold spawn
        refine ⟨(by first | exact h.v | rfl), Nat.le_refl _, ?_, ?_, ?_, ?_⟩
        · intro r hh; exact Nat.le_succ_of_le (h.le r hh)
        · intro _ hh
          have := h.le (s.runId + 1) hh
          omega
        · intro r hh
          exact absurd (h.a2 r hh).2 hr
        · intro hlt; simp at hlt
    | query =>
      simp only []
      by_cases hr : s.running = true
      · rw [if_pos hr]
        unfold queryRunning
        simp only [h.v]
        by_cases hqf : s.queuedFor = some s.runId
        · have hb : (s.queuedFor == some s.runId) = true := by simp [hqf]
          rw [if_pos hb]
          exact ⟨(by first | exact h.v | rfl), h.mono, h.le, h.a1, h.a2, fun _ => Or.inr (Or.inl ⟨hr, h.a1 hr hqf⟩)⟩
        · have hb : ¬ (s.queuedFor == some s.runId) = true := by simpa using hqf
          rw [if_neg hb]
          refine ⟨(by first | exact h.v | rfl), h.mono, ?_, fun _ _ => rfl, ?_, fun _ => Or.inr (Or.inl ⟨hr, rfl⟩)⟩
          · intro r hh; simp at hh; subst hh; exact Nat.le_refl _
          · intro r hh; simp at hh; exact ⟨hh.symm, hr⟩
      · rw [if_neg hr]
        have hrf : s.running = false := by simpa using hr
        exact ⟨(by first | exact h.v | rfl), h.mono, h.le, h.a1, h.a2, fun _ => Or.inr (Or.inr ⟨hrf, Or.inl (by simp)⟩)⟩

theorem inv_wokenStep {s : St} (h : Inv s) (r : Nat) : Inv (wokenStep s r) := by
  unfold wokenStep
  split
  · exact h
  · rw [h.v]
    simp only []
    refine ⟨rfl, h.mono, ?_, ?_, h.a2, ?_⟩
    · intro r' hh
      simp only [] at hh
      split at hh
      · cases hh
      · exact h.le r' hh
    · intro hr hh
      simp only [] at hh
      split at hh
      · cases hh
      · exact h.a1 hr hh
    · intro hlt
      rcases h.cov hlt with hh | hh | ⟨hh, _⟩
      · exact Or.inl (List.mem_append_left _ hh)
      · exact Or.inr (Or.inl hh)
      · exact Or.inr (Or.inr ⟨hh, Or.inl (by simp)⟩)

theorem inv_secondStep {s : St} (h : Inv s) : Inv (secondStep s) := by
  unfold secondStep
  by_cases h0 : (s.second == 0) = true
  · rw [if_pos h0]; exact h
  · rw [if_neg h0]; simp only [h.v]; exact ⟨(by first | exact h.v | rfl), h.mono, h.le, h.a1, h.a2, h.cov⟩

theorem inv_step {s : St} (h : Inv s) (e : Ev) : Inv (step s e) := by
  cases e with
  | change => exact inv_change h
  | procEnd => exact inv_procEnd h
  | jobStep => exact inv_jobStep h
  | wokenStep r => exact inv_wokenStep h r
  | secondStep => exact inv_secondStep h

theorem inv_run (es : List Ev) {s : St} (h : Inv s) : Inv (run s es) := by
  induction es generalizing s with
  | nil => exact h
  | cons e es ih => exact ih (inv_step h e)

/-- **C05 freshness, queue mode, per-run protocol** — for every interleaving of changes, job-task
    steps, process ends and follow-up-task steps: whenever nothing is left to do, the last change has
    been followed by a run that started after it, or such a run is owed behind the live process. -/
theorem perRun_fresh (es : List Ev) :
    quiescent (run { v := .perRun } es) = true → fresh (run { v := .perRun } es) = true := by
  intro hq
  have h := inv_run es inv_init
  generalize run { v := .perRun } es = s at *
  simp only [quiescent, Bool.and_eq_true, List.isEmpty_iff, beq_iff_eq] at hq
  obtain ⟨⟨hq1, hq2⟩, _⟩ := hq
  simp only [fresh, Bool.or_eq_true, Bool.and_eq_true, beq_iff_eq]
  by_cases hlt : s.runSince < s.changes
  · rcases h.cov hlt with hh | hh | ⟨_, hh | hh⟩
    · rw [hq1] at hh; cases hh
    · exact Or.inr hh
    · rw [hq1] at hh; cases hh
    · exact absurd hq2 hh
  · left
    have := h.mono
    omega

#print axioms perRun_fresh
end Qm
