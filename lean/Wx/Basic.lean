def hello := "world"
