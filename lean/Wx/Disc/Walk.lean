/-! C14 core: depth-first discovery with ONE growing filter equals judging every directory by the
    ignore files of its proper ancestors only. Abstract in the filter (`Env.ign`) — the scoping law it
    needs is C03's theorem. -/
namespace Dw

abbrev Str := List Char
abbrev Dir := List Str            -- components below the origin; [] is the origin

mutual
inductive T where
  | node (name : Str) (kids : Ts)
inductive Ts where
  | nil
  | cons (t : T) (ts : Ts)
end

def Ts.toList : Ts → List T
  | .nil => []
  | .cons t ts => t :: ts.toList

/-- proper ancestors of `d` -/
def properAnc (a d : Dir) : Bool := a.isPrefixOf d && a != d

structure Env where
  /-- is directory `d` ignored, given the set of directories whose ignore files are loaded -/
  ign : List Dir → Dir → Bool
  related : Dir → Bool
  /-- C03: only the files of proper ancestors matter -/
  scoping : ∀ L d, ign L d = ign (L.filter (fun a => properAnc a d)) d
  /-- the loaded files form a set (the trie is keyed by directory) -/
  setlike : ∀ L L' d, (∀ a, a ∈ L ↔ a ∈ L') → ign L d = ign L' d

mutual
/-- the walker (after repair F14: a directory is judged when it is popped, i.e. after its parent's
    files were loaded): `L` = directories whose files are in the one global filter -/
def visit (e : Env) (L : List Dir) (par : Dir) : T → List Dir
  | .node name kids =>
    let d := par ++ [name]
    if e.ign L d || !e.related d then L else visits e (d :: L) d kids
def visits (e : Env) (L : List Dir) (par : Dir) : Ts → List Dir
  | .nil => L
  | .cons t ts => visits e (visit e L par t) par ts
end

mutual
/-- the specification: a directory is judged by its proper ancestors' files only -/
def sv (e : Env) (anc : List Dir) (par : Dir) : T → List Dir
  | .node name kids =>
    let d := par ++ [name]
    if e.ign anc d || !e.related d then [] else d :: svs e (d :: anc) d kids
def svs (e : Env) (anc : List Dir) (par : Dir) : Ts → List Dir
  | .nil => []
  | .cons t ts => sv e anc par t ++ svs e anc par ts
end

end Dw
