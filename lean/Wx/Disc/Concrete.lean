import Wx.Disc.C14Inst
import Wx.Glob.Discover
/-! The PROVED abstract walker (`Dw.visit'`, with `Dw.specEnv` = C03's specification of the filter) instantiated on a
    concrete tree description and the concrete glob matcher — the third thing the C14 stream runs next to the operational
    model of `from_origin` and its specification: what the theorems `visit_spec'` / `discovery_with_c03_filter` talk about is
    thereby compared with the real crate on every generated tree. -/
namespace Dw
open Sp.Disc Sp.IF

def lastComp (p : Str) : Str := (p.reverse.takeWhile (· != '/')).reverse

mutual
/-- the abstract tree below a directory (`fuel` ≥ number of directories) -/
def mkT (t : Tree) : Nat → Str → T
  | 0, p => .node (lastComp p) .nil
  | f + 1, p => .node (lastComp p) (mkTs t f (t.kids p))
def mkTs (t : Tree) : Nat → List Str → Ts
  | 0, _ => .nil
  | _, [] => .nil
  | f + 1, c :: cs => .cons (mkT t f c) (mkTs t f cs)
end

/-- a directory below the origin, as a path -/
def pathOf (origin : Str) (d : Dir) : Str := d.foldl (fun p n => join p (String.ofList n)) origin

/-- the verdict the ignore files STORED IN directory `k` (plus, at the origin, the origin-level files) give about directory `d` -/
def nvOf (t : Tree) (origin : Str) (anc0 : List (Option Str × List Str)) (k d : Dir) : Option Bool :=
  let files := (if k = [] then anc0 else []) ++ dirFiles t (pathOf origin k)
  if files.isEmpty then none else
  match files.foldl (fun acc (ai, ls) => acc.bind (fun f => f.add ai ls)) (Filter.new origin []) with
  | none => none
  | some f => match f.specMatch (pathOf origin d) true with
    | .ignore _ _ => some true
    | .whitelist _ _ => some false
    | .none => none

def vcsTop : List Str := [".git", ".hg", ".bzr", "_darcs", ".fossil-settings", ".svn", ".pijul"].map String.toList

/-- `from_origin` as the proved walker sees it: the files of the directories `visits'` loads, plus the origin-level ones -/
def discoverB (t : Tree) (origin : Str) (watches : List Str) (explicit : List Str) : List Str :=
  let fixedNames := [".bzrignore", "_darcs/prefs/boring", ".fossil-settings/ignore-glob", ".git/info/exclude"]
  let fixed := fixedNames.filterMap (fun n => (t.file? (join origin n)).map (fun ls => (join origin n, ls)))
  let anc0 : List (Option Str × List Str) :=
    explicit.map (fun p => (some origin, (t.file? p).getD [])) ++ fixed.map (fun (_, ls) => (some origin, ls))
  if !related watches origin then fixed.map (·.1) else
  let rel : Dir → Bool := fun d => related watches (pathOf origin d) && !(d.length == 1 && vcsTop.contains (d.getLast?.getD []))
  let env := specEnv (nvOf t origin anc0) rel
  let fuel := t.children.length + (t.children.map (·.2.length)).sum + 2
  let loaded := visits' env [[]] [] (mkTs t fuel (t.kids origin))
  fixed.map (·.1) ++ loaded.flatMap (fun d =>
    [".ignore", ".gitignore", ".hgignore"].filterMap (fun n => (t.file? (join (pathOf origin d) n)).map (fun _ => join (pathOf origin d) n)))

end Dw
