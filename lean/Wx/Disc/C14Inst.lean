import Wx.Disc.C14wf
import Wx.Glob.C03
/-! C14 ∘ C03: the abstract discovery environment instantiated with C03's specification of `match_path`.
    `nv k d` is the verdict that the ignore files stored in directory `k` give about directory `d` (a function of `k`'s own
    files only — how the filter builds its nodes); a directory is ignored when nearest-ancestor-first evaluation over the
    LOADED directories says so. The scoping law the walker theorem needs is then C03's `scoping_law`, and set-likeness is
    `spec_keys_congr` — so the walker = specification theorem holds for the filter that C03 proves `match_path` to be. -/
namespace Dw
open Sp.C03

def specEnv (nv : Dir → Dir → Option Bool) (rel : Dir → Bool) : Env' where
  ign := fun L d => spec L (fun k => nv k d) d == some true
  related := rel
  scoping := by
    intro L d hd
    have h := scoping_law L (fun k => nv k d) d hd
    simp only [properAnc]
    rw [h]
  setlike := by
    intro L L' d h
    rw [spec_keys_congr L L' (fun k => nv k d) d (fun k _ => h k)]

/-- **discovery with the real filter's semantics computes the discovery specification**: for every per-directory verdict
    assignment, every well-formed tree, every state of the walk in which the node's ancestors are loaded and nothing at or
    below the node is -/
theorem discovery_with_c03_filter (nv : Dir → Dir → Option Bool) (rel : Dir → Bool) (t : T) (L anc : List Dir) (par : Dir)
    (h : AncOk L anc par) (hw : wf t = true) (hf : ∀ x ∈ L, ¬ (par ++ [t.name]) <+: x) :
    ∀ x, x ∈ visit' (specEnv nv rel) L par t ↔ x ∈ L ∨ x ∈ sv' (specEnv nv rel) anc par t :=
  visit_spec' (specEnv nv rel) t L anc par h hw hf

/-- non-vacuity: `out/` ignored by the root's files, re-included by `sub`'s own file (the F14 shape): `sub/out` IS discovered -/
example :
    let nv : Dir → Dir → Option Bool := fun k d =>
      if k = [] ∧ d.getLast? = some "out".toList then some true           -- root .gitignore: `out/`
      else if k = ["sub".toList] ∧ d = ["sub".toList, "out".toList] then some false   -- sub/.gitignore: `!out/`
      else none
    let tree := T.node "sub".toList (.cons (.node "out".toList .nil) .nil)
    visit' (specEnv nv (fun _ => true)) [[]] [] tree = [["sub".toList, "out".toList], ["sub".toList], []] := by decide

#print axioms discovery_with_c03_filter
end Dw
