import Wx.Disc.C14
/-! C14 core again, with the scoping law required only for directories that are not themselves loaded
    (a directory's own ignore files are never consulted for the directory itself: they are loaded after
    it has been judged) — needs sibling names to be distinct, which a filesystem guarantees. -/
namespace Dw

def T.name : T → Str | .node n _ => n
def Ts.names : Ts → List Str
  | .nil => []
  | .cons t ts => t.name :: ts.names

mutual
def wf : T → Bool
  | .node _ kids => wfs kids
def wfs : Ts → Bool
  | .nil => true
  | .cons t ts => wf t && wfs ts && !ts.names.contains t.name
end

structure Env' where
  ign : List Dir → Dir → Bool
  related : Dir → Bool
  scoping : ∀ L d, d ∉ L → ign L d = ign (L.filter (fun a => properAnc a d)) d
  setlike : ∀ L L' d, (∀ a, a ∈ L ↔ a ∈ L') → ign L d = ign L' d

mutual
def visit' (e : Env') (L : List Dir) (par : Dir) : T → List Dir
  | .node name kids =>
    let d := par ++ [name]
    if e.ign L d || !e.related d then L else visits' e (d :: L) d kids
def visits' (e : Env') (L : List Dir) (par : Dir) : Ts → List Dir
  | .nil => L
  | .cons t ts => visits' e (visit' e L par t) par ts
end

mutual
def sv' (e : Env') (anc : List Dir) (par : Dir) : T → List Dir
  | .node name kids =>
    let d := par ++ [name]
    if e.ign anc d || !e.related d then [] else d :: svs' e (d :: anc) d kids
def svs' (e : Env') (anc : List Dir) (par : Dir) : Ts → List Dir
  | .nil => []
  | .cons t ts => sv' e anc par t ++ svs' e anc par ts
end

theorem names_mem (ts : Ts) (t : T) (h : t ∈ ts.toList) : t.name ∈ ts.names := by
  induction ts using Ts.rec (motive_1 := fun _ => True) with
  | node => trivial
  | nil => simp [Ts.toList] at h
  | cons a ts _ ih =>
    simp only [Ts.toList, List.mem_cons] at h
    simp only [Ts.names, List.mem_cons]
    rcases h with rfl | h
    · exact Or.inl rfl
    · exact Or.inr (ih h)

theorem sv'_under (e : Env') (t : T) :
    ∀ (anc : List Dir) (par : Dir), ∀ x ∈ sv' e anc par t, par ++ [t.name] <+: x := by
  apply T.rec
    (motive_1 := fun t => ∀ (anc : List Dir) (par : Dir), ∀ x ∈ sv' e anc par t, par ++ [t.name] <+: x)
    (motive_2 := fun ts => ∀ (anc : List Dir) (par : Dir), ∀ x ∈ svs' e anc par ts, ∃ t ∈ ts.toList, par ++ [t.name] <+: x)
  · intro name kids ih anc par x hx
    simp only [sv'] at hx
    split at hx
    · cases hx
    · rcases List.mem_cons.1 hx with rfl | hx
      · exact List.prefix_refl _
      · obtain ⟨t, _, ht⟩ := ih _ _ x hx
        exact (List.prefix_append _ _).trans ht
  · intro anc par x hx; simp [svs'] at hx
  · intro t ts iht ihts anc par x hx
    simp only [svs', List.mem_append] at hx
    rcases hx with hx | hx
    · exact ⟨t, by simp [Ts.toList], iht anc par x hx⟩
    · obtain ⟨t', ht', h⟩ := ihts anc par x hx
      exact ⟨t', by simp [Ts.toList, ht'], h⟩

theorem ign_eq' (e : Env') {L anc : List Dir} {par : Dir} (h : AncOk L anc par) (name : Str)
    (hfresh : par ++ [name] ∉ L) : e.ign L (par ++ [name]) = e.ign anc (par ++ [name]) := by
  have hanc : par ++ [name] ∉ anc := by
    intro hin
    have := ((h.1 _).1 hin).length_le
    simp at this; omega
  rw [e.scoping L _ hfresh, e.scoping anc _ hanc]
  apply e.setlike
  intro a
  simp only [List.mem_filter, properAnc_iff]
  constructor
  · rintro ⟨_, hp⟩; exact ⟨(h.1 a).2 hp, hp⟩
  · rintro ⟨_, hp⟩; exact ⟨h.2 a hp, hp⟩

theorem concat_prefix_inj {par x : Dir} {n m : Str} (h1 : par ++ [n] <+: x) (h2 : par ++ [m] <+: x) : n = m := by
  have := List.prefix_of_prefix_length_le h1 h2 (by simp)
  have h3 := List.IsPrefix.eq_of_length this (by simp)
  simpa using h3

/-- **C14 (core, filesystem-shaped trees)** -/
theorem visit_spec' (e : Env') (t : T) :
    ∀ (L anc : List Dir) (par : Dir), AncOk L anc par → wf t = true →
      (∀ x ∈ L, ¬ (par ++ [t.name] <+: x)) →
      ∀ x, x ∈ visit' e L par t ↔ x ∈ L ∨ x ∈ sv' e anc par t := by
  apply T.rec
    (motive_1 := fun t => ∀ (L anc : List Dir) (par : Dir), AncOk L anc par → wf t = true →
      (∀ x ∈ L, ¬ (par ++ [t.name] <+: x)) →
      ∀ x, x ∈ visit' e L par t ↔ x ∈ L ∨ x ∈ sv' e anc par t)
    (motive_2 := fun ts => ∀ (L anc : List Dir) (par : Dir), AncOk L anc par → wfs ts = true →
      (∀ t ∈ ts.toList, ∀ x ∈ L, ¬ (par ++ [t.name] <+: x)) →
      ∀ x, x ∈ visits' e L par ts ↔ x ∈ L ∨ x ∈ svs' e anc par ts)
  · intro name kids ih L anc par h hwf hfr x
    simp only [visit', sv']
    have hd : par ++ [name] ∉ L := fun hin => hfr _ hin (List.prefix_refl _)
    rw [ign_eq' e h name hd]
    split
    · simp
    · have hfr' : ∀ t ∈ kids.toList, ∀ x ∈ (par ++ [name]) :: L, ¬ ((par ++ [name]) ++ [t.name] <+: x) := by
        intro t _ x hx hp
        rcases List.mem_cons.1 hx with rfl | hx
        · have := hp.length_le; simp at this
        · exact hfr x hx ((List.prefix_append _ _).trans hp)
      rw [ih _ _ _ (ancOk_step h name) (by simpa [wf] using hwf) hfr' x]
      simp only [List.mem_cons]
      constructor
      · rintro ((h1 | h1) | h1)
        · exact Or.inr (Or.inl h1)
        · exact Or.inl h1
        · exact Or.inr (Or.inr h1)
      · rintro (h1 | h1 | h1)
        · exact Or.inl (Or.inr h1)
        · exact Or.inl (Or.inl h1)
        · exact Or.inr h1
  · intro L anc par _ _ _ x
    simp [visits', svs']
  · intro t ts iht ihts L anc par h hwf hfr x
    simp only [visits', svs']
    simp only [wfs, Bool.and_eq_true, Bool.not_eq_true'] at hwf
    obtain ⟨⟨hwt, hwts⟩, hnm⟩ := hwf
    have ht := iht L anc par h hwt (hfr t (by simp [Ts.toList]))
    have h' : AncOk (visit' e L par t) anc par :=
      ⟨h.1, fun a ha => (ht a).2 (Or.inl (h.2 a ha))⟩
    have hfr' : ∀ t' ∈ ts.toList, ∀ x ∈ visit' e L par t, ¬ (par ++ [t'.name] <+: x) := by
      intro t' ht' x hx hp
      rcases (ht x).1 hx with hx | hx
      · exact hfr t' (by simp [Ts.toList, ht']) x hx hp
      · have := concat_prefix_inj (sv'_under e t anc par x hx) hp
        have hin := names_mem ts t' ht'
        rw [← this] at hin
        have : ts.names.contains t.name = true := by simpa using hin
        rw [this] at hnm; cases hnm
    rw [ihts _ _ _ h' hwts hfr' x, ht x, List.mem_append]
    constructor
    · rintro ((h1 | h1) | h1)
      · exact Or.inl h1
      · exact Or.inr (Or.inl h1)
      · exact Or.inr (Or.inr h1)
    · rintro (h1 | h1 | h1)
      · exact Or.inl (Or.inl h1)
      · exact Or.inl (Or.inr h1)
      · exact Or.inr h1

#print axioms visit_spec'
end Dw
