import Wx.Disc.Walk
namespace Dw

theorem properAnc_iff (a par : Dir) (name : Str) : properAnc a (par ++ [name]) = true ↔ a <+: par := by
  unfold properAnc
  simp only [Bool.and_eq_true, List.isPrefixOf_iff_prefix, bne_iff_ne, ne_eq]
  rw [List.prefix_concat_iff]
  constructor
  · rintro ⟨h | h, hne⟩
    · exact absurd h hne
    · exact h
  · intro h
    refine ⟨Or.inr h, ?_⟩
    intro he
    have := List.IsPrefix.length_le h
    rw [he] at this; simp at this; omega

/-- the ancestors' files are loaded, and `anc` is exactly the set of ancestors -/
def AncOk (L anc : List Dir) (par : Dir) : Prop := (∀ a, a ∈ anc ↔ a <+: par) ∧ (∀ a, a <+: par → a ∈ L)

theorem ign_eq (e : Env) {L anc : List Dir} {par : Dir} (h : AncOk L anc par) (name : Str) :
    e.ign L (par ++ [name]) = e.ign anc (par ++ [name]) := by
  rw [e.scoping L, e.scoping anc]
  apply e.setlike
  intro a
  simp only [List.mem_filter, properAnc_iff]
  constructor
  · rintro ⟨_, hp⟩; exact ⟨(h.1 a).2 hp, hp⟩
  · rintro ⟨_, hp⟩; exact ⟨h.2 a hp, hp⟩

theorem ancOk_step {L anc : List Dir} {par : Dir} (h : AncOk L anc par) (name : Str) :
    AncOk ((par ++ [name]) :: L) ((par ++ [name]) :: anc) (par ++ [name]) := by
  constructor
  · intro a
    rw [List.mem_cons, List.prefix_concat_iff, h.1 a]
  · intro a ha
    rcases List.prefix_concat_iff.1 ha with ha | ha
    · rw [ha]; exact List.mem_cons_self
    · exact List.mem_cons_of_mem _ (h.2 a ha)

/-- **C14 (core)** — the one-filter walker loads exactly `L` plus what the ancestors-only
    specification reaches -/
theorem visit_spec (e : Env) (t : T) :
    ∀ (L anc : List Dir) (par : Dir), AncOk L anc par →
      ∀ x, x ∈ visit e L par t ↔ x ∈ L ∨ x ∈ sv e anc par t := by
  apply T.rec
    (motive_1 := fun t => ∀ (L anc : List Dir) (par : Dir), AncOk L anc par →
      ∀ x, x ∈ visit e L par t ↔ x ∈ L ∨ x ∈ sv e anc par t)
    (motive_2 := fun ts => ∀ (L anc : List Dir) (par : Dir), AncOk L anc par →
      ∀ x, x ∈ visits e L par ts ↔ x ∈ L ∨ x ∈ svs e anc par ts)
  · intro name kids ih L anc par h x
    simp only [visit, sv]
    rw [ign_eq e h name]
    split
    · simp
    · rw [ih _ _ _ (ancOk_step h name) x]
      simp only [List.mem_cons]
      constructor
      · rintro ((h1 | h1) | h1)
        · exact Or.inr (Or.inl h1)
        · exact Or.inl h1
        · exact Or.inr (Or.inr h1)
      · rintro (h1 | h1 | h1)
        · exact Or.inl (Or.inr h1)
        · exact Or.inl (Or.inl h1)
        · exact Or.inr h1
  · intro L anc par _ x
    simp [visits, svs]
  · intro t ts iht ihts L anc par h x
    simp only [visits, svs]
    have h' : AncOk (visit e L par t) anc par :=
      ⟨h.1, fun a ha => (iht L anc par h a).2 (Or.inl (h.2 a ha))⟩
    rw [ihts _ _ _ h' x, iht L anc par h x, List.mem_append]
    constructor
    · rintro ((h1 | h1) | h1)
      · exact Or.inl h1
      · exact Or.inr (Or.inl h1)
      · exact Or.inr (Or.inr h1)
    · rintro (h1 | h1 | h1)
      · exact Or.inl (Or.inl h1)
      · exact Or.inl (Or.inr h1)
      · exact Or.inr h1

end Dw

namespace Dw

theorem svs_mem (e : Env) (anc : List Dir) (par : Dir) (ts : Ts) (x : Dir) :
    x ∈ svs e anc par ts ↔ ∃ t ∈ ts.toList, x ∈ sv e anc par t := by
  induction ts using Ts.rec (motive_1 := fun _ => True) with
  | node => trivial
  | nil => simp [svs, Ts.toList]
  | cons t ts _ ih => simp [svs, Ts.toList, ih]

/-- listing order at one level does not matter -/
theorem svs_perm (e : Env) (anc : List Dir) (par : Dir) (ts ts' : Ts) (h : ∀ t, t ∈ ts.toList ↔ t ∈ ts'.toList) (x : Dir) :
    x ∈ svs e anc par ts ↔ x ∈ svs e anc par ts' := by
  rw [svs_mem, svs_mem]
  constructor <;> rintro ⟨t, ht, hx⟩
  · exact ⟨t, (h t).1 ht, hx⟩
  · exact ⟨t, (h t).2 ht, hx⟩

-- same trees up to the order of children, at every level
mutual
inductive TEq : T → T → Prop
  | node (name : Str) (k k' : Ts) : TsEq k k' → TEq (.node name k) (.node name k')
inductive TsEq : Ts → Ts → Prop
  | nil : TsEq .nil .nil
  | cons (t t' : T) (k k' : Ts) : TEq t t' → TsEq k k' → TsEq (.cons t k) (.cons t' k')
  | swap (a b : T) (k : Ts) : TsEq (.cons a (.cons b k)) (.cons b (.cons a k))
  | trans (k1 k2 k3 : Ts) : TsEq k1 k2 → TsEq k2 k3 → TsEq k1 k3
end

/-- **C14 (listing order)** — the discovered set does not depend on the order in which directories
    are listed, at any depth -/
theorem sv_order (e : Env) (t t' : T) (h : TEq t t') :
    ∀ (anc : List Dir) (par : Dir) (x : Dir), x ∈ sv e anc par t ↔ x ∈ sv e anc par t' := by
  apply TEq.rec
    (motive_1 := fun t t' _ => ∀ (anc : List Dir) (par : Dir) (x : Dir), x ∈ sv e anc par t ↔ x ∈ sv e anc par t')
    (motive_2 := fun k k' _ => ∀ (anc : List Dir) (par : Dir) (x : Dir), x ∈ svs e anc par k ↔ x ∈ svs e anc par k')
    (t := h)
  · intro name k k' _ ih anc par x
    simp only [sv]
    split
    · rfl
    · simp only [List.mem_cons, ih]
  · intro anc par x; rfl
  · intro t t' k k' _ _ ih1 ih2 anc par x
    simp only [svs, List.mem_append, ih1, ih2]
  · intro a b k anc par x
    simp only [svs, List.mem_append]
    constructor <;> rintro (h | h | h) <;> simp [h]
  · intro k1 k2 k3 _ _ ih1 ih2 anc par x
    exact (ih1 anc par x).trans (ih2 anc par x)

theorem TsEq.refl' : ∀ k : Ts, TsEq k k := by
  intro k
  induction k using Ts.rec (motive_1 := fun t => TEq t t) with
  | node name kids ih => exact TEq.node name kids kids ih
  | nil => exact TsEq.nil
  | cons t ts iht ihts => exact TsEq.cons t t ts ts iht ihts

/-- everything found below a node lies under that node -/
theorem sv_under (e : Env) (t : T) :
    ∀ (anc : List Dir) (par : Dir), ∀ x ∈ sv e anc par t, par <+: x ∧ par.length < x.length := by
  apply T.rec
    (motive_1 := fun t => ∀ (anc : List Dir) (par : Dir), ∀ x ∈ sv e anc par t, par <+: x ∧ par.length < x.length)
    (motive_2 := fun ts => ∀ (anc : List Dir) (par : Dir), ∀ x ∈ svs e anc par ts, par <+: x ∧ par.length < x.length)
  · intro name kids ih anc par x hx
    simp only [sv] at hx
    split at hx
    · cases hx
    · rcases List.mem_cons.1 hx with rfl | hx
      · exact ⟨List.prefix_append _ _, by simp⟩
      · obtain ⟨h1, h2⟩ := ih _ _ x hx
        exact ⟨(List.prefix_append par [name]).trans h1, by simp at h2; omega⟩
  · intro anc par x hx; simp [svs] at hx
  · intro t ts iht ihts anc par x hx
    simp only [svs, List.mem_append] at hx
    rcases hx with hx | hx
    · exact iht anc par x hx
    · exact ihts anc par x hx

theorem svs_under (e : Env) (ts : Ts) :
    ∀ (anc : List Dir) (par : Dir), ∀ x ∈ svs e anc par ts, par <+: x ∧ par.length < x.length := by
  intro anc par x hx
  obtain ⟨t, _, ht⟩ := (svs_mem e anc par ts x).1 hx
  exact sv_under e t anc par x ht

/-- every directory in the result, and every directory between it and the subtree's root, is related to
    the watch list and not ignored by its proper ancestors' files: nothing comes from inside an ignored
    or unrelated subtree -/
theorem sv_sound (e : Env) (t : T) :
    ∀ (anc : List Dir) (par : Dir), (∀ a, a ∈ anc ↔ a <+: par) →
      ∀ x ∈ sv e anc par t, ∀ y, y <+: x → par.length < y.length →
        ∀ A : List Dir, (∀ a, a ∈ A ↔ properAnc a y = true) → e.ign A y = false ∧ e.related y = true := by
  apply T.rec
    (motive_1 := fun t => ∀ (anc : List Dir) (par : Dir), (∀ a, a ∈ anc ↔ a <+: par) →
      ∀ x ∈ sv e anc par t, ∀ y, y <+: x → par.length < y.length →
        ∀ A : List Dir, (∀ a, a ∈ A ↔ properAnc a y = true) → e.ign A y = false ∧ e.related y = true)
    (motive_2 := fun ts => ∀ (anc : List Dir) (par : Dir), (∀ a, a ∈ anc ↔ a <+: par) →
      ∀ x ∈ svs e anc par ts, ∀ y, y <+: x → par.length < y.length →
        ∀ A : List Dir, (∀ a, a ∈ A ↔ properAnc a y = true) → e.ign A y = false ∧ e.related y = true)
  · intro name kids ih anc par hanc x hx y hy hlen A hA
    simp only [sv] at hx
    split at hx
    · cases hx
    · next hcond =>
      have hc1 : e.ign anc (par ++ [name]) = false := by
        cases h : e.ign anc (par ++ [name]) <;> simp_all
      have hc2 : e.related (par ++ [name]) = true := by
        cases h : e.related (par ++ [name]) <;> simp_all
      have atd : ∀ y, y <+: par ++ [name] → par.length < y.length →
          ∀ A : List Dir, (∀ a, a ∈ A ↔ properAnc a y = true) → e.ign A y = false ∧ e.related y = true := by
        intro y hy hlen A hA
        have : y = par ++ [name] := by
          rcases List.prefix_concat_iff.1 hy with h | h
          · exact h
          · have := h.length_le; omega
        subst this
        refine ⟨?_, hc2⟩
        rw [← hc1]; apply e.setlike; intro a; rw [hA, properAnc_iff, hanc]
      rcases List.mem_cons.1 hx with rfl | hx
      · exact atd y hy hlen A hA
      · obtain ⟨hdx, _⟩ := svs_under e kids _ _ x hx
        by_cases hyl : y.length ≤ (par ++ [name]).length
        · exact atd y (List.prefix_of_prefix_length_le hy hdx hyl) hlen A hA
        · have hanc' : ∀ a, a ∈ (par ++ [name]) :: anc ↔ a <+: par ++ [name] := by
            intro a; rw [List.mem_cons, List.prefix_concat_iff, hanc a]
          exact ih _ _ hanc' x hx y hy (by omega) A hA
  · intro anc par _ x hx; simp [svs] at hx
  · intro t ts iht ihts anc par hanc x hx
    simp only [svs, List.mem_append] at hx
    rcases hx with hx | hx
    · exact iht anc par hanc x hx
    · exact ihts anc par hanc x hx

mutual
/-- every directory of the tree -/
def paths (par : Dir) : T → List Dir
  | .node name kids => (par ++ [name]) :: pathss (par ++ [name]) kids
def pathss (par : Dir) : Ts → List Dir
  | .nil => []
  | .cons t ts => paths par t ++ pathss par ts
end

theorem paths_under (t : T) : ∀ (par : Dir), ∀ x ∈ paths par t, par <+: x ∧ par.length < x.length := by
  apply T.rec
    (motive_1 := fun t => ∀ (par : Dir), ∀ x ∈ paths par t, par <+: x ∧ par.length < x.length)
    (motive_2 := fun ts => ∀ (par : Dir), ∀ x ∈ pathss par ts, par <+: x ∧ par.length < x.length)
  · intro name kids ih par x hx
    simp only [paths] at hx
    rcases List.mem_cons.1 hx with rfl | hx
    · exact ⟨List.prefix_append _ _, by simp⟩
    · obtain ⟨h1, h2⟩ := ih _ x hx
      exact ⟨(List.prefix_append par [name]).trans h1, by simp at h2; omega⟩
  · intro par x hx; simp [pathss] at hx
  · intro t ts iht ihts par x hx
    simp only [pathss, List.mem_append] at hx
    rcases hx with hx | hx
    · exact iht par x hx
    · exact ihts par x hx

theorem paths_under_s (ts : Ts) : ∀ (par : Dir), ∀ x ∈ pathss par ts, par <+: x := by
  intro par x hx
  induction ts using Ts.rec (motive_1 := fun _ => True) with
  | node => trivial
  | nil => simp [pathss] at hx
  | cons t ts _ ih =>
    simp only [pathss, List.mem_append] at hx
    rcases hx with hx | hx
    · exact (paths_under t par x hx).1
    · exact ih hx

/-- **C14 (completeness)** — a directory of the tree is discovered whenever neither it nor any directory
    between it and the subtree's root is ignored by its proper ancestors' files or unrelated to the
    watch list -/
theorem sv_complete (e : Env) (t : T) :
    ∀ (anc : List Dir) (par : Dir), (∀ a, a ∈ anc ↔ a <+: par) →
      ∀ x ∈ paths par t,
        (∀ y, y <+: x → par.length < y.length →
          ∃ A : List Dir, (∀ a, a ∈ A ↔ properAnc a y = true) ∧ e.ign A y = false ∧ e.related y = true) →
        x ∈ sv e anc par t := by
  apply T.rec
    (motive_1 := fun t => ∀ (anc : List Dir) (par : Dir), (∀ a, a ∈ anc ↔ a <+: par) →
      ∀ x ∈ paths par t,
        (∀ y, y <+: x → par.length < y.length →
          ∃ A : List Dir, (∀ a, a ∈ A ↔ properAnc a y = true) ∧ e.ign A y = false ∧ e.related y = true) →
        x ∈ sv e anc par t)
    (motive_2 := fun ts => ∀ (anc : List Dir) (par : Dir), (∀ a, a ∈ anc ↔ a <+: par) →
      ∀ x ∈ pathss par ts,
        (∀ y, y <+: x → par.length < y.length →
          ∃ A : List Dir, (∀ a, a ∈ A ↔ properAnc a y = true) ∧ e.ign A y = false ∧ e.related y = true) →
        x ∈ svs e anc par ts)
  · intro name kids ih anc par hanc x hx hall
    have hdx : par ++ [name] <+: x := by
      simp only [paths] at hx
      rcases List.mem_cons.1 hx with rfl | hx
      · exact List.prefix_refl _
      · exact (paths_under_s kids _ x hx)
    obtain ⟨A, hA, hi, hr⟩ := hall (par ++ [name]) hdx (by simp)
    have hi' : e.ign anc (par ++ [name]) = false := by
      rw [← hi]; apply e.setlike; intro a; rw [hA, properAnc_iff, hanc]
    simp only [sv, hi', hr, Bool.not_true, Bool.or_false, Bool.false_eq_true, if_false]
    simp only [paths] at hx
    rcases List.mem_cons.1 hx with rfl | hx
    · exact List.mem_cons_self
    · apply List.mem_cons_of_mem
      have hanc' : ∀ a, a ∈ (par ++ [name]) :: anc ↔ a <+: par ++ [name] := by
        intro a; rw [List.mem_cons, List.prefix_concat_iff, hanc a]
      exact ih _ _ hanc' x hx (fun y hy hl => hall y hy (by simp at hl; omega))
  · intro anc par _ x hx; simp [pathss] at hx
  · intro t ts iht ihts anc par hanc x hx hall
    simp only [pathss, List.mem_append] at hx
    simp only [svs, List.mem_append]
    rcases hx with hx | hx
    · exact Or.inl (iht anc par hanc x hx hall)
    · exact Or.inr (ihts anc par hanc x hx hall)

#print axioms visit_spec
#print axioms sv_order
#print axioms sv_sound
#print axioms sv_complete
end Dw

namespace Dw
/-- non-vacuity: any "some loaded proper ancestor objects" filter satisfies the two laws -/
def anyEnv (rule : Dir → Dir → Bool) (related : Dir → Bool) : Env where
  ign L d := L.any (fun a => properAnc a d && rule a d)
  related := related
  scoping L d := by
    simp only [List.any_filter]
    congr 1; funext a
    cases properAnc a d <;> simp
  setlike L L' d h := by
    rw [Bool.eq_iff_iff, List.any_eq_true, List.any_eq_true]
    constructor <;> rintro ⟨a, ha, hr⟩
    · exact ⟨a, (h a).1 ha, hr⟩
    · exact ⟨a, (h a).2 ha, hr⟩

example : visit (anyEnv (fun a d => a == [] && d.getLast? == some "out".toList) (fun _ => true)) [[]] []
    (.node "src".toList (.cons (.node "out".toList .nil) (.cons (.node "lib".toList .nil) .nil))) =
    [["src".toList, "lib".toList], ["src".toList], []] := by decide
end Dw
