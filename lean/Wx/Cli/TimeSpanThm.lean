import Wx.Cli.TimeSpan
namespace Ca.Ts

theorem takeWhile_digits (ds u : List Char) (hd : ds.all isDigit = true) (hu : ∀ c, u.head? = some c → isDigit c = false) :
    (ds ++ u).takeWhile isDigit = ds ∧ (ds ++ u).dropWhile isDigit = u := by
  induction ds with
  | nil =>
    cases u with
    | nil => simp
    | cons c r => have := hu c rfl; simp [List.takeWhile, List.dropWhile, this]
  | cons d ds ih =>
    simp only [List.all_cons, Bool.and_eq_true] at hd
    have := ih hd.2
    simp [List.takeWhile, List.dropWhile, hd.1, this]

theorem stripPlus_id' (s : List Char) : (∀ r, s ≠ '+' :: r) → (match s with | '+' :: r => r | _ => s) = s := by
  cases s with
  | nil => intro _; rfl
  | cons c r =>
    intro h
    by_cases hc : c = '+'
    · subst hc; exact absurd rfl (h r)
    · split
      · next r' heq => injection heq with h1 h2; exact absurd h1 hc
      · rfl

/-- **a value without a unit is scaled by the option's own multiplier**: milliseconds for `--debounce` / `--poll`, seconds for
    `--stop-timeout` / `--delay-run` — for every digit string below 2^64 -/
theorem unitless_is_scaled (mult : Nat) (ds : List Char) (hne : ds ≠ []) (hd : ds.all isDigit = true) (hlt : valOf ds < 2 ^ 64) :
    parseSpan mult ds = some (valOf ds * mult) := by
  have hp : ∀ r, ds ≠ '+' :: r := by
    intro r h; subst h; simp [isDigit] at hd
  have : parseU64 ds = some (valOf ds) := by
    unfold parseU64
    simp only [stripPlus_id' ds hp]
    rw [if_pos ⟨hne, hd, hlt⟩]
  simp [parseSpan, this]

/-- a digit string followed by a unit never parses as a bare number -/
theorem parseU64_with_unit (ds u : List Char) (hd : ds.all isDigit = true) (hne : ds ≠ []) (c : Char) (r : List Char) (hu : u = c :: r)
    (hc : isDigit c = false) : parseU64 (ds ++ u) = none := by
  subst hu
  unfold parseU64
  have hplus : ∀ r', ds ++ c :: r ≠ '+' :: r' := by
    intro r' h
    cases ds with
    | nil => exact hne rfl
    | cons d ds' =>
      simp only [List.cons_append, List.cons.injEq] at h
      simp only [List.all_cons, Bool.and_eq_true] at hd
      rw [h.1] at hd; simp [isDigit] at hd
  simp only [stripPlus_id' _ hplus]
  rw [if_neg]
  intro h
  have := h.2.1
  simp [List.all_append, hc] at this

/-- **a unit makes the option's default irrelevant**: `<digits><unit>` is that many units whatever the option -/
theorem unit_is_respected (mult : Nat) (ds : List Char) (u : String) (ns : Nat) (hne : ds ≠ []) (hd : ds.all isDigit = true)
    (hlt : valOf ds < 2 ^ 64) (hu : unitNs u = some ns) (c : Char) (r : List Char) (hul : u.toList = c :: r) (hc : isDigit c = false) :
    parseSpan mult (ds ++ u.toList) = some (valOf ds * ns) := by
  have h1 := parseU64_with_unit ds u.toList hd hne c r hul hc
  have h2 := takeWhile_digits ds u.toList hd (by intro c' hc'; rw [hul] at hc'; simp at hc'; subst hc'; exact hc)
  simp only [parseSpan, h1, parseOnePart, h2.1, h2.2, String.ofList_toList, hu]
  rw [if_neg]
  · rfl
  · intro h; rcases h with h | h
    · exact hne h
    · omega

/-- the documented defaults and examples -/
example : parseSpan msMult "50".toList = some 50000000 := by decide          -- --debounce 50 = 50 ms
example : parseSpan sMult "10".toList = some 10000000000 := by decide        -- --stop-timeout 10 = 10 s
example : parseSpan msMult "0".toList = some 0 := by decide
example : parseSpan sMult "500ms".toList = some 500000000 := by decide
example : parseSpan msMult "2s".toList = some 2000000000 := by decide
example : parseSpan msMult "1min".toList = some 60000000000 := by decide
example : parseSpan msMult "ms".toList = none := by decide
example : parseSpan msMult "5parsecs".toList = none := by decide

end Ca.Ts
