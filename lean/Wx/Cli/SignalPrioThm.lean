import Wx.Pure.Gen.SignalPrio
import Wx.Pure.Gen.SignalListen
/-! How the signal source hands signals to the event queue (`crates/lib/src/sources/signal.rs`, regenerated on every run).
    C08's "an interrupt or terminate signal leads to exactly this shutdown" and C02's "an urgent event flushes the current batch
    immediately" meet here: INT and TERM must travel as URGENT events, otherwise the shutdown would wait for the debounce window. -/
namespace Wp

/-- the priority of a signal's event: the first matching arm, else the catch-all -/
def signalPriority (sig : String) : String :=
  match Gen.signalPrio.find? (·.1 == sig) with
  | some (_, p) => p
  | none => Gen.signalPrioDefault

/-- the translator read the whole `match` -/
theorem signalPrio_translated : Gen.signalPrioUntranslated = [] := by decide

/-- **interrupt and terminate are urgent**: they are not filtered and flush the pending batch at once -/
theorem interrupt_and_terminate_are_urgent : signalPriority "Interrupt" = "Urgent" ∧ signalPriority "Terminate" = "Urgent" := by decide

/-- every other signal travels with high priority: ahead of filesystem events (normal), behind an interrupt -/
theorem other_signals_are_high : ∀ s ∈ ["Hangup", "ForceStop", "Quit", "User1", "User2", "Custom"], signalPriority s = "High" := by decide

/-- nothing else is singled out -/
theorem only_two_signals_are_singled_out : Gen.signalPrio.map (·.1) = ["Interrupt", "Terminate"] := by decide

/-- **every signal the source listens for is reported as itself** (unix worker, regenerated on every run): the six listeners, each
    feeding the `Signal` variant of its own name, nothing unpaired -/
theorem listened_signals_are_reported_as_themselves :
    Gen.signalListen = [("hangup", "Hangup"), ("interrupt", "Interrupt"), ("quit", "Quit"), ("terminate", "Terminate"),
                        ("user_defined1", "User1"), ("user_defined2", "User2")] ∧ Gen.signalListenOdd = [] := by decide

end Wp
