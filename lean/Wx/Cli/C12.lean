/-! C12: which ignore files the CLI hands to the filterer under every mix of the discovery flags
    (cli/src/args/filtering.rs normalisation, cli/src/filterer.rs, cli/src/dirs.rs `ignores`). -/
namespace C12

structure Flags where
  noVcs : Bool
  noProject : Bool
  noGlobal : Bool
  noDefault : Bool
  noDiscover : Bool
  ignoreNothing : Bool
  deriving DecidableEq, Repr

/-- `Args::normalise`: --ignore-nothing implies the other five -/
def Flags.norm (f : Flags) : Flags :=
  if f.ignoreNothing then ⟨true, true, true, true, true, true⟩ else f

/-- where an ignore file comes from -/
inductive Src
  | explicitViaOrigin    -- --ignore-file, as returned by from_origin (applies_in = origin)
  | explicitTail         -- --ignore-file, appended again (applies_in = None)
  | projectVcs | projectPlain   -- discovered under the origin (.gitignore … / .ignore)
  | gitConfigExcludes    -- origin-level core.excludesFile (applies_to Git, applies_in None)
  | globalVcs | globalPlain     -- from_environment
  deriving DecidableEq, Repr

def Src.inOrigin : Src → Bool
  | .explicitViaOrigin | .projectVcs | .projectPlain => true | _ => false
def Src.appliesInSome : Src → Bool
  | .explicitViaOrigin | .projectVcs | .projectPlain => true | _ => false
def Src.vcs : Src → Bool
  | .projectVcs | .gitConfigExcludes | .globalVcs => true | _ => false

structure Fixes where
  f9 : Bool := false
  /-- the project has a git config with `core.excludesFile`: discovered at the origin, it overrides
      (removes) the global git excludes — `skip_git_global_excludes` in dirs.rs -/
  gitCfg : Bool := false
  /-- the project origin carries the marker of the VCS its ignore files belong to (`.git`). Without it the project's own
      `.gitignore` is still read (and still removed by --no-vcs-ignore), but the GLOBAL git excludes do not apply: dirs.rs keeps a
      global VCS ignore file only for a VCS detected at the origin -/
  vcs : Bool := true

/-- the list handed to the ignore-files filterer -/
def assemble (cfg : Fixes) (f0 : Flags) : List Src :=
  let f := f0.norm
  let explicitLate : List Src := if cfg.f9 then [.explicitTail] else []
  if f.noDiscover then explicitLate else
  let l : List Src := if f.noProject then [] else
    [.explicitViaOrigin, .projectVcs, .projectPlain] ++ (if cfg.gitCfg then [.gitConfigExcludes] else [])
  let skipGlobalGit := cfg.gitCfg && !f.noProject
  let l := l ++ (if f.noGlobal then [] else (if skipGlobalGit || !cfg.vcs then [] else [.globalVcs]) ++ [.globalPlain])
  let l := if cfg.f9 then l else l ++ [.explicitTail]
  let l := if f.noProject then l.filter (fun s => !s.inOrigin) else l
  let l := if f.noGlobal then l.filter (fun s => s.appliesInSome) else l
  let l := if f.noVcs then l.filter (fun s => !s.vcs) else l
  l ++ explicitLate

def explicitHonoured (l : List Src) : Bool := l.contains .explicitViaOrigin || l.contains .explicitTail

/-- repaired: under all 64 flag combinations the explicit file is in the list -/
theorem c12_explicit_always :
    ∀ a b c d e g : Bool, explicitHonoured (assemble ⟨true, false, true⟩ ⟨a, b, c, d, e, g⟩) = true ∧
      explicitHonoured (assemble ⟨true, true, true⟩ ⟨a, b, c, d, e, g⟩) = true := by decide

/-- and the flags still do what they say: no discovered project file with --no-project-ignore, etc. -/
theorem c12_flags_effective :
    ∀ a b c d e g : Bool,
    ∀ gc : Bool,
      let l := assemble ⟨true, gc, true⟩ ⟨a, b, c, d, e, g⟩
      let f := (Flags.mk a b c d e g).norm
      (f.noProject → ¬ l.contains .projectVcs ∧ ¬ l.contains .projectPlain) ∧
      (f.noGlobal → ¬ l.contains .globalVcs ∧ ¬ l.contains .globalPlain ∧ ¬ l.contains .gitConfigExcludes) ∧
      (f.noVcs → ¬ l.contains .projectVcs ∧ ¬ l.contains .globalVcs ∧ ¬ l.contains .gitConfigExcludes) ∧
      (f.noDiscover → ∀ s ∈ l, s = .explicitTail) := by decide

/-- today: the number of combinations that lose the explicit file -/
def lost (cfg : Fixes) : Nat :=
  ((List.range 64).filter (fun n =>
    !explicitHonoured (assemble cfg ⟨n.testBit 0, n.testBit 1, n.testBit 2, n.testBit 3, n.testBit 4, n.testBit 5⟩))).length

theorem c12_today_52 : lost {} = 52 := by decide
theorem c12_fixed_0 : lost ⟨true, false, true⟩ = 0 ∧ lost ⟨true, true, true⟩ = 0 := by decide

/-! ### the whole filterer configuration, and exactness -/

/-- which discovered / built-in source each flag names (after normalisation) -/
def removedBy (f0 : Flags) : Src → Bool :=
  let f := f0.norm
  fun
  | .projectVcs => f.noProject || f.noVcs || f.noDiscover
  | .projectPlain => f.noProject || f.noDiscover
  | .gitConfigExcludes => f.noProject || f.noGlobal || f.noVcs || f.noDiscover
  | .globalVcs => f.noGlobal || f.noVcs || f.noDiscover
  | .globalPlain => f.noGlobal || f.noDiscover
  | _ => false

def discovered : List Src := [.projectVcs, .projectPlain, .globalVcs, .globalPlain]

/-- **exact removal**: a discovered source reaches the filterer iff no set flag names it — all 64 combinations -/
theorem c12_exact :
    ∀ a b c d e g : Bool, ∀ s ∈ discovered,
      (assemble ⟨true, false, true⟩ ⟨a, b, c, d, e, g⟩).contains s = !removedBy ⟨a, b, c, d, e, g⟩ s := by decide

/-- with a project-level `core.excludesFile`: it is itself removed exactly by the flags that name it, and it
    replaces the global git excludes whenever the project's git config is read at all -/
theorem c12_exact_gitcfg :
    ∀ a b c d e g : Bool,
      let f : Flags := ⟨a, b, c, d, e, g⟩
      let l := assemble ⟨true, true, true⟩ f
      l.contains .gitConfigExcludes = !removedBy f .gitConfigExcludes ∧
      l.contains .globalVcs = (!removedBy f .globalVcs && f.norm.noProject) ∧
      (∀ s ∈ [Src.projectVcs, .projectPlain, .globalPlain], l.contains s = !removedBy f s) := by decide

/-- a project WITHOUT a VCS marker that ships VCS ignore files (a source tarball): its own files are removed exactly by the
    flags that name them — `--no-vcs-ignore` included — and the global VCS excludes never apply -/
theorem c12_exact_novcs :
    ∀ a b c d e g : Bool,
      let f : Flags := ⟨a, b, c, d, e, g⟩
      let l := assemble ⟨true, false, false⟩ f
      l.contains .globalVcs = false ∧
      (∀ s ∈ [Src.projectVcs, .projectPlain, .globalPlain], l.contains s = !removedBy f s) ∧
      explicitHonoured l = true := by decide

/-- what `WatchexecFilterer::new` builds: the ignore files above plus everything given explicitly -/
structure Out where
  igfiles : List Src
  defaultIgnores : Bool     -- the built-in default patterns
  ignorePatterns : Bool     -- --ignore
  filters : Bool            -- --filter / --filter-file
  exts : Bool               -- --exts
  fsEvents : Bool           -- --fs-events
  deriving DecidableEq, Repr

def configure (cfg : Fixes) (f : Flags) : Out :=
  { igfiles := assemble cfg f, defaultIgnores := !f.norm.noDefault, ignorePatterns := true, filters := true, exts := true, fsEvents := true }

/-- **explicit kept**: every explicit option reaches the filterer under all 64 combinations, and the built-in
    defaults are removed exactly by --no-default-ignore / --ignore-nothing -/
theorem c12_explicit_all :
    ∀ a b c d e g : Bool,
    ∀ gc : Bool,
      let o := configure ⟨true, gc, true⟩ ⟨a, b, c, d, e, g⟩
      explicitHonoured o.igfiles = true ∧ o.ignorePatterns = true ∧ o.filters = true ∧ o.exts = true ∧ o.fsEvents = true ∧
      o.defaultIgnores = !(d || g) := by decide

/-- a non-trivial instance: no flags -> every source present; --no-discover-ignore -> only the explicit file -/
example : (configure ⟨true, false, true⟩ ⟨false, false, false, false, false, false⟩).igfiles.length = 6 := by decide
example : (configure ⟨true, true, true⟩ ⟨false, false, false, false, false, false⟩).igfiles.length = 6 := by decide
example : (configure ⟨true, false, true⟩ ⟨false, false, false, false, true, false⟩).igfiles = [.explicitTail] := by decide

end C12
