/-! `TimeSpan<UNITLESS_NANOS_MULTIPLIER>::from_str` (cli/src/args.rs): how `--debounce`, `--poll` (unitless = milliseconds) and
    `--stop-timeout`, `--delay-run` (unitless = seconds) become durations. A value that parses as a `u64` is scaled by the
    option's multiplier; anything else goes to `humantime::parse_duration`, of which the one-part forms `<digits><unit>` are
    modelled (the documented use: `500ms`, `10s`, `2min`); other spellings are outside the model (`none`). Durations in ns. -/
namespace Ca.Ts

def isDigit (c : Char) : Bool := '0' ≤ c && c ≤ '9'
def digit (c : Char) : Nat := c.toNat - 48

/-- decimal value of a digit string, most significant first -/
def valOf (ds : List Char) : Nat := ds.foldl (fun n c => n * 10 + digit c) 0

/-- `str::parse::<u64>`: an optional `+`, at least one digit, nothing else, below 2^64 -/
def parseU64 (s : List Char) : Option Nat :=
  let ds := match s with | '+' :: r => r | _ => s
  if ds ≠ [] ∧ ds.all isDigit ∧ valOf ds < 2 ^ 64 then some (valOf ds) else none

/-- humantime's unit table (nanoseconds per unit) for the units whose length is a whole number of nanoseconds -/
def unitNs (u : String) : Option Nat :=
  match u with
  | "nsec" | "ns" => some 1
  | "usec" | "us" => some 1000
  | "msec" | "ms" => some 1000000
  | "seconds" | "second" | "sec" | "s" => some 1000000000
  | "minutes" | "minute" | "min" | "m" => some 60000000000
  | "hours" | "hour" | "hr" | "h" => some 3600000000000
  | "days" | "day" | "d" => some 86400000000000
  | "weeks" | "week" | "w" => some 604800000000000
  | _ => none

/-- one part `<digits><unit>` -/
def parseOnePart (s : List Char) : Option Nat :=
  let ds := s.takeWhile isDigit
  let u := s.dropWhile isDigit
  if ds = [] ∨ 2 ^ 64 ≤ valOf ds then none else
  (unitNs (String.ofList u)).map (valOf ds * ·)

def msMult : Nat := 1000000
def sMult : Nat := 1000000000

/-- `TimeSpan<M>::from_str` -/
def parseSpan (mult : Nat) (s : List Char) : Option Nat :=
  match parseU64 s with
  | some n => some (n * mult)
  | none => parseOnePart s

end Ca.Ts
