import Wx.Cli.Compose
import Wx.Job.C06w
/-! Everything the CLI composition does to its job is a walk in `Jm.Reach`: the whole-run theorems about the job task
    (at most one live process, every history a run of the documented machine, no kill before the grace period) hold for
    every script of CLI events. -/
namespace Ca
open Jm

/-- the controls the CLI's action logic can send (`quitOk`: may the script contain INT / TERM?) -/
inductive MaySend (cfg : Cfg) (quitOk : Bool) : Prio → Ctl → Prop
  | func (id : Nat) : MaySend cfg quitOk .normal (.func id)
  | react (cs : CS) (q : Option ChildId) (ctls : List Ctl) (k : Ctl) : Act.send ctls ∈ (react cfg cs q).1 → k ∈ ctls → MaySend cfg quitOk .normal k
  | follow (run : ChildId) (q : Option ChildId) (ctls : List Ctl) (k : Ctl) : Act.send ctls ∈ (followUpActs run q).1 → k ∈ ctls → MaySend cfg quitOk .normal k
  | wait : MaySend cfg quitOk .high .nextEnding
  | pass (g : Sig) : MaySend cfg quitOk .normal (.signal g)
  | quit (m : Manner) (ctls : List Ctl) (k : Ctl) : quitOk = true → ctls ∈ quitCtls m → k ∈ ctls → MaySend cfg quitOk .normal k

variable {SendOk : Prio → Ctl → Prop} {x0 : Sim} {cfg0 : Cfg} {quitOk : Bool}

def GoodC (SendOk : Prio → Ctl → Prop) (x0 : Sim) (cfg0 : Cfg) (c : C) : Prop := Reach SendOk x0 c.x ∧ c.cfg = cfg0

theorem foldl_good {α : Type} (l : List α) (f : C → α → C) (hf : ∀ c a, a ∈ l → GoodC SendOk x0 cfg0 c → GoodC SendOk x0 cfg0 (f c a))
    {c : C} (h : GoodC SendOk x0 cfg0 c) : GoodC SendOk x0 cfg0 (l.foldl f c) := by
  induction l generalizing c with
  | nil => exact h
  | cons a l ih =>
    simp only [List.foldl_cons]
    exact ih (fun c b hb => hf c b (List.mem_cons_of_mem _ hb)) (hf c a List.mem_cons_self h)

theorem applyActs_good {c : C} (acts : List Act) (hacts : ∀ ctls, Act.send ctls ∈ acts → ∀ k ∈ ctls, SendOk .normal k)
    (h : GoodC SendOk x0 cfg0 c) : GoodC SendOk x0 cfg0 (applyActs c acts) := by
  unfold applyActs
  refine foldl_good acts _ ?_ h
  intro c a ha hc
  cases a with
  | send ctls => exact ⟨Reach.doSend .normal ctls false (hacts ctls ha) hc.1, hc.2⟩
  | followUp run => exact ⟨hc.1, hc.2⟩

theorem startFollowUps_good (hok : ∀ p k, MaySend cfg0 quitOk p k → SendOk p k) {c : C} (h : GoodC SendOk x0 cfg0 c) :
    GoodC SendOk x0 cfg0 (startFollowUps c) := by
  unfold startFollowUps
  refine foldl_good c.spawning _ ?_ (c := { c with spawning := [] }) ⟨h.1, h.2⟩
  intro c run _ hc
  exact ⟨Reach.doSend .high [.nextEnding] true (by intro k hk; simp at hk; subst hk; exact hok _ _ .wait) hc.1, hc.2⟩

theorem afterTurn_good (hok : ∀ p k, MaySend cfg0 quitOk p k → SendOk p k) {c : C} (old : St) (h : GoodC SendOk x0 cfg0 c) :
    GoodC SendOk x0 cfg0 (afterTurn c old) := by
  unfold afterTurn
  refine foldl_good _ _ ?_ h
  intro c q _ hc
  split
  · exact ⟨hc.1, hc.2⟩
  · split
    · simp only []
      refine applyActs_good (c := { c with pendingQ := c.pendingQ.erase q, queuedFor := (react c.cfg c.x.st.cs c.queuedFor).2 }) _ ?_ ⟨hc.1, hc.2⟩
      intro ctls hmem k hk
      rw [hc.2] at hmem
      exact hok _ _ (.react _ _ ctls k hmem hk)
    · exact hc

theorem wakeFollowUps_good (hok : ∀ p k, MaySend cfg0 quitOk p k → SendOk p k) {c : C} (h : GoodC SendOk x0 cfg0 c) :
    GoodC SendOk x0 cfg0 (wakeFollowUps c).1 := by
  unfold wakeFollowUps
  simp only []
  split
  · exact h
  · simp only []
    refine foldl_good _ _ ?_ (c := { c with follow := _ }) ⟨h.1, h.2⟩
    intro c wr _ hc
    obtain ⟨w, run⟩ := wr
    simp only []
    refine applyActs_good (c := { c with queuedFor := (followUpActs run c.queuedFor).2 }) _ ?_ ⟨hc.1, hc.2⟩
    intro ctls hmem k hk
    exact hok _ _ (.follow run _ ctls k hmem hk)

theorem settleC_good (hok : ∀ p k, MaySend cfg0 quitOk p k → SendOk p k) (fuel : Nat) {c : C} (h : GoodC SendOk x0 cfg0 c) :
    ∀ c' ∈ settleC fuel c, GoodC SendOk x0 cfg0 c' := by
  induction fuel generalizing c with
  | zero => intro c' hc'; simp [settleC] at hc'; subst hc'; exact h
  | succ n ih =>
    intro c' hc'
    unfold settleC at hc'
    split at hc'
    · -- the job task sleeps
      split at hc'
      · exact ih (startFollowUps_good hok h) c' hc'
      · split at hc'
        · exact ih (c := { c with x := { c.x with st := drainPolls c.x.st } }) ⟨.drain h.1, h.2⟩ c' hc'
        · simp only [] at hc'
          split at hc'
          · exact ih (wakeFollowUps_good hok h) c' hc'
          · simp only [List.mem_singleton] at hc'; subst hc'; exact wakeFollowUps_good hok h
    · split at hc'
      · next hts =>
        split at hc'
        · exact ih (startFollowUps_good hok h) c' hc'
        · simp only [] at hc'
          split at hc'
          · exact ih (c := { c with x := { c.x with st := drainPolls (park c.x.st) } }) ⟨.drain (.park h.1), h.2⟩ c' hc'
          · have hp : GoodC SendOk x0 cfg0 { c with x := { c.x with st := park c.x.st } } := ⟨.park h.1, h.2⟩
            split at hc'
            · exact ih (wakeFollowUps_good hok hp) c' hc'
            · simp only [List.mem_singleton] at hc'; subst hc'; exact wakeFollowUps_good hok hp
      · next ts hts =>
        rcases List.mem_append.1 hc' with hc' | hc'
        · split at hc'
          · cases hc'
          · exact ih (startFollowUps_good hok h) c' hc'
        · obtain ⟨s', hs', hc''⟩ := List.mem_flatMap.1 hc'
          have hturn : GoodC SendOk x0 cfg0 { c with x := { c.x with st := s' } } := ⟨.turn s' h.1 hs', h.2⟩
          exact ih (afterTurn_good hok c.x.st hturn) c' hc''

theorem advanceC_good (hok : ∀ p k, MaySend cfg0 quitOk p k → SendOk p k) (fuel target : Nat) {c : C} (h : GoodC SendOk x0 cfg0 c) :
    ∀ c' ∈ advanceC fuel target c, GoodC SendOk x0 cfg0 c' := by
  induction fuel generalizing c with
  | zero => intro c' hc'; simp [advanceC] at hc'; subst hc'; exact h
  | succ n ih =>
    intro c' hc'
    unfold advanceC at hc'
    obtain ⟨d, hd, hc''⟩ := List.mem_flatMap.1 hc'
    have hdg := settleC_good hok 300 h d hd
    have key : ∀ t, c' ∈ (if (t == d.x.st.now) = true then [d] else advanceC n target { d with x := { d.x with st := { d.x.st with now := t } } }) →
        GoodC SendOk x0 cfg0 c' := by
      intro t ht
      split at ht
      · simp only [List.mem_singleton] at ht; subst ht; exact hdg
      · exact ih (c := { d with x := { d.x with st := { d.x.st with now := t } } }) ⟨.now t hdg.1, hdg.2⟩ c' ht
    split at hc''
    · exact key _ hc''
    · split at hc''
      · next t _ => exact ih (c := { d with x := { d.x with st := { d.x.st with now := t } } }) ⟨.now t hdg.1, hdg.2⟩ c' hc''
      · exact settleC_good hok 300 (c := { d with x := { d.x with st := { d.x.st with now := target } } }) ⟨.now target hdg.1, hdg.2⟩ c' hc''

theorem onEvent_good (hok : ∀ p k, MaySend cfg0 quitOk p k → SendOk p k) {c : C} (h : GoodC SendOk x0 cfg0 c) :
    GoodC SendOk x0 cfg0 (onEvent c) := by
  unfold onEvent
  simp only []
  have one : ∀ (c : C) (id : Nat), GoodC SendOk x0 cfg0 c → Reach SendOk x0 (doSend c.x .normal [.func id] false) := fun c id hc =>
    Reach.doSend .normal [.func id] false (by intro k hk; simp at hk; subst hk; exact hok _ _ (.func id)) hc.1
  split
  · exact ⟨one _ _ ⟨one c _ h, h.2⟩, h.2⟩
  · exact ⟨one c _ h, h.2⟩

theorem onSignal_good (hok : ∀ p k, MaySend cfg0 quitOk p k → SendOk p k) {c : C} (sig : Nat)
    (hq : quitOk = false → sig ≠ term ∧ sig ≠ sigInt) (h : GoodC SendOk x0 cfg0 c) : GoodC SendOk x0 cfg0 (onSignal c sig) := by
  unfold onSignal
  split
  · next m hm =>
    have hqo : quitOk = true := by
      cases hqk : quitOk with
      | true => rfl
      | false =>
        obtain ⟨h1, h2⟩ := hq hqk
        rw [other_signals_pass c.cfg c.quitCount [sig] (by simp only [List.mem_singleton]; exact fun e => h1 e.symm)
          (by simp only [List.mem_singleton]; exact fun e => h2 e.symm)] at hm
        cases hm
    refine foldl_good _ _ ?_ (c := { c with quitCount := c.quitCount + 1 }) ⟨h.1, h.2⟩
    intro c ctls hmem hc
    exact ⟨Reach.doSend .normal ctls false (fun k hk => hok _ _ (.quit m ctls k hqo hmem hk)) hc.1, hc.2⟩
  · next sigs _ =>
    refine foldl_good _ _ ?_ h
    intro c g _ hc
    exact ⟨Reach.doSend .normal [.signal g] false (by intro k hk; simp at hk; subst hk; exact hok _ _ (.pass g)) hc.1, hc.2⟩


/-- the script contains no interrupt / terminate signal -/
def NoQuitEv : Ev → Prop
  | .sig n | .mix n => n ≠ term ∧ n ≠ sigInt
  | .eof => False          -- (a keyboard EOF quits under `--stdin-quit`)
  | _ => True

theorem onEofEv_good (hok : ∀ p k, MaySend cfg0 quitOk p k → SendOk p k) {c : C} (hqo : quitOk = true)
    (h : GoodC SendOk x0 cfg0 c) : GoodC SendOk x0 cfg0 (onEofEv c) := by
  unfold onEofEv
  split
  · next m hm =>
    refine foldl_good _ _ ?_ (c := { c with quitCount := c.quitCount + 1 }) ⟨h.1, h.2⟩
    intro c ctls hmem hc
    exact ⟨Reach.doSend .normal ctls false (fun k hk => hok _ _ (.quit m ctls k hqo hmem hk)) hc.1, hc.2⟩
  · exact h

theorem stepEv_good (hok : ∀ p k, MaySend cfg0 quitOk p k → SendOk p k) {c : C} (e : Ev) (hq : quitOk = false → NoQuitEv e)
    (h : GoodC SendOk x0 cfg0 c) : ∀ c' ∈ stepEv c e, GoodC SendOk x0 cfg0 c' := by
  intro c' hc'
  cases e with
  | init => simp only [stepEv] at hc'; split at hc' <;> (simp only [List.mem_singleton] at hc'; subst hc'); exact h; exact onEvent_good hok h
  | chg => simp only [stepEv] at hc'; split at hc' <;> (simp only [List.mem_singleton] at hc'; subst hc'); exact h; exact onEvent_good hok h
  | sig n =>
    simp only [stepEv] at hc'; split at hc' <;> (simp only [List.mem_singleton] at hc'; subst hc')
    · exact h
    · exact onSignal_good hok n (fun hf => hq hf) h
  | mix n =>
    simp only [stepEv] at hc'
    split at hc'
    · simp only [List.mem_singleton] at hc'; subst hc'; exact h
    · have hs := onSignal_good hok n (fun hf => hq hf) h
      split at hc' <;> (simp only [List.mem_singleton] at hc'; subst hc')
      · exact hs
      · exact onEvent_good hok hs
  | eof =>
    simp only [stepEv] at hc'; split at hc' <;> (simp only [List.mem_singleton] at hc'; subst hc')
    · exact h
    · cases hqk : quitOk with
      | true => exact onEofEv_good hok hqk h
      | false => exact absurd (hq hqk) (by simp [NoQuitEv])
  | settle => exact settleC_good hok 300 h c' hc'
  | advance ms => exact advanceC_good hok 64 _ h c' hc'

theorem runEvs_good (hok : ∀ p k, MaySend cfg0 quitOk p k → SendOk p k) (evs : List Ev) (hq : quitOk = false → ∀ e ∈ evs, NoQuitEv e)
    {c : C} (h : GoodC SendOk x0 cfg0 c) : ∀ c' ∈ runEvs c evs, GoodC SendOk x0 cfg0 c' := by
  induction evs generalizing c with
  | nil => intro c' hc'; simp [runEvs] at hc'; subst hc'; exact h
  | cons e es ih =>
    intro c' hc'
    simp only [runEvs] at hc'
    obtain ⟨d, hd, hc''⟩ := List.mem_flatMap.1 hc'
    exact ih (fun hf e' he' => hq hf e' (List.mem_cons_of_mem _ he'))
      (stepEv_good hok e (fun hf => hq hf e List.mem_cons_self) h d hd) c' hc''

/-- where every CLI script starts: the repaired job task, nothing sent yet -/
def initC (cfg : Cfg) (behs : List Beh) (delay : Option Nat) : C :=
  { x := { st := { cfg := Fixes.all, behs := behs, hookSet := true, parked := true } }, cfg := cfg, delayRun := delay }

/-- **C05 — runs never overlap, and the command is driven as documented**: for every CLI configuration, every child
    behaviour and every script of events (changes, signals incl. INT / TERM, mixed actions, any timing, `--delay-run`),
    every state the composed model reaches has at most one live process, and the job's observable state and effect log
    are a run of the documented job machine -/
theorem cli_runs_never_overlap (cfg : Cfg) (behs : List Beh) (delay : Option Nat) (evs : List Ev) :
    ∀ c ∈ runEvs (initC cfg behs delay) evs, Inv c.x.st ∧ SpecRun (initC cfg behs delay).x.st.abs c.x.st.abs c.x.st.fx := by
  intro c hc
  have hg := runEvs_good (SendOk := fun _ _ => True) (x0 := (initC cfg behs delay).x) (cfg0 := cfg) (quitOk := true)
    (fun _ _ _ => trivial) evs (fun hf => by cases hf) (c := initC cfg behs delay) ⟨.refl _, rfl⟩ c hc
  have h0 : RunInv (initC cfg behs delay).x.st.abs (initC cfg behs delay).x.st := ⟨rfl, (by refine ⟨rfl, ?_, ?_⟩ <;> simp [initC]), by
    have : (initC cfg behs delay).x.st.fx = [] := rfl
    rw [this]; exact SpecRun.start⟩
  have := (runInv_simInv (initC cfg behs delay).x.st.abs).reach h0 hg.1
  exact ⟨this.2.1, this.2.2⟩

/-- everything the action logic sends without a quit is gentle, with grace periods of at least the stop timeout -/
theorem maySend_gentle (cfg : Cfg) (p : Prio) (k : Ctl) (h : MaySend cfg false p k) : Gentle cfg.stopTimeout k := by
  cases h with
  | func id => simp [Gentle]
  | react cs q ctls k hm hk =>
    cases cs <;> cases hmode : cfg.mode <;> simp [react, hmode] at hm <;>
      (try (split at hm <;> simp at hm)) <;>
      (try (rcases hm with hm | hm)) <;> (try subst hm) <;> simp at hk <;>
      (try (rcases hk with hk | hk)) <;> (try subst hk) <;> simp [Gentle]
  | follow run q ctls k hm hk =>
    simp [followUpActs] at hm
    rcases hm with hm | hm <;> subst hm <;> simp at hk <;> subst hk <;> simp [Gentle]
  | wait => simp [Gentle]
  | pass g => simp [Gentle]
  | quit m ctls k hq _ _ => cases hq

/-- **C05 — restart stops gracefully; nothing else ever kills**: in every script without an interrupt / terminate signal,
    every kill recorded by the composed model comes at least the stop timeout after a signal to the same process -/
theorem cli_never_kills_early (cfg : Cfg) (behs : List Beh) (delay : Option Nat) (evs : List Ev) (hq : ∀ e ∈ evs, NoQuitEv e) :
    ∀ c ∈ runEvs (initC cfg behs delay) evs, ∀ t ch, (t, Obs.kill ch) ∈ c.x.st.log →
      ∃ t0 sig, (t0, Obs.signal ch sig) ∈ c.x.st.log ∧ t0 + cfg.stopTimeout ≤ t := by
  intro c hc
  have hg := runEvs_good (SendOk := fun _ k => Gentle cfg.stopTimeout k) (x0 := (initC cfg behs delay).x) (cfg0 := cfg) (quitOk := false)
    (fun p k h => maySend_gentle cfg p k h) evs (fun _ => hq) (c := initC cfg behs delay) ⟨.refl _, rfl⟩ c hc
  have hr : RunInv (initC cfg behs delay).x.st.abs (initC cfg behs delay).x.st := ⟨rfl, (by refine ⟨rfl, ?_, ?_⟩ <;> simp [initC]), by
    have : (initC cfg behs delay).x.st.fx = [] := rfl
    rw [this]; exact SpecRun.start⟩
  have h0 : Grace cfg.stopTimeout (initC cfg behs delay).x.st :=
    ⟨(by simp [initC]), (fun tm htm => by simp [initC] at htm), (fun t c hk => by simp [initC] at hk)⟩
  exact ((graceInv_simInv cfg.stopTimeout (initC cfg behs delay).x.st.abs).reach (x := (initC cfg behs delay).x) ⟨hr, h0⟩ hg.1).2.k

/-- outside restart mode nothing graceful is ever sent either -/
theorem maySend_gentle_any (cfg : Cfg) (hm : cfg.mode ≠ .restart) (G : Nat) (p : Prio) (k : Ctl) (h : MaySend cfg false p k) : Gentle G k := by
  cases h with
  | func id => simp [Gentle]
  | react cs q ctls k hmem hk =>
    cases cs <;> cases hmode : cfg.mode <;> simp [react, hmode] at hmem <;> (try exact absurd hmode hm) <;>
      (try (split at hmem <;> simp at hmem)) <;>
      (try (rcases hmem with hmem | hmem)) <;> (try subst hmem) <;> simp at hk <;>
      (try (rcases hk with hk | hk)) <;> (try subst hk) <;> simp [Gentle]
  | follow run q ctls k hmem hk =>
    simp [followUpActs] at hmem
    rcases hmem with hmem | hmem <;> subst hmem <;> simp at hk <;> subst hk <;> simp [Gentle]
  | wait => simp [Gentle]
  | pass g => simp [Gentle]
  | quit m ctls k hq _ _ => cases hq

/-- **C05 — do-nothing, queue and signal modes never kill the command**: in every script without an interrupt / terminate
    signal the composed model's log contains no kill at all -/
theorem cli_other_modes_never_kill (cfg : Cfg) (hm : cfg.mode ≠ .restart) (behs : List Beh) (delay : Option Nat) (evs : List Ev)
    (hq : ∀ e ∈ evs, NoQuitEv e) : ∀ c ∈ runEvs (initC cfg behs delay) evs, ∀ t ch, (t, Obs.kill ch) ∉ c.x.st.log := by
  intro c hc t ch hk
  have hg := runEvs_good (SendOk := fun _ k => Gentle (t + 1) k) (x0 := (initC cfg behs delay).x) (cfg0 := cfg) (quitOk := false)
    (fun p k h => maySend_gentle_any cfg hm (t + 1) p k h) evs (fun _ => hq) (c := initC cfg behs delay) ⟨.refl _, rfl⟩ c hc
  have hr : RunInv (initC cfg behs delay).x.st.abs (initC cfg behs delay).x.st := ⟨rfl, (by refine ⟨rfl, ?_, ?_⟩ <;> simp [initC]), by
    have : (initC cfg behs delay).x.st.fx = [] := rfl
    rw [this]; exact SpecRun.start⟩
  have h0 : Grace (t + 1) (initC cfg behs delay).x.st :=
    ⟨(by simp [initC]), (fun tm htm => by simp [initC] at htm), (fun t c hk => by simp [initC] at hk)⟩
  obtain ⟨t0, _, _, hle⟩ := ((graceInv_simInv (t + 1) (initC cfg behs delay).x.st.abs).reach (x := (initC cfg behs delay).x) ⟨hr, h0⟩ hg.1).2.k t ch hk
  omega

#print axioms cli_other_modes_never_kill
#print axioms cli_runs_never_overlap
#print axioms cli_never_kills_early
end Ca
