import Wx.Job.Sim
/-! C05: the decision logic of the CLI's action handler (cli/src/config.rs) — what the state-query
    closure that runs inside the job task sends, per `--on-busy-update` mode — and its composition
    with the job-task model (`Jm`). -/
namespace Ca
open Jm

inductive Mode | doNothing | queue | restart | signal deriving DecidableEq, Repr

structure Cfg where
  mode : Mode := .doNothing
  stopSignal : Option Sig := none     -- --stop-signal
  signal : Option Sig := none         -- --signal
  stopTimeout : Nat := 10000          -- --stop-timeout (ms)
  sigMap : List (Sig × Option Sig) := []   -- --map-signal FROM:TO (TO empty = discard), in command-line order
  stdinQuit : Bool := false           -- --stdin-quit
  deriving Repr

/-- `EventsArgs::normalise`: `--signal` implies signal mode whatever `--on-busy-update` says; else `-r` means restart; else
    the given mode, do-nothing by default (`-r` and `--on-busy-update` exclude each other in the argument parser) -/
def normaliseMode (explicitMode : Option Mode) (restartFlag : Bool) (signal : Option Sig) : Mode :=
  if signal.isSome then .signal else if restartFlag then .restart else explicitMode.getD .doNothing

/-- `--signal` is documented to imply `--on-busy-update=signal` — also next to an explicit other mode -/
theorem signal_flag_implies_signal_mode (m : Option Mode) (r : Bool) (g : Sig) : normaliseMode m r (some g) = .signal := rfl
theorem restart_flag_means_restart (m : Option Mode) : normaliseMode m true none = .restart := rfl
theorem default_mode_is_do_nothing : normaliseMode none false none = .doNothing := rfl

/-- SIGTERM -/
def term : Sig := 15

/-- marker closures of the CLI (`job.run(setup_process …)`): they only print banners; ids from 1000 -/
def setupId : Nat := 1000

/-- one thing the query closure does -/
inductive Act
  | send (ctls : List Ctl)                 -- `job.<api>()`: normal priority, ticket not awaited
  | followUp (run : ChildId)               -- tokio::spawn of the queue-mode follow-up task for this run
  deriving DecidableEq, Repr

/-- the state-query closure: `cs` is the job's state when it runs, `queuedFor` the run a follow-up already
    waits for. Returns the actions in order and the new `queuedFor`. -/
def react (cfg : Cfg) (cs : CS) (queuedFor : Option ChildId) : List Act × Option ChildId :=
  match cs with
  | .running c =>
    match cfg.mode with
    | .doNothing => ([], queuedFor)
    | .signal => ([.send [.signal ((cfg.stopSignal.orElse fun _ => cfg.signal).getD term)]], queuedFor)
    | .restart => ([.send [.gracefulStop (cfg.stopSignal.getD term) cfg.stopTimeout, .start], .send [.func setupId]], queuedFor)
    | .queue => if queuedFor == some c then ([], queuedFor) else ([.followUp c], some c)
  | _ => ([.send [.start], .send [.func setupId]], queuedFor)

/-- the follow-up task once its wait-for-end ticket has resolved: start, banner closure, and it clears the
    record only if it is still its own -/
def followUpActs (run : ChildId) (queuedFor : Option ChildId) : List Act × Option ChildId :=
  ([.send [.start], .send [.func setupId]], if queuedFor == some run then none else queuedFor)

/-! ### the documented reactions, stated outright -/

/-- idle: a change starts the command (exactly one Start) -/
theorem react_idle (cfg : Cfg) (cs : CS) (q) (h : ∀ c, cs ≠ .running c) :
    (react cfg cs q).1 = [.send [.start], .send [.func setupId]] ∧ (react cfg cs q).2 = q := by
  cases cs with
  | running c => exact absurd rfl (h c)
  | pending => exact ⟨rfl, rfl⟩
  | finished s => exact ⟨rfl, rfl⟩

/-- do-nothing: a change while running sends nothing at all -/
theorem react_doNothing (cfg : Cfg) (c : ChildId) (q) (h : cfg.mode = .doNothing) :
    (react cfg (.running c) q).1 = [] := by simp [react, h]

/-- signal: exactly one Signal control, with stop-signal, else signal, else TERM — and nothing that stops or starts -/
theorem react_signal (cfg : Cfg) (c : ChildId) (q) (h : cfg.mode = .signal) :
    (react cfg (.running c) q).1 = [.send [.signal ((cfg.stopSignal.orElse fun _ => cfg.signal).getD term)]] := by
  simp [react, h]

/-- restart: graceful stop with (stop-signal or TERM, stop-timeout), then Start — in one atomic send -/
theorem react_restart (cfg : Cfg) (c : ChildId) (q) (h : cfg.mode = .restart) :
    (react cfg (.running c) q).1 = [.send [.gracefulStop (cfg.stopSignal.getD term) cfg.stopTimeout, .start], .send [.func setupId]] := by
  simp [react, h]

/-- queue: one follow-up per run — the first change during run `c` installs it, later ones during the same run do nothing -/
theorem react_queue_first (cfg : Cfg) (c : ChildId) (q : Option ChildId) (h : cfg.mode = .queue) (hq : q ≠ some c) :
    react cfg (.running c) q = ([.followUp c], some c) := by
  have : (q == some c) = false := by simpa using hq
  simp [react, h, this]

theorem react_queue_again (cfg : Cfg) (c : ChildId) (h : cfg.mode = .queue) :
    react cfg (.running c) (some c) = ([], some c) := by simp [react, h]

/-- the controls a list of actions sends -/
def sentCtls (as : List Act) : List Ctl := as.flatMap (fun a => match a with | .send cs => cs | .followUp _ => [])

/-- no reaction ever sends a control that kills outright, deletes the job, or restarts without a grace period -/
theorem react_no_forceful (cfg : Cfg) (cs : CS) (q) :
    ∀ ctl ∈ sentCtls (react cfg cs q).1, ctl ≠ .stop ∧ ctl ≠ .delete ∧ ctl ≠ .tryRestart := by
  intro ctl hc
  cases cs with
  | running c =>
    cases hm : cfg.mode with
    | doNothing => simp [react, hm, sentCtls] at hc
    | signal => simp [react, hm, sentCtls] at hc; subst hc; simp
    | restart => simp [react, hm, sentCtls] at hc; rcases hc with rfl | rfl | rfl <;> simp
    | queue =>
      by_cases hq : (q == some c) = true
      · simp [react, hm, hq, sentCtls] at hc
      · simp [react, hm, hq, sentCtls] at hc
  | pending => simp [react, sentCtls] at hc; rcases hc with rfl | rfl <;> simp
  | finished s => simp [react, sentCtls] at hc; rcases hc with rfl | rfl <;> simp

/-! ### signals received by watchexec itself (C08, last sentence)

`config.rs`: a batch that carries Terminate or Interrupt which `--map-signal` does not map quits — the first
time gracefully with the configured stop signal and stop timeout, a second time with KILL and no grace, a third time by
abort; otherwise every signal of the batch is handed to the command: translated if it is mapped to another signal,
dropped if it is mapped to nothing, unchanged if it is not mapped. With `--stdin-quit` a keyboard EOF quits the same way. -/

def sigInt : Sig := 2

inductive Manner | graceful (sig : Sig) (grace : Nat) | abort deriving DecidableEq, Repr

inductive SigAct
  | quit (m : Manner)
  | pass (sigs : List Sig)        -- `job.signal(sig)` for each, in order; the handler then returns (no filesystem event)
  deriving DecidableEq, Repr

/-- `signal_map.get(&s)`: the map is `collect`ed from the command-line list, so the LAST mapping given for a signal counts -/
def mapped (cfg : Cfg) (s : Sig) : Option (Option Sig) := (cfg.sigMap.reverse.find? (·.1 == s)).map (·.2)

/-- what is handed to the command for a received signal -/
def translate (cfg : Cfg) (sigs : List Sig) : List Sig :=
  sigs.filterMap (fun s => match mapped cfg s with | some (some m) => some m | some none => none | none => some s)

def quitManner (cfg : Cfg) (quitCount : Nat) : Manner :=
  match quitCount with
  | 0 => .graceful (cfg.stopSignal.getD term) cfg.stopTimeout
  | 1 => .graceful 9 0
  | _ => .abort

/-- the batch carries an interrupt or terminate that the user did not map -/
def quitting (cfg : Cfg) (sigs : List Sig) : Bool :=
  (sigs.contains term && (mapped cfg term).isNone) || (sigs.contains sigInt && (mapped cfg sigInt).isNone)

def onSignals (cfg : Cfg) (quitCount : Nat) (sigs : List Sig) : SigAct :=
  if quitting cfg sigs then .quit (quitManner cfg quitCount) else .pass (translate cfg sigs)

/-- a keyboard EOF event: quits with `--stdin-quit`; otherwise the batch has no path and no empty event and is skipped -/
def onEof (cfg : Cfg) (quitCount : Nat) : Option Manner := if cfg.stdinQuit then some (quitManner cfg quitCount) else none

theorem mapped_nil (cfg : Cfg) (h : cfg.sigMap = []) (s : Sig) : mapped cfg s = none := by simp [mapped, h]

theorem translate_unmapped (cfg : Cfg) (sigs : List Sig) (h : ∀ s ∈ sigs, mapped cfg s = none) : translate cfg sigs = sigs := by
  induction sigs with
  | nil => rfl
  | cons s ss ih =>
    have hs := h s (by simp)
    have := ih (fun s' hs' => h s' (by simp [hs']))
    simp only [translate, List.filterMap_cons, hs] at this ⊢
    rw [this]

/-- what the action worker does with a quit, per job: `stop_with_signal(sig, grace)` then `delete()` (graceful), or the
    job task is aborted and the handle dropped (abort) -/
def quitCtls : Manner → List (List Ctl)
  | .graceful sig grace => [[.gracefulStop sig grace], [.stop, .delete]]
  | .abort => []

/-- **an interrupt or terminate signal leads to exactly the graceful shutdown**: the first one quits with the configured
    stop signal (default TERM) and the configured stop timeout — whatever else the batch carries -/
theorem quitting_of (cfg : Cfg) (sigs : List Sig)
    (h : (term ∈ sigs ∧ mapped cfg term = none) ∨ (sigInt ∈ sigs ∧ mapped cfg sigInt = none)) : quitting cfg sigs = true := by
  rcases h with ⟨h, hm⟩ | ⟨h, hm⟩ <;> simp [quitting, h, hm]

theorem first_interrupt_quits_gracefully (cfg : Cfg) (sigs : List Sig)
    (h : (term ∈ sigs ∧ mapped cfg term = none) ∨ (sigInt ∈ sigs ∧ mapped cfg sigInt = none)) :
    onSignals cfg 0 sigs = .quit (.graceful (cfg.stopSignal.getD term) cfg.stopTimeout) := by
  unfold onSignals; rw [if_pos (quitting_of cfg sigs h)]; rfl

/-- … and per job that is: GracefulStop(stop signal, stop timeout), then Stop + Delete — the sequence C08's bound is about -/
theorem graceful_quit_sequence (sig : Sig) (grace : Nat) :
    quitCtls (.graceful sig grace) = [[.gracefulStop sig grace], [.stop, .delete]] := rfl

/-- any other signal never quits: it is handed to the command unchanged -/
theorem other_signals_pass (cfg : Cfg) (n : Nat) (sigs : List Sig) (h1 : term ∉ sigs) (h2 : sigInt ∉ sigs) :
    onSignals cfg n sigs = .pass (translate cfg sigs) := by
  have : ¬ quitting cfg sigs = true := by simp [quitting, h1, h2]
  unfold onSignals; rw [if_neg this]

/-- … and without `--map-signal` (or for signals it does not mention) that is the very same signals, in order -/
theorem unmapped_signals_pass_unchanged (cfg : Cfg) (n : Nat) (sigs : List Sig) (h1 : term ∉ sigs) (h2 : sigInt ∉ sigs)
    (hm : ∀ s ∈ sigs, mapped cfg s = none) : onSignals cfg n sigs = .pass sigs := by
  rw [other_signals_pass cfg n sigs h1 h2, translate_unmapped cfg sigs hm]

/-- `--map-signal`: an interrupt or terminate the user mapped does NOT quit (unless the batch also carries the other one,
    unmapped); the command gets what it was mapped to, or nothing -/
theorem mapped_interrupt_does_not_quit (cfg : Cfg) (n : Nat) (sigs : List Sig)
    (ht : term ∈ sigs → (mapped cfg term).isSome) (hi : sigInt ∈ sigs → (mapped cfg sigInt).isSome) :
    onSignals cfg n sigs = .pass (translate cfg sigs) := by
  have : ¬ quitting cfg sigs = true := by
    simp only [quitting, Bool.or_eq_true, Bool.and_eq_true, List.contains_iff_mem, not_or, not_and]
    constructor
    · intro h; have := ht h; cases hm : mapped cfg term <;> simp_all
    · intro h; have := hi h; cases hm : mapped cfg sigInt <;> simp_all
  unfold onSignals; rw [if_neg this]

/-- a signal mapped to nothing is discarded, one mapped to another signal arrives as that signal, the others as themselves -/
theorem translate_one (cfg : Cfg) (s : Sig) :
    translate cfg [s] = match mapped cfg s with | some (some m) => [m] | some none => [] | none => [s] := by
  simp only [translate, List.filterMap_cons, List.filterMap_nil]
  cases mapped cfg s with
  | none => rfl
  | some o => cases o <;> rfl

/-- the LAST `--map-signal` given for a signal is the one that counts -/
theorem last_mapping_wins (cfg : Cfg) (s : Sig) (to : Option Sig) (rest : List (Sig × Option Sig)) (h : cfg.sigMap = rest ++ [(s, to)]) :
    mapped cfg s = some to := by simp [mapped, h]

/-- repeated interrupts escalate: KILL without grace, then abort -/
theorem interrupts_escalate (cfg : Cfg) (sigs : List Sig)
    (h : (term ∈ sigs ∧ mapped cfg term = none) ∨ (sigInt ∈ sigs ∧ mapped cfg sigInt = none)) :
    onSignals cfg 1 sigs = .quit (.graceful 9 0) ∧ ∀ n, onSignals cfg (n + 2) sigs = .quit .abort := by
  have := quitting_of cfg sigs h
  exact ⟨by (unfold onSignals; rw [if_pos this]; rfl), fun n => by (unfold onSignals; rw [if_pos this]; rfl)⟩

/-- `--stdin-quit`: end of input on watchexec's stdin quits exactly like the first interrupt; without the option it does nothing -/
theorem keyboard_eof_quits_gracefully (cfg : Cfg) (h : cfg.stdinQuit = true) :
    onEof cfg 0 = some (.graceful (cfg.stopSignal.getD term) cfg.stopTimeout) := by simp [onEof, h, quitManner]
theorem keyboard_eof_ignored_without_option (cfg : Cfg) (n : Nat) (h : cfg.stdinQuit = false) : onEof cfg n = none := by simp [onEof, h]

end Ca
