import Wx.Cli.Action
import Wx.Job.Reach
/-! C05 / C08: the CLI's action logic composed with the job task. Every event makes the action handler enqueue one
    state-query closure (a `func` control with a fresh id ≥ 2000); when the job task executes it, the reaction of
    `Ca.react` is enqueued at that very point; a queue-mode follow-up acts when its wait-for-end ticket resolves; a
    signal to watchexec quits or is passed on. This file is the model the `cli-action` / `cli-quit` streams run
    (`Wx.Driver.CliAction` only parses); `Wx.Cli.ComposeThm` shows that everything it does stays inside the closure
    `Jm.Reach` of primitive job steps, so every whole-run theorem about the job applies to the CLI. -/
namespace Ca
open Jm

structure C where
  x : Sim
  cfg : Cfg
  queuedFor : Option ChildId := none
  pendingQ : List Nat := []                 -- query closures sent and not yet executed
  nextQ : Nat := 2000
  follow : List (WaiterId × ChildId) := []  -- follow-up tasks blocked in to_wait().await, and the run they belong to
  spawning : List ChildId := []             -- follow-up tasks spawned by a query closure that have not run yet (they run when the job task yields, or at once on another thread)
  delayRun : Option Nat := none             -- --delay-run: a closure that sleeps INSIDE the job task before every query
  delayIds : List Nat := []                 -- delay closures sent and not yet executed
  blockedUntil : Nat := 0                   -- the job task is asleep inside a delay closure until then: it takes no turn
  quitCount : Nat := 0                      -- quits requested so far (the action worker handles no further event once it is quitting)

def queryIds (log : List (Nat × Obs)) (n : Nat) : List Nat :=
  (log.take n).reverse.filterMap (fun (_, o) => match o with | .func id _ _ => if id ≥ 2000 then some id else none | _ => none)

def applyActs (c : C) (acts : List Act) : C :=
  acts.foldl (fun c a => match a with
    | .send ctls => { c with x := doSend c.x .normal ctls false }
    | .followUp run => { c with spawning := c.spawning ++ [run] }) c

/-- the spawned follow-up tasks get to run: each sends `job.to_wait()` (high priority) and awaits the ticket -/
def startFollowUps (c : C) : C :=
  c.spawning.foldl (fun c run =>
    let w := c.x.nextWaiter
    { c with x := doSend c.x .high [.nextEnding] true, follow := c.follow ++ [(w, run)] }) { c with spawning := [] }

/-- after a task turn (old → new state): run the reactions of every query closure that executed in it -/
def afterTurn (c : C) (old : St) : C :=
  let fresh := queryIds c.x.st.log (c.x.st.log.length - old.log.length)
  fresh.foldl (fun c q =>
    if c.delayIds.contains q then
      { c with delayIds := c.delayIds.erase q, blockedUntil := c.x.st.now + c.delayRun.getD 0 }
    else if c.pendingQ.contains q then
      let (acts, qf) := react c.cfg c.x.st.cs c.queuedFor
      applyActs { c with pendingQ := c.pendingQ.erase q, queuedFor := qf } acts
    else c) c

/-- follow-up tasks whose ticket has resolved act now -/
def wakeFollowUps (c : C) : C × Bool :=
  let (ready, waiting) := c.follow.partition (fun (w, _) => (c.x.st.waiters.find? (·.id == w)).map (·.resolved) == some true)
  if ready.isEmpty then (c, false) else
  (ready.foldl (fun c (_, run) =>
    let (acts, qf) := followUpActs run c.queuedFor
    applyActs { c with queuedFor := qf } acts) { c with follow := waiting }, true)

def settleC : Nat → C → List C
  | 0, c => [c]
  | fuel + 1, c =>
    if c.x.st.now < c.blockedUntil then
      -- the job task sleeps inside a delay closure; the other tasks (spawned follow-ups, woken waiters) run
      if !c.spawning.isEmpty then settleC fuel (startFollowUps c)
      else if !c.x.st.pendingPolls.isEmpty then settleC fuel { c with x := { c.x with st := drainPolls c.x.st } }
      else
        let (c', woke) := wakeFollowUps c
        if woke then settleC fuel c' else [c']
    else
    match turns c.x.st with
    | [] =>
      if !c.spawning.isEmpty then settleC fuel (startFollowUps c) else
      let s := park c.x.st
      if !s.pendingPolls.isEmpty then settleC fuel { c with x := { c.x with st := drainPolls s } }
      else
        let (c', woke) := wakeFollowUps { c with x := { c.x with st := s } }
        if woke then settleC fuel c' else [c']
    | ts =>
      -- a spawned follow-up may get to run before the job task's next turn (another worker thread), or only once the job task yields
      (if c.spawning.isEmpty then [] else settleC fuel (startFollowUps c)) ++
      ts.flatMap (fun s' => settleC fuel (afterTurn { c with x := { c.x with st := s' } } c.x.st))

def advanceC : Nat → Nat → C → List C
  | 0, _, c => [c]
  | fuel + 1, target, c =>
    (settleC 300 c).flatMap (fun c =>
      if c.x.st.now < c.blockedUntil then
        -- asleep inside the job task: nothing happens until the sleep is over (or the script's target is reached)
        let t := if c.blockedUntil ≤ target then c.blockedUntil else target
        if t == c.x.st.now then [c] else advanceC fuel target { c with x := { c.x with st := { c.x.st with now := t } } }
      else
      match nextEvent c.x.st target with
      | some t => advanceC fuel target { c with x := { c.x with st := { c.x.st with now := t } } }
      | none => settleC 300 { c with x := { c.x with st := { c.x.st with now := target } } })

/-- the action handler for one event batch: enqueue the state query -/
def onEvent (c : C) : C :=
  let c := match c.delayRun with
    | some _ => let d := c.nextQ; { c with x := doSend c.x .normal [.func d] false, delayIds := c.delayIds ++ [d], nextQ := d + 1 }
    | none => c
  let q := c.nextQ
  { c with x := doSend c.x .normal [.func q] false, pendingQ := c.pendingQ ++ [q], nextQ := q + 1 }

/-- a signal delivered to watchexec itself: quit (the worker then stops and deletes the job) or pass it on -/
def onSignal (c : C) (sig : Nat) : C :=
  match onSignals c.cfg c.quitCount [sig] with
  | .quit m => (quitCtls m).foldl (fun c ctls => { c with x := doSend c.x .normal ctls false }) { c with quitCount := c.quitCount + 1 }
  | .pass sigs => sigs.foldl (fun c g => { c with x := doSend c.x .normal [.signal g] false }) c

/-- a keyboard EOF event delivered to the action handler: with `--stdin-quit` the same quit, else the batch is skipped (no query) -/
def onEofEv (c : C) : C :=
  match onEof c.cfg c.quitCount with
  | some m => (quitCtls m).foldl (fun c ctls => { c with x := doSend c.x .normal ctls false }) { c with quitCount := c.quitCount + 1 }
  | none => c

/-- one scripted event of the CLI streams -/
inductive Ev | init | chg | sig (n : Nat) | mix (n : Nat) | eof | settle | advance (ms : Nat)
  deriving Repr, DecidableEq

def stepEv (c : C) : Ev → List C
  | .init | .chg => if c.quitCount > 0 then [c] else [onEvent c]
  | .sig n => if c.quitCount > 0 then [c] else [onSignal c n]
  -- a change and a signal in ONE action: the signals are dealt with first (quit, or passed on), then the change takes its usual course
  | .mix n => if c.quitCount > 0 then [c] else
      let c' := onSignal c n
      if c'.quitCount > 0 then [c'] else [onEvent c']
  | .eof => if c.quitCount > 0 then [c] else [onEofEv c]
  | .settle => settleC 300 c
  | .advance ms => advanceC 64 (c.x.st.now + ms) c

def runEvs (c : C) : List Ev → List C
  | [] => [c]
  | e :: es => (stepEv c e).flatMap (fun c' => runEvs c' es)

end Ca
