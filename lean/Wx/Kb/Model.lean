/-! Keyboard source (`lib/src/sources/keyboard.rs`): the worker loop around `ConfigWatched::next`, the `watch_stdin`
    task it spawns and closes, and the `Keyboard::Eof` events that reach the event channel (C01: "keyboard EOF";
    C13: a run-time change of `keyboard_events`).

    What the code reads from outside is an input of the model: the configuration value (`Op.set`, which also signals
    a change whatever the value), a change of any other configuration value (`Op.poke`), bytes arriving on stdin (`Op.data`), end of input on stdin (`Op.close`), and the
    scheduler letting the worker and the watcher run until nothing is left to do (`Op.settle`). Several `set`s
    without a `settle` in between are seen by the worker as ONE wake-up (`ConfigWatched`: a change counter). -/
namespace Kb

structure St where
  enabled : Bool := false     -- `config.keyboard_events`
  dirty : Bool := true        -- the worker has an iteration to run (`first_run`, or a change it has not seen)
  closeS : Bool := false      -- `send_close.is_some()`
  alive : Bool := false       -- a `watch_stdin` task is running (reading stdin, close channel open)
  eof : Bool := false         -- stdin is at end of input
  delivered : Nat := 0        -- `Keyboard::Eof` events sent into the event channel (priority Normal)
  spawned : Nat := 0          -- ghost: `watch_stdin` tasks spawned so far
  deriving DecidableEq, Repr

inductive Op | set (b : Bool) | poke | data | close | settle
  deriving DecidableEq, Repr

/-- one iteration of `worker`'s loop body, if there is a change to see -/
def workerIter (s : St) : St :=
  if !s.dirty then s else
  let s := { s with dirty := false }
  match s.enabled, s.closeS with
  | true, false => { s with closeS := true, alive := true, spawned := s.spawned + 1 }   -- spawn(watch_stdin(..))
  | false, true => { s with closeS := false, alive := false }   -- send_close.take().send(()): the task's select! ends it (a task that has ended already ignores it)
  | _, _ => s

/-- the `watch_stdin` task: `Ok(0)` from stdin → one `Keyboard::Eof` event, then the task ends; data is read and dropped -/
def watcherRun (s : St) : St :=
  if s.alive && s.eof then { s with alive := false, delivered := s.delivered + 1 } else s

def settle (s : St) : St := watcherRun (workerIter s)

def step (s : St) : Op → St
  | .set b => { s with enabled := b, dirty := true }
  | .poke => { s with dirty := true }      -- any OTHER configuration value changes: the worker is woken all the same
  | .data => s
  | .close => { s with eof := true }
  | .settle => settle s

def run (s : St) (ops : List Op) : St := ops.foldl step s

def init : St := {}

end Kb
