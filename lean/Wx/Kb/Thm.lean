import Wx.Kb.Model
/-! Theorems about the keyboard source model: for EVERY script of configuration changes, stdin input and scheduling points. -/
namespace Kb

/-- what holds of every reachable state -/
structure Inv (s : St) : Prop where
  alive_closeS : s.alive = true → s.closeS = true
  closeS_alive : s.closeS = true → s.alive = true ∨ 1 ≤ s.delivered
  seen : s.dirty = false → s.closeS = s.enabled
  le : s.delivered + (if s.alive then 1 else 0) ≤ s.spawned
  eof : 1 ≤ s.delivered → s.eof = true

theorem inv_init : Inv init := by
  constructor <;> simp [init]

theorem inv_workerIter (s : St) (h : Inv s) : Inv (workerIter s) := by
  obtain ⟨en, d, c, a, e, n, k⟩ := s
  obtain ⟨h1, h2, h3, h4, h5⟩ := h
  cases en <;> cases d <;> cases c <;> cases a <;> constructor <;> simp_all [workerIter] <;> omega

theorem inv_watcherRun (s : St) (h : Inv s) : Inv (watcherRun s) := by
  obtain ⟨en, d, c, a, e, n, k⟩ := s
  obtain ⟨h1, h2, h3, h4, h5⟩ := h
  cases a <;> cases e <;> constructor <;> simp_all [watcherRun] <;> omega

theorem inv_step (s : St) (op : Op) (h : Inv s) : Inv (step s op) := by
  cases op with
  | set b => obtain ⟨h1, h2, h3, h4, h5⟩ := h; constructor <;> first | exact h4 | simp_all [step]
  | poke => obtain ⟨h1, h2, h3, h4, h5⟩ := h; constructor <;> first | exact h4 | simp_all [step]
  | data => exact h
  | close => obtain ⟨h1, h2, h3, h4, h5⟩ := h; constructor <;> first | exact h4 | simp_all [step]
  | settle => exact inv_watcherRun _ (inv_workerIter _ h)

theorem inv_run (s : St) (ops : List Op) (h : Inv s) : Inv (run s ops) := by
  induction ops generalizing s with
  | nil => exact h
  | cons op ops ih => exact ih _ (inv_step s op h)

theorem workerIter_clean (s : St) : (workerIter s).dirty = false := by
  obtain ⟨en, d, c, a, e, n, k⟩ := s
  cases en <;> cases d <;> cases c <;> simp [workerIter]

theorem workerIter_frame (s : St) : (workerIter s).enabled = s.enabled ∧ (workerIter s).eof = s.eof := by
  obtain ⟨en, d, c, a, e, n, k⟩ := s
  cases en <;> cases d <;> cases c <;> simp [workerIter]

/-- **no keyboard EOF is lost**: whatever happened before — any number of run-time changes of `keyboard_events`, coalesced or not,
    input arriving at any point — once things have settled with the source enabled and stdin at end of input, the EOF event
    has been sent into the event queue -/
theorem eof_never_lost (ops : List Op) :
    (settle (run init ops)).enabled = true → (settle (run init ops)).eof = true → 1 ≤ (settle (run init ops)).delivered := by
  have hr := inv_run init ops inv_init
  generalize run init ops = r at hr
  have hw := inv_workerIter r hr
  have hc := workerIter_clean r
  unfold settle
  generalize workerIter r = w at hw hc
  obtain ⟨en, d, c, a, e, n, k⟩ := w
  obtain ⟨h1, h2, h3, h4, h5⟩ := hw
  cases a <;> cases e <;> simp_all [watcherRun]

/-- the source sends at most one EOF event per `watch_stdin` task, hence at most one per time it was switched on -/
theorem delivered_le_spawned (ops : List Op) : (run init ops).delivered ≤ (run init ops).spawned := by
  have h := (inv_run init ops inv_init).le
  omega

def pend (s : St) : Nat := if s.enabled && !s.closeS then 1 else 0
def enables (ops : List Op) : Nat := (ops.filter (· == .set true)).length

theorem spawned_step (s : St) (op : Op) :
    (step s op).spawned + pend (step s op) ≤ s.spawned + pend s + (if op = .set true then 1 else 0) := by
  obtain ⟨en, d, c, a, e, n, k⟩ := s
  cases op with
  | set b => cases b <;> cases en <;> cases c <;> simp [step, pend]
  | poke => simp [step, pend]
  | data => simp [step]
  | close => simp [step, pend]
  | settle =>
    cases en <;> cases d <;> cases c <;> cases a <;> cases e <;> simp [step, settle, workerIter, watcherRun, pend]

theorem spawned_run (s : St) (ops : List Op) : (run s ops).spawned + pend (run s ops) ≤ s.spawned + pend s + enables ops := by
  induction ops generalizing s with
  | nil => simp [run, enables]
  | cons op ops ih =>
    have h1 := ih (step s op)
    have h2 := spawned_step s op
    have h3 : enables (op :: ops) = (if op = .set true then 1 else 0) + enables ops := by
      by_cases h : op = .set true
      · subst h; simp [enables, List.filter]; omega
      · have : (op == Op.set true) = false := by simpa using h
        simp [enables, List.filter, this, h]
    simp only [run, List.foldl] at h1 ⊢
    omega

/-- … and a watcher is spawned at most once per `keyboard_events(true)`: EOF events never outnumber the times the source was enabled -/
theorem delivered_le_enables (ops : List Op) : (run init ops).delivered ≤ enables ops := by
  have h1 := delivered_le_spawned ops
  have h2 := spawned_run init ops
  have h3 : init.spawned + pend init = 0 := by decide
  omega

/-- **a disabled source delivers nothing**: while `keyboard_events` was never switched on, no input and no EOF on stdin produces an event -/
theorem disabled_delivers_nothing (ops : List Op) (h : ∀ op ∈ ops, op ≠ .set true) : (run init ops).delivered = 0 := by
  have h1 := delivered_le_enables ops
  have : enables ops = 0 := by
    simp only [enables, List.length_eq_zero_iff, List.filter_eq_nil_iff]
    intro op hop; simpa using h op hop
  omega

/-! ### one watch task per switch from disabled to enabled, as the worker sees it

The worker looks at the configuration only when it runs (`settle`); what it can see is the configured value at those
points. `edges` counts the points at which that value has gone from disabled to enabled. -/

structure Edge where
  cur : Bool := false      -- the configured value
  last : Bool := false     -- … at the previous settling point
  n : Nat := 0
  deriving DecidableEq, Repr

def edgeStep (e : Edge) : Op → Edge
  | .set b => { e with cur := b }
  | .settle => { e with last := e.cur, n := e.n + (if e.cur && !e.last then 1 else 0) }
  | _ => e

def edges (ops : List Op) : Nat := (ops.foldl edgeStep {}).n

/-- the worker's private state is exactly the edge detector: `send_close.is_some()` is the value it saw last -/
structure Rel (s : St) (e : Edge) : Prop where
  cur : e.cur = s.enabled
  last : e.last = s.closeS
  seen : s.dirty = false → s.closeS = s.enabled
  n : s.spawned = e.n

theorem rel_step (s : St) (e : Edge) (op : Op) (h : Rel s e) : Rel (step s op) (edgeStep e op) := by
  obtain ⟨en, d, c, a, f, n, k⟩ := s
  obtain ⟨ec, el, m⟩ := e
  obtain ⟨h1, h2, h3, h4⟩ := h
  simp only at h1 h2 h3 h4
  subst h1 h2 h4
  cases op with
  | set b => constructor <;> simp_all [step, edgeStep]
  | poke => constructor <;> simp_all [step, edgeStep]
  | data => constructor <;> simp_all [step, edgeStep]
  | close => constructor <;> simp_all [step, edgeStep]
  | settle =>
    cases ec <;> cases d <;> cases el <;> cases a <;> cases f <;> constructor <;> simp_all [step, edgeStep, settle, workerIter, watcherRun]

theorem rel_run (s : St) (e : Edge) (ops : List Op) (h : Rel s e) : Rel (run s ops) (ops.foldl edgeStep e) := by
  induction ops generalizing s e with
  | nil => exact h
  | cons op ops ih => exact ih _ _ (rel_step s e op h)

/-- **watch tasks = switches from disabled to enabled** (as seen at the settling points), for every script -/
theorem spawned_eq_edges (ops : List Op) : (run init ops).spawned = edges ops :=
  (rel_run init {} ops ⟨rfl, rfl, by simp [init], rfl⟩).n

/-- hence one end of input is never reported twice to a source that stayed enabled: EOF events ≤ switches from disabled to enabled -/
theorem delivered_le_edges (ops : List Op) : (run init ops).delivered ≤ edges ops := by
  have := delivered_le_spawned ops
  rw [spawned_eq_edges] at this; exact this

example : edges [.set true, .settle, .set true, .settle, .set false, .set true, .settle] = 1 := by decide
/-- a change of another configuration value while the source stays enabled neither ends the watch task nor starts a second one -/
example : (run init [.set true, .settle, .poke, .settle, .close, .settle]).delivered = 1 ∧
    (run init [.set true, .settle, .poke, .settle, .poke, .settle, .close, .settle]).spawned = 1 := by decide

/-! ### exactly once in the plain use: enabled once, then end of input -/

/-- the state of a source that is enabled and reading, having delivered `n` events from `k` tasks -/
def watching (n k : Nat) : St := { enabled := true, dirty := false, closeS := true, alive := true, eof := false, delivered := n, spawned := k }

theorem enable_watches : run init [.set true, .settle] = watching 0 1 := by decide

def quietOp : Op → Bool | .data => true | .settle => true | _ => false
def noSet : Op → Bool | .set _ => false | .poke => false | _ => true

theorem watching_quiet (n k : Nat) (ds : List Op) (h : ∀ op ∈ ds, quietOp op = true) : run (watching n k) ds = watching n k := by
  induction ds with
  | nil => rfl
  | cons op ds ih =>
    have ho := h op (by simp)
    have : step (watching n k) op = watching n k := by
      cases op with
      | set b => simp [quietOp] at ho
      | poke => simp [quietOp] at ho
      | close => simp [quietOp] at ho
      | data => rfl
      | settle => simp [step, settle, workerIter, watcherRun, watching]
    simp only [run, List.foldl] at ih ⊢
    rw [this]; exact ih (fun op hop => h op (by simp [hop]))

/-- once the task has ended and the worker has nothing to see, nothing but a new `keyboard_events(..)` call makes the source act again -/
theorem ended_stays (s : St) (rest : List Op) (hd : s.dirty = false) (ha : s.alive = false) (h : ∀ op ∈ rest, noSet op = true) :
    (run s rest).delivered = s.delivered := by
  induction rest generalizing s with
  | nil => rfl
  | cons op rest ih =>
    have ho := h op (by simp)
    obtain ⟨en, d, c, a, e, n, k⟩ := s
    simp only at hd ha; subst hd ha
    simp only [run, List.foldl]
    cases op with
    | set b => simp [noSet] at ho
    | poke => simp [noSet] at ho
    | data => exact ih _ rfl rfl (fun op hop => h op (by simp [hop]))
    | close => exact ih _ rfl rfl (fun op hop => h op (by simp [hop]))
    | settle =>
      have : step { enabled := en, dirty := false, closeS := c, alive := false, eof := e, delivered := n, spawned := k } .settle
          = { enabled := en, dirty := false, closeS := c, alive := false, eof := e, delivered := n, spawned := k } := by
        simp [step, settle, workerIter, watcherRun]
      rw [this]; exact ih _ rfl rfl (fun op hop => h op (by simp [hop]))

/-- **exactly once**: the source is enabled, any amount of input arrives, stdin reaches end of input: exactly one EOF event is sent,
    whatever input-side activity and scheduling follows -/
theorem eof_exactly_once (ds rest : List Op) (hds : ∀ op ∈ ds, quietOp op = true) (hrest : ∀ op ∈ rest, noSet op = true) :
    (run init ([.set true, .settle] ++ ds ++ [.close, .settle] ++ rest)).delivered = 1 := by
  have h1 : run init ([.set true, .settle] ++ ds ++ [.close, .settle] ++ rest)
      = run (run (run (run init [.set true, .settle]) ds) [.close, .settle]) rest := by
    simp [run, List.foldl_append]
  rw [h1, enable_watches, watching_quiet 0 1 ds hds]
  have h2 : run (watching 0 1) [.close, .settle]
      = { enabled := true, dirty := false, closeS := true, alive := false, eof := true, delivered := 1, spawned := 1 } := by decide
  rw [h2, ended_stays _ rest rfl rfl hrest]

/-- the premises are satisfiable, and the general bound is tight: switching the source off and on again at end of input
    sends the event a second time (one per task), never more -/
example : (run init [.set true, .settle, .data, .close, .settle, .set false, .settle, .set true, .settle]).delivered = 2 := by decide
example : (run init [.set true, .set false, .set true, .settle, .close, .settle]).spawned = 1 := by decide

end Kb
