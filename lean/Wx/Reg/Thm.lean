import Wx.Reg.Model
/-! The registry never loses a live job: for EVERY script of actions (creations on any threads, ids minted on any threads,
    get-or-create with any held id, deletions in between), every job ever started is registered with the worker or has
    ended — so a graceful quit stops all of them and the main task waits for nothing that is not being stopped. -/
namespace Rg

theorem look_none_iff (k : Key) (l : List (Key × Nat)) : look k l = none ↔ ∀ e ∈ l, e.1 ≠ k := by
  simp only [look, Option.map_eq_none_iff, List.find?_eq_none]
  constructor
  · intro h e he heq; exact h e he (by simp [heq])
  · intro h e he; simpa using h e he

theorem look_some_mem {k : Key} {l : List (Key × Nat)} {j : Nat} (h : look k l = some j) : j ∈ vals l := by
  simp only [look, Option.map_eq_some_iff] at h
  obtain ⟨e, he, rfl⟩ := h
  exact List.mem_map.2 ⟨e, List.mem_of_find?_eq_some he, rfl⟩

theorem ins_fresh (k : Key) (v : Nat) (l : List (Key × Nat)) (h : ∀ e ∈ l, e.1 ≠ k) : ins k v l = (k, v) :: l := by
  simp only [ins, List.cons.injEq, true_and]
  exact List.filter_eq_self.2 (fun e he => by simpa using h e he)

theorem foldr_ins (new jobs : List (Key × Nat)) (hp : new.Pairwise (fun a b => a.1 ≠ b.1))
    (hd : ∀ e ∈ new, ∀ e' ∈ jobs, e.1 ≠ e'.1) : new.foldr (fun e js => ins e.1 e.2 js) jobs = new ++ jobs := by
  induction new with
  | nil => rfl
  | cons e rest ih =>
    have hp' := List.pairwise_cons.1 hp
    rw [List.foldr_cons, ih hp'.2 (fun x hx => hd x (by simp [hx]))]
    rw [ins_fresh]
    · rfl
    · intro x hx
      rcases List.mem_append.1 hx with hx | hx
      · exact fun h => hp'.1 x hx h.symm
      · exact fun h => hd e (by simp) x hx h.symm

theorem counterOf_mint (w : W) (t t' : Nat) :
    counterOf (mintId w t).2 t' = if t' = t then counterOf w t + 1 else counterOf w t' := by
  by_cases h : t' = t
  · subst h; simp [mintId, counterOf]
  · have h' : (t == t') = false := by simpa using fun e => h e.symm
    simp only [mintId, counterOf, List.find?_cons, h', h, if_false]
    congr 2
    rw [List.find?_filter]
    congr 1
    funext e
    by_cases he : e.1 = t'
    · simp [he, h]
    · have : (e.1 == t') = false := by simpa using he
      simp [this]

theorem counterOf_mint_le (w : W) (t t' : Nat) : counterOf w t' ≤ counterOf (mintId w t).2 t' := by
  rw [counterOf_mint]; split
  · next h => subst h; omega
  · exact Nat.le_refl _

/-- what holds of every reachable state under the repaired `get_or_create_job` -/
structure Inv (w : W) : Prop where
  reg : ∀ j, j < w.nextJob → j ∈ vals w.jobs ∨ j ∈ vals w.new ∨ j ∈ w.dead
  newKeys : w.new.Pairwise (fun a b => a.1 ≠ b.1)
  disj : ∀ e ∈ w.new, ∀ e' ∈ w.jobs, e.1 ≠ e'.1
  freshIds : ∀ k ∈ w.ids, k.2 < counterOf w k.1
  freshJobs : ∀ e ∈ w.jobs, e.1.2 < counterOf w e.1.1
  freshNew : ∀ e ∈ w.new, e.1.2 < counterOf w e.1.1
  tasksLt : ∀ j ∈ w.tasks, j < w.nextJob
  newLt : ∀ j ∈ vals w.new, j < w.nextJob
  fix : w.cfg.f19 = true
  tasksAll : ∀ j, j < w.nextJob → j ∈ w.tasks ∨ j ∈ vals w.new

theorem inv_init : Inv (init { f19 := true }) := by
  constructor <;> simp [init, vals]

/-- minting keeps everything and yields an id nobody holds -/
theorem inv_mint (w : W) (t : Nat) (h : Inv w) :
    Inv (mintId w t).2 ∧ (∀ e ∈ w.jobs, e.1 ≠ (mintId w t).1) ∧ (∀ e ∈ w.new, e.1 ≠ (mintId w t).1)
      ∧ (mintId w t).1.2 < counterOf (mintId w t).2 (mintId w t).1.1 := by
  have hle := counterOf_mint_le w t
  refine ⟨⟨h.reg, h.newKeys, h.disj, ?_, ?_, ?_, h.tasksLt, h.newLt, h.fix, h.tasksAll⟩, ?_, ?_, ?_⟩
  · intro k hk; exact Nat.lt_of_lt_of_le (h.freshIds k hk) (hle _)
  · intro e he; exact Nat.lt_of_lt_of_le (h.freshJobs e he) (hle _)
  · intro e he; exact Nat.lt_of_lt_of_le (h.freshNew e he) (hle _)
  · intro e he heq
    have := h.freshJobs e he
    rw [heq] at this; simp [mintId] at this
  · intro e he heq
    have := h.freshNew e he
    rw [heq] at this; simp [mintId] at this
  · rw [counterOf_mint]; simp [mintId]

/-- starting a job under an id that neither the registry nor this action's new jobs know -/
theorem inv_startWith (w : W) (k : Key) (h : Inv w) (hj : ∀ e ∈ w.jobs, e.1 ≠ k) (hn : ∀ e ∈ w.new, e.1 ≠ k)
    (hf : k.2 < counterOf w k.1) : Inv (startWith w k) := by
  have hins : ins k w.nextJob w.new = (k, w.nextJob) :: w.new := ins_fresh k _ _ hn
  refine ⟨?_, ?_, ?_, h.freshIds, h.freshJobs, ?_, ?_, ?_, h.fix, ?_⟩
  rotate_right
  · intro j hjlt
    simp only [startWith, hins, vals, List.map_cons, List.mem_cons] at hjlt ⊢
    by_cases hjn : j = w.nextJob
    · exact Or.inr (Or.inl hjn)
    · rcases h.tasksAll j (by omega) with h1 | h1
      · exact Or.inl h1
      · exact Or.inr (Or.inr h1)
  · intro j hjlt
    simp only [startWith, hins, vals, List.map_cons, List.mem_cons] at hjlt ⊢
    by_cases hjn : j = w.nextJob
    · exact Or.inr (Or.inl (Or.inl hjn))
    · rcases h.reg j (by omega) with h1 | h1 | h1
      · exact Or.inl h1
      · exact Or.inr (Or.inl (Or.inr h1))
      · exact Or.inr (Or.inr h1)
  · simp only [startWith, hins]
    exact List.pairwise_cons.2 ⟨fun e he heq => hn e he heq.symm, h.newKeys⟩
  · intro e he e' he'
    simp only [startWith, hins, List.mem_cons] at he he'
    rcases he with rfl | he
    · exact fun heq => hj e' he' heq.symm
    · exact h.disj e he e' he'
  · intro e he
    simp only [startWith, hins, List.mem_cons] at he
    rcases he with rfl | he
    · exact hf
    · exact h.freshNew e he
  · intro j hjt; have := h.tasksLt j hjt; simp only [startWith]; omega
  · intro j hjv
    simp only [startWith, hins, vals, List.map_cons, List.mem_cons] at hjv ⊢
    rcases hjv with rfl | hjv
    · omega
    · have := h.newLt j hjv; omega

theorem inv_ids (w : W) (k : Key) (h : Inv w) (hf : k.2 < counterOf w k.1) : Inv { w with ids := w.ids ++ [k] } :=
  ⟨h.reg, h.newKeys, h.disj, by
    intro k' hk'
    rcases List.mem_append.1 hk' with hk' | hk'
    · exact h.freshIds k' hk'
    · simp only [List.mem_singleton] at hk'; subst hk'; exact hf, h.freshJobs, h.freshNew, h.tasksLt, h.newLt, h.fix, h.tasksAll⟩

theorem inv_out (w : W) (r : Res) (h : Inv w) : Inv { w with out := r :: w.out } :=
  ⟨h.reg, h.newKeys, h.disj, h.freshIds, h.freshJobs, h.freshNew, h.tasksLt, h.newLt, h.fix, h.tasksAll⟩

theorem inv_step (w : W) (op : Op) (h : Inv w) : Inv (step w op) := by
  cases op with
  | create t =>
    obtain ⟨hi, hj, hn, hf⟩ := inv_mint w t h
    simp only [step]
    exact inv_startWith _ _ (inv_ids _ _ hi hf) hj hn hf
  | mint t =>
    obtain ⟨hi, _, _, hf⟩ := inv_mint w t h
    simp only [step]
    exact inv_ids _ _ hi hf
  | get i =>
    simp only [step]
    split
    · exact h
    · exact inv_out _ _ h
  | goc i =>
    simp only [step]
    split
    · exact h
    · next k hk =>
      have hkm : k ∈ w.ids := List.mem_of_getElem? hk
      split
      · exact inv_out _ _ h
      · next hlj =>
        rw [h.fix]; simp only [if_true]
        split
        · exact inv_out _ _ h
        · next hln =>
          exact inv_startWith w k h ((look_none_iff k _).1 hlj) ((look_none_iff k _).1 hln) (h.freshIds k hkm)

theorem inv_steps (w : W) (ops : List Op) (h : Inv w) : Inv (ops.foldl step w) := by
  induction ops generalizing w with
  | nil => exact h
  | cons op ops ih => exact ih _ (inv_step w op h)

/-- after the worker has taken the new jobs over, EVERY started job is registered or has ended -/
theorem inv_endAction (w : W) (h : Inv w) :
    Inv (endAction w) ∧ ∀ j, j < (endAction w).nextJob → j ∈ vals (endAction w).jobs ∨ j ∈ (endAction w).dead := by
  have hf := foldr_ins w.new w.jobs h.newKeys h.disj
  have key : ∀ j, j < w.nextJob → j ∈ vals ((w.new ++ w.jobs).filter (fun e => !w.dead.contains e.2)) ∨ j ∈ w.dead := by
    intro j hj
    by_cases hd : j ∈ w.dead
    · exact Or.inr hd
    · left
      have : j ∈ vals (w.new ++ w.jobs) := by
        simp only [vals, List.map_append, List.mem_append]
        rcases h.reg j hj with h1 | h1 | h1
        · exact Or.inr h1
        · exact Or.inl h1
        · exact absurd h1 hd
      simp only [vals, List.mem_map] at this ⊢
      obtain ⟨e, he, rfl⟩ := this
      exact ⟨e, List.mem_filter.2 ⟨he, by simpa using hd⟩, rfl⟩
  refine ⟨⟨?_, ?_, ?_, h.freshIds, ?_, ?_, ?_, ?_, h.fix, ?_⟩, ?_⟩
  · intro j hj
    simp only [endAction, hf]
    rcases key j hj with h1 | h1
    · exact Or.inl h1
    · exact Or.inr (Or.inr h1)
  · simp [endAction]
  · simp [endAction]
  · intro e he
    simp only [endAction, hf] at he
    have := (List.mem_filter.1 he).1
    rcases List.mem_append.1 this with h1 | h1
    · exact h.freshNew e h1
    · exact h.freshJobs e h1
  · simp [endAction]
  · intro j hj
    simp only [endAction, List.mem_append] at hj
    rcases hj with hj | hj
    · exact h.tasksLt j hj
    · exact h.newLt j hj
  · simp [endAction, vals]
  · intro j hj
    simp only [endAction, List.mem_append]
    rcases h.tasksAll j hj with h1 | h1
    · exact Or.inl (Or.inl h1)
    · exact Or.inl (Or.inr h1)
  · intro j hj
    simp only [endAction, hf]
    exact key j hj

theorem inv_kill (w : W) (js : List Nat) (h : Inv w) : Inv (kill w js) :=
  ⟨fun j hj => by
    rcases h.reg j hj with h1 | h1 | h1
    · exact Or.inl h1
    · exact Or.inr (Or.inl h1)
    · exact Or.inr (Or.inr (List.mem_append.2 (Or.inl h1))),
   h.newKeys, h.disj, h.freshIds, h.freshJobs, h.freshNew, h.tasksLt, h.newLt, h.fix, h.tasksAll⟩

/-- between actions (`new` empty) -/
def Settled (w : W) : Prop := Inv w ∧ (∀ j, j < w.nextJob → j ∈ vals w.jobs ∨ j ∈ w.dead) ∧ w.new = []

theorem settled_run (w : W) (script : List (List Op × List Nat)) (h : Settled w) : Settled (run w script) := by
  induction script generalizing w with
  | nil => exact h
  | cons a rest ih =>
    obtain ⟨ops, ks⟩ := a
    simp only [run]
    apply ih
    obtain ⟨hi, hr⟩ := inv_endAction _ (inv_steps w ops h.1)
    refine ⟨inv_kill _ ks hi, ?_, by simp [kill, runAction, endAction]⟩
    intro j hj
    rcases hr j hj with h1 | h1
    · exact Or.inl h1
    · exact Or.inr (List.mem_append.2 (Or.inl h1))

/-- **a graceful quit reaches every live job, and the main task waits for none it does not stop**: whatever the actions did —
    creations on any threads, ids minted anywhere, get-or-create with any held id, repeatedly, in the same or in later
    actions, deletions in between -/
theorem no_job_outside_the_registry (script : List (List Op × List Nat)) :
    leaked (run (init { f19 := true }) script) = [] ∧ hung (run (init { f19 := true }) script) = [] := by
  have h : Settled (init { f19 := true }) := ⟨inv_init, by simp [init], rfl⟩
  obtain ⟨hi, hr, _⟩ := settled_run _ script h
  generalize run (init { f19 := true }) script = w at hi hr
  constructor
  · simp only [leaked, List.filter_eq_nil_iff, List.mem_range]
    intro j hj
    rcases hr j hj with h1 | h1 <;> simp [stopped, h1]
  · simp only [hung, List.filter_eq_nil_iff]
    intro j hj
    rcases hr j (hi.tasksLt j hj) with h1 | h1 <;> simp [stopped, h1]

/-- **an abort quit reaches every job task**: the worker holds the task of every job ever started (dropping `jobtasks` aborts them all) -/
theorem abort_reaches_every_job_task (script : List (List Op × List Nat)) :
    abortLeaked (run (init { f19 := true }) script) = [] := by
  have h : Settled (init { f19 := true }) := ⟨inv_init, by simp [init], rfl⟩
  obtain ⟨hi, _, hn⟩ := settled_run _ script h
  generalize run (init { f19 := true }) script = w at hi hn
  simp only [abortLeaked, List.filter_eq_nil_iff, List.mem_range]
  intro j hj
  rcases hi.tasksAll j hj with h1 | h1
  · simp [h1]
  · rw [hn] at h1; simp [vals] at h1

example : abortLeaked (run (init { f19 := false }) [([.mint 0, .goc 0, .goc 0], [])]) = [0] := by decide

/-- ids minted by `Id::default()` are pairwise distinct whatever threads mint them -/
theorem minted_ids_are_fresh (w : W) (t : Nat) (h : Inv w) : (mintId w t).1 ∉ w.ids := by
  intro hm
  have := h.freshIds _ hm
  simp [mintId] at this

/-- **the unrepaired `get_or_create_job` loses a job**: asked twice for the same new id within one action, it starts two jobs
    and the second replaces the first in `new` — the first is never registered, a graceful quit does not stop it -/
theorem get_or_create_twice_leaks_today :
    leaked (run (init { f19 := false }) [([.mint 0, .goc 0, .goc 0], [])]) = [0] := by decide

example : leaked (run (init { f19 := true }) [([.mint 0, .goc 0, .goc 0], [])]) = [] := by decide
example : (run (init { f19 := true }) [([.create 0, .create 1, .mint 1, .goc 2], []), ([.goc 0, .goc 2, .get 1], [1])]).out.reverse
    = [.created 0, .created 1, .created 2, .existing 0, .existing 2, .existing 1] := by decide

end Rg
