/-! The job registry of the action worker (`lib/src/action/worker.rs`: `jobs`, `jobtasks`), the handler's view of it
    (`lib/src/action/handler.rs`: `extant`, `new`, `create_job`, `get_or_create_job`, `get_job`) and the minting of job ids
    (`lib/src/id.rs`: thread id + per-thread counter) — the part of C08 that decides WHICH jobs a graceful quit stops and
    which job tasks the main task waits for.

    A script is a list of actions; an action is a list of handler calls. Job numbers count `start_job` calls. -/
namespace Rg

/-- `Id { thread, counter }` -/
abbrev Key := Nat × Nat

/-- `HashMap::insert`: replaces the entry of that key -/
def ins (k : Key) (v : Nat) (l : List (Key × Nat)) : List (Key × Nat) := (k, v) :: l.filter (fun e => e.1 != k)
def look (k : Key) (l : List (Key × Nat)) : Option Nat := (l.find? (fun e => e.1 == k)).map (·.2)
def vals (l : List (Key × Nat)) : List Nat := l.map (·.2)

structure Fixes where
  f19 : Bool := true      -- get_or_create_job also finds a job created earlier in the same action
  deriving DecidableEq, Repr

inductive Op
  | create (thread : Nat)          -- `action.create_job(cmd)` called on that OS thread (`Id::default()` inside)
  | mint (thread : Nat)            -- `Id::default()` on that thread; the id is remembered by the script
  | goc (k : Nat)                  -- `action.get_or_create_job(ids[k], …)`
  | get (k : Nat)                  -- `action.get_job(ids[k])`
  deriving DecidableEq, Repr

inductive Res | created (j : Nat) | existing (j : Nat) | none
  deriving DecidableEq, Repr

structure W where
  cfg : Fixes := {}
  counters : List (Nat × Nat) := []     -- thread ↦ next counter (`thread_local! COUNTER`)
  ids : List Key := []                  -- ids the script holds, in the order it got them
  jobs : List (Key × Nat) := []         -- worker: `jobs`
  new : List (Key × Nat) := []          -- handler: `new` (tasks travel with the jobs)
  tasks : List Nat := []                -- worker: `jobtasks` (job numbers whose task it will join)
  nextJob : Nat := 0                    -- `start_job` calls so far
  dead : List Nat := []                 -- jobs whose task has ended (deleted)
  out : List Res := []                  -- what each handler call returned (newest first)
  deriving Repr

def counterOf (w : W) (t : Nat) : Nat := ((w.counters.find? (·.1 == t)).map (·.2)).getD 0

/-- `Id::default()` on thread `t` -/
def mintId (w : W) (t : Nat) : Key × W :=
  let c := counterOf w t
  ((t, c), { w with counters := (t, c + 1) :: w.counters.filter (·.1 != t) })

/-- `create_job_with_id`: start a job, `new.insert(id, (job, task))` -/
def startWith (w : W) (k : Key) : W :=
  { w with new := ins k w.nextJob w.new, nextJob := w.nextJob + 1, out := .created w.nextJob :: w.out }

def step (w : W) : Op → W
  | .create t => let (k, w) := mintId w t; startWith { w with ids := w.ids ++ [k] } k
  | .mint t => let (k, w) := mintId w t; { w with ids := w.ids ++ [k] }
  | .goc i =>
    match w.ids[i]? with
    | Option.none => w
    | some k =>
      match look k w.jobs with                      -- `self.get_job(id)`: `extant` only
      | some j => { w with out := .existing j :: w.out }
      | Option.none =>
        match (if w.cfg.f19 then look k w.new else Option.none) with
        | some j => { w with out := .existing j :: w.out }
        | Option.none => startWith w k
  | .get i =>
    match w.ids[i]? with
    | Option.none => w
    | some k => { w with out := (match look k w.jobs with | some j => .existing j | Option.none => .none) :: w.out }

/-- the worker after the handler has returned: take control of the new tasks, then drop dead jobs from the registry -/
def endAction (w : W) : W :=
  let jobs := w.new.foldr (fun e js => ins e.1 e.2 js) w.jobs
  { w with jobs := jobs.filter (fun e => !w.dead.contains e.2), tasks := w.tasks ++ vals w.new, new := [] }

def runAction (w : W) (ops : List Op) : W := endAction (ops.foldl step w)

/-- between actions: these jobs are deleted through handles held elsewhere (their tasks end) -/
def kill (w : W) (js : List Nat) : W := { w with dead := w.dead ++ js.filter (fun j => j < w.nextJob) }

/-- a script: actions, each followed by deletions -/
def run (w : W) : List (List Op × List Nat) → W
  | [] => w
  | (ops, ks) :: rest => run (kill (runAction w ops) ks) rest

/-- a graceful quit stops and deletes exactly the registered jobs … -/
def stopped (w : W) : List Nat := vals w.jobs
/-- … so these started jobs are still alive afterwards (their processes survive the shutdown when a handle is held elsewhere) -/
def leaked (w : W) : List Nat := (List.range w.nextJob).filter (fun j => !(stopped w).contains j && !w.dead.contains j)
/-- … and the main task then waits for these job tasks for ever -/
def hung (w : W) : List Nat := w.tasks.filter (fun j => !(stopped w).contains j && !w.dead.contains j)

/-- an abort quit drops `jobtasks`, which aborts every task in it (the children die with their tasks): these started jobs are not
    reached by it -/
def abortLeaked (w : W) : List Nat := (List.range w.nextJob).filter (fun j => !w.tasks.contains j && !w.dead.contains j)

def init (cfg : Fixes) : W := { cfg := cfg }

end Rg
