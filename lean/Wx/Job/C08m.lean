import Wx.Job.C08t
/-! C08, the composition over the job map: the worker's graceful-quit branch (`action/worker.rs`) drains `jobs`, and for
    EVERY job spawns `stop_with_signal(signal, grace); delete().await`, joins those tasks and then joins every job task.
    The job tasks share nothing but the clock, so a run of the whole shutdown is one run per job (`Finals`), read at one
    common instant `T`; the main task is past its two `join_all`s exactly when no job task is alive. The theorem below
    lifts the per-job bound `c08_quit_bound` to any number of jobs in any states: the shutdown is over once the clock has
    passed the LARGEST per-job deadline (not their sum: the seeded change "one shutdown task for all jobs, one after the
    other" is what the sum would allow). -/
namespace Jm

/-- a job task that has ended stays ended, whatever is sent to it or polled on it afterwards -/
theorem dead_simInv : SimInv2 (fun x => x.st.alive = false) (fun _ _ => True) where
  turns := by
    intro x h s' hs'
    have : Jm.turns x.st = [] := by unfold Jm.turns; simp [h]
    rw [this] at hs'; cases hs'
  park := by intro x h; show (park x.st).alive = false; unfold park; simp [h]
  drain := by
    intro x h; show (drainPolls x.st).alive = false
    unfold drainPolls
    show (List.foldl pollWaiter { x.st with pendingPolls := [] } x.st.pendingPolls).alive = false
    rw [foldl_poll_alive]; exact h
  now := by intro x t h; exact h
  close := by intro x h; exact h
  cancel := by intro x aw h; show (if aw = true then x.st.emit _ else x.st).alive = false; split <;> simpa using h
  sendOne := by intro x p c _ h; show (enqueue x.st p _).alive = false; unfold enqueue; cases p <;> simpa using h
  finish := by
    intro x aw h; show (if aw = true then pollWaiter _ _ else x.st).alive = false
    split
    · rw [pollWaiter_alive]; exact h
    · exact h
  clone := by
    intro x f h; show (addWaiter x f).st.alive = false
    unfold addWaiter; simp only []; rw [pollWaiter_alive]; exact h

theorem dead_stays_dead (x : Sim) (h : x.st.alive = false) (ops : List Op) : ∀ y ∈ runOps x ops, y.st.alive = false :=
  dead_simInv.runOps ops (fun o _ => by cases o <;> simp [OpOkFor2]) h

/-- what the worker does to one job at a graceful quit -/
def quitJob (x : Sim) (sig : Sig) (g : Nat) : Sim :=
  doSend (doSend x .normal [.gracefulStop sig g] false) .normal [.stop, .delete] false

theorem quitJob_dead (x : Sim) (sig : Sig) (g : Nat) (h : x.st.alive = false) : (quitJob x sig g).st.alive = false := by
  have := dead_stays_dead x h [.send .normal [.gracefulStop sig g] false, .send .normal [.stop, .delete] false]
  exact this _ (by simp [runOps, stepOp, quitJob])

/-- the instant by which one job is gone: nothing for a task that has already ended, else its deadline at the quit plus
    the quit's own grace period -/
def jobBound (x : Sim) (g : Nat) : Nat := if x.st.alive then deadline x.st + g else 0

/-- the largest of the per-job bounds -/
def mainBound (xs : List Sim) (g : Nat) : Nat := (xs.map (jobBound · g)).foldl max 0

theorem le_foldl_max (l : List Nat) (a : Nat) : a ≤ l.foldl max a ∧ ∀ x ∈ l, x ≤ l.foldl max a := by
  induction l generalizing a with
  | nil => exact ⟨Nat.le_refl _, by simp⟩
  | cons y l ih =>
    obtain ⟨h1, h2⟩ := ih (max a y)
    refine ⟨Nat.le_trans (Nat.le_max_left _ _) h1, ?_⟩
    intro x hx
    rcases List.mem_cons.1 hx with rfl | hx
    · exact Nat.le_trans (Nat.le_max_right _ _) h1
    · exact h2 x hx

theorem jobBound_le_mainBound {xs : List Sim} {x : Sim} (g : Nat) (hx : x ∈ xs) : jobBound x g ≤ mainBound xs g :=
  (le_foldl_max _ 0).2 _ (List.mem_map.2 ⟨x, hx, rfl⟩)

/-- one final state per job: a run of the whole shutdown -/
inductive Finals (sig : Sig) (g : Nat) : List (Sim × List Op) → List Sim → Prop
  | nil : Finals sig g [] []
  | cons {x ops y r ys} : y ∈ runOps (quitJob x sig g) ops → Finals sig g r ys → Finals sig g ((x, ops) :: r) (y :: ys)

/-- every job in the map is a job of the repaired code; it is either still reachable (gone flag not raised) or its task
    has ended (the map is garbage-collected only after each action, so dead jobs can still be in it) -/
def JobOk (j : Sim × List Op) : Prop :=
  j.1.st.cfg = Fixes.all ∧ (j.1.st.isRaised 0 = false ∨ j.1.st.alive = false) ∧ ∀ o ∈ j.2, OpOkFor2 NoGrace o

/-- **C08, the main task** — any number of jobs, each in ANY state the worker can find it in (never started, running,
    finished, mid graceful restart with an armed timer, already deleted, controls pending), each continuing with its own
    history after the quit (races, child behaviours, sends without a grace period, handle drops). At any common instant
    `T` later than the largest per-job bound, no job task is alive: both `join_all`s of the quit branch have returned. -/
theorem c08_main_bound (sig : Sig) (g : Nat) (jobs : List (Sim × List Op)) (hj : ∀ j ∈ jobs, JobOk j)
    (ys : List Sim) (hf : Finals sig g jobs ys) (T : Nat) (hT : ∀ y ∈ ys, y.st.now = T)
    (hlt : mainBound (jobs.map (·.1)) g < T) : ∀ y ∈ ys, y.st.alive = false := by
  induction hf with
  | nil => intro y hy; cases hy
  | @cons x ops y r ys hy _ ih =>
    have hx := hj (x, ops) List.mem_cons_self
    have hb : jobBound x g ≤ mainBound (((x, ops) :: r).map (·.1)) g := jobBound_le_mainBound g (by simp)
    have hr : mainBound (r.map (·.1)) g ≤ mainBound (((x, ops) :: r).map (·.1)) g := by
      unfold mainBound
      simp only [List.map_cons, List.foldl_cons]
      generalize (List.map (fun x => jobBound x g) (List.map (fun x => x.fst) r)) = l
      have mono : ∀ (l : List Nat) (a b : Nat), a ≤ b → l.foldl max a ≤ l.foldl max b := by
        intro l; induction l with
        | nil => intro a b h; exact h
        | cons z l ih => intro a b h; simp only [List.foldl_cons]; exact ih _ _ (by omega)
      exact mono l _ _ (Nat.zero_le _)
    intro z hz
    rcases List.mem_cons.1 hz with rfl | hz
    · cases hal : x.st.alive with
      | false => exact dead_stays_dead _ (quitJob_dead x sig g hal) ops _ hy
      | true =>
        rcases hx.2.1 with hgone | hdead
        · have hnow := hT z List.mem_cons_self
          have : jobBound x g = deadline x.st + g := by simp [jobBound, hal]
          exact c08_quit_bound x hx.1 hgone sig g ops hx.2.2 z hy (by omega)
        · rw [hal] at hdead; cases hdead
    · exact ih (fun j hj' => hj j (List.mem_cons_of_mem _ hj')) (fun y hy => hT y (List.mem_cons_of_mem _ hy))
        (by omega) z hz

/-- the bound is the maximum, not the sum: two jobs whose children ignore the signal, grace 40 each, quit at 20 —
    both are gone at 60 (kernel-evaluated on the model; the real worker is compared with this by the quit-sim stream) -/
example :
    let x0 : Sim := { st := { cfg := Fixes.all, behs := [.ignores], hookSet := true, parked := true } }
    (runOps x0 [.send .normal [.start] false, .advance 20]).all (fun x =>
      mainBound [x, x] 40 == 60 &&
      (runOps (quitJob x 15 40) [.advance 41]).all (fun y => y.st.now == 61 && !y.st.alive)) = true := by decide

#print axioms c08_main_bound
#print axioms dead_stays_dead
end Jm
