import Wx.Job.Model
/-! Eager discrete-event simulation of a script against the job model; races enumerate. -/
namespace Jm

inductive Prio | normal | high | urgent deriving Repr, DecidableEq

inductive Op where
  | send (p : Prio) (ctls : List Ctl) (await : Bool)
  | advance (ms : Nat)
  | settle
  | dropHandles
  /-- a client on another thread sends while the job task is between dequeuing a control and its next `recv`:
      the task takes turns until one of them handles a control message, the send lands right after that turn
      (if the task goes idle first, nothing is sent) -/
  | inject (p : Prio) (ctls : List Ctl) (await : Bool)
  /-- `Ticket::clone`: another task awaits a clone of the ticket that waiter `w` holds (tickets are `Clone`; "all clones
      resolve at the same time"); the new waiter polls its clone once, at once -/
  | clone (w : WaiterId)
  deriving Repr

structure Sim where
  st : St
  nextFlag : FlagId := 1
  nextWaiter : WaiterId := 0
  deriving Repr

def enqueue (s : St) (p : Prio) (m : Msg) : St :=
  match p with
  | .normal => { s with normal := s.normal ++ [m], issued := s.issued ++ [m.done], sent := s.sent ++ [(.normal, m.done)] }
  | .high => { s with high := s.high ++ [m], issued := s.issued ++ [m.done], sent := s.sent ++ [(.high, m.done)] }
  | .urgent => { s with urgent := s.urgent ++ [m], issued := s.issued ++ [m.done], sent := s.sent ++ [(.urgent, m.done)] }

/-- Job::send_controls -/
def doSend (x : Sim) (p : Prio) (ctls : List Ctl) (await : Bool) : Sim :=
  let w := x.nextWaiter
  if x.st.isRaised 0 || ctls.isEmpty then
    -- Ticket::cancelled(): resolves at once
    let st := if await then x.st.emit (.ticket w) else x.st
    { x with st := st, nextWaiter := w + 1 }
  else
    let (st, nf, last) := ctls.foldl (fun (acc : St × FlagId × FlagId) c =>
      let (st, nf, _) := acc
      (enqueue st p ⟨c, nf⟩, nf + 1, nf)) (x.st, x.nextFlag, 0)
    let st := if await then
        -- the waiter polls its ticket once, immediately (before the job task gets to run)
        pollWaiter { st with waiters := st.waiters ++ [{ id := w, done := last }] } w
      else st
    { x with st := st, nextFlag := nf, nextWaiter := w + 1 }

/-- a further task awaits flag `f` (and `gone`): fresh waiter id, first poll at once -/
def addWaiter (x : Sim) (f : FlagId) : Sim :=
  { x with st := pollWaiter { x.st with waiters := x.st.waiters ++ [{ id := x.nextWaiter, done := f }] } x.nextWaiter,
           nextWaiter := x.nextWaiter + 1 }

/-- see `Op.clone`; a waiter without a record held a cancelled ticket (job already gone): its clone resolves at once too -/
def cloneWaiter (x : Sim) (w : WaiterId) : Sim :=
  match x.st.waiters.find? (·.id == w) with
  | some wt => addWaiter x wt.done
  | none => { x with st := x.st.emit (.ticket x.nextWaiter), nextWaiter := x.nextWaiter + 1 }

/-- the idle task is suspended inside `recv`'s final select! -/
def park (s : St) : St := if s.alive then { s with parked := true } else s

/-- run the task to quiescence at the current instant, exploring every race -/
def settleAll : Nat → St → List St
  | 0, s => [s]
  | fuel + 1, s =>
    match turns s with
    | [] => if (park s).pendingPolls.isEmpty then [park s] else settleAll fuel (drainPolls (park s))
    | ts => ts.flatMap (settleAll fuel)

def nextEvent (s : St) (target : Nat) : Option Nat :=
  let c := match s.cs with
    | .running c => match s.child? c with
      | some ch => match ch.exitAt with | some t => if s.now < t ∧ t ≤ target then [t] else [] | none => []
      | none => []
    | _ => []
  let t := match s.timer with | some t => if s.now < t.until_ ∧ t.until_ ≤ target then [t.until_] else [] | none => []
  (c ++ t).foldl (fun acc x => match acc with | none => some x | some a => some (min a x)) none

def advanceAll : Nat → Nat → St → List St
  | 0, _, s => [s]
  | fuel + 1, target, s =>
    (settleAll 200 s).flatMap (fun s =>
      -- time passes only while the task is idle (out of settle fuel: stop here rather than let the clock run)
      if !(turns s).isEmpty then [s] else
      match nextEvent s target with
      | some t => advanceAll fuel target { s with now := t }
      | none => settleAll 200 { s with now := target })

/-- the two kinds of task turn: the child's end is collected / a control message is handled -/
def waitTurns (s : St) : List St :=
  match waitReady s with | some c => [waitBranch { s with parked := false } c] | none => []
def recvTurns (s : St) : List St :=
  (recvCandidates s).filterMap (fun src =>
    match takeFrom s src with
    | some (m, s1) => some (handle { s1 with parked := false } m)
    | none => none)
theorem turnCandidates_eq (s : St) : turnCandidates s = waitTurns s ++ recvTurns s := rfl

/-- see `Op.inject` -/
def injectAll : Nat → Sim → Prio → List Ctl → Bool → List Sim
  | 0, x, _, _, _ => [x]
  | fuel + 1, x, p, cs, aw =>
    if !x.st.alive then [x] else
    if (waitTurns x.st).isEmpty && (recvTurns x.st).isEmpty then [x]
    else (waitTurns x.st).flatMap (fun s' => injectAll fuel { x with st := s' } p cs aw) ++
         (recvTurns x.st).map (fun s' => doSend { x with st := s' } p cs aw)

def stepOp (x : Sim) : Op → List Sim
  | .send p cs aw => [doSend x p cs aw]
  | .settle => (settleAll 200 x.st).map (fun st => { x with st := st })
  | .advance ms => (advanceAll 64 (x.st.now + ms) x.st).map (fun st => { x with st := st })
  | .dropHandles => [{ x with st := { x.st with closed := true } }]
  | .inject p cs aw => injectAll 50 x p cs aw
  | .clone w => [cloneWaiter x w]

def runOps (x : Sim) : List Op → List Sim
  | [] => [x]
  | o :: os => (stepOp x o).flatMap (fun y => runOps y os)

def obsStr : Obs → String
  | .spawn c => s!"spawn:c{c}" | .spawnFail => "spawnfail" | .hook => "hook" | .errh => "errh"
  | .signal c g => s!"signal:c{c}:{g}" | .kill c => s!"kill:c{c}" | .reaped c st => s!"reaped:c{c}:{st}"
  | .dropped c => s!"dropped:c{c}" | .func id cur prev => s!"run:{id}:{cur}:{prev}"
  | .ticket w => s!"tk:{w}" | .ended => "ended" | .panicked => "panicked"
  | .killFail c => s!"killfail:c{c}" | .signalFail c g => s!"signalfail:c{c}:{g}" | .waitFail c => s!"waitfail:c{c}"

/-- maximal runs of consecutive ticket entries are sorted (several waiters on one flag are woken in registration order,
    which the model's slot list need not reproduce); every other entry keeps its place, so WHEN a ticket resolves relative
    to the signals, kills, hook calls and spawns of the same instant is part of the trace. The `ended` marker does not
    interrupt a run: the harness can only log it after the fact, and the comparison strips it -/
def sortTkRuns (l : List (Nat × String)) : List (Nat × String) :=
  let flush (run : List (Nat × String)) : List (Nat × String) := (run.toArray.qsort (fun a b => a.1 < b.1 || (a.1 == b.1 && a.2 < b.2))).toList
  let (out, run) := l.foldl (fun (acc : List (Nat × String) × List (Nat × String)) e =>
    if e.2.startsWith "tk:" || e.2 == "ended" then (acc.1, acc.2 ++ [e]) else (acc.1 ++ flush acc.2 ++ [e], [])) ([], [])
  out ++ flush run

/-- canonical trace -/
def traceStr (x : Sim) : String :=
  let entries := x.st.log.reverse.map (fun (t, o) => (t, obsStr o))
  let flat := (sortTkRuns entries).map (fun (t, o) => s!"{t}:{o}")
  let unres := x.st.waiters.filter (!·.resolved) |>.map (fun w => toString w.id)
  String.intercalate "|" (flat ++ ["unres:" ++ String.intercalate "," unres])

end Jm
