import Wx.Job.SimInduct2
/-! Everything ANY client of a job can make happen, as a closure of primitive steps: the job task takes a turn, parks,
    waiter tasks poll, time passes, handles are dropped, a control is sent (cancelled, or enqueued control by control and
    then possibly awaited). `runOps` scripts are one way to walk this closure; the CLI's action logic composed with the
    job task (`Wx.Cli.Compose`) is another. A `SimInv2` invariant holds on the whole closure. -/
namespace Jm

inductive Reach (SendOk : Prio → Ctl → Prop) : Sim → Sim → Prop
  | refl (x) : Reach SendOk x x
  | turn {x y} (s') : Reach SendOk x y → s' ∈ turns y.st → Reach SendOk x { y with st := s' }
  | park {x y} : Reach SendOk x y → Reach SendOk x { y with st := Jm.park y.st }
  | drain {x y} : Reach SendOk x y → Reach SendOk x { y with st := drainPolls y.st }
  | now {x y} (t : Nat) : Reach SendOk x y → Reach SendOk x { y with st := { y.st with now := t } }
  | close {x y} : Reach SendOk x y → Reach SendOk x { y with st := { y.st with closed := true } }
  | cancel {x y} (aw : Bool) : Reach SendOk x y → Reach SendOk x (cancelSend y aw)
  | sendOne {x y} (p : Prio) (c : Ctl) : SendOk p c → Reach SendOk x y → Reach SendOk x (Jm.sendOne y p c)
  | finish {x y} (aw : Bool) : Reach SendOk x y → Reach SendOk x (finishSend y aw)

variable {I : Sim → Prop} {SendOk : Prio → Ctl → Prop}

theorem SimInv2.reach (H : SimInv2 I SendOk) {x y : Sim} (h : I x) (r : Reach SendOk x y) : I y := by
  induction r with
  | refl => exact h
  | turn s' _ hs ih => exact H.turns _ ih s' hs
  | park _ ih => exact H.park _ ih
  | drain _ ih => exact H.drain _ ih
  | now t _ ih => exact H.now _ t ih
  | close _ ih => exact H.close _ ih
  | cancel aw _ ih => exact H.cancel _ aw ih
  | sendOne p c hc _ ih => exact H.sendOne _ p c hc ih
  | finish aw _ ih => exact H.finish _ aw ih

theorem Reach.trans {x y z : Sim} (h1 : Reach SendOk x y) (h2 : Reach SendOk y z) : Reach SendOk x z := by
  induction h2 with
  | refl => exact h1
  | turn s' _ hs ih => exact .turn s' ih hs
  | park _ ih => exact .park ih
  | drain _ ih => exact .drain ih
  | now t _ ih => exact .now t ih
  | close _ ih => exact .close ih
  | cancel aw _ ih => exact .cancel aw ih
  | sendOne p c hc _ ih => exact .sendOne p c hc ih
  | finish aw _ ih => exact .finish aw ih

/-- a whole `Job::send_controls` call -/
theorem Reach.doSend {x y : Sim} (p : Prio) (cs : List Ctl) (aw : Bool) (hs : ∀ c ∈ cs, SendOk p c) (h : Reach SendOk x y) :
    Reach SendOk x (Jm.doSend y p cs aw) := by
  rw [doSend_eq]
  unfold doSend'
  split
  · exact .cancel aw h
  · apply Reach.finish
    have key : ∀ (l : List Ctl) (z : Sim), (∀ c ∈ l, SendOk p c) → Reach SendOk x z →
        Reach SendOk x (l.foldl (fun y c => Jm.sendOne y p c) z) := by
      intro l
      induction l with
      | nil => intro z _ hz; exact hz
      | cons c l ih =>
        intro z hl hz
        exact ih _ (fun c' hc' => hl c' (List.mem_cons_of_mem _ hc')) (.sendOne p c (hl c List.mem_cons_self) hz)
    exact key cs y hs h

/-- `runOps` stays inside the closure -/
theorem reach_settleAll (fuel : Nat) {x y : Sim} (h : Reach SendOk x y) : ∀ s ∈ settleAll fuel y.st, Reach SendOk x { y with st := s } := by
  induction fuel generalizing y with
  | zero => intro s hs; simp [settleAll] at hs; subst hs; exact h
  | succ n ih =>
    intro s hs
    unfold settleAll at hs
    cases hts : turns y.st with
    | nil =>
      simp only [hts] at hs
      by_cases hp : (Jm.park y.st).pendingPolls.isEmpty = true
      · simp only [hp, if_true, List.mem_singleton] at hs; subst hs; exact .park h
      · simp only [hp, Bool.false_eq_true, if_false] at hs
        exact ih (y := { y with st := drainPolls (Jm.park y.st) }) (.drain (.park h)) s hs
    | cons t ts =>
      simp only [hts] at hs
      obtain ⟨z, hz, hsz⟩ := List.mem_flatMap.mp hs
      exact ih (y := { y with st := z }) (.turn z h (by rw [hts]; exact hz)) s hsz

end Jm
