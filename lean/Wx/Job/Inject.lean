import Wx.Job.Sim
/-! `Op.inject` is made of task turns and one `send_controls` call: anything preserved by those two is preserved by it. -/
namespace Jm

theorem turns_eq_candidates {s : St} (hal : s.alive = true) (hne : turnCandidates s ≠ []) : turns s = turnCandidates s := by
  unfold turns
  simp only [hal, Bool.not_true, Bool.false_eq_true, if_false]
  cases h : turnCandidates s with
  | nil => exact absurd h hne
  | cons a l => simp

theorem injectAll_ind (P : Sim → Prop) (p : Prio) (cs : List Ctl) (aw : Bool)
    (hturn : ∀ x s', P x → s' ∈ turns x.st → P { x with st := s' }) (hsend : ∀ x, P x → P (doSend x p cs aw))
    (fuel : Nat) {x : Sim} (h : P x) : ∀ y ∈ injectAll fuel x p cs aw, P y := by
  induction fuel generalizing x with
  | zero => intro y hy; simp [injectAll] at hy; subst hy; exact h
  | succ n ih =>
    intro y hy
    unfold injectAll at hy
    by_cases hal : (!x.st.alive) = true
    · simp only [hal, if_true, List.mem_singleton] at hy; subst hy; exact h
    simp only [hal, Bool.false_eq_true, if_false] at hy
    have hal' : x.st.alive = true := by simpa using hal
    by_cases hemp : ((waitTurns x.st).isEmpty && (recvTurns x.st).isEmpty) = true
    · simp only [hemp, if_true, List.mem_singleton] at hy; subst hy; exact h
    simp only [hemp, Bool.false_eq_true, if_false] at hy
    have hne' : turnCandidates x.st ≠ [] := by
      intro he
      rw [turnCandidates_eq] at he
      obtain ⟨h1, h2⟩ := List.append_eq_nil_iff.1 he
      apply hemp
      simp [h1, h2]
    have hT := turns_eq_candidates hal' hne'
    rcases List.mem_append.1 hy with hy | hy
    · obtain ⟨s', hs', hy'⟩ := List.mem_flatMap.1 hy
      have hmem : s' ∈ turns x.st := by rw [hT, turnCandidates_eq]; exact List.mem_append_left _ hs'
      exact ih (hturn x s' h hmem) y hy'
    · obtain ⟨s', hs', rfl⟩ := List.mem_map.1 hy
      have hmem : s' ∈ turns x.st := by rw [hT, turnCandidates_eq]; exact List.mem_append_right _ hs'
      exact hsend _ (hturn x s' h hmem)

end Jm
