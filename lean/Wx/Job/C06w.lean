import Wx.Job.C09c
/-! C06, whole run: in every reachable state of every history whose controls are graceful (no forceful stop / restart is
    sent), every `kill` in the log is preceded — by at least the grace period — by a signal to the same child: a job is
    never force-killed before the grace period of the graceful control that armed the timer has elapsed. -/
namespace Jm

/-! ### the log only grows, and what a step appends is stamped with the step's time -/

structure Ext (t s : St) : Prop where
  now : t.now = s.now
  log : ∃ new, t.log = new ++ s.log ∧ ∀ e ∈ new, e.1 = s.now

theorem Ext.refl (s : St) : Ext s s := ⟨rfl, [], rfl, by simp⟩
theorem Ext.trans {a b c : St} (h1 : Ext a b) (h2 : Ext b c) : Ext a c := by
  obtain ⟨n1, new1, l1, s1⟩ := h1
  obtain ⟨n2, new2, l2, s2⟩ := h2
  refine ⟨n1.trans n2, new1 ++ new2, by rw [l1, l2, List.append_assoc], ?_⟩
  intro e he
  rcases List.mem_append.1 he with he | he
  · rw [s1 e he, n2]
  · exact s2 e he
theorem Ext.ofEq {t s : St} (h1 : t.now = s.now) (h2 : t.log = s.log) : Ext t s := ⟨h1, [], by simp [h2], by simp⟩

theorem Ext.upd {u t s : St} (h : Ext t s) (h1 : u.now = t.now) (h2 : u.log = t.log) : Ext u s :=
  (Ext.ofEq h1 h2).trans h

theorem ext_emit (s : St) (o) : Ext (s.emit o) s := ⟨rfl, [(s.now, o)], rfl, by simp⟩

theorem ext_resolveWaiter (s : St) (w) : Ext (s.resolveWaiter w) s := by
  unfold St.resolveWaiter
  split
  · split
    · exact Ext.refl s
    · exact ⟨rfl, [(s.now, .ticket w)], rfl, by simp⟩
  · exact Ext.refl s

theorem ext_foldl_resolve (ws : List WaiterId) (s : St) : Ext (ws.foldl St.resolveWaiter s) s := by
  induction ws generalizing s with
  | nil => exact Ext.refl s
  | cons w ws ih => simp only [List.foldl_cons]; exact (ih _).trans (ext_resolveWaiter s w)

theorem ext_raise (s : St) (f) : Ext (s.raise f) s := by
  unfold St.raise
  exact (ext_foldl_resolve _ _).trans (Ext.ofEq rfl rfl)

theorem ext_raiseAll (fs : List FlagId) (s : St) : Ext (s.raiseAll fs) s := by
  unfold St.raiseAll
  induction fs generalizing s with
  | nil => exact Ext.refl s
  | cons f fs ih => simp only [List.foldl_cons]; exact (ih _).trans (ext_raise s f)

theorem ext_endFlags (s : St) : Ext s.endFlags s := by
  unfold St.endFlags
  exact Ext.upd (ext_raiseAll s.onEnd s) rfl rfl

theorem ext_errHandler (s : St) : Ext s.errHandler s := by
  unfold St.errHandler; split
  · exact ext_emit s _
  · exact Ext.refl s

theorem ext_signalChild (s : St) (c g) : Ext (s.signalChild c g) s := by
  refine ⟨?_, [(s.now, .signal c g)], signalChild_log s c g, by simp⟩
  unfold St.signalChild; simp only []; split
  · split <;> rfl
  · rfl

theorem ext_killReap (s : St) (c) : Ext (s.killReap c) s := by
  unfold St.killReap
  simp only []
  split
  · exact ⟨rfl, [(s.now, .reaped c 9), (s.now, .kill c)], rfl, by simp⟩
  · exact ext_emit s _

theorem ext_reset (s : St) : Ext s.reset s := by
  unfold St.reset; split <;> exact Ext.ofEq rfl rfl

theorem ext_spawn (s : St) : Ext s.spawn.1 s := by
  unfold St.spawn
  split
  · exact Ext.refl s
  · simp only []
    have h0 : Ext (if s.hookSet = true then s.emit Obs.hook else s) s := by
      split
      · exact ext_emit s _
      · exact Ext.refl s
    generalize (if s.hookSet = true then s.emit Obs.hook else s) = s' at h0
    split
    · exact (ext_emit _ _).trans (Ext.upd h0 rfl rfl)
    · exact (ext_emit _ _).trans (Ext.upd h0 rfl rfl)

theorem ext_reap (s : St) (c) : Ext (s.reap c) s := by
  unfold St.reap; simp only []
  split
  · exact (ext_emit _ _).trans (Ext.ofEq (s := s) rfl rfl)
  · exact (ext_emit _ _).trans (Ext.ofEq (s := s) rfl rfl)

theorem ext_respawn (s : St) (f) :
    Ext (let (s1, ok) := s.reset.spawn; if ok then s1.raise f else s1.errHandler.raise f) s := by
  have hq : Ext s.reset.spawn.1 s := (ext_spawn _).trans (ext_reset s)
  simp only []
  split
  · exact (ext_raise _ _).trans hq
  · exact (ext_raise _ _).trans ((ext_errHandler _).trans hq)

theorem ext_respawn' (s : St) (f) :
    Ext (if s.reset.spawn.2 = true then s.reset.spawn.1.raise f else s.reset.spawn.1.errHandler.raise f) s := by
  have hq : Ext s.reset.spawn.1 s := (ext_spawn _).trans (ext_reset s)
  split
  · exact (ext_raise _ _).trans hq
  · exact (ext_raise _ _).trans ((ext_errHandler _).trans hq)

theorem ext_continueRestart (s : St) : Ext s.continueRestart s := by
  unfold St.continueRestart
  split
  · simp only []
    have hq : Ext ({ s with onEndRestart := none } : St).reset.spawn.1 s :=
      (ext_spawn _).trans ((ext_reset _).trans (Ext.ofEq (t := ({ s with onEndRestart := none } : St)) rfl rfl))
    split
    · exact (ext_raise _ _).trans hq
    · split
      · exact (ext_raise _ _).trans ((ext_errHandler _).trans hq)
      · exact (ext_errHandler _).trans hq
  · exact Ext.refl s

theorem ext_waitBranch (s : St) (c) : Ext (waitBranch s c) s := by
  unfold waitBranch
  exact (ext_continueRestart _).trans ((ext_endFlags _).trans ((ext_raiseAll _ _).trans (ext_reap s c)))

theorem ext_handle (s : St) (m : Msg) : Ext (handle s m) s := by
  unfold handle
  cases hm : m.ctl with
  | start =>
    simp only []
    cases hcs : s.cs with
    | running c => exact ext_raise _ _
    | pending => exact ext_respawn s _
    | finished st => exact ext_respawn s _
  | stop =>
    simp only []
    cases hcs : s.cs with
    | running c => exact (ext_raise _ _).trans ((ext_endFlags _).trans (ext_killReap s c))
    | pending => exact ext_raise _ _
    | finished st => exact ext_raise _ _
  | gracefulStop sig grace =>
    simp only []
    cases hcs : s.cs with
    | running c => simp only []; exact Ext.upd (ext_signalChild s c sig) rfl rfl
    | pending => exact ext_raise _ _
    | finished st => exact ext_raise _ _
  | tryRestart =>
    simp only []
    cases hcs : s.cs with
    | running c =>
      have h0 : Ext (s.killReap c).reset.endFlags s := (ext_endFlags _).trans ((ext_reset _).trans (ext_killReap s c))
      simp only []
      split
      · exact (ext_raise _ _).trans ((ext_spawn _).trans h0)
      · exact (ext_raise _ _).trans ((ext_errHandler _).trans ((ext_spawn _).trans h0))
    | pending => exact ext_raise _ _
    | finished st => exact ext_raise _ _
  | tryGracefulRestart sig grace =>
    simp only []
    cases hcs : s.cs with
    | running c => simp only []; exact Ext.upd (ext_signalChild s c sig) rfl rfl
    | pending => exact ext_raise _ _
    | finished st => exact ext_raise _ _
  | continueTGR =>
    simp only []
    refine (ext_respawn' _ _).trans ?_
    split
    · split
      · exact Ext.upd ((ext_endFlags _).trans (ext_killReap s _)) rfl rfl
      · exact (ext_endFlags _).trans (ext_killReap s _)
    · split
      · exact Ext.ofEq rfl rfl
      · exact Ext.refl s
  | signal sig =>
    simp only []
    cases hcs : s.cs with
    | running c => exact (ext_raise _ _).trans (ext_signalChild s c sig)
    | pending => exact ext_raise _ _
    | finished st => exact ext_raise _ _
  | delete => exact (ext_raise _ _).trans ((ext_emit _ _).trans (Ext.upd (ext_raise s m.done) rfl rfl))
  | nextEnding =>
    simp only []
    cases hcs : s.cs with
    | running c => exact Ext.ofEq rfl rfl
    | pending => simp only []; split
                 · exact ext_raise _ _
                 · exact Ext.ofEq rfl rfl
    | finished st => exact ext_raise _ _
  | func id => exact (ext_raise _ _).trans (ext_emit _ _)
  | setHook => exact (ext_raise _ _).trans (Ext.ofEq (s := s) rfl rfl)
  | unsetHook => exact (ext_raise _ _).trans (Ext.ofEq (s := s) rfl rfl)
  | setErr => exact (ext_raise _ _).trans (Ext.ofEq (s := s) rfl rfl)
  | unsetErr => exact (ext_raise _ _).trans (Ext.ofEq (s := s) rfl rfl)


/-! ### the timer under the helpers -/
@[simp] theorem emit_timer (s : St) (o) : (s.emit o).timer = s.timer := rfl
@[simp] theorem raise_timer (s : St) (f) : (s.raise f).timer = s.timer := (raise_same s f).timer
@[simp] theorem raiseAll_timer (s : St) (fs) : (s.raiseAll fs).timer = s.timer := (raiseAll_same fs s).timer
@[simp] theorem endFlags_timer (s : St) : s.endFlags.timer = s.timer := (te_endFlags s).1
@[simp] theorem errHandler_timer (s : St) : s.errHandler.timer = s.timer := (quiet_errHandler s).1.timer
@[simp] theorem signalChild_timer (s : St) (c g) : (s.signalChild c g).timer = s.timer := (quiet_signalChild s c g).1.timer
@[simp] theorem signalChild_now (s : St) (c g) : (s.signalChild c g).now = s.now := (ext_signalChild s c g).now
@[simp] theorem killReap_timer (s : St) (c) : (s.killReap c).timer = s.timer := (quiet_killReap s c).1.timer
@[simp] theorem reset_timer (s : St) : s.reset.timer = s.timer := (quiet_reset s).1.timer
@[simp] theorem spawn_timer (s : St) : s.spawn.1.timer = s.timer := (quiet_spawn s).1.timer
@[simp] theorem reap_timer (s : St) (c) : (s.reap c).timer = none := by
  unfold St.reap; simp only []; split <;> rfl

theorem handle_timer (s : St) (m : Msg) : (handle s m).timer =
    (match m.ctl, s.cs with
     | .gracefulStop _ g, .running _ => some ⟨s.now + g, m.done, false⟩
     | .tryGracefulRestart _ g, .running _ => some ⟨s.now + g, m.done, true⟩
     | _, _ => s.timer) := by
  unfold handle
  cases m.ctl <;> (try simp only []) <;> (try cases s.cs) <;> (try simp only []) <;>
    (repeat' split) <;> (first | rfl | simp)

theorem continueRestart_timer (s : St) : s.continueRestart.timer = s.timer := by
  unfold St.continueRestart
  split
  · (try simp only []); (repeat' split) <;> (first | rfl | simp)
  · rfl

theorem waitBranch_timer (s : St) (c) : (waitBranch s c).timer = none := by
  unfold waitBranch; rw [continueRestart_timer]; simp


/-! ### what a step appends, read through the refinement -/
def fxOf (l : List (Nat × Obs)) : List Obs := (l.map (·.2)).filter (fun o => !isTicket o)

theorem fx_split {t s : St} {new : List (Nat × Obs)} (h : t.log = new ++ s.log) : t.fx = fxOf new ++ s.fx := by
  simp [St.fx, fxOf, h]

theorem fxOf_mem {new : List (Nat × Obs)} {t : Nat} {o : Obs} (h : (t, o) ∈ new) (hn : isTicket o = false) : o ∈ fxOf new := by
  unfold fxOf
  exact List.mem_filter.2 ⟨List.mem_map.2 ⟨(t, o), h, rfl⟩, by simp [hn]⟩

theorem mem_of_fxOf {new : List (Nat × Obs)} {o : Obs} (h : o ∈ fxOf new) : ∃ t, (t, o) ∈ new := by
  unfold fxOf at h
  obtain ⟨e, he, rfl⟩ := List.mem_map.1 (List.mem_filter.1 h).1
  exact ⟨e.1, he⟩

/-- the appended part of the log IS the step's documented effect list -/
theorem new_eq {t s : St} {new : List (Nat × Obs)} {eff : List Obs} (h : t.log = new ++ s.log) (hf : t.fx = eff ++ s.fx) :
    fxOf new = eff := by
  rw [fx_split h] at hf
  exact List.append_cancel_right hf

/-- controls that never force-kill, with a grace period of at least `G` -/
def Gentle (G : Nat) : Ctl → Prop
  | .stop | .tryRestart | .continueTGR => False
  | .gracefulStop _ g | .tryGracefulRestart _ g => G ≤ g
  | _ => True

theorem spawnB_nokill (sp : Sp) (b : Beh) (c : ChildId) : Obs.kill c ∉ (sp.spawnB b).2 := by
  unfold Sp.spawnB
  cases b <;> cases sp.hook <;> cases sp.errh <;> simp

theorem respawn_nokill (sp : Sp) (c : ChildId) : Obs.kill c ∉ sp.respawn.2 := spawnB_nokill _ _ c

theorem kill_in_spec {sp : Sp} {ctl : Ctl} {c : ChildId} (h : Obs.kill c ∈ (specStep sp ctl).2.1) :
    sp.cs = .running c ∧ (ctl = .stop ∨ ctl = .tryRestart ∨ ctl = .continueTGR) := by
  cases ctl <;> cases hcs : sp.cs <;> simp [specStep, hcs] at h <;>
    first
    | exact absurd h (respawn_nokill _ c)
    | (rcases h with h | h
       · subst h; exact ⟨rfl, by simp⟩
       · exact absurd h (respawn_nokill _ c))
    | (subst h; exact ⟨rfl, by simp⟩)


theorem specExit_nokill (sp : Sp) (c st rp) (c' : ChildId) : Obs.kill c' ∉ (specExit sp c st rp).2 := by
  unfold specExit
  simp only []
  split
  · intro h
    simp only [List.cons_append, List.nil_append, List.mem_cons, reduceCtorEq, false_or] at h
    exact respawn_nokill _ c' h
  · simp

theorem spec_gentle_cs {G : Nat} {sp : Sp} {ctl : Ctl} {c : ChildId} (hg : Gentle G ctl) (h : sp.cs = .running c) :
    (specStep sp ctl).1.cs = .running c := by
  cases ctl <;> simp [Gentle] at hg <;> simp [specStep, h]

/-- **the invariant**: nothing forceful is queued, an armed timer belongs to the running child and expires no earlier
    than `G` after a signal to it, and every kill so far came no earlier than `G` after a signal to the same child -/
structure Grace (G : Nat) (s : St) : Prop where
  q : ∀ m ∈ s.normal ++ s.high ++ s.urgent, Gentle G m.ctl
  t : ∀ tm, s.timer = some tm → ∃ c t0 sig, s.cs = .running c ∧ (t0, Obs.signal c sig) ∈ s.log ∧ t0 + G ≤ tm.until_
  k : ∀ t c, (t, Obs.kill c) ∈ s.log → ∃ t0 sig, (t0, Obs.signal c sig) ∈ s.log ∧ t0 + G ≤ t

theorem qv_queues {t s : St} (h : t.qv = s.qv) : t.normal = s.normal ∧ t.high = s.high ∧ t.urgent = s.urgent :=
  ⟨congrArg QV.normal h, congrArg QV.high h, congrArg QV.urgent h⟩

/-- a step that does nothing to processes keeps the invariant -/
theorem Grace.quiet {G : Nat} {t s : St} (h : Grace G s) (he : ∃ new, t.log = new ++ s.log) (hfx : t.fx = s.fx)
    (hn : t.normal = s.normal) (hh : t.high = s.high) (hu : t.urgent = s.urgent)
    (htm : t.timer = s.timer) (hcs : t.cs = s.cs) : Grace G t := by
  obtain ⟨new, hl⟩ := he
  have hnew : fxOf new = [] := new_eq (eff := []) hl (by simpa using hfx)
  have hsub : ∀ e, e ∈ s.log → e ∈ t.log := fun e he => by rw [hl]; exact List.mem_append_right _ he
  refine ⟨by rw [hn, hh, hu]; exact h.q, ?_, ?_⟩
  · intro tm htm'
    rw [htm] at htm'
    obtain ⟨c, t0, sig, h1, h2, h3⟩ := h.t tm htm'
    exact ⟨c, t0, sig, hcs.trans h1, hsub _ h2, h3⟩
  · intro tt c hk
    rw [hl] at hk
    rcases List.mem_append.1 hk with hk | hk
    · have := fxOf_mem hk rfl
      rw [hnew] at this; cases this
    · obtain ⟨t0, sig, h2, h3⟩ := h.k tt c hk
      exact ⟨t0, sig, hsub _ h2, h3⟩

theorem timer_cand {s : St} (h : Src.timer ∈ recvCandidates s) : ∃ tm, s.timer = some tm ∧ tm.until_ ≤ s.now := by
  unfold recvCandidates at h
  simp only [] at h
  have hnow : (if s.cfg.f7 = true then { s with parked := false } else s).now = s.now := by split <;> rfl
  have htimer : (if s.cfg.f7 = true then { s with parked := false } else s).timer = s.timer := by split <;> rfl
  generalize (if s.cfg.f7 = true then { s with parked := false } else s) = s' at h hnow htimer
  cases htm : s'.timer with
  | none =>
    simp only [htm] at h
    (repeat' split at h) <;> simp at h
  | some tm =>
    simp only [htm] at h
    refine ⟨tm, htimer ▸ htm, ?_⟩
    rw [← hnow]
    by_cases hle : tm.until_ ≤ s'.now
    · exact hle
    · simp only [hle, if_false] at h
      (repeat' split at h) <;> simp at h


theorem takeFrom_grace {s s1 : St} {src : Src} {m : Msg} (ht : takeFrom s src = some (m, s1)) :
    s1.log = s.log ∧ s1.now = s.now ∧
    (∀ m' ∈ s1.normal ++ s1.high ++ s1.urgent, m' ∈ s.normal ++ s.high ++ s.urgent) ∧
    ((src = .timer ∧ s1.timer = none ∧ (m.ctl = .stop ∨ m.ctl = .continueTGR)) ∨
     (src ≠ .timer ∧ s1.timer = s.timer ∧ m ∈ s.normal ++ s.high ++ s.urgent)) := by
  cases src with
  | timer =>
    simp only [takeFrom] at ht
    cases htm : s.timer with
    | none => simp [htm] at ht
    | some t =>
      simp only [htm, Option.map_some, Option.some.injEq, Prod.mk.injEq] at ht
      obtain ⟨rfl, rfl⟩ := ht
      refine ⟨rfl, rfl, fun m' h => h, Or.inl ⟨rfl, rfl, ?_⟩⟩
      cases t.isRestart <;> simp
  | urgent =>
    simp only [takeFrom] at ht
    split at ht
    · next m0 r hq =>
      simp only [Option.some.injEq, Prod.mk.injEq] at ht; obtain ⟨rfl, rfl⟩ := ht
      refine ⟨rfl, rfl, ?_, Or.inr ⟨by simp, rfl, by simp [hq]⟩⟩
      intro m' h; simp only [List.mem_append] at h ⊢; rw [hq]
      rcases h with (h | h) | h
      · exact Or.inl (Or.inl h)
      · exact Or.inl (Or.inr h)
      · exact Or.inr (List.mem_cons_of_mem _ h)
    · cases ht
  | high =>
    simp only [takeFrom] at ht
    split at ht
    · next m0 r hq =>
      simp only [Option.some.injEq, Prod.mk.injEq] at ht; obtain ⟨rfl, rfl⟩ := ht
      refine ⟨rfl, rfl, ?_, Or.inr ⟨by simp, rfl, by simp [hq]⟩⟩
      intro m' h; simp only [List.mem_append] at h ⊢; rw [hq]
      rcases h with (h | h) | h
      · exact Or.inl (Or.inl h)
      · exact Or.inl (Or.inr (List.mem_cons_of_mem _ h))
      · exact Or.inr h
    · cases ht
  | normal =>
    simp only [takeFrom] at ht
    split at ht
    · next m0 r hq =>
      simp only [Option.some.injEq, Prod.mk.injEq] at ht; obtain ⟨rfl, rfl⟩ := ht
      refine ⟨rfl, rfl, ?_, Or.inr ⟨by simp, rfl, by simp [hq]⟩⟩
      intro m' h; simp only [List.mem_append] at h ⊢; rw [hq]
      rcases h with (h | h) | h
      · exact Or.inl (Or.inl (List.mem_cons_of_mem _ h))
      · exact Or.inl (Or.inr h)
      · exact Or.inr h
    · cases ht

theorem waitReady_cs {s : St} {c} (hw : waitReady s = some c) : s.cs = .running c := by
  unfold waitReady at hw
  split at hw
  · next c' hc' => (repeat' split at hw) <;> simp_all
  · cases hw

theorem grace_turnCandidates {G : Nat} {sp0 : Sp} {s : St} (hr : RunInv sp0 s) (h : Grace G s) :
    ∀ x ∈ turnCandidates s, Grace G x := by
  intro x hx
  obtain ⟨hcfg, hinv, _⟩ := hr
  unfold turnCandidates at hx
  rcases List.mem_append.1 hx with hx | hx
  · -- the wait branch: no kill, the timer is erased
    split at hx
    · next c hw =>
      simp only [List.mem_singleton] at hx; subst hx
      have hall : ({ s with parked := false } : St).cfg = Fixes.all := hcfg
      obtain ⟨_, r2⟩ := waitBranch_refines { s with parked := false } c hall
      obtain ⟨_, new, hl, _⟩ := ext_waitBranch { s with parked := false } c
      have hnew := new_eq hl r2
      have hq := qv_queues (waitBranch_qv { s with parked := false } c)
      have hsub : ∀ e, e ∈ s.log → e ∈ (waitBranch { s with parked := false } c).log := fun e he => by
        rw [hl]; exact List.mem_append_right _ he
      refine ⟨by rw [hq.1, hq.2.1, hq.2.2]; exact h.q, ?_, ?_⟩
      · intro tm htm; rw [waitBranch_timer] at htm; cases htm
      · intro tt c' hk
        rw [hl] at hk
        rcases List.mem_append.1 hk with hk | hk
        · have := fxOf_mem hk rfl
          rw [hnew] at this
          exact absurd (List.mem_reverse.1 this) (specExit_nokill _ _ _ _ c')
        · obtain ⟨t0, sig, h2, h3⟩ := h.k tt c' hk
          exact ⟨t0, sig, hsub _ h2, h3⟩
    · cases hx
  · obtain ⟨src, hsrc, hs⟩ := List.mem_filterMap.1 hx
    cases ht : takeFrom s src with
    | none => simp [ht] at hs
    | some p =>
      obtain ⟨m, s1⟩ := p
      simp only [ht] at hs
      injection hs with hs; subst hs
      obtain ⟨ha, hf, hc, hcs, hch⟩ := takeFrom_absfx ht
      obtain ⟨hlog, hnow, hqs, hsrc'⟩ := takeFrom_grace ht
      have hinv1 : Inv s1 := inv_takeFrom hinv ht
      let s2 : St := { s1 with parked := false }
      have hall : s2.cfg = Fixes.all := hc.trans hcfg
      have hchild : ∀ c, s2.cs = .running c → ∃ ch, s2.child? c = some ch :=
        child_of_inv (s := s2) (inv_congr rfl rfl rfl hinv1)
      obtain ⟨r1, r2, _⟩ := handle_refines s2 m hall hchild
      obtain ⟨_, new, hl, hst⟩ := ext_handle s2 m
      have habs : s2.abs = s.abs := ha
      have hnew : fxOf new = (specStep s.abs m.ctl).2.1.reverse := by rw [← habs]; exact new_eq hl r2
      have hq := qv_queues (handle_qv s2 m)
      have hl' : (handle s2 m).log = new ++ s.log := by rw [hl]; exact congrArg _ hlog
      have hst' : ∀ e ∈ new, e.1 = s.now := fun e he => (hst e he).trans hnow
      have hsub : ∀ e, e ∈ s.log → e ∈ (handle s2 m).log := fun e he => by rw [hl']; exact List.mem_append_right _ he
      have hcs2 : s2.cs = s.cs := hcs
      have hxcs : (handle s2 m).cs = (specStep s.abs m.ctl).1.cs := by
        have := congrArg Sp.cs r1; rw [habs] at this; exact this
      refine ⟨?_, ?_, ?_⟩
      · rw [hq.1, hq.2.1, hq.2.2]; intro m' hm'; exact h.q m' (hqs m' hm')
      · intro tm htm
        rw [handle_timer] at htm
        rcases hsrc' with ⟨_, htn, hctl⟩ | ⟨_, hte, hmem⟩
        · -- the timer's own message: the timer was taken, and stop / continue never arm one
          rcases hctl with hctl | hctl <;> (rw [hctl] at htm; simp only [] at htm; rw [show s2.timer = none from htn] at htm; cases htm)
        · have hg : Gentle G m.ctl := h.q m hmem
          cases hctl : m.ctl with
          | gracefulStop sig g =>
            rw [hctl] at htm hg
            cases hrun : s.cs with
            | running c =>
              rw [show s2.cs = .running c from hcs2.trans hrun] at htm
              simp only [Option.some.injEq] at htm; subst htm
              have heff : (specStep s.abs (.gracefulStop sig g)).2.1 = [.signal c sig] := by
                simp [specStep, show s.abs.cs = .running c from hrun]
              rw [hctl, heff] at hnew
              obtain ⟨t0, hm0⟩ := mem_of_fxOf (new := new) (o := .signal c sig) (by rw [hnew]; simp)
              refine ⟨c, t0, sig, ?_, ?_, ?_⟩
              · rw [hxcs, hctl]; simp [specStep, show s.abs.cs = .running c from hrun]
              · rw [hl']; exact List.mem_append_left _ hm0
              · have := hst' _ hm0
                simp only [] at this
                have hn2 : s2.now = s.now := hnow
                simp only [Gentle] at hg
                show t0 + G ≤ s2.now + g
                omega
            | pending =>
              rw [show s2.cs = .pending from hcs2.trans hrun] at htm
              simp only [] at htm
              rw [show s2.timer = s.timer from hte] at htm
              obtain ⟨c, _, _, h1, _, _⟩ := h.t tm htm
              rw [hrun] at h1; cases h1
            | finished st =>
              rw [show s2.cs = .finished st from hcs2.trans hrun] at htm
              simp only [] at htm
              rw [show s2.timer = s.timer from hte] at htm
              obtain ⟨c, _, _, h1, _, _⟩ := h.t tm htm
              rw [hrun] at h1; cases h1
          | tryGracefulRestart sig g =>
            rw [hctl] at htm hg
            cases hrun : s.cs with
            | running c =>
              rw [show s2.cs = .running c from hcs2.trans hrun] at htm
              simp only [Option.some.injEq] at htm; subst htm
              have heff : (specStep s.abs (.tryGracefulRestart sig g)).2.1 = [.signal c sig] := by
                simp [specStep, show s.abs.cs = .running c from hrun]
              rw [hctl, heff] at hnew
              obtain ⟨t0, hm0⟩ := mem_of_fxOf (new := new) (o := .signal c sig) (by rw [hnew]; simp)
              refine ⟨c, t0, sig, ?_, ?_, ?_⟩
              · rw [hxcs, hctl]; simp [specStep, show s.abs.cs = .running c from hrun]
              · rw [hl']; exact List.mem_append_left _ hm0
              · have := hst' _ hm0
                simp only [] at this
                have hn2 : s2.now = s.now := hnow
                simp only [Gentle] at hg
                show t0 + G ≤ s2.now + g
                omega
            | pending =>
              rw [show s2.cs = .pending from hcs2.trans hrun] at htm
              simp only [] at htm
              rw [show s2.timer = s.timer from hte] at htm
              obtain ⟨c, _, _, h1, _, _⟩ := h.t tm htm
              rw [hrun] at h1; cases h1
            | finished st =>
              rw [show s2.cs = .finished st from hcs2.trans hrun] at htm
              simp only [] at htm
              rw [show s2.timer = s.timer from hte] at htm
              obtain ⟨c, _, _, h1, _, _⟩ := h.t tm htm
              rw [hrun] at h1; cases h1
          | _ =>
            rw [hctl] at htm hg
            simp only [] at htm
            rw [show s2.timer = s.timer from hte] at htm
            obtain ⟨c, t0, sig, h1, h2, h3⟩ := h.t tm htm
            refine ⟨c, t0, sig, ?_, hsub _ h2, h3⟩
            rw [hxcs, hctl]
            exact spec_gentle_cs hg h1
      · intro tt c hk
        rw [hl'] at hk
        rcases List.mem_append.1 hk with hk | hk
        · -- a new kill: only the timer's message can cause it, and only at or after the deadline
          have hkf := fxOf_mem hk rfl
          rw [hnew] at hkf
          obtain ⟨hrun, hctl⟩ := kill_in_spec (List.mem_reverse.1 hkf)
          rcases hsrc' with ⟨hsrct, _, _⟩ | ⟨_, _, hmem⟩
          · subst hsrct
            obtain ⟨tm, htm, hle⟩ := timer_cand hsrc
            obtain ⟨c', t0, sig, h1, h2, h3⟩ := h.t tm htm
            have : c' = c := by
              have : s.cs = .running c := hrun
              rw [h1] at this; injection this
            subst this
            have htt : tt = s.now := hst' _ hk
            exact ⟨t0, sig, hsub _ h2, by omega⟩
          · have hg : Gentle G m.ctl := h.q m hmem
            rcases hctl with hctl | hctl | hctl <;> (rw [hctl] at hg; exact absurd hg (by simp [Gentle]))
        · obtain ⟨t0, sig, h2, h3⟩ := h.k tt c hk
          exact ⟨t0, sig, hsub _ h2, h3⟩


theorem grace_closedOutcome {G : Nat} {sp0 : Sp} {s : St} (hr : RunInv sp0 s) (h : Grace G s) :
    ∀ x ∈ closedOutcome s, Grace G x := by
  intro x hx
  unfold closedOutcome at hx
  split at hx
  · have hf16 : s.cfg.f16 = true := by rw [hr.1]; rfl
    simp only [hf16, if_true, List.mem_singleton] at hx; subst hx
    -- `ended` is appended: a process-visible effect, but not a kill, and the timer / state / queues stay
    have hs := raise_same (({ s with alive := false } : St).emit .ended) 0
    obtain ⟨_, new, hl, _⟩ := (ext_raise (({ s with alive := false } : St).emit .ended) 0).trans
      ((ext_emit ({ s with alive := false } : St) .ended).trans (Ext.ofEq (s := s) rfl rfl))
    have hfx : ((({ s with alive := false } : St).emit .ended).raise 0).fx = [.ended] ++ s.fx := by
      rw [raise_fx, fx_emit _ _ rfl]; rfl
    have hnew := new_eq hl hfx
    have hsub : ∀ e, e ∈ s.log → e ∈ ((({ s with alive := false } : St).emit .ended).raise 0).log := fun e he => by
      rw [hl]; exact List.mem_append_right _ he
    have hcs : ((({ s with alive := false } : St).emit .ended).raise 0).cs = s.cs := by
      have := congrArg Sp.cs (raise_abs (({ s with alive := false } : St).emit .ended) 0); exact this
    refine ⟨by rw [hs.normal, hs.high, hs.urgent]; exact h.q, ?_, ?_⟩
    · intro tm htm
      rw [hs.timer] at htm
      obtain ⟨c, t0, sig, h1, h2, h3⟩ := h.t tm htm
      exact ⟨c, t0, sig, hcs.trans h1, hsub _ h2, h3⟩
    · intro tt c hk
      rw [hl] at hk
      rcases List.mem_append.1 hk with hk | hk
      · have := fxOf_mem hk rfl
        rw [hnew] at this; simp at this
      · obtain ⟨t0, sig, h2, h3⟩ := h.k tt c hk
        exact ⟨t0, sig, hsub _ h2, h3⟩
  · cases hx

theorem grace_turns {G : Nat} {sp0 : Sp} {s : St} (hr : RunInv sp0 s) (h : Grace G s) : ∀ s' ∈ turns s, Grace G s' := by
  intro x hx
  unfold turns at hx
  split at hx
  · cases hx
  · split at hx
    · exact grace_closedOutcome hr h x hx
    · exact grace_turnCandidates hr h x hx

theorem enqueue_log (s : St) (p m) : (enqueue s p m).log = s.log ∧ (enqueue s p m).timer = s.timer ∧ (enqueue s p m).cs = s.cs ∧
    (∀ m' ∈ (enqueue s p m).normal ++ (enqueue s p m).high ++ (enqueue s p m).urgent, m' = m ∨ m' ∈ s.normal ++ s.high ++ s.urgent) := by
  cases p <;> refine ⟨rfl, rfl, rfl, ?_⟩ <;> intro m' h <;> simp only [enqueue, List.mem_append, List.mem_singleton] at h ⊢ <;> grind

theorem ext_register (s : St) (f w) : Ext (s.register f w) s := by
  unfold St.register; split <;> exact Ext.ofEq rfl rfl

theorem ext_pollWaiter (s : St) (w) : Ext (pollWaiter s w) s := by
  unfold pollWaiter
  split
  · split
    · exact Ext.refl s
    · split
      · exact ext_resolveWaiter _ _
      · simp only []
        split
        · exact (ext_resolveWaiter _ _).trans (ext_register _ _ _)
        · exact (ext_register _ _ _).trans (ext_register _ _ _)
  · exact Ext.refl s

theorem ext_foldl_poll (ws : List WaiterId) (s : St) : Ext (ws.foldl pollWaiter s) s := by
  induction ws generalizing s with
  | nil => exact Ext.refl s
  | cons w ws ih => simp only [List.foldl_cons]; exact (ih _).trans (ext_pollWaiter s w)

/-- the two whole-run invariants together: the run is a run of the documented machine, and it is gentle -/
theorem graceInv_simInv (G : Nat) (sp0 : Sp) :
    SimInv2 (fun x => RunInv sp0 x.st ∧ Grace G x.st) (fun _ c => Gentle G c) where
  turns := fun x h s' hs' => ⟨runInv_turns h.1 s' hs', grace_turns h.1 h.2 s' hs'⟩
  park := fun x h => by
    refine ⟨(runInv_simInv sp0).park x h.1, ?_⟩
    have hq := quiet_park x.st
    refine h.2.quiet ⟨[], ?_⟩ ?_ hq.1.normal hq.1.high hq.1.urgent hq.1.timer ?_ <;> (unfold park; split <;> rfl)
  drain := fun x h => by
    refine ⟨(runInv_simInv sp0).drain x h.1, ?_⟩
    have hq := quiet_drainPolls x.st
    obtain ⟨a, b⟩ := foldl_poll_absfx x.st.pendingPolls { x.st with pendingPolls := [] }
    have he : ∃ new, (drainPolls x.st).log = new ++ x.st.log := by
      have : Ext (drainPolls x.st) x.st := by
        unfold drainPolls
        exact (ext_foldl_poll _ _).trans (Ext.ofEq (s := x.st) rfl rfl)
      obtain ⟨_, new, hl, _⟩ := this
      exact ⟨new, hl⟩
    exact h.2.quiet he (by unfold drainPolls; exact b) hq.1.normal hq.1.high hq.1.urgent hq.1.timer
      (by have := congrArg Sp.cs (show (drainPolls x.st).abs = x.st.abs by unfold drainPolls; exact a); exact this)
  now := fun x t h => ⟨(runInv_simInv sp0).now x t h.1, ⟨h.2.q, h.2.t, h.2.k⟩⟩
  close := fun x h => ⟨(runInv_simInv sp0).close x h.1, ⟨h.2.q, h.2.t, h.2.k⟩⟩
  cancel := fun x aw h => by
    refine ⟨(runInv_simInv sp0).cancel x aw h.1, ?_⟩
    unfold cancelSend
    simp only []
    split
    · exact h.2.quiet ⟨[(x.st.now, .ticket x.nextWaiter)], rfl⟩ (by simp [St.fx, St.emit, isTicket]) rfl rfl rfl rfl rfl
    · exact h.2
  sendOne := fun x p c hc h => by
    refine ⟨(runInv_simInv sp0).sendOne x p c trivial h.1, ?_⟩
    unfold sendOne
    simp only []
    obtain ⟨e1, e2, e3, e4⟩ := enqueue_log x.st p ⟨c, x.nextFlag⟩
    refine ⟨?_, ?_, ?_⟩
    · intro m' hm'
      rcases e4 m' hm' with rfl | hm
      · exact hc
      · exact h.2.q m' hm
    · intro tm htm; rw [e2] at htm
      obtain ⟨c', t0, sig, h1, h2, h3⟩ := h.2.t tm htm
      exact ⟨c', t0, sig, e3.trans h1, by rw [e1]; exact h2, h3⟩
    · intro tt c' hk; rw [e1] at hk
      obtain ⟨t0, sig, h2, h3⟩ := h.2.k tt c' hk
      exact ⟨t0, sig, by rw [e1]; exact h2, h3⟩
  finish := fun x aw h => by
    refine ⟨(runInv_simInv sp0).finish x aw h.1, ?_⟩
    unfold finishSend
    simp only []
    split
    · let s0 : St := { x.st with waiters := x.st.waiters ++ [{ id := x.nextWaiter, done := x.nextFlag - 1 }] }
      have hq := quiet_pollWaiter s0 x.nextWaiter
      obtain ⟨a, b⟩ := pollWaiter_absfx s0 x.nextWaiter
      obtain ⟨_, new, hl, _⟩ := ext_pollWaiter s0 x.nextWaiter
      exact h.2.quiet (s := x.st) ⟨new, hl⟩ b hq.1.normal hq.1.high hq.1.urgent hq.1.timer
        (by have := congrArg Sp.cs a; exact this)
    · exact h.2
  clone := fun x f h => by
    refine ⟨(runInv_simInv sp0).clone x f h.1, ?_⟩
    let s0 : St := { x.st with waiters := x.st.waiters ++ [{ id := x.nextWaiter, done := f }] }
    have hq := quiet_pollWaiter s0 x.nextWaiter
    obtain ⟨a, b⟩ := pollWaiter_absfx s0 x.nextWaiter
    obtain ⟨_, new, hl, _⟩ := ext_pollWaiter s0 x.nextWaiter
    exact h.2.quiet (s := x.st) ⟨new, hl⟩ b hq.1.normal hq.1.high hq.1.urgent hq.1.timer
      (by have := congrArg Sp.cs a; exact this)


/-- an operation script whose controls are all gentle with grace periods of at least `G` -/
def GentleOps (G : Nat) (ops : List Op) : Prop := ∀ o ∈ ops, OpOkFor2 (fun _ c => Gentle G c) o

/-- **C06, whole run** — for every behaviour script, every script of graceful controls (at any priority, with any
    grace periods ≥ `G`), any passage of time and every resolution of every race: every kill recorded in the log was
    preceded, at least `G` earlier, by a signal to the same child. No child is force-killed before its grace period
    has elapsed. -/
theorem c06_no_early_kill (G : Nat) (behs : List Beh) (ops : List Op) (hops : GentleOps G ops) :
    let x0 : Sim := { st := { cfg := Fixes.all, behs := behs, hookSet := true, parked := true } }
    ∀ y ∈ runOps x0 ops, ∀ t c, (t, Obs.kill c) ∈ y.st.log →
      ∃ t0 sig, (t0, Obs.signal c sig) ∈ y.st.log ∧ t0 + G ≤ t := by
  intro x0 y hy
  have hr : RunInv x0.st.abs x0.st := ⟨rfl, (by refine ⟨rfl, ?_, ?_⟩ <;> simp [x0]), by
    have : x0.st.fx = [] := rfl
    rw [this]; exact SpecRun.start⟩
  have hg : Grace G x0.st := ⟨(by simp [x0]), (fun tm htm => by simp [x0] at htm), (fun t c hk => by simp [x0] at hk)⟩
  exact ((graceInv_simInv G x0.st.abs).runOps ops hops (x := x0) ⟨hr, hg⟩ y hy).2.k

/-- and an armed timer never expires earlier than `G` after the signal that armed it (same quantifiers) -/
theorem c06_timer_not_short (G : Nat) (behs : List Beh) (ops : List Op) (hops : GentleOps G ops) :
    let x0 : Sim := { st := { cfg := Fixes.all, behs := behs, hookSet := true, parked := true } }
    ∀ y ∈ runOps x0 ops, ∀ tm, y.st.timer = some tm →
      ∃ c t0 sig, y.st.cs = .running c ∧ (t0, Obs.signal c sig) ∈ y.st.log ∧ t0 + G ≤ tm.until_ := by
  intro x0 y hy
  have hr : RunInv x0.st.abs x0.st := ⟨rfl, (by refine ⟨rfl, ?_, ?_⟩ <;> simp [x0]), by
    have : x0.st.fx = [] := rfl
    rw [this]; exact SpecRun.start⟩
  have hg : Grace G x0.st := ⟨(by simp [x0]), (fun tm htm => by simp [x0] at htm), (fun t c hk => by simp [x0] at hk)⟩
  exact ((graceInv_simInv G x0.st.abs).runOps ops hops (x := x0) ⟨hr, hg⟩ y hy).2.t

/-- non-vacuity: a graceful stop (grace 50) of a child that ignores the signal — the kill is in the log, at 50 -/
example : (runOps { st := { cfg := Fixes.all, behs := [.ignores], hookSet := true, parked := true } }
    [.send .normal [.start] false, .settle, .send .normal [.gracefulStop 15 50] false, .advance 60]).map
      (fun y => y.st.log.filterMap (fun e => match e.2 with | .kill c => some (e.1, c) | _ => none)) = [[(50, 0)]] := by decide

/-- the hypothesis is needed: a forceful stop sent (urgent) during the grace period kills at once -/
example : (runOps { st := { cfg := Fixes.all, behs := [.ignores], hookSet := true, parked := true } }
    [.send .normal [.start] false, .settle, .send .normal [.gracefulStop 15 50] false, .advance 10,
     .send .urgent [.stop] false, .settle]).map
      (fun y => y.st.log.filterMap (fun e => match e.2 with | .kill c => some (e.1, c) | _ => none)) = [[(10, 0)]] := by decide

#print axioms c06_no_early_kill
#print axioms c06_timer_not_short
end Jm
