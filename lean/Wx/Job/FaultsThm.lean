import Wx.Job.Faults
import Wx.Job.C04Sim
import Wx.Job.C07b
import Wx.Job.SimInduct
import Wx.Job.C10b
/-! Theorems about the fault-aware task `Jf` (Wx/Job/Faults.lean).

    A. Without faults `Jf` IS the verified model `Jm`: every run of `runOpsF` is a run of `runOps` and vice versa
       (`runOpsF_noFaults`), so every theorem about `Jm` speaks about the fault-free runs of the model the fault
       scripts are compared with.
    B. An induction principle for everything `runOpsF` can reach (`FInv.runOpsF`).
    C. C04 under faults: at most one live child, whatever fails (`c04_faults`).
    D. C07 under faults: no flag is lost when kill / signal / wait fail (`c07_faults`). -/
namespace Jf
open Jm

/-! ## A. no faults: the verified model -/

theorem faultOf_nil (c : ChildId) : faultOf [] c = {} := by simp [faultOf]

theorem killFails_nf {x : FSt} (h : x.faults = []) (c : ChildId) : killFails x c = false := by
  simp [killFails, h, faultOf_nil]

theorem waitFails_nf {x : FSt} (h : x.faults = []) (c : ChildId) : waitFails x c = false := by
  simp [waitFails, h, faultOf_nil]

theorem afterKillFault_nf {x : FSt} (h : x.faults = []) (m : Msg) (c : ChildId) : afterKillFault x m c = none := by
  simp [afterKillFault, killFails_nf h, waitFails_nf h]

theorem clearSlot_faults (x : FSt) : (clearSlot x).faults = x.faults := by
  unfold clearSlot; split <;> rfl

theorem handleF_nf {x : FSt} (h : x.faults = []) (m : Msg) : handleF x m = lift x m := by
  unfold handleF
  split
  · split
    · simp [afterKillFault_nf h]
    · simp [afterKillFault_nf h]
    · simp [afterKillFault_nf (x := clearSlot x) (by rw [clearSlot_faults]; exact h)]
    · simp [h, faultOf_nil]
    · simp [h, faultOf_nil]
    · simp [h, faultOf_nil]
    · rfl
  · rfl

def withSt (x : FSt) (s : St) : FSt := { x with st := s }

@[simp] theorem withSt_faults (x : FSt) (s : St) : (withSt x s).faults = x.faults := rfl
@[simp] theorem withSt_st (x : FSt) (s : St) : (withSt x s).st = s := rfl
@[simp] theorem withSt_withSt (x : FSt) (s t : St) : withSt (withSt x s) t = withSt x t := rfl

theorem waitTurnsF_nf {x : FSt} (h : x.faults = []) : waitTurnsF x = (waitTurns x.st).map (withSt x) := by
  unfold waitTurnsF
  split
  · simp only [waitFails_nf h, Bool.false_eq_true, if_false]; rfl
  · rfl

theorem recvTurnsF_nf {x : FSt} (h : x.faults = []) : recvTurnsF x = (recvTurns x.st).map (withSt x) := by
  unfold recvTurnsF recvTurns
  rw [List.map_filterMap]
  congr 1
  funext src
  cases takeFrom x.st src with
  | none => rfl
  | some p =>
    obtain ⟨m, s1⟩ := p
    simp only [Option.map]
    rw [handleF_nf (x := { x with st := { s1 with parked := false } }) h]
    rfl

theorem turnsF_nf {x : FSt} (h : x.faults = []) : turnsF x = (turns x.st).map (withSt x) := by
  unfold turnsF turns
  rw [waitTurnsF_nf h, recvTurnsF_nf h, turnCandidates_eq]
  by_cases ha : (!x.st.alive) = true
  · simp [ha]
  · simp only [ha, Bool.false_eq_true, if_false, List.isEmpty_map, ← List.map_append]
    by_cases he : (waitTurns x.st ++ recvTurns x.st).isEmpty = true
    · have h1 : ((waitTurns x.st).isEmpty && (recvTurns x.st).isEmpty) = true := by
        simpa [List.isEmpty_iff] using he
      simp only [h1, he, if_true]; rfl
    · have h1 : ((waitTurns x.st).isEmpty && (recvTurns x.st).isEmpty) = false := by
        cases hh : ((waitTurns x.st).isEmpty && (recvTurns x.st).isEmpty)
        · rfl
        · exfalso; apply he; simpa [List.isEmpty_iff] using hh
      simp only [h1, he, Bool.false_eq_true, if_false]

theorem flatMap_ext {α β} {l : List α} {f g : α → List β} (h : ∀ a ∈ l, f a = g a) : l.flatMap f = l.flatMap g := by
  induction l with
  | nil => rfl
  | cons a l ih =>
    simp only [List.flatMap_cons]
    rw [h a List.mem_cons_self, ih (fun b hb => h b (List.mem_cons_of_mem _ hb))]

theorem settleAllF_nf (fuel : Nat) {x : FSt} (h : x.faults = []) :
    settleAllF fuel x = (settleAll fuel x.st).map (withSt x) := by
  induction fuel generalizing x with
  | zero => simp [settleAllF, settleAll, withSt]
  | succ n ih =>
    unfold settleAllF settleAll
    rw [turnsF_nf h]
    cases hts : turns x.st with
    | nil =>
      simp only [List.map_nil]
      split
      · rfl
      · rw [ih (x := { x with st := drainPolls (park x.st) }) h]; rfl
    | cons t ts =>
      simp only [List.map_cons, List.flatMap_cons, List.map_append, List.flatMap_map, List.map_flatMap]
      rw [ih (x := withSt x t) h]
      congr 1
      apply flatMap_ext
      intro s _
      rw [ih (x := withSt x s) h]
      rfl

theorem advanceAllF_nf (fuel target : Nat) {x : FSt} (h : x.faults = []) :
    advanceAllF fuel target x = (advanceAll fuel target x.st).map (withSt x) := by
  induction fuel generalizing x with
  | zero => simp [advanceAllF, advanceAll, withSt]
  | succ n ih =>
    unfold advanceAllF advanceAll
    rw [settleAllF_nf 200 h, List.flatMap_map, List.map_flatMap]
    apply flatMap_ext
    intro s _
    rw [turnsF_nf (x := withSt x s) h]
    simp only [List.isEmpty_map, withSt_st]
    split
    · rfl
    · cases hne : nextEvent s target with
      | some t => exact ih (x := withSt x { s with now := t }) h
      | none => exact settleAllF_nf 200 (x := withSt x { s with now := target }) h

def ofSim (y : FSim) (x' : Sim) : FSim := { y with x := x' }

theorem put_withSt (y : FSim) (s : St) : y.put (withSt y.f s) = ofSim y { y.x with st := s } := rfl
theorem ofSim_ofSim (y : FSim) (a : Sim) : ofSim (ofSim y a) = ofSim y := rfl
theorem ofSim_self (y : FSim) : ofSim y y.x = y := rfl

theorem injectAllF_nf (fuel : Nat) {y : FSim} (h : y.faults = []) (p : Prio) (cs : List Ctl) (aw : Bool) :
    injectAllF fuel y p cs aw = (injectAll fuel y.x p cs aw).map (ofSim y) := by
  induction fuel generalizing y with
  | zero => simp [injectAllF, injectAll, ofSim_self]
  | succ n ih =>
    unfold injectAllF injectAll
    have hf : y.f.faults = [] := h
    rw [waitTurnsF_nf hf, recvTurnsF_nf hf]
    simp only [List.isEmpty_map]
    have e1 : y.f.st = y.x.st := rfl
    rw [e1]
    split
    · simp [ofSim_self]
    · split
      · simp [ofSim_self]
      · rw [List.map_append, List.flatMap_map, List.map_flatMap, List.map_map, List.map_map]
        congr 1
        apply flatMap_ext
        intro s _
        rw [put_withSt, ih (y := ofSim y { y.x with st := s }) h]
        rfl

theorem stepOpF_nf {y : FSim} (h : y.faults = []) (o : Op) : stepOpF y o = (stepOp y.x o).map (ofSim y) := by
  have hf : y.f.faults = [] := h
  cases o with
  | send p cs aw => rfl
  | settle =>
    simp only [stepOpF, stepOp, settleAllF_nf 200 hf, List.map_map]
    rfl
  | advance ms =>
    simp only [stepOpF, stepOp, advanceAllF_nf 64 _ hf, List.map_map]
    rfl
  | dropHandles => rfl
  | inject p cs aw => simp only [stepOpF, stepOp, injectAllF_nf 50 h]
  | clone w => rfl

/-- **without faults the fault-aware task is the verified model**: its runs are exactly the runs of `Jm.runOps` -/
theorem runOpsF_noFaults (ops : List Op) {y : FSim} (h : y.faults = []) :
    runOpsF y ops = (runOps y.x ops).map (ofSim y) := by
  induction ops generalizing y with
  | nil => simp [runOpsF, runOps, ofSim_self]
  | cons o os ih =>
    simp only [runOpsF, runOps, stepOpF_nf h, List.flatMap_map, List.map_flatMap]
    apply flatMap_ext
    intro z _
    rw [ih (y := ofSim y z) h]
    rfl

/-! ## B. everything `runOpsF` can reach -/

structure FInv (I : St → Prop) (SendOk : Prio → Ctl → Prop) : Prop where
  turnsF : ∀ x : FSt, I x.st → ∀ y ∈ turnsF x, I y.st
  park : ∀ s, I s → I (park s)
  drain : ∀ s, I s → I (drainPolls s)
  now : ∀ s t, I s → I { s with now := t }
  close : ∀ s, I s → I { s with closed := true }
  send : ∀ (x : Sim) p cs aw, (∀ c ∈ cs, SendOk p c) → I x.st → I (doSend x p cs aw).st
  clone : ∀ (x : Sim) w, I x.st → I (cloneWaiter x w).st

variable {I : St → Prop} {SendOk : Prio → Ctl → Prop}

theorem FInv.settleAllF (H : FInv I SendOk) (fuel : Nat) {x : FSt} (h : I x.st) : ∀ y ∈ settleAllF fuel x, I y.st := by
  induction fuel generalizing x with
  | zero => intro y hy; simp [Jf.settleAllF] at hy; subst hy; exact h
  | succ n ih =>
    intro y hy
    unfold Jf.settleAllF at hy
    cases hts : Jf.turnsF x with
    | nil =>
      simp only [hts] at hy
      by_cases hp : (Jm.park x.st).pendingPolls.isEmpty = true
      · simp only [hp, if_true, List.mem_singleton] at hy; subst hy; exact H.park _ h
      · simp only [hp, Bool.false_eq_true, if_false] at hy
        exact ih (x := { x with st := drainPolls (Jm.park x.st) }) (H.drain _ (H.park _ h)) y hy
    | cons t ts =>
      simp only [hts] at hy
      obtain ⟨z, hz, hyz⟩ := List.mem_flatMap.mp hy
      exact ih (H.turnsF x h z (by rw [hts]; exact hz)) y hyz

theorem FInv.advanceAllF (H : FInv I SendOk) (fuel target : Nat) {x : FSt} (h : I x.st) :
    ∀ y ∈ advanceAllF fuel target x, I y.st := by
  induction fuel generalizing x with
  | zero => intro y hy; simp [Jf.advanceAllF] at hy; subst hy; exact h
  | succ n ih =>
    intro y hy
    unfold Jf.advanceAllF at hy
    obtain ⟨z, hz, hyz⟩ := List.mem_flatMap.mp hy
    have hzi := H.settleAllF 200 h z hz
    by_cases hidle : (!(Jf.turnsF z).isEmpty) = true
    · simp only [hidle, if_true, List.mem_singleton] at hyz; subst hyz; exact hzi
    simp only [hidle, Bool.false_eq_true, if_false] at hyz
    split at hyz
    · rename_i t _
      exact ih (x := { z with st := { z.st with now := t } }) (H.now _ _ hzi) y hyz
    · exact H.settleAllF 200 (x := { z with st := { z.st with now := target } }) (H.now _ _ hzi) y hyz

theorem mem_turnsF {x : FSt} (hal : x.st.alive = true) {t : FSt} (h : t ∈ waitTurnsF x ++ recvTurnsF x) : t ∈ turnsF x := by
  unfold Jf.turnsF
  simp only [hal, Bool.not_true, Bool.false_eq_true, if_false]
  have hne : ((waitTurnsF x).isEmpty && (recvTurnsF x).isEmpty) = false := by
    cases hh : ((waitTurnsF x).isEmpty && (recvTurnsF x).isEmpty)
    · rfl
    · exfalso
      simp only [Bool.and_eq_true, List.isEmpty_iff] at hh
      rw [hh.1, hh.2] at h
      cases h
  simp only [hne, Bool.false_eq_true, if_false]
  exact h

theorem FInv.injectAllF (H : FInv I SendOk) (p : Prio) (cs : List Ctl) (aw : Bool) (hs : ∀ c ∈ cs, SendOk p c)
    (fuel : Nat) {y : FSim} (h : I y.x.st) : ∀ z ∈ injectAllF fuel y p cs aw, I z.x.st := by
  induction fuel generalizing y with
  | zero => intro z hz; simp [Jf.injectAllF] at hz; subst hz; exact h
  | succ n ih =>
    intro z hz
    unfold Jf.injectAllF at hz
    by_cases hal : (!y.x.st.alive) = true
    · simp only [hal, if_true, List.mem_singleton] at hz; subst hz; exact h
    simp only [hal, Bool.false_eq_true, if_false] at hz
    have hal0 : y.x.st.alive = true := by simpa using hal
    have hal' : y.f.st.alive = true := hal0
    by_cases hemp : ((waitTurnsF y.f).isEmpty && (recvTurnsF y.f).isEmpty) = true
    · simp only [hemp, if_true, List.mem_singleton] at hz; subst hz; exact h
    simp only [hemp, Bool.false_eq_true, if_false] at hz
    rcases List.mem_append.1 hz with hz | hz
    · obtain ⟨t, ht, hz'⟩ := List.mem_flatMap.1 hz
      have hi : I t.st := H.turnsF y.f h t (mem_turnsF hal' (List.mem_append_left _ ht))
      exact ih (y := y.put t) hi z hz'
    · obtain ⟨t, ht, rfl⟩ := List.mem_map.1 hz
      have hi : I t.st := H.turnsF y.f h t (mem_turnsF hal' (List.mem_append_right _ ht))
      exact H.send (y.put t).x p cs aw hs hi

theorem FInv.stepOpF (H : FInv I SendOk) {y : FSim} (o : Op) (ho : OpOkFor SendOk o) (h : I y.x.st) :
    ∀ z ∈ stepOpF y o, I z.x.st := by
  intro z hz
  cases o with
  | send p cs aw => simp only [Jf.stepOpF, List.mem_singleton] at hz; subst hz; exact H.send _ _ _ _ ho h
  | settle =>
    simp only [Jf.stepOpF, List.mem_map] at hz
    obtain ⟨t, ht, rfl⟩ := hz
    exact H.settleAllF 200 (x := y.f) h t ht
  | advance ms =>
    simp only [Jf.stepOpF, List.mem_map] at hz
    obtain ⟨t, ht, rfl⟩ := hz
    exact H.advanceAllF 64 _ (x := y.f) h t ht
  | dropHandles =>
    simp only [Jf.stepOpF, List.mem_singleton] at hz; subst hz
    exact H.close _ h
  | inject p cs aw =>
    simp only [Jf.stepOpF] at hz
    exact H.injectAllF p cs aw ho 50 h z hz
  | clone w =>
    simp only [Jf.stepOpF, List.mem_singleton] at hz; subst hz
    exact H.clone _ _ h

/-- every state of every run of every script under every fault script -/
theorem FInv.runOpsF (H : FInv I SendOk) (ops : List Op) (hok : ∀ o ∈ ops, OpOkFor SendOk o) {y : FSim} (h : I y.x.st) :
    ∀ z ∈ runOpsF y ops, I z.x.st := by
  induction ops generalizing y with
  | nil => intro z hz; simp [Jf.runOpsF] at hz; subst hz; exact h
  | cons o os ih =>
    intro z hz
    simp only [Jf.runOpsF] at hz
    obtain ⟨w, hw, hzw⟩ := List.mem_flatMap.mp hz
    exact ih (fun o' ho' => hok o' (List.mem_cons_of_mem _ ho'))
      (H.stepOpF o (hok o List.mem_cons_self) h w hw) z hzw

/-! ## C. C04 under faults -/

theorem inv_failCtl {x : FSt} (m : Msg) (o : Obs) (h : Inv x.st) : Inv (failCtl x m o).st :=
  inv_raise _ (inv_errHandler (inv_emit o h))

theorem inv_killOnly {s : St} (c : ChildId) (h : Inv s) : Inv (killOnly s c) := by
  have he : Inv (s.emit (.kill c)) := inv_emit _ h
  unfold killOnly
  cases hch : (s.emit (.kill c)).child? c with
  | none => simpa [hch] using he
  | some ch =>
    simp only [hch]
    obtain ⟨hm, hid⟩ := child?_mem hch
    apply inv_setChild_same _ he
    intro y hy hyid
    have : y = ch := eq_of_id_eq he hy hm (by simpa using hyid)
    subst this; rfl

theorem inv_afterKillFault {x y : FSt} {m : Msg} {c : ChildId} (h : Inv x.st) (hy : afterKillFault x m c = some y) : Inv y.st := by
  unfold afterKillFault at hy
  split at hy
  · cases hy; exact inv_failCtl m _ h
  · split at hy
    · cases hy; exact inv_failCtl (x := { x with st := killOnly x.st c, waitFailed := c :: x.waitFailed }) m _ (inv_killOnly c h)
    · cases hy

theorem inv_clearSlot {x : FSt} (h : Inv x.st) : Inv (clearSlot x).st := by
  unfold clearSlot; split
  · exact inv_congr (s := x.st) rfl rfl rfl h
  · exact h

theorem inv_getD {o : Option FSt} {d : FSt} (ho : ∀ y, o = some y → Inv y.st) (hd : Inv d.st) : Inv (o.getD d).st := by
  cases o with
  | none => exact hd
  | some y => exact ho y rfl

theorem inv_handleF {x : FSt} (m : Msg) (h : Inv x.st) : Inv (handleF x m).st := by
  have hl : Inv (lift x m).st := inv_handle m h
  unfold handleF
  split
  · split
    · exact inv_getD (fun y hy => inv_afterKillFault h hy) hl
    · exact inv_getD (fun y hy => inv_afterKillFault h hy) hl
    · exact inv_getD (fun y hy => inv_afterKillFault (inv_clearSlot h) hy) hl
    · split
      · exact inv_failCtl m _ h
      · exact hl
    · split
      · exact inv_failCtl m _ h
      · exact hl
    · split
      · exact inv_failCtl m _ h
      · exact hl
    · exact hl
  · exact hl

theorem inv_waitTurns {s : St} (h : Inv s) : ∀ t ∈ waitTurns s, Inv t := fun t ht =>
  inv_turnCandidates h t (by rw [turnCandidates_eq]; exact List.mem_append_left _ ht)

theorem inv_waitTurnsF {x : FSt} (h : Inv x.st) : ∀ y ∈ waitTurnsF x, Inv y.st := by
  intro y hy
  unfold waitTurnsF at hy
  split at hy
  · split at hy
    · simp only [List.mem_singleton] at hy; subst hy
      exact inv_errHandler (inv_emit _ (inv_congr (s := x.st) rfl rfl rfl h))
    · obtain ⟨t, ht, rfl⟩ := List.mem_map.1 hy; exact inv_waitTurns h t ht
  · obtain ⟨t, ht, rfl⟩ := List.mem_map.1 hy; exact inv_waitTurns h t ht

theorem inv_recvTurnsF {x : FSt} (h : Inv x.st) : ∀ y ∈ recvTurnsF x, Inv y.st := by
  intro y hy
  obtain ⟨src, _, hres⟩ := List.mem_filterMap.mp hy
  cases ht : takeFrom x.st src with
  | none => simp [ht] at hres
  | some p =>
    obtain ⟨m, s1⟩ := p
    simp only [ht, Option.some.injEq] at hres
    subst hres
    exact inv_handleF m (x := { x with st := { s1 with parked := false } }) (inv_congr (s := s1) rfl rfl rfl (inv_takeFrom h ht))

theorem inv_turnsF {x : FSt} (h : Inv x.st) : ∀ y ∈ turnsF x, Inv y.st := by
  intro y hy
  unfold turnsF at hy
  split at hy
  · cases hy
  · split at hy
    · obtain ⟨t, ht, rfl⟩ := List.mem_map.1 hy; exact inv_closedOutcome h t ht
    · rcases List.mem_append.1 hy with hy | hy
      · exact inv_waitTurnsF h y hy
      · exact inv_recvTurnsF h y hy

theorem c04_finv : FInv Inv (fun _ _ => True) where
  turnsF := fun _ h => inv_turnsF h
  park := fun _ h => inv_park h
  drain := fun _ h => inv_drainPolls h
  now := fun s _ h => inv_congr (s := s) rfl rfl rfl h
  close := fun s h => inv_congr (s := s) rfl rfl rfl h
  send := fun _ p cs aw _ h => inv_doSend p cs aw h
  clone := fun x w h => inv_stepOp (.clone w) h _ (by simp [stepOp])

def initialF (cfg : Fixes) (behs : List Beh) (faults : List Fault) : FSim :=
  { x := { st := { cfg := cfg, behs := behs, hookSet := true, parked := true } }, faults := faults }

/-- **C04 when calls on the child fail**: whatever kill / signal / wait calls fail, for every script and every race
    resolution, the children spawned and not reaped are exactly the one the task holds (none when it holds none) -/
theorem c04_faults (cfg : Fixes) (behs : List Beh) (faults : List Fault) (ops : List Op) :
    ∀ z ∈ runOpsF (initialF cfg behs faults) ops, Inv z.x.st := by
  apply c04_finv.runOpsF ops (fun o _ => by cases o <;> simp [OpOkFor])
  refine ⟨rfl, ?_, ?_⟩ <;> simp [initialF]

/-! ## D. C07 under faults: a failed call ends its control — error handler, flag raised, nothing lost -/

theorem inv7_failCtl {x : FSt} {m : Msg} (o : Obs) (hc : x.st.cfg = Fixes.all) (hg : Good (some m.done) x.st)
    (hcp : Coupled x.st) : Inv7 (failCtl x m o).st := by
  have q : Quiet ((x.st.emit o).errHandler) x.st := (quiet_errHandler _).trans (quiet_emit _ _)
  exact ⟨by simp only [failCtl, raise_cfg, errHandler_cfg, emit_cfg]; exact hc, good_fin (good_quiet q hg),
    coupled_te ((te_raise _ _).trans (te_quiet q)) hcp⟩

/-- the flag of the control whose call failed IS raised -/
theorem failCtl_raises (x : FSt) (m : Msg) (o : Obs) : (failCtl x m o).st.isRaised m.done = true := by
  simp [failCtl, raise_raised]

theorem quiet_killOnly (s : St) (c : ChildId) : Quiet (killOnly s c) s := by
  unfold killOnly
  simp only []
  split
  · exact (quiet_setChild _ _).trans (quiet_emit _ _)
  · exact quiet_emit _ _

theorem inv7_afterKillFault {x y : FSt} {m : Msg} {c : ChildId} (hc : x.st.cfg = Fixes.all)
    (hg : Good (some m.done) x.st) (hcp : Coupled x.st) (hy : afterKillFault x m c = some y) : Inv7 y.st := by
  unfold afterKillFault at hy
  split at hy
  · cases hy; exact inv7_failCtl _ hc hg hcp
  · split at hy
    · cases hy
      have q := quiet_killOnly x.st c
      exact inv7_failCtl (x := { x with st := killOnly x.st c, waitFailed := c :: x.waitFailed }) _
        (by rw [q.1.cfg]; exact hc) (good_quiet q hg) (coupled_te (te_quiet q) hcp)
    · cases hy

/-- the forced continuation clears the restart slot first: only its own flag was in it, and no timer is armed -/
theorem clearSlot_spec {x : FSt} {m : Msg} (hm : m.ctl = .continueTGR) (hc : x.st.cfg = Fixes.all) (hp : Pre x.st m)
    (hg : Good (some m.done) x.st) :
    (clearSlot x).st.cfg = Fixes.all ∧ Good (some m.done) (clearSlot x).st ∧ Coupled (clearSlot x).st := by
  obtain ⟨htm, hoe⟩ := hp.cont hm
  have hf4 : x.st.cfg.f4 = true := by rw [hc]; rfl
  unfold clearSlot
  simp only [hf4, if_true]
  refine ⟨hc, ⟨fun f hf => ?_, hg.sh⟩, ⟨(fun f h => by cases h), (fun t ht _ => by rw [htm] at ht; cases ht)⟩⟩
  rcases hg.nl f hf with h | h
  · rcases h with h | h | h
    · exact Or.inl (Or.inl h)
    · exact Or.inl (Or.inr (Or.inl h))
    · simp only [St.held, List.mem_append] at h
      rcases h with (h | h) | h
      · exact Or.inl (Or.inr (Or.inr (by simp only [St.held, List.mem_append]; exact Or.inl (Or.inl h))))
      · exact Or.inl (Or.inr (Or.inr (by simp only [St.held, List.mem_append]; exact Or.inl (Or.inr h))))
      · right
        cases ho : x.st.onEndRestart with
        | none => simp [ho] at h
        | some g =>
          simp only [ho, Option.toList, List.mem_singleton] at h
          rw [h, hoe g ho]
  · exact Or.inr h

theorem inv7_getD {o : Option FSt} {d : FSt} (ho : ∀ y, o = some y → Inv7 y.st) (hd : Inv7 d.st) : Inv7 (o.getD d).st := by
  cases o with
  | none => exact hd
  | some y => exact ho y rfl

theorem inv7_handleF {x : FSt} (m : Msg) (c1 : x.st.cfg = Fixes.all) (g1 : Good (some m.done) x.st) (p1 : Pre x.st m)
    (cp1 : m.ctl = .continueTGR ∨ Coupled x.st) : Inv7 (handleF x m).st := by
  have hl : Inv7 (lift x m).st := ⟨by simp only [lift, handle_cfg]; exact c1, good_handle m c1 p1 g1, coupled_handle m c1 p1 cp1⟩
  unfold handleF
  split
  · split
    · next hm => exact inv7_getD (fun y hy => inv7_afterKillFault c1 g1 (cp1.resolve_left (by rw [hm]; simp)) hy) hl
    · next hm => exact inv7_getD (fun y hy => inv7_afterKillFault c1 g1 (cp1.resolve_left (by rw [hm]; simp)) hy) hl
    · next hm =>
      obtain ⟨a, b, c⟩ := clearSlot_spec hm c1 p1 g1
      exact inv7_getD (fun y hy => inv7_afterKillFault a b c hy) hl
    · next hm =>
      split
      · exact inv7_failCtl _ c1 g1 (cp1.resolve_left (by rw [hm]; simp))
      · exact hl
    · next hm =>
      split
      · exact inv7_failCtl _ c1 g1 (cp1.resolve_left (by rw [hm]; simp))
      · exact hl
    · next hm =>
      split
      · exact inv7_failCtl _ c1 g1 (cp1.resolve_left (by rw [hm]; simp))
      · exact hl
    · exact hl
  · exact hl

theorem inv7_waitTurns {s : St} (h : Inv7 s) : ∀ t ∈ waitTurns s, Inv7 t := fun t ht =>
  inv7_turnCandidates h t (by rw [turnCandidates_eq]; exact List.mem_append_left _ ht)

theorem inv7_turnsF {x : FSt} (h : Inv7 x.st) : ∀ y ∈ turnsF x, Inv7 y.st := by
  intro y hy
  unfold turnsF at hy
  split at hy
  · cases hy
  · split at hy
    · obtain ⟨t, ht, rfl⟩ := List.mem_map.1 hy; exact inv7_closedOutcome h t ht
    · rcases List.mem_append.1 hy with hy | hy
      · unfold waitTurnsF at hy
        split at hy
        · split at hy
          · simp only [List.mem_singleton] at hy; subst hy
            exact inv7_quiet (s := x.st)
              ((quiet_errHandler _).trans ((quiet_emit _ _).trans ⟨⟨rfl, rfl, rfl, rfl, rfl, rfl, rfl, rfl⟩, rfl⟩)) h
          · obtain ⟨t, ht, rfl⟩ := List.mem_map.1 hy; exact inv7_waitTurns h t ht
        · obtain ⟨t, ht, rfl⟩ := List.mem_map.1 hy; exact inv7_waitTurns h t ht
      · obtain ⟨src, hsrc, hres⟩ := List.mem_filterMap.mp hy
        cases ht : takeFrom x.st src with
        | none => simp [ht] at hres
        | some p =>
          obtain ⟨m, s1⟩ := p
          simp only [ht, Option.some.injEq] at hres
          subst hres
          obtain ⟨c1, g1, p1, cp1⟩ := take_spec h hsrc ht
          have q : Quiet { s1 with parked := false } s1 := ⟨⟨rfl, rfl, rfl, rfl, rfl, rfl, rfl, rfl⟩, rfl⟩
          exact inv7_handleF m (x := { x with st := { s1 with parked := false } }) c1 (good_quiet q g1) ⟨p1.graceful, p1.cont⟩
            (cp1.imp id (fun hc => coupled_te (te_quiet q) hc))

theorem c07_finv : FInv Inv7 ShapeOk where
  turnsF := fun _ h => inv7_turnsF h
  park := fun s h => inv7_quiet (quiet_park s) h
  drain := fun s h => inv7_quiet (quiet_drainPolls s) h
  now := fun s _ h => inv7_quiet (s := s) ⟨⟨rfl, rfl, rfl, rfl, rfl, rfl, rfl, rfl⟩, rfl⟩ h
  close := fun s h => inv7_quiet (s := s) ⟨⟨rfl, rfl, rfl, rfl, rfl, rfl, rfl, rfl⟩, rfl⟩ h
  send := fun _ p cs aw hs h => inv7_doSend p cs aw hs h
  clone := fun x w h => inv7_stepOp (.clone w) trivial h _ (by simp [stepOp])

/-- **C07 when calls on the child fail** (repaired code, API-shaped sends): whatever kill / signal / wait calls fail,
    for every script and every race resolution, each control flag ever issued is still queued, already raised, or held
    by the timer / wait-for-end list / restart slot, and the restart slot lives exactly as long as its restart timer -/
theorem c07_faults (behs : List Beh) (faults : List Fault) (ops : List Op) (hok : ∀ o ∈ ops, OpOk o) :
    ∀ z ∈ runOpsF (initialF Fixes.all behs faults) ops, NoLost z.x.st ∧ Coupled z.x.st := by
  intro z hz
  have h0 : Inv7 (initialF Fixes.all behs faults).x.st := by
    refine ⟨rfl, ⟨?_, ?_⟩, ?_⟩
    · intro g hg; simp [initialF] at hg
    · exact ⟨by simp [initialF], by simp [initialF]⟩
    · exact ⟨by simp [initialF], by simp [initialF]⟩
  have := c07_finv.runOpsF ops (fun o ho => by have := hok o ho; cases o <;> first | exact this | trivial) h0 z hz
  exact ⟨this.good.nl, this.cp⟩

/-! ## E. C10 under faults: failed calls reorder nothing -/

theorem failCtl_qv (x : FSt) (m : Msg) (o : Obs) : (failCtl x m o).st.qv = x.st.qv := by
  simp [failCtl]

theorem killOnly_qv (s : St) (c : ChildId) : (killOnly s c).qv = s.qv := by
  unfold killOnly; simp only []; split <;> rfl

theorem clearSlot_qv (x : FSt) : (clearSlot x).st.qv = x.st.qv := by
  unfold clearSlot; split <;> rfl

theorem afterKillFault_qv {x y : FSt} {m : Msg} {c : ChildId} (hy : afterKillFault x m c = some y) : y.st.qv = x.st.qv := by
  unfold afterKillFault at hy
  split at hy
  · cases hy; exact failCtl_qv _ _ _
  · split at hy
    · cases hy
      rw [failCtl_qv]; exact killOnly_qv _ _
    · cases hy

theorem getD_qv {o : Option FSt} {d : FSt} {q : QV} (ho : ∀ y, o = some y → y.st.qv = q) (hd : d.st.qv = q) : (o.getD d).st.qv = q := by
  cases o with
  | none => exact hd
  | some y => exact ho y rfl

/-- a control's handling never touches the queues or the send / receive records, whether its calls fail or not -/
theorem handleF_qv (x : FSt) (m : Msg) : (handleF x m).st.qv = x.st.qv := by
  have hl : (lift x m).st.qv = x.st.qv := handle_qv _ _
  unfold handleF
  split
  · split
    · exact getD_qv (fun y hy => afterKillFault_qv hy) hl
    · exact getD_qv (fun y hy => afterKillFault_qv hy) hl
    · exact getD_qv (fun y hy => (afterKillFault_qv hy).trans (clearSlot_qv x)) hl
    · split
      · exact failCtl_qv _ _ _
      · exact hl
    · split
      · exact failCtl_qv _ _ _
      · exact hl
    · split
      · exact failCtl_qv _ _ _
      · exact hl
    · exact hl
  · exact hl

theorem fifo_waitTurns {s : St} (h : Fifo s) : ∀ t ∈ waitTurns s, Fifo t := fun t ht =>
  fifo_turnCandidates h t (by rw [turnCandidates_eq]; exact List.mem_append_left _ ht)

theorem fifo_turnsF {x : FSt} (h : Fifo x.st) : ∀ y ∈ turnsF x, Fifo y.st := by
  intro y hy
  unfold turnsF at hy
  split at hy
  · cases hy
  · split at hy
    · obtain ⟨t, ht, rfl⟩ := List.mem_map.1 hy; exact fifo_closedOutcome h t ht
    · rcases List.mem_append.1 hy with hy | hy
      · unfold waitTurnsF at hy
        split at hy
        · split at hy
          · simp only [List.mem_singleton] at hy; subst hy
            exact fifo_congr (s := x.st) (by simp; rfl) h
          · obtain ⟨t, ht, rfl⟩ := List.mem_map.1 hy; exact fifo_waitTurns h t ht
        · obtain ⟨t, ht, rfl⟩ := List.mem_map.1 hy; exact fifo_waitTurns h t ht
      · obtain ⟨src, _, hres⟩ := List.mem_filterMap.mp hy
        cases ht : takeFrom x.st src with
        | none => simp [ht] at hres
        | some p =>
          obtain ⟨m, s1⟩ := p
          simp only [ht, Option.some.injEq] at hres
          subst hres
          have h1 : Fifo s1 := fifo_takeFrom h ht
          have h2 : Fifo ({ s1 with parked := false } : St) := fifo_congr rfl h1
          exact fifo_congr (handleF_qv { x with st := { s1 with parked := false } } m) h2

theorem fifo_finv : FInv Fifo (fun _ _ => True) where
  turnsF := fun _ h => fifo_turnsF h
  park := fifo_simInv.park
  drain := fifo_simInv.drain
  now := fifo_simInv.now
  close := fifo_simInv.close
  send := fun _ p cs aw hs h => fifo_simInv.doSend p cs aw hs h
  clone := fun x w h => fifo_simInv.stepOp (.clone w) trivial h _ (by simp [stepOp])

/-- **C10 when calls on the child fail**: per queue, what `recv` has returned followed by what is still queued is what was
    sent, in send order — for every fault script, every history, every race resolution -/
theorem c10_faults (cfg : Fixes) (behs : List Beh) (faults : List Fault) (ops : List Op) :
    ∀ z ∈ runOpsF (initialF cfg behs faults) ops, Fifo z.x.st := by
  apply fifo_finv.runOpsF ops (fun o _ => by cases o <;> simp [OpOkFor])
  intro q _; cases q <;> simp [St.qv, proj, QV.ids, initialF]

end Jf
