import Wx.Job.Model
/-! C07 core on the full model with all repairs: no control flag is ever lost. -/
namespace Jm

def St.pending (s : St) : List FlagId := (s.normal ++ s.high ++ s.urgent).map (·.done)

def timerFlag : Option Timer → List FlagId
  | some t => [t.done]
  | none => []

def St.held (s : St) : List FlagId := timerFlag s.timer ++ s.onEnd ++ s.onEndRestart.toList

/-- flag `f` is accounted for: still queued, already raised, or held for a later release -/
def Acc (s : St) (f : FlagId) : Prop := f ∈ s.pending ∨ s.isRaised f = true ∨ f ∈ s.held

/-- every issued flag is accounted for, except possibly the one of the message in flight -/
def NoLostX (x : Option FlagId) (s : St) : Prop := ∀ f ∈ s.issued, Acc s f ∨ x = some f
abbrev NoLost := NoLostX none

/-- the restart flag lives exactly as long as its restart timer (needs repair F4) -/
def Coupled (s : St) : Prop :=
  (∀ f, s.onEndRestart = some f → ∃ t, s.timer = some t ∧ t.isRestart = true ∧ t.done = f) ∧
  (∀ t, s.timer = some t → t.isRestart = true → s.onEndRestart = some t.done)

/-- only what the public API can put there -/
def Shapes (s : St) : Prop :=
  (∀ m ∈ s.urgent, m.ctl = .stop ∨ m.ctl = .delete) ∧ (∀ m ∈ s.high, m.ctl = .nextEnding)

/-! ### frame facts for `raise` -/

theorem resolveWaiter_frame7 (s : St) (w) :
    (s.resolveWaiter w).normal = s.normal ∧ (s.resolveWaiter w).high = s.high ∧ (s.resolveWaiter w).urgent = s.urgent ∧
    (s.resolveWaiter w).timer = s.timer ∧ (s.resolveWaiter w).onEnd = s.onEnd ∧
    (s.resolveWaiter w).onEndRestart = s.onEndRestart ∧ (s.resolveWaiter w).raised = s.raised ∧
    (s.resolveWaiter w).issued = s.issued ∧ (s.resolveWaiter w).cs = s.cs ∧ (s.resolveWaiter w).cfg = s.cfg := by
  unfold St.resolveWaiter
  split
  · split <;> simp [St.emit]
  · simp

/-- the fields the C07 invariants read -/
structure Same (t s : St) : Prop where
  normal : t.normal = s.normal
  high : t.high = s.high
  urgent : t.urgent = s.urgent
  timer : t.timer = s.timer
  onEnd : t.onEnd = s.onEnd
  onEndRestart : t.onEndRestart = s.onEndRestart
  issued : t.issued = s.issued
  cfg : t.cfg = s.cfg

theorem Same.refl (s : St) : Same s s := ⟨rfl, rfl, rfl, rfl, rfl, rfl, rfl, rfl⟩
theorem Same.trans {a b c : St} (h1 : Same a b) (h2 : Same b c) : Same a c :=
  ⟨h1.normal.trans h2.normal, h1.high.trans h2.high, h1.urgent.trans h2.urgent, h1.timer.trans h2.timer,
   h1.onEnd.trans h2.onEnd, h1.onEndRestart.trans h2.onEndRestart, h1.issued.trans h2.issued,
   h1.cfg.trans h2.cfg⟩

theorem foldl_resolve_same (ws : List WaiterId) (s : St) :
    Same (ws.foldl St.resolveWaiter s) s ∧ (ws.foldl St.resolveWaiter s).raised = s.raised := by
  induction ws generalizing s with
  | nil => exact ⟨Same.refl s, rfl⟩
  | cons w ws ih =>
    simp only [List.foldl_cons]
    obtain ⟨h1, h2⟩ := ih (s.resolveWaiter w)
    obtain ⟨a, b, c, d, e, f, g, i, j, k⟩ := resolveWaiter_frame7 s w
    exact ⟨h1.trans ⟨a, b, c, d, e, f, i, k⟩, h2.trans g⟩

theorem raise_same (s : St) (f) : Same (s.raise f) s := by
  unfold St.raise
  exact (foldl_resolve_same _ _).1.trans ⟨rfl, rfl, rfl, rfl, rfl, rfl, rfl, rfl⟩

theorem raise_raised (s : St) (f g) : (s.raise f).isRaised g = (s.isRaised g || g == f) := by
  unfold St.raise St.isRaised
  rw [(foldl_resolve_same _ _).2]
  simp only []
  by_cases h : s.raised.contains f
  · simp only [h, if_true]
    by_cases hg : g = f
    · subst hg; simp only [h, beq_self_eq_true, Bool.or_true]
    · simp [hg]
  · simp only [h, Bool.false_eq_true, if_false, List.contains_cons]
    by_cases hg : g = f
    · subst hg; simp
    · have : (g == f) = false := by simpa using hg
      simp [this, Bool.or_comm]

theorem pending_same {t s : St} (h : Same t s) : t.pending = s.pending := by
  unfold St.pending; rw [h.normal, h.high, h.urgent]
theorem held_same {t s : St} (h : Same t s) : t.held = s.held := by
  unfold St.held; rw [h.timer, h.onEnd, h.onEndRestart]

/-- raising only ever helps -/
theorem acc_raise {s : St} {g} (f) (h : Acc s g) : Acc (s.raise f) g := by
  unfold Acc at *
  rw [pending_same (raise_same s f), held_same (raise_same s f), raise_raised]
  rcases h with h | h | h
  · exact Or.inl h
  · exact Or.inr (Or.inl (by simp [h]))
  · exact Or.inr (Or.inr h)

theorem acc_raise_self (s : St) (f) : Acc (s.raise f) f := by
  unfold Acc; rw [raise_raised]; exact Or.inr (Or.inl (by simp))

theorem noLost_raise {s : St} {x} (f) (h : NoLostX x s) : NoLostX x (s.raise f) := by
  intro g hg
  rw [(raise_same s f).issued] at hg
  rcases h g hg with h | h
  · exact Or.inl (acc_raise f h)
  · exact Or.inr h

/-- raising the in-flight flag discharges it -/
theorem noLost_fin {s : St} {f} (h : NoLostX (some f) s) : NoLost (s.raise f) := by
  intro g hg
  rw [(raise_same s f).issued] at hg
  rcases h g hg with h | h
  · exact Or.inl (acc_raise f h)
  · cases h; exact Or.inl (acc_raise_self s _)

theorem coupled_same {t s : St} (h : Same t s) (hc : Coupled s) : Coupled t := by
  unfold Coupled at *; rw [h.timer, h.onEndRestart]; exact hc
theorem shapes_same {t s : St} (h : Same t s) (hc : Shapes s) : Shapes t := by
  unfold Shapes at *; rw [h.urgent, h.high]; exact hc

theorem noLost_same {t s : St} {x} (h : Same t s) (hr : ∀ g, s.isRaised g = true → t.isRaised g = true)
    (hn : NoLostX x s) : NoLostX x t := by
  intro g hg
  rw [h.issued] at hg
  rcases hn g hg with hh | hh
  · left
    unfold Acc at *
    rw [pending_same h, held_same h]
    rcases hh with hh | hh | hh
    · exact Or.inl hh
    · exact Or.inr (Or.inl (hr g hh))
    · exact Or.inr (Or.inr hh)
  · exact Or.inr hh

/-- the bundle -/
structure Good (x : Option FlagId) (s : St) : Prop where
  nl : NoLostX x s
  sh : Shapes s

theorem good_same {t s : St} {x} (h : Same t s) (hr : ∀ g, s.isRaised g = true → t.isRaised g = true)
    (hg : Good x s) : Good x t :=
  ⟨noLost_same h hr hg.nl, shapes_same h hg.sh⟩

theorem good_raise {s : St} {x} (f) (hg : Good x s) : Good x (s.raise f) :=
  ⟨noLost_raise f hg.nl, shapes_same (raise_same s f) hg.sh⟩

theorem good_fin {s : St} {f} (hg : Good (some f) s) : Good none (s.raise f) :=
  ⟨noLost_fin hg.nl, shapes_same (raise_same s f) hg.sh⟩

theorem good_raiseAll {x} (fs : List FlagId) {s : St} (hg : Good x s) : Good x (s.raiseAll fs) := by
  unfold St.raiseAll
  induction fs generalizing s with
  | nil => exact hg
  | cons f fs ih => exact ih (good_raise f hg)

theorem raiseAll_same (fs : List FlagId) (s : St) : Same (s.raiseAll fs) s := by
  unfold St.raiseAll
  induction fs generalizing s with
  | nil => exact Same.refl s
  | cons f fs ih => exact (ih (s.raise f)).trans (raise_same s f)

theorem raiseAll_raised (fs : List FlagId) (s : St) (g) :
    (s.raiseAll fs).isRaised g = (s.isRaised g || fs.contains g) := by
  unfold St.raiseAll
  induction fs generalizing s with
  | nil => simp
  | cons f fs ih =>
    simp only [List.foldl_cons, ih, raise_raised, List.contains_cons]
    cases s.isRaised g <;> cases (g == f) <;> simp

/-- `endFlags`: everything in `on_end` is raised, the list is emptied -/
theorem good_endFlags {s : St} {x} (hg : Good x s) : Good x s.endFlags := by
  unfold St.endFlags
  have hs := raiseAll_same s.onEnd s
  refine ⟨?_, ?_⟩
  · intro g hgi
    have hgi' : g ∈ s.issued := by simpa [hs.issued] using hgi
    rcases hg.nl g hgi' with hh | hh
    · left
      unfold Acc at *
      rcases hh with hh | hh | hh
      · left; simpa [St.pending, hs.normal, hs.high, hs.urgent] using hh
      · right; left
        show ({ (s.raiseAll s.onEnd) with onEnd := [] } : St).isRaised g = true
        have := raiseAll_raised s.onEnd s g
        simp only [St.isRaised] at this ⊢
        rw [this]; simp only [St.isRaised] at hh; simp only [hh, Bool.true_or]
      · simp only [St.held, List.mem_append] at hh
        rcases hh with (hh | hh) | hh
        · right; right; simp only [St.held, List.mem_append, hs.timer]; exact Or.inl (Or.inl hh)
        · right; left
          have := raiseAll_raised s.onEnd s g
          simp only [St.isRaised] at this ⊢
          rw [this]
          have hc : s.onEnd.contains g = true := by simpa using hh
          simp only [hc, Bool.or_true]
        · right; right; simp only [St.held, List.mem_append, hs.onEndRestart]; exact Or.inr hh
    · exact Or.inr hh
  · have := hg.sh; unfold Shapes at *; simpa [hs.urgent, hs.high] using this

/-! ### steps that touch none of the fields the invariants read -/

def Quiet (t s : St) : Prop := Same t s ∧ t.raised = s.raised

theorem Quiet.refl (s : St) : Quiet s s := ⟨Same.refl s, rfl⟩
theorem Quiet.trans {a b c : St} (h1 : Quiet a b) (h2 : Quiet b c) : Quiet a c :=
  ⟨h1.1.trans h2.1, h1.2.trans h2.2⟩

theorem good_quiet {t s : St} {x} (h : Quiet t s) (hg : Good x s) : Good x t :=
  good_same h.1 (fun g hgr => by simpa [St.isRaised, h.2] using hgr) hg

theorem quiet_emit (s : St) (o) : Quiet (s.emit o) s := ⟨⟨rfl, rfl, rfl, rfl, rfl, rfl, rfl, rfl⟩, rfl⟩
theorem quiet_errHandler (s : St) : Quiet s.errHandler s := by
  unfold St.errHandler; split; exact quiet_emit _ _; exact Quiet.refl s
theorem quiet_setChild (s : St) (ch) : Quiet (s.setChild ch) s := ⟨⟨rfl, rfl, rfl, rfl, rfl, rfl, rfl, rfl⟩, rfl⟩
theorem quiet_signalChild (s : St) (c sig) : Quiet (s.signalChild c sig) s := by
  unfold St.signalChild
  simp only []
  split
  · split
    · exact (quiet_setChild _ _).trans (quiet_emit _ _)
    · exact quiet_emit _ _
  · exact quiet_emit _ _
theorem quiet_killReap (s : St) (c) : Quiet (s.killReap c) s := by
  unfold St.killReap
  simp only []
  split <;> exact ⟨⟨rfl, rfl, rfl, rfl, rfl, rfl, rfl, rfl⟩, rfl⟩
theorem quiet_reset (s : St) : Quiet s.reset s := by
  unfold St.reset; split <;> exact ⟨⟨rfl, rfl, rfl, rfl, rfl, rfl, rfl, rfl⟩, rfl⟩
theorem quiet_spawn (s : St) : Quiet s.spawn.1 s := by
  unfold St.spawn
  split
  · exact Quiet.refl s
  · simp only []
    have h0 : Quiet (if s.hookSet = true then s.emit Obs.hook else s) s := by
      split; exact quiet_emit _ _; exact Quiet.refl s
    generalize (if s.hookSet = true then s.emit Obs.hook else s) = s' at h0
    split <;> exact Quiet.trans (b := s') ⟨⟨rfl, rfl, rfl, rfl, rfl, rfl, rfl, rfl⟩, rfl⟩ h0

/-! ### controls -/

/-- accounted-for is monotone in pending / raised / held -/
theorem acc_mono {t s : St} {g} (hp : ∀ f, f ∈ s.pending → f ∈ t.pending)
    (hr : ∀ f, s.isRaised f = true → t.isRaised f = true) (hh : ∀ f, f ∈ s.held → f ∈ t.held)
    (h : Acc s g) : Acc t g := by
  rcases h with h | h | h
  · exact Or.inl (hp g h)
  · exact Or.inr (Or.inl (hr g h))
  · exact Or.inr (Or.inr (hh g h))

/-- what the receive logic guarantees about the message it hands to `handle` -/
structure Pre (s : St) (m : Msg) : Prop where
  graceful : (∃ g r, m.ctl = .gracefulStop g r ∨ m.ctl = .tryGracefulRestart g r) → s.timer = none ∧ s.onEndRestart = none
  cont : m.ctl = .continueTGR → s.timer = none ∧ ∀ f, s.onEndRestart = some f → f = m.done

theorem good_respawn {s : St} {f} (hg : Good (some f) s) :
    Good none (let (s1, ok) := s.reset.spawn; if ok then s1.raise f else s1.errHandler.raise f) := by
  have hq : Quiet s.reset.spawn.1 s := (quiet_spawn _).trans (quiet_reset s)
  simp only []
  split
  · exact good_fin (good_quiet hq hg)
  · exact good_fin (good_quiet ((quiet_errHandler _).trans hq) hg)

theorem good_handle {s : St} (m : Msg) (hcfg : s.cfg = Fixes.all) (hp : Pre s m)
    (hg : Good (some m.done) s) : Good none (handle s m) := by
  unfold handle
  cases hm : m.ctl with
  | start =>
    simp only []
    cases hcs : s.cs with
    | running c => exact good_fin hg
    | pending => exact good_respawn hg
    | finished st => exact good_respawn hg
  | stop =>
    simp only []
    cases hcs : s.cs with
    | running c => exact good_fin (good_endFlags (good_quiet (quiet_killReap s c) hg))
    | pending => exact good_fin hg
    | finished st => exact good_fin hg
  | gracefulStop sig grace =>
    simp only []
    cases hcs : s.cs with
    | pending => exact good_fin hg
    | finished st => exact good_fin hg
    | running c =>
      simp only []
      have htm : s.timer = none := (hp.graceful ⟨sig, grace, Or.inl hm⟩).1
      have hq := quiet_signalChild s c sig
      have hg' := good_quiet hq hg
      have htm' : (s.signalChild c sig).timer = none := by rw [hq.1.timer]; exact htm
      generalize s.signalChild c sig = s' at hg' htm'
      refine ⟨?_, ?_⟩
      · intro g hgi
        rcases hg'.nl g hgi with h | h
        · left
          refine acc_mono (s := s') (fun f h => h) (fun f h => h) ?_ h
          intro f hf
          simp only [St.held, htm', timerFlag, List.nil_append] at hf
          simp only [St.held, timerFlag, List.mem_append, List.mem_cons]
          rcases List.mem_append.mp hf with hf | hf
          · exact Or.inl (Or.inr hf)
          · exact Or.inr hf
        · cases h
          left; right; right
          simp [St.held, timerFlag]
      · exact hg'.sh
  | tryRestart =>
    simp only []
    cases hcs : s.cs with
    | pending => exact good_fin hg
    | finished st => exact good_fin hg
    | running c =>
      have h1 : Good (some m.done) (s.killReap c).reset.endFlags :=
        good_endFlags (good_quiet ((quiet_reset _).trans (quiet_killReap s c)) hg)
      have hq := quiet_spawn (s.killReap c).reset.endFlags
      simp only []
      split
      · exact good_fin (good_quiet hq h1)
      · exact good_fin (good_quiet ((quiet_errHandler _).trans hq) h1)
  | tryGracefulRestart sig grace =>
    simp only []
    cases hcs : s.cs with
    | pending => exact good_fin hg
    | finished st => exact good_fin hg
    | running c =>
      simp only []
      obtain ⟨htm, hoe0⟩ := hp.graceful ⟨sig, grace, Or.inr hm⟩
      have hq := quiet_signalChild s c sig
      have hg' := good_quiet hq hg
      have htm' : (s.signalChild c sig).timer = none := by rw [hq.1.timer]; exact htm
      have hoer : (s.signalChild c sig).onEndRestart = none := by rw [hq.1.onEndRestart]; exact hoe0
      generalize s.signalChild c sig = s' at hg' htm' hoer
      refine ⟨?_, ?_⟩
      · intro g hgi
        rcases hg'.nl g hgi with h | h
        · left
          refine acc_mono (s := s') (fun f h => h) (fun f h => h) ?_ h
          intro f hf
          simp only [St.held, htm', hoer, timerFlag, List.nil_append, Option.toList, List.append_nil] at hf
          simp only [St.held, timerFlag, List.mem_append, List.mem_cons]
          exact Or.inl (Or.inr hf)
        · cases h
          left; right; right
          simp [St.held, timerFlag]
      · exact hg'.sh
  | continueTGR =>
    simp only []
    obtain ⟨htm, hoe⟩ := hp.cont hm
    -- after the optional kill
    have key : ∀ s0 : St, s0.cfg = Fixes.all → s0.timer = none → (∀ f, s0.onEndRestart = some f → f = m.done) →
        Good (some m.done) s0 →
        Good none (let s1 := if s0.cfg.f4 = true then { s0 with onEndRestart := none } else s0
                   let (s2, ok) := s1.reset.spawn
                   if ok then s2.raise m.done else s2.errHandler.raise m.done) := by
      intro s0 hc0 ht0 ho0 hg0
      have hf4 : s0.cfg.f4 = true := by rw [hc0]; rfl
      simp only [hf4, if_true]
      apply good_respawn
      refine ⟨?_, hg0.sh⟩
      · intro g hgi
        rcases hg0.nl g hgi with h | h
        · rcases h with h | h | h
          · exact Or.inl (Or.inl h)
          · exact Or.inl (Or.inr (Or.inl h))
          · simp only [St.held, List.mem_append] at h
            rcases h with (h | h) | h
            · exact Or.inl (Or.inr (Or.inr (by simp only [St.held, List.mem_append]; exact Or.inl (Or.inl h))))
            · exact Or.inl (Or.inr (Or.inr (by simp only [St.held, List.mem_append]; exact Or.inl (Or.inr h))))
            · right
              cases hh : s0.onEndRestart with
              | none => simp [hh] at h
              | some f => simp [hh] at h; subst h; rw [ho0 _ hh]
        · exact Or.inr h
    cases hcs : s.cs with
    | pending => exact key s hcfg htm hoe hg
    | finished st => exact key s hcfg htm hoe hg
    | running c =>
      have hq := quiet_killReap s c
      have h1 : Good (some m.done) (s.killReap c).endFlags := good_endFlags (good_quiet hq hg)
      have hsame : Same (s.killReap c).endFlags.endFlags.endFlags s → True := fun _ => trivial
      have he := raiseAll_same (s.killReap c).onEnd (s.killReap c)
      refine key _ ?_ ?_ ?_ h1
      · show ((s.killReap c).raiseAll (s.killReap c).onEnd).cfg = _
        rw [he.cfg, hq.1.cfg]; exact hcfg
      · show ((s.killReap c).raiseAll (s.killReap c).onEnd).timer = _
        rw [he.timer, hq.1.timer]; exact htm
      · intro f hf
        have : ((s.killReap c).raiseAll (s.killReap c).onEnd).onEndRestart = some f := hf
        rw [he.onEndRestart, hq.1.onEndRestart] at this
        exact hoe f this
  | signal sig =>
    simp only []
    cases hcs : s.cs with
    | running c => exact good_fin (good_quiet (quiet_signalChild s c sig) hg)
    | pending => exact good_fin hg
    | finished st => exact good_fin hg
  | delete =>
    simp only []
    have h1 := good_fin hg
    have h2 : Good none ({ s.raise m.done with alive := false }) :=
      good_quiet (s := s.raise m.done) ⟨⟨rfl, rfl, rfl, rfl, rfl, rfl, rfl, rfl⟩, rfl⟩ h1
    exact good_raise 0 (good_quiet (quiet_emit _ _) h2)
  | nextEnding =>
    simp only []
    have hadd : Good none { s with onEnd := s.onEnd ++ [m.done] } := by
      refine ⟨?_, hg.sh⟩
      intro g hgi
      rcases hg.nl g hgi with h | h
      · left
        refine acc_mono (s := s) (fun f h => h) (fun f h => h) ?_ h
        intro f hf
        simp only [St.held, List.mem_append] at hf ⊢
        rcases hf with (hf | hf) | hf
        · exact Or.inl (Or.inl hf)
        · exact Or.inl (Or.inr (Or.inl hf))
        · exact Or.inr hf
      · cases h
        left; right; right
        simp [St.held]
    cases hcs : s.cs with
    | running c =>
      simp only []
      exact good_same (s := { s with onEnd := s.onEnd ++ [m.done] }) ⟨rfl, rfl, rfl, rfl, rfl, rfl, rfl, rfl⟩
        (fun g h => h) hadd
    | finished st => exact good_fin hg
    | pending =>
      simp only []
      have : s.cfg.f6 = true := by rw [hcfg]; rfl
      simp only [this, if_true]
      exact good_fin hg
  | func id => exact good_fin (good_quiet (quiet_emit _ _) hg)
  | setHook => exact good_fin (good_quiet (s := s) ⟨⟨rfl, rfl, rfl, rfl, rfl, rfl, rfl, rfl⟩, rfl⟩ hg)
  | unsetHook => exact good_fin (good_quiet (s := s) ⟨⟨rfl, rfl, rfl, rfl, rfl, rfl, rfl, rfl⟩, rfl⟩ hg)
  | setErr => exact good_fin (good_quiet (s := s) ⟨⟨rfl, rfl, rfl, rfl, rfl, rfl, rfl, rfl⟩, rfl⟩ hg)
  | unsetErr => exact good_fin (good_quiet (s := s) ⟨⟨rfl, rfl, rfl, rfl, rfl, rfl, rfl, rfl⟩, rfl⟩ hg)

/-! ### the wait branch -/

theorem reap_fields (s : St) (c) :
    (s.reap c).normal = s.normal ∧ (s.reap c).high = s.high ∧ (s.reap c).urgent = s.urgent ∧
    (s.reap c).timer = none ∧ (s.reap c).onEnd = s.onEnd ∧ (s.reap c).onEndRestart = s.onEndRestart ∧
    (s.reap c).issued = s.issued ∧ (s.reap c).cfg = s.cfg ∧ (s.reap c).raised = s.raised := by
  unfold St.reap
  simp only []
  split <;> exact ⟨rfl, rfl, rfl, rfl, rfl, rfl, rfl, rfl, rfl⟩

theorem good_waitBranch {s : St} (c) (hcfg : s.cfg = Fixes.all) (hg : Good none s) (hcp : Coupled s) :
    Good none (waitBranch s c) ∧ Coupled (waitBranch s c) := by
  unfold waitBranch
  obtain ⟨rn, rh, ru, rt, roe, roer, ri, rc, rr⟩ := reap_fields s c
  -- state A: reaped and stop flag raised
  have hsA := raiseAll_same s.stopFlags (s.reap c)
  have hrA := raiseAll_raised s.stopFlags (s.reap c)
  have nlA : NoLost ((s.reap c).raiseAll s.stopFlags) := by
    intro g hgi
    rw [hsA.issued, ri] at hgi
    rcases hg.nl g hgi with h | h
    · left
      rcases h with h | h | h
      · left; simpa [St.pending, hsA.normal, hsA.high, hsA.urgent, rn, rh, ru] using h
      · right; left
        rw [hrA]; simp only [St.isRaised, rr]; simp only [St.isRaised] at h; simp only [h, Bool.true_or]
      · simp only [St.held, List.mem_append] at h
        rcases h with (h | h) | h
        · -- the timer's flag
          cases htm : s.timer with
          | none => simp [htm, timerFlag] at h
          | some t =>
            simp only [htm, timerFlag, List.mem_singleton] at h
            subst h
            by_cases hr : t.isRestart = true
            · right; right
              have := hcp.2 t htm hr
              simp only [St.held, List.mem_append, hsA.onEndRestart, roer, this]
              exact Or.inr (by simp)
            · right; left
              rw [hrA]
              have hf1 : s.cfg.f1 = true := by rw [hcfg]; rfl
              have : s.stopFlags = [t.done] := by
                simp only [St.stopFlags, htm, hf1, Bool.true_and]
                simp at hr; simp [hr]
              rw [this]; simp
        · right; right; simp only [St.held, List.mem_append, hsA.onEnd, roe]; exact Or.inl (Or.inr h)
        · right; right; simp only [St.held, List.mem_append, hsA.onEndRestart, roer]; exact Or.inr h
    · cases h
  -- state B: end flags released
  generalize hA : (s.reap c).raiseAll s.stopFlags = sA at nlA hsA
  have tA : sA.timer = none := by rw [hsA.timer]; exact rt
  have shA : Shapes sA := by have := hg.sh; unfold Shapes at *; rw [hsA.urgent, hsA.high, ru, rh]; exact this
  have cfgA : sA.cfg = Fixes.all := by rw [hsA.cfg, rc]; exact hcfg
  -- endFlags keeps NoLost and Shapes; we re-prove directly (Coupled is temporarily broken: timer gone)
  have hsB := raiseAll_same sA.onEnd sA
  have hrB := raiseAll_raised sA.onEnd sA
  have nlB : NoLost sA.endFlags := by
    intro g hgi
    have hgi' : g ∈ sA.issued := by
      have : sA.endFlags.issued = sA.issued := by unfold St.endFlags; exact hsB.issued
      rw [this] at hgi; exact hgi
    rcases nlA g hgi' with h | h
    · left
      rcases h with h | h | h
      · left; unfold St.endFlags; simpa [St.pending, hsB.normal, hsB.high, hsB.urgent] using h
      · right; left
        unfold St.endFlags
        show ((sA.raiseAll sA.onEnd).isRaised g) = true
        rw [hrB]; simp only [h, Bool.true_or]
      · simp only [St.held, List.mem_append] at h
        rcases h with (h | h) | h
        · rw [tA] at h; simp [timerFlag] at h
        · right; left
          unfold St.endFlags
          show ((sA.raiseAll sA.onEnd).isRaised g) = true
          rw [hrB]
          have hc : sA.onEnd.contains g = true := by simpa using h
          simp only [hc, Bool.or_true]
        · right; right
          unfold St.endFlags
          simp only [St.held, List.mem_append, hsB.onEndRestart]; exact Or.inr h
    · cases h
  have tB : sA.endFlags.timer = none := by unfold St.endFlags; show (sA.raiseAll sA.onEnd).timer = none; rw [hsB.timer]; exact tA
  have shB : Shapes sA.endFlags := by
    unfold Shapes St.endFlags at *; show (∀ m ∈ (sA.raiseAll sA.onEnd).urgent, _) ∧ (∀ m ∈ (sA.raiseAll sA.onEnd).high, _)
    rw [hsB.urgent, hsB.high]; exact shA
  have cfgB : sA.endFlags.cfg = Fixes.all := by unfold St.endFlags; show (sA.raiseAll sA.onEnd).cfg = _; rw [hsB.cfg]; exact cfgA
  generalize sA.endFlags = sB at nlB tB shB cfgB
  -- continueRestart
  unfold St.continueRestart
  cases hoer : sB.onEndRestart with
  | none =>
    simp only []
    have cpB : Coupled sB := by
      refine ⟨?_, ?_⟩
      · intro f hf; rw [hoer] at hf; cases hf
      · intro t ht _; rw [tB] at ht; cases ht
    exact ⟨⟨nlB, shB⟩, cpB⟩
  | some f =>
    simp only []
    -- with the restart flag in flight
    have cp0 : Coupled { sB with onEndRestart := none } := by
      refine ⟨?_, ?_⟩
      · intro f' hf; simp at hf
      · intro t ht _
        have : sB.timer = some t := ht
        rw [tB] at this; cases this
    have g0 : Good (some f) { sB with onEndRestart := none } := by
      refine ⟨?_, shB⟩
      intro g hgi
      rcases nlB g hgi with h | h
      · rcases h with h | h | h
        · exact Or.inl (Or.inl h)
        · exact Or.inl (Or.inr (Or.inl h))
        · simp only [St.held, List.mem_append] at h
          rcases h with (h | h) | h
          · exact Or.inl (Or.inr (Or.inr (by simp only [St.held, List.mem_append]; exact Or.inl (Or.inl h))))
          · exact Or.inl (Or.inr (Or.inr (by simp only [St.held, List.mem_append]; exact Or.inl (Or.inr h))))
          · right; simp [hoer] at h; rw [h]
      · cases h
    have hq : Quiet ({ sB with onEndRestart := none } : St).reset.spawn.1 { sB with onEndRestart := none } :=
      (quiet_spawn _).trans (quiet_reset _)
    have hf2 : ({ sB with onEndRestart := none } : St).cfg.f2 = true := by
      show sB.cfg.f2 = true; rw [cfgB]; rfl
    have cq : ∀ t : St, Quiet t { sB with onEndRestart := none } → Coupled (t.raise f) := fun t ht =>
      coupled_same ((raise_same t f).trans ht.1) cp0
    split
    · exact ⟨good_fin (good_quiet hq g0), cq _ hq⟩
    · first
        | exact ⟨good_fin (good_quiet ((quiet_errHandler _).trans hq) g0), cq _ ((quiet_errHandler _).trans hq)⟩
        | (split
           · exact ⟨good_fin (good_quiet ((quiet_errHandler _).trans hq) g0), cq _ ((quiet_errHandler _).trans hq)⟩
           · rename_i hno; exact absurd hf2 hno)

/-! ### the coupling invariant through `handle` -/

/-- the two fields `Coupled` reads -/
def TE (t s : St) : Prop := t.timer = s.timer ∧ t.onEndRestart = s.onEndRestart
theorem TE.refl (s : St) : TE s s := ⟨rfl, rfl⟩
theorem TE.trans {a b c : St} (h1 : TE a b) (h2 : TE b c) : TE a c := ⟨h1.1.trans h2.1, h1.2.trans h2.2⟩
theorem TE.ofSame {t s : St} (h : Same t s) : TE t s := ⟨h.timer, h.onEndRestart⟩
theorem coupled_te {t s : St} (h : TE t s) (hc : Coupled s) : Coupled t := by
  unfold Coupled at *; rw [h.1, h.2]; exact hc
theorem te_endFlags (s : St) : TE s.endFlags s := by
  unfold St.endFlags
  have := raiseAll_same s.onEnd s
  exact ⟨this.timer, this.onEndRestart⟩
theorem te_raise (s : St) (f) : TE (s.raise f) s := TE.ofSame (raise_same s f)
theorem te_quiet {t s : St} (h : Quiet t s) : TE t s := TE.ofSame h.1

theorem te_respawn (s : St) (f) :
    TE (let (s1, ok) := s.reset.spawn; if ok then s1.raise f else s1.errHandler.raise f) s := by
  have hq : Quiet s.reset.spawn.1 s := (quiet_spawn _).trans (quiet_reset s)
  simp only []
  split
  · exact (te_raise _ _).trans (te_quiet hq)
  · exact (te_raise _ _).trans (te_quiet ((quiet_errHandler _).trans hq))

theorem coupled_handle {s : St} (m : Msg) (hcfg : s.cfg = Fixes.all) (hp : Pre s m)
    (hc : m.ctl = .continueTGR ∨ Coupled s) : Coupled (handle s m) := by
  unfold handle
  cases hm : m.ctl with
  | start =>
    have hc' : Coupled s := hc.resolve_left (by simp [hm])
    simp only []
    cases hcs : s.cs with
    | running c => exact coupled_te (te_raise _ _) hc'
    | pending => exact coupled_te (te_respawn s _) hc'
    | finished st => exact coupled_te (te_respawn s _) hc'
  | stop =>
    have hc' : Coupled s := hc.resolve_left (by simp [hm])
    simp only []
    cases hcs : s.cs with
    | running c => exact coupled_te ((te_raise _ _).trans ((te_endFlags _).trans (te_quiet (quiet_killReap s c)))) hc'
    | pending => exact coupled_te (te_raise _ _) hc'
    | finished st => exact coupled_te (te_raise _ _) hc'
  | gracefulStop sig grace =>
    have hc' : Coupled s := hc.resolve_left (by simp [hm])
    simp only []
    cases hcs : s.cs with
    | pending => exact coupled_te (te_raise _ _) hc'
    | finished st => exact coupled_te (te_raise _ _) hc'
    | running c =>
      simp only []
      obtain ⟨_, hoe0⟩ := hp.graceful ⟨sig, grace, Or.inl hm⟩
      have hq := quiet_signalChild s c sig
      refine ⟨?_, ?_⟩
      · intro f hf
        have : (s.signalChild c sig).onEndRestart = some f := hf
        rw [hq.1.onEndRestart, hoe0] at this; cases this
      · intro t ht hr
        simp only [Option.some.injEq] at ht; subst ht; simp at hr
  | tryRestart =>
    have hc' : Coupled s := hc.resolve_left (by simp [hm])
    simp only []
    cases hcs : s.cs with
    | pending => exact coupled_te (te_raise _ _) hc'
    | finished st => exact coupled_te (te_raise _ _) hc'
    | running c =>
      have h0 : TE (s.killReap c).reset.endFlags s :=
        (te_endFlags _).trans (te_quiet ((quiet_reset _).trans (quiet_killReap s c)))
      have hq := quiet_spawn (s.killReap c).reset.endFlags
      simp only []
      split
      · exact coupled_te ((te_raise _ _).trans ((te_quiet hq).trans h0)) hc'
      · exact coupled_te ((te_raise _ _).trans ((te_quiet ((quiet_errHandler _).trans hq)).trans h0)) hc'
  | tryGracefulRestart sig grace =>
    have hc' : Coupled s := hc.resolve_left (by simp [hm])
    simp only []
    cases hcs : s.cs with
    | pending => exact coupled_te (te_raise _ _) hc'
    | finished st => exact coupled_te (te_raise _ _) hc'
    | running c =>
      simp only []
      refine ⟨?_, ?_⟩
      · intro f hf
        simp only [Option.some.injEq] at hf; subst hf
        exact ⟨_, rfl, rfl, rfl⟩
      · intro t ht hr
        simp only [Option.some.injEq] at ht; subst ht; rfl
  | continueTGR =>
    simp only []
    obtain ⟨htm, _⟩ := hp.cont hm
    -- whatever happens, the result has no timer and no restart flag
    have key : ∀ s0 : St, s0.cfg = Fixes.all → s0.timer = none →
        Coupled (let s1 := if s0.cfg.f4 = true then { s0 with onEndRestart := none } else s0
                 let (s2, ok) := s1.reset.spawn
                 if ok then s2.raise m.done else s2.errHandler.raise m.done) := by
      intro s0 hc0 ht0
      have hf4 : s0.cfg.f4 = true := by rw [hc0]; rfl
      simp only [hf4, if_true]
      have h0 : Coupled { s0 with onEndRestart := none } := by
        refine ⟨?_, ?_⟩
        · intro f hf; simp at hf
        · intro t ht _
          have : s0.timer = some t := ht
          rw [ht0] at this; cases this
      exact coupled_te (te_respawn _ _) h0
    cases hcs : s.cs with
    | pending => exact key s hcfg htm
    | finished st => exact key s hcfg htm
    | running c =>
      have hq := quiet_killReap s c
      have he := raiseAll_same (s.killReap c).onEnd (s.killReap c)
      refine key _ ?_ ?_
      · show ((s.killReap c).raiseAll (s.killReap c).onEnd).cfg = _
        rw [he.cfg, hq.1.cfg]; exact hcfg
      · show ((s.killReap c).raiseAll (s.killReap c).onEnd).timer = _
        rw [he.timer, hq.1.timer]; exact htm
  | signal sig =>
    have hc' : Coupled s := hc.resolve_left (by simp [hm])
    simp only []
    cases hcs : s.cs with
    | running c => exact coupled_te ((te_raise _ _).trans (te_quiet (quiet_signalChild s c sig))) hc'
    | pending => exact coupled_te (te_raise _ _) hc'
    | finished st => exact coupled_te (te_raise _ _) hc'
  | delete =>
    have hc' : Coupled s := hc.resolve_left (by simp [hm])
    simp only []
    have h1 : TE { s.raise m.done with alive := false } (s.raise m.done) := ⟨rfl, rfl⟩
    exact coupled_te ((te_raise _ 0).trans ((te_quiet (quiet_emit _ _)).trans (TE.trans h1 (te_raise _ _)))) hc'
  | nextEnding =>
    have hc' : Coupled s := hc.resolve_left (by simp [hm])
    simp only []
    cases hcs : s.cs with
    | running c => exact coupled_te (s := s) ⟨rfl, rfl⟩ hc'
    | finished st => exact coupled_te (te_raise _ _) hc'
    | pending =>
      simp only []
      split
      · exact coupled_te (te_raise _ _) hc'
      · exact coupled_te (s := s) ⟨rfl, rfl⟩ hc'
  | func id =>
    have hc' : Coupled s := hc.resolve_left (by simp [hm])
    exact coupled_te ((te_raise _ _).trans (te_quiet (quiet_emit _ _))) hc'
  | setHook =>
    have hc' : Coupled s := hc.resolve_left (by simp [hm])
    have h1 : TE { s with hookSet := true } s := ⟨rfl, rfl⟩
    exact coupled_te (TE.trans (te_raise _ _) h1) hc'
  | unsetHook =>
    have hc' : Coupled s := hc.resolve_left (by simp [hm])
    have h1 : TE { s with hookSet := false } s := ⟨rfl, rfl⟩
    exact coupled_te (TE.trans (te_raise _ _) h1) hc'
  | setErr =>
    have hc' : Coupled s := hc.resolve_left (by simp [hm])
    have h1 : TE { s with errSet := true } s := ⟨rfl, rfl⟩
    exact coupled_te (TE.trans (te_raise _ _) h1) hc'
  | unsetErr =>
    have hc' : Coupled s := hc.resolve_left (by simp [hm])
    have h1 : TE { s with errSet := false } s := ⟨rfl, rfl⟩
    exact coupled_te (TE.trans (te_raise _ _) h1) hc'

end Jm
