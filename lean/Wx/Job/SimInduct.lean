import Wx.Job.Inject
/-! One induction principle for everything the simulator can reach: a property proves six local
    obligations and gets every script, every child behaviour and every race resolution. -/
namespace Jm

structure SimInv (I : St → Prop) (SendOk : Prio → Ctl → Prop) : Prop where
  turns : ∀ s, I s → ∀ s' ∈ turns s, I s'
  park : ∀ s, I s → I (park s)
  drain : ∀ s, I s → I (drainPolls s)
  now : ∀ s t, I s → I { s with now := t }
  enqueue : ∀ s p m, SendOk p m.ctl → I s → I (enqueue s p m)
  emit : ∀ s o, I s → I (s.emit o)
  newWaiter : ∀ s w f, I s → I (pollWaiter { s with waiters := s.waiters ++ [{ id := w, done := f }] } w)
  close : ∀ s, I s → I { s with closed := true }

variable {I : St → Prop} {SendOk : Prio → Ctl → Prop}

theorem SimInv.settleAll (H : SimInv I SendOk) (fuel : Nat) {s : St} (h : I s) : ∀ x ∈ settleAll fuel s, I x := by
  induction fuel generalizing s with
  | zero => intro x hx; simp [Jm.settleAll] at hx; subst hx; exact h
  | succ n ih =>
    intro x hx
    unfold Jm.settleAll at hx
    cases hts : Jm.turns s with
    | nil =>
      simp only [hts] at hx
      by_cases hp : (Jm.park s).pendingPolls.isEmpty = true
      · simp only [hp, if_true, List.mem_singleton] at hx; subst hx; exact H.park _ h
      · simp only [hp, Bool.false_eq_true, if_false] at hx
        exact ih (H.drain _ (H.park _ h)) x hx
    | cons t ts =>
      simp only [hts] at hx
      obtain ⟨y, hy, hxy⟩ := List.mem_flatMap.mp hx
      exact ih (H.turns s h y (by rw [hts]; exact hy)) x hxy

theorem SimInv.advanceAll (H : SimInv I SendOk) (fuel target : Nat) {s : St} (h : I s) :
    ∀ x ∈ advanceAll fuel target s, I x := by
  induction fuel generalizing s with
  | zero => intro x hx; simp [Jm.advanceAll] at hx; subst hx; exact h
  | succ n ih =>
    intro x hx
    unfold Jm.advanceAll at hx
    obtain ⟨y, hy, hxy⟩ := List.mem_flatMap.mp hx
    have hyi := H.settleAll 200 h y hy
    by_cases hidle : (!(Jm.turns y).isEmpty) = true
    · simp only [hidle, if_true, List.mem_singleton] at hxy; subst hxy; exact hyi
    simp only [hidle, Bool.false_eq_true, if_false] at hxy
    split at hxy
    · rename_i t _
      exact ih (s := { y with now := t }) (H.now _ _ hyi) x hxy
    · exact H.settleAll 200 (s := { y with now := target }) (H.now _ _ hyi) x hxy

theorem SimInv.doSend (H : SimInv I SendOk) {x : Sim} (p cs aw) (hs : ∀ c ∈ cs, SendOk p c) (h : I x.st) :
    I (doSend x p cs aw).st := by
  unfold Jm.doSend
  simp only []
  split
  · split
    · exact H.emit _ _ h
    · exact h
  · have key : ∀ (l : List Ctl) (acc : St × FlagId × FlagId), (∀ c ∈ l, SendOk p c) → I acc.1 →
        I (l.foldl (fun (acc : St × FlagId × FlagId) c =>
          let (st, nf, _) := acc
          (Jm.enqueue st p ⟨c, nf⟩, nf + 1, nf)) acc).1 := by
      intro l
      induction l with
      | nil => intro acc _ ha; exact ha
      | cons c l ih =>
        intro acc hl ha
        exact ih _ (fun c' hc' => hl c' (List.mem_cons_of_mem _ hc')) (H.enqueue _ _ _ (hl c List.mem_cons_self) ha)
    have := key cs (x.st, x.nextFlag, 0) hs h
    revert this
    generalize (cs.foldl _ (x.st, x.nextFlag, 0)) = r
    obtain ⟨st, nf, last⟩ := r
    intro hst
    simp only []
    split
    · exact H.newWaiter _ _ _ hst
    · exact hst

def OpOkFor (SendOk : Prio → Ctl → Prop) : Op → Prop
  | .send p cs _ => ∀ c ∈ cs, SendOk p c
  | .inject p cs _ => ∀ c ∈ cs, SendOk p c
  | _ => True

theorem SimInv.stepOp (H : SimInv I SendOk) {x : Sim} (o : Op) (ho : OpOkFor SendOk o) (h : I x.st) :
    ∀ y ∈ stepOp x o, I y.st := by
  intro y hy
  cases o with
  | send p cs aw => simp only [Jm.stepOp, List.mem_singleton] at hy; subst hy; exact H.doSend _ _ _ ho h
  | settle =>
    simp only [Jm.stepOp, List.mem_map] at hy
    obtain ⟨st, hst, rfl⟩ := hy
    exact H.settleAll 200 h st hst
  | advance ms =>
    simp only [Jm.stepOp, List.mem_map] at hy
    obtain ⟨st, hst, rfl⟩ := hy
    exact H.advanceAll 64 _ h st hst
  | dropHandles =>
    simp only [Jm.stepOp, List.mem_singleton] at hy; subst hy
    exact H.close _ h
  | inject p cs aw =>
    simp only [Jm.stepOp] at hy
    exact injectAll_ind (fun z => I z.st) p cs aw (fun z s' hz hs' => H.turns z.st hz s' hs') (fun z hz => H.doSend p cs aw ho hz) 50 h y hy
  | clone w =>
    simp only [Jm.stepOp, List.mem_singleton] at hy; subst hy
    unfold cloneWaiter
    split
    · exact H.newWaiter _ _ _ h
    · exact H.emit _ _ h

/-- every state of every run of every script -/
theorem SimInv.runOps (H : SimInv I SendOk) (ops : List Op) (hok : ∀ o ∈ ops, OpOkFor SendOk o) {x : Sim} (h : I x.st) :
    ∀ y ∈ runOps x ops, I y.st := by
  induction ops generalizing x with
  | nil => intro y hy; simp [Jm.runOps] at hy; subst hy; exact h
  | cons o os ih =>
    intro y hy
    simp only [Jm.runOps] at hy
    obtain ⟨z, hz, hyz⟩ := List.mem_flatMap.mp hy
    exact ih (fun o' ho' => hok o' (List.mem_cons_of_mem _ ho'))
      (H.stepOp o (hok o List.mem_cons_self) h z hz) y hyz

end Jm
