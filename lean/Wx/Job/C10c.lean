import Wx.Job.C07w
/-! C10, last clause: a raised flag belongs to a control that `recv` has returned — so, with FIFO,
    awaiting a ticket implies every earlier control of that priority has been handled. -/
namespace Jm

theorem isRaised_eq {t s : St} (h : t.raised = s.raised) (f) : t.isRaised f = s.isRaised f := by
  unfold St.isRaised; rw [h]

/-- all raised and all held flags satisfy `A` -/
def OkA (A : FlagId → Prop) (t : St) : Prop := (∀ f, t.isRaised f = true → A f) ∧ (∀ f ∈ t.held, A f)

variable {A : FlagId → Prop}

theorem ok_quiet {t' t : St} (h : Quiet t' t) (hk : OkA A t) : OkA A t' :=
  ⟨fun f hf => hk.1 f (by rw [← isRaised_eq h.2 f]; exact hf), fun f hf => hk.2 f (by rw [← held_same h.1]; exact hf)⟩

theorem ok_raise {t : St} (f : FlagId) (ha : A f) (hk : OkA A t) : OkA A (t.raise f) := by
  refine ⟨fun g hg => ?_, fun g hg => hk.2 g (by rw [← held_same (raise_same t f)]; exact hg)⟩
  rw [raise_raised] at hg
  cases h1 : t.isRaised g
  · simp [h1] at hg; subst hg; exact ha
  · exact hk.1 g h1

theorem ok_raiseAll {t : St} (fs : List FlagId) (ha : ∀ f ∈ fs, A f) (hk : OkA A t) : OkA A (t.raiseAll fs) := by
  unfold St.raiseAll
  induction fs generalizing t with
  | nil => exact hk
  | cons f fs ih =>
    simp only [List.foldl_cons]
    exact ih (fun g hg => ha g (List.mem_cons_of_mem _ hg)) (ok_raise f (ha f List.mem_cons_self) hk)

theorem ok_endFlags {t : St} (hk : OkA A t) : OkA A t.endFlags := by
  have h1 : OkA A (t.raiseAll t.onEnd) :=
    ok_raiseAll _ (fun f hf => hk.2 f (by simp [St.held, hf])) hk
  unfold St.endFlags
  refine ⟨fun f hf => h1.1 f hf, fun f hf => h1.2 f ?_⟩
  simp only [St.held, List.mem_append] at hf ⊢
  rcases hf with (hf | hf) | hf
  · exact Or.inl (Or.inl hf)
  · simp at hf
  · exact Or.inr hf

theorem ok_tail {t : St} (f : FlagId) (ha : A f) (hk : OkA A t) :
    OkA A (if t.spawn.2 = true then t.spawn.1.raise f else t.spawn.1.errHandler.raise f) := by
  split
  · exact ok_raise f ha (ok_quiet (quiet_spawn t) hk)
  · exact ok_raise f ha (ok_quiet ((quiet_errHandler _).trans (quiet_spawn t)) hk)

theorem held_clear_restart (t : St) : ∀ f ∈ ({ t with onEndRestart := none } : St).held, f ∈ t.held := by
  intro f hf
  simp only [St.held, List.mem_append, Option.toList_none, List.not_mem_nil, or_false] at hf ⊢
  exact Or.inl hf

theorem ok_clear {t : St} (hk : OkA A t) : OkA A ({ t with onEndRestart := none } : St) :=
  ⟨fun f hf => hk.1 f hf, fun f hf => hk.2 f (held_clear_restart t f hf)⟩

/-- handling a control raises, or starts holding, only its own flag — everything else it raises was
    already held — and `0` (the job's `gone`) on delete -/
theorem ok_handle (s : St) (m : Msg) (hA : A m.done) (hA0 : A 0) (hk : OkA A s) : OkA A (handle s m) := by
  rcases m with ⟨ctl, f⟩
  have fin : ∀ t : St, OkA A t → OkA A (t.raise f) := fun t ht => ok_raise f hA ht
  cases ctl with
  | start =>
    cases hcs : s.cs <;> simp only [handle, hcs]
    · exact ok_tail f hA (ok_quiet (quiet_reset _) (ok_quiet ⟨⟨rfl,rfl,rfl,rfl,rfl,rfl,rfl,rfl⟩, rfl⟩ hk))
    · exact fin _ (ok_quiet ⟨⟨rfl,rfl,rfl,rfl,rfl,rfl,rfl,rfl⟩, rfl⟩ hk)
    · exact ok_tail f hA (ok_quiet (quiet_reset _) (ok_quiet ⟨⟨rfl,rfl,rfl,rfl,rfl,rfl,rfl,rfl⟩, rfl⟩ hk))
  | stop =>
    cases hcs : s.cs <;> simp only [handle, hcs]
    · exact fin _ (ok_quiet ⟨⟨rfl,rfl,rfl,rfl,rfl,rfl,rfl,rfl⟩, rfl⟩ hk)
    · exact fin _ (ok_endFlags (ok_quiet (quiet_killReap _ _) (ok_quiet ⟨⟨rfl,rfl,rfl,rfl,rfl,rfl,rfl,rfl⟩, rfl⟩ hk)))
    · exact fin _ (ok_quiet ⟨⟨rfl,rfl,rfl,rfl,rfl,rfl,rfl,rfl⟩, rfl⟩ hk)
  | gracefulStop sig grace =>
    cases hcs : s.cs with
    | running c =>
      rw [graceful_stop_step s c sig grace f hcs]
      have h1 := ok_quiet (quiet_signalChild s c sig) hk
      refine ⟨fun g hg => h1.1 g hg, fun g hg => ?_⟩
      simp only [St.held, timerFlag, List.mem_append, List.mem_singleton] at hg
      rcases hg with (hg | hg) | hg
      · subst hg; exact hA
      · exact h1.2 g (by simp [St.held, hg])
      · exact h1.2 g (by simp only [St.held, List.mem_append]; exact Or.inr hg)
    | pending => simp only [handle, hcs]; exact fin _ (ok_quiet ⟨⟨rfl,rfl,rfl,rfl,rfl,rfl,rfl,rfl⟩, rfl⟩ hk)
    | finished st => simp only [handle, hcs]; exact fin _ (ok_quiet ⟨⟨rfl,rfl,rfl,rfl,rfl,rfl,rfl,rfl⟩, rfl⟩ hk)
  | tryRestart =>
    cases hcs : s.cs <;> simp only [handle, hcs]
    · exact fin _ (ok_quiet ⟨⟨rfl,rfl,rfl,rfl,rfl,rfl,rfl,rfl⟩, rfl⟩ hk)
    · exact ok_tail f hA (ok_endFlags (ok_quiet ((quiet_reset _).trans (quiet_killReap _ _)) (ok_quiet ⟨⟨rfl,rfl,rfl,rfl,rfl,rfl,rfl,rfl⟩, rfl⟩ hk)))
    · exact fin _ (ok_quiet ⟨⟨rfl,rfl,rfl,rfl,rfl,rfl,rfl,rfl⟩, rfl⟩ hk)
  | tryGracefulRestart sig grace =>
    cases hcs : s.cs with
    | running c =>
      rw [graceful_restart_step s c sig grace f hcs]
      have h1 := ok_quiet (quiet_signalChild s c sig) hk
      refine ⟨fun g hg => h1.1 g hg, fun g hg => ?_⟩
      simp only [St.held, timerFlag, List.mem_append, List.mem_singleton, Option.toList_some] at hg
      rcases hg with (hg | hg) | hg
      · subst hg; exact hA
      · exact h1.2 g (by simp [St.held, hg])
      · subst hg; exact hA
    | pending => simp only [handle, hcs]; exact fin _ (ok_quiet ⟨⟨rfl,rfl,rfl,rfl,rfl,rfl,rfl,rfl⟩, rfl⟩ hk)
    | finished st => simp only [handle, hcs]; exact fin _ (ok_quiet ⟨⟨rfl,rfl,rfl,rfl,rfl,rfl,rfl,rfl⟩, rfl⟩ hk)
  | continueTGR =>
    have key : ∀ t : St, OkA A t → OkA A (if t.cfg.f4 = true then { t with onEndRestart := none } else t) := by
      intro t ht; split
      · exact ok_clear ht
      · exact ht
    cases hcs : s.cs <;> simp only [handle, hcs]
    · exact ok_tail f hA (ok_quiet (quiet_reset _) (by split; exact ok_clear (ok_quiet ⟨⟨rfl,rfl,rfl,rfl,rfl,rfl,rfl,rfl⟩, rfl⟩ hk); exact hk))
    · exact ok_tail f hA (ok_quiet (quiet_reset _) (key _ (ok_endFlags (ok_quiet (quiet_killReap _ _) (ok_quiet ⟨⟨rfl,rfl,rfl,rfl,rfl,rfl,rfl,rfl⟩, rfl⟩ hk)))))
    · exact ok_tail f hA (ok_quiet (quiet_reset _) (by split; exact ok_clear (ok_quiet ⟨⟨rfl,rfl,rfl,rfl,rfl,rfl,rfl,rfl⟩, rfl⟩ hk); exact hk))
  | signal sig =>
    cases hcs : s.cs <;> simp only [handle, hcs]
    · exact fin _ (ok_quiet ⟨⟨rfl,rfl,rfl,rfl,rfl,rfl,rfl,rfl⟩, rfl⟩ hk)
    · exact fin _ (ok_quiet (quiet_signalChild _ _ _) (ok_quiet ⟨⟨rfl,rfl,rfl,rfl,rfl,rfl,rfl,rfl⟩, rfl⟩ hk))
    · exact fin _ (ok_quiet ⟨⟨rfl,rfl,rfl,rfl,rfl,rfl,rfl,rfl⟩, rfl⟩ hk)
  | delete =>
    simp only [handle]
    refine ok_raise 0 hA0 (ok_quiet (quiet_emit _ _) ?_)
    have := fin s hk
    exact ⟨fun g hg => this.1 g hg, fun g hg => this.2 g hg⟩
  | nextEnding =>
    cases hcs : s.cs <;> simp only [handle, hcs]
    · split
      · exact fin _ (ok_quiet ⟨⟨rfl,rfl,rfl,rfl,rfl,rfl,rfl,rfl⟩, rfl⟩ hk)
      · refine ⟨fun g hg => hk.1 g hg, fun g hg => ?_⟩
        simp only [St.held, List.mem_append, List.mem_singleton] at hg
        rcases hg with (hg | hg | hg) | hg
        · exact hk.2 g (by simp [St.held, hg])
        · exact hk.2 g (by simp [St.held, hg])
        · subst hg; exact hA
        · exact hk.2 g (by simp only [St.held, List.mem_append]; exact Or.inr hg)
    · refine ⟨fun g hg => hk.1 g hg, fun g hg => ?_⟩
      simp only [St.held, List.mem_append, List.mem_singleton] at hg
      rcases hg with (hg | hg | hg) | hg
      · exact hk.2 g (by simp [St.held, hg])
      · exact hk.2 g (by simp [St.held, hg])
      · subst hg; exact hA
      · exact hk.2 g (by simp only [St.held, List.mem_append]; exact Or.inr hg)
    · exact fin _ (ok_quiet ⟨⟨rfl,rfl,rfl,rfl,rfl,rfl,rfl,rfl⟩, rfl⟩ hk)
  | func id => simp only [handle]; exact fin _ (ok_quiet (quiet_emit _ _) hk)
  | setHook => simp only [handle]; exact fin _ (ok_quiet ⟨⟨rfl,rfl,rfl,rfl,rfl,rfl,rfl,rfl⟩, rfl⟩ hk)
  | unsetHook => simp only [handle]; exact fin _ (ok_quiet ⟨⟨rfl,rfl,rfl,rfl,rfl,rfl,rfl,rfl⟩, rfl⟩ hk)
  | setErr => simp only [handle]; exact fin _ (ok_quiet ⟨⟨rfl,rfl,rfl,rfl,rfl,rfl,rfl,rfl⟩, rfl⟩ hk)
  | unsetErr => simp only [handle]; exact fin _ (ok_quiet ⟨⟨rfl,rfl,rfl,rfl,rfl,rfl,rfl,rfl⟩, rfl⟩ hk)

theorem ok_mono {A B : FlagId → Prop} {t : St} (h : ∀ f, A f → B f) (hk : OkA A t) : OkA B t :=
  ⟨fun f hf => h f (hk.1 f hf), fun f hf => h f (hk.2 f hf)⟩

theorem ok_continueRestart {t : St} (hk : OkA A t) : OkA A t.continueRestart := by
  unfold St.continueRestart
  split
  · next f hf =>
    have ha : A f := hk.2 f (by simp [St.held, hf])
    simp only []
    have h1 : OkA A ({ t with onEndRestart := none } : St).reset := ok_quiet (quiet_reset _) (ok_clear hk)
    split
    · exact ok_raise f ha (ok_quiet (quiet_spawn _) h1)
    · split
      · exact ok_raise f ha (ok_quiet ((quiet_errHandler _).trans (quiet_spawn _)) h1)
      · exact ok_quiet ((quiet_errHandler _).trans (quiet_spawn _)) h1
  · exact hk

theorem ok_waitBranch (s : St) (c) (hk : OkA A s) : OkA A (waitBranch s c) := by
  unfold waitBranch
  apply ok_continueRestart
  apply ok_endFlags
  obtain ⟨r1, r2, r3, r4, r5, r6, r7, r8, r9⟩ := reap_fields s c
  have hreap : OkA A (s.reap c) := by
    refine ⟨fun f hf => hk.1 f (by rw [← isRaised_eq r9 f]; exact hf), fun f hf => hk.2 f ?_⟩
    simp only [St.held, r4, r5, r6, timerFlag, List.mem_append, List.nil_append] at hf ⊢
    rcases hf with hf | hf
    · exact Or.inl (Or.inr hf)
    · exact Or.inr hf
  apply ok_raiseAll _ _ hreap
  intro f hf
  unfold St.stopFlags at hf
  split at hf
  · next t ht =>
    split at hf
    · simp only [List.mem_singleton] at hf; subst hf
      exact hk.2 _ (by simp [St.held, ht, timerFlag])
    · cases hf
  · cases hf

def takenIds (s : St) : FlagId → Prop := fun f => f = 0 ∨ f ∈ s.taken.map (·.2)

/-- every raised flag, and every flag held by the timer / `on_end` / the restart slot, belongs to a
    control that `recv` has already returned (or is the job's own `gone` flag) -/
def Ran (s : St) : Prop := OkA (takenIds s) s

theorem ran_quiet {t s : St} (h : Quiet t s) (ht : t.taken = s.taken) (hr : Ran s) : Ran t := by
  have : takenIds t = takenIds s := by unfold takenIds; rw [ht]
  unfold Ran; rw [this]; exact ok_quiet h hr

theorem ran_turns {s : St} (h : Ran s) : ∀ s' ∈ turns s, Ran s' := by
  intro x hx
  unfold turns at hx
  split at hx
  · cases hx
  · split at hx
    · unfold closedOutcome at hx
      split at hx
      · split at hx
        · simp only [List.mem_singleton] at hx; subst hx
          have h1 : Ran (({ s with alive := false } : St).emit .ended) :=
            ran_quiet (s := s) ⟨⟨rfl,rfl,rfl,rfl,rfl,rfl,rfl,rfl⟩, rfl⟩ rfl h
          have ht : ((({ s with alive := false } : St).emit .ended).raise 0).taken = (({ s with alive := false } : St).emit .ended).taken :=
            congrArg QV.taken (raise_qv _ _)
          unfold Ran takenIds; rw [ht]
          exact ok_raise 0 (Or.inl rfl) h1
        · simp only [List.mem_singleton] at hx; subst hx
          exact ran_quiet (s := s) ⟨⟨rfl,rfl,rfl,rfl,rfl,rfl,rfl,rfl⟩, rfl⟩ rfl h
      · cases hx
    · unfold turnCandidates at hx
      rcases List.mem_append.1 hx with hx | hx
      · split at hx
        · next c _ =>
          simp only [List.mem_singleton] at hx; subst hx
          have h1 : Ran ({ s with parked := false } : St) := ran_quiet (s := s) ⟨⟨rfl,rfl,rfl,rfl,rfl,rfl,rfl,rfl⟩, rfl⟩ rfl h
          have ht : (waitBranch { s with parked := false } c).taken = ({ s with parked := false } : St).taken :=
            congrArg QV.taken (waitBranch_qv _ c)
          unfold Ran takenIds; rw [ht]
          exact ok_waitBranch _ _ h1
        · cases hx
      · obtain ⟨src, _, hs⟩ := List.mem_filterMap.1 hx
        cases ht : takeFrom s src with
        | none => simp [ht] at hs
        | some p =>
          obtain ⟨m, s1⟩ := p
          simp only [ht] at hs
          injection hs with hs; subst hs
          -- after the take: the in-flight flag is among the taken ones, the rest is unchanged or smaller
          have h1 : OkA (takenIds s1) s1 ∧ takenIds s1 m.done := by
            cases src with
            | timer =>
              simp only [takeFrom, Option.map_eq_some_iff] at ht
              obtain ⟨t, htm, ht⟩ := ht
              injection ht with h1 h2; subst h2; subst h1
              have hd : takenIds s t.done := h.2 t.done (by simp [St.held, htm, timerFlag])
              refine ⟨⟨fun f hf => h.1 f hf, fun f hf => h.2 f ?_⟩, hd⟩
              simp only [St.held, timerFlag, List.mem_append, List.nil_append] at hf ⊢
              rcases hf with hf | hf
              · exact Or.inl (Or.inr hf)
              · exact Or.inr hf
            | urgent =>
              simp only [takeFrom] at ht
              split at ht
              · injection ht with ht; injection ht with h1 h2; subst h2; subst h1
                refine ⟨ok_mono (A := takenIds s) ?_ ⟨fun f hf => h.1 f hf, fun f hf => h.2 f hf⟩, Or.inr (by simp)⟩
                intro f hf; rcases hf with hf | hf
                · exact Or.inl hf
                · exact Or.inr (by simp only [List.map_append, List.mem_append]; exact Or.inl hf)
              · cases ht
            | high =>
              simp only [takeFrom] at ht
              split at ht
              · injection ht with ht; injection ht with h1 h2; subst h2; subst h1
                refine ⟨ok_mono (A := takenIds s) ?_ ⟨fun f hf => h.1 f hf, fun f hf => h.2 f hf⟩, Or.inr (by simp)⟩
                intro f hf; rcases hf with hf | hf
                · exact Or.inl hf
                · exact Or.inr (by simp only [List.map_append, List.mem_append]; exact Or.inl hf)
              · cases ht
            | normal =>
              simp only [takeFrom] at ht
              split at ht
              · injection ht with ht; injection ht with h1 h2; subst h2; subst h1
                refine ⟨ok_mono (A := takenIds s) ?_ ⟨fun f hf => h.1 f hf, fun f hf => h.2 f hf⟩, Or.inr (by simp)⟩
                intro f hf; rcases hf with hf | hf
                · exact Or.inl hf
                · exact Or.inr (by simp only [List.map_append, List.mem_append]; exact Or.inl hf)
              · cases ht
          have h2 : OkA (takenIds s1) ({ s1 with parked := false } : St) := ⟨fun f hf => h1.1.1 f hf, fun f hf => h1.1.2 f hf⟩
          have ht2 : (handle { s1 with parked := false } m).taken = s1.taken := congrArg QV.taken (handle_qv _ _)
          unfold Ran takenIds; rw [ht2]
          exact ok_handle _ m h1.2 (Or.inl rfl) h2

theorem ran_simInv : SimInv Ran (fun _ _ => True) where
  turns := fun _ h => ran_turns h
  park := fun s h => by unfold park; split; exact ran_quiet (s := s) ⟨⟨rfl,rfl,rfl,rfl,rfl,rfl,rfl,rfl⟩, rfl⟩ rfl h; exact h
  drain := fun s h => ran_quiet (quiet_drainPolls s) (congrArg QV.taken ((foldl_poll_qv _ _).trans rfl)) h
  now := fun s _ h => ran_quiet (s := s) ⟨⟨rfl,rfl,rfl,rfl,rfl,rfl,rfl,rfl⟩, rfl⟩ rfl h
  enqueue := fun s p m _ h => by
    have hr : (enqueue s p m).raised = s.raised := by cases p <;> rfl
    have hh : (enqueue s p m).held = s.held := by cases p <;> rfl
    have ht : (enqueue s p m).taken = s.taken := by cases p <;> rfl
    unfold Ran takenIds; rw [ht]
    exact ⟨fun f hf => h.1 f (by rw [← isRaised_eq hr f]; exact hf), fun f hf => h.2 f (by rw [← hh]; exact hf)⟩
  emit := fun s _ h => ran_quiet (s := s) (quiet_emit _ _) rfl h
  newWaiter := fun s w f h => by
    have h1 : Ran ({ s with waiters := s.waiters ++ [{ id := w, done := f }] } : St) :=
      ran_quiet (s := s) ⟨⟨rfl,rfl,rfl,rfl,rfl,rfl,rfl,rfl⟩, rfl⟩ rfl h
    exact ran_quiet (quiet_pollWaiter _ _) (congrArg QV.taken (pollWaiter_qv _ _)) h1
  close := fun s h => ran_quiet (s := s) ⟨⟨rfl,rfl,rfl,rfl,rfl,rfl,rfl,rfl⟩, rfl⟩ rfl h

/-- **C10 (a resolved ticket means the control ran)** — for every fix configuration, script, behaviour
    and race: a raised flag other than `gone` belongs to a control that `recv` returned; and what `recv`
    has returned from a queue is a prefix of what was sent to it (`c10_fifo`). So awaiting the last
    ticket of a burst implies every earlier control of that priority has been handled. -/
theorem c10_ran (cfg : Fixes) (behs : List Beh) (ops : List Op) :
    ∀ y ∈ runOps { st := { cfg := cfg, behs := behs, hookSet := true, parked := true } } ops,
      (∀ f, y.st.isRaised f = true → f = 0 ∨ f ∈ y.st.taken.map (·.2)) ∧
      (∀ q, q ≠ Src.timer → proj y.st.taken q <+: proj y.st.sent q) := by
  intro y hy
  have h1 := ran_simInv.runOps ops (fun o _ => by cases o <;> simp [OpOkFor]) (x := { st := { cfg := cfg, behs := behs, hookSet := true, parked := true } })
    ⟨by intro f hf; simp [St.isRaised] at hf, by intro f hf; simp [St.held, timerFlag] at hf⟩ y hy
  have h2 := c10_fifo cfg behs ops y hy
  exact ⟨h1.1, fun q hq => ⟨_, h2 q hq⟩⟩

#print axioms c10_ran
end Jm
