import Wx.Job.C09b
import Wx.Job.C04Sim
import Wx.Job.SimInduct2
/-! C09, whole run: in EVERY reachable state of EVERY history the observable state `(cs, prev, hook, error handler,
    spawn count)` and the log of process-visible effects are those of a run of the documented machine — a sequence of
    `specStep`s (one per executed control) and `specExit`s (one per natural end of a child), ending with `ended` if the
    job is deleted or all its handles are dropped. -/
namespace Jm

/-- runs of the documented machine from `sp0`: reachable (state, effect log — newest first) -/
inductive SpecRun (sp0 : Sp) : Sp → List Obs → Prop
  | start : SpecRun sp0 sp0 []
  | control (sp : Sp) (fx : List Obs) (c : Ctl) : SpecRun sp0 sp fx →
      SpecRun sp0 (specStep sp c).1 ((specStep sp c).2.1.reverse ++ fx)
  | childEnds (sp : Sp) (fx : List Obs) (c : ChildId) (status : Nat) (restartPending : Bool) : SpecRun sp0 sp fx → sp.cs = .running c →
      SpecRun sp0 (specExit sp c status restartPending).1 ((specExit sp c status restartPending).2.reverse ++ fx)
  | handlesDropped (sp : Sp) (fx : List Obs) : SpecRun sp0 sp fx → SpecRun sp0 sp (.ended :: fx)

def RunInv (sp0 : Sp) (s : St) : Prop := s.cfg = Fixes.all ∧ Inv s ∧ SpecRun sp0 s.abs s.fx

theorem runInv_congr {sp0 : Sp} {t s : St} (hc : t.cfg = s.cfg) (hi : Inv t) (ha : t.abs = s.abs) (hf : t.fx = s.fx)
    (h : RunInv sp0 s) : RunInv sp0 t := ⟨hc.trans h.1, hi, by rw [ha, hf]; exact h.2.2⟩

theorem takeFrom_absfx {s s1 : St} {src m} (ht : takeFrom s src = some (m, s1)) :
    s1.abs = s.abs ∧ s1.fx = s.fx ∧ s1.cfg = s.cfg ∧ s1.cs = s.cs ∧ s1.children = s.children := by
  cases src with
  | timer =>
    simp only [takeFrom] at ht
    cases htm : s.timer with
    | none => simp [htm] at ht
    | some t => simp only [htm, Option.map_some, Option.some.injEq, Prod.mk.injEq] at ht; obtain ⟨_, rfl⟩ := ht; exact ⟨rfl, rfl, rfl, rfl, rfl⟩
  | urgent =>
    simp only [takeFrom] at ht
    split at ht
    · simp only [Option.some.injEq, Prod.mk.injEq] at ht; obtain ⟨_, rfl⟩ := ht; exact ⟨rfl, rfl, rfl, rfl, rfl⟩
    · cases ht
  | high =>
    simp only [takeFrom] at ht
    split at ht
    · simp only [Option.some.injEq, Prod.mk.injEq] at ht; obtain ⟨_, rfl⟩ := ht; exact ⟨rfl, rfl, rfl, rfl, rfl⟩
    · cases ht
  | normal =>
    simp only [takeFrom] at ht
    split at ht
    · simp only [Option.some.injEq, Prod.mk.injEq] at ht; obtain ⟨_, rfl⟩ := ht; exact ⟨rfl, rfl, rfl, rfl, rfl⟩
    · cases ht

theorem child_of_inv {s : St} (h : Inv s) : ∀ c, s.cs = .running c → ∃ ch, s.child? c = some ch := by
  intro c hc
  have hl := h.1
  rw [hc] at hl
  have : c ∈ s.live := by rw [hl]; simp
  unfold St.live at this
  obtain ⟨ch, hch, rfl⟩ := List.mem_map.1 this
  have hmem := (List.mem_filter.1 hch).1
  unfold St.child?
  cases hf : s.children.find? (fun x => x.id == ch.id) with
  | some x => exact ⟨x, rfl⟩
  | none =>
    have := List.find?_eq_none.1 hf ch hmem
    simp at this

theorem runInv_turnCandidates {sp0 : Sp} {s : St} (h : RunInv sp0 s) : ∀ x ∈ turnCandidates s, RunInv sp0 x := by
  intro x hx
  obtain ⟨hcfg, hinv, hrun⟩ := h
  have hinvx : Inv x := inv_turnCandidates hinv x hx
  unfold turnCandidates at hx
  rcases List.mem_append.1 hx with hx | hx
  · -- the wait branch: the child has ended by itself
    split at hx
    · next c hw =>
      simp only [List.mem_singleton] at hx; subst hx
      have hcs : s.cs = .running c := by
        unfold waitReady at hw
        split at hw
        · next c' hc' => (repeat' split at hw) <;> simp_all
        · cases hw
      have hall : ({ s with parked := false } : St).cfg = Fixes.all := hcfg
      obtain ⟨r1, r2⟩ := waitBranch_refines { s with parked := false } c hall
      refine ⟨(waitBranch_cfg _ _).trans hcfg, hinvx, ?_⟩
      rw [r1, r2]
      exact SpecRun.childEnds s.abs s.fx c _ _ hrun hcs
    · cases hx
  · obtain ⟨src, _, hs⟩ := List.mem_filterMap.1 hx
    cases ht : takeFrom s src with
    | none => simp [ht] at hs
    | some p =>
      obtain ⟨m, s1⟩ := p
      simp only [ht] at hs
      injection hs with hs; subst hs
      obtain ⟨ha, hf, hc, hcs, hch⟩ := takeFrom_absfx ht
      have hinv1 : Inv s1 := inv_takeFrom hinv ht
      have hall : ({ s1 with parked := false } : St).cfg = Fixes.all := hc.trans hcfg
      have hchild : ∀ c, ({ s1 with parked := false } : St).cs = .running c → ∃ ch, ({ s1 with parked := false } : St).child? c = some ch :=
        child_of_inv (s := { s1 with parked := false }) (inv_congr rfl rfl rfl hinv1)
      obtain ⟨r1, r2, _⟩ := handle_refines { s1 with parked := false } m hall hchild
      refine ⟨(handle_cfg _ _).trans hall, hinvx, ?_⟩
      rw [r1, r2]
      have e1 : ({ s1 with parked := false } : St).abs = s.abs := ha
      have e2 : ({ s1 with parked := false } : St).fx = s.fx := hf
      rw [e1, e2]
      exact SpecRun.control s.abs s.fx m.ctl hrun

theorem runInv_closedOutcome {sp0 : Sp} {s : St} (h : RunInv sp0 s) : ∀ x ∈ closedOutcome s, RunInv sp0 x := by
  intro x hx
  obtain ⟨hcfg, hinv, hrun⟩ := h
  have hinvx : Inv x := inv_closedOutcome hinv x hx
  unfold closedOutcome at hx
  split at hx
  · have hf16 : s.cfg.f16 = true := by rw [hcfg]; rfl
    simp only [hf16, if_true, List.mem_singleton] at hx; subst hx
    refine ⟨?_, hinvx, ?_⟩
    · rw [(raise_same _ _).cfg]; exact hcfg
    · rw [raise_abs, raise_fx, fx_emit _ _ rfl]
      exact SpecRun.handlesDropped s.abs s.fx hrun
  · cases hx

theorem runInv_turns {sp0 : Sp} {s : St} (h : RunInv sp0 s) : ∀ s' ∈ turns s, RunInv sp0 s' := by
  intro x hx
  unfold turns at hx
  split at hx
  · cases hx
  · split at hx
    · exact runInv_closedOutcome h x hx
    · exact runInv_turnCandidates h x hx

end Jm

namespace Jm

theorem register_absfx (s : St) (f w) : (s.register f w).abs = s.abs ∧ (s.register f w).fx = s.fx := by
  unfold St.register; split <;> exact ⟨rfl, rfl⟩

theorem pollWaiter_absfx (s : St) (w) : (pollWaiter s w).abs = s.abs ∧ (pollWaiter s w).fx = s.fx := by
  unfold pollWaiter
  split
  · split
    · exact ⟨rfl, rfl⟩
    · split
      · exact resolveWaiter_absfx _ _
      · simp only []
        split
        · obtain ⟨a1, a2⟩ := resolveWaiter_absfx (s.register 0 w) w
          obtain ⟨b1, b2⟩ := register_absfx s 0 w
          exact ⟨a1.trans b1, a2.trans b2⟩
        · obtain ⟨a1, a2⟩ := register_absfx (s.register 0 w) _ w
          obtain ⟨b1, b2⟩ := register_absfx s 0 w
          exact ⟨a1.trans b1, a2.trans b2⟩
  · exact ⟨rfl, rfl⟩

theorem foldl_poll_absfx (ws : List WaiterId) (s : St) : (ws.foldl pollWaiter s).abs = s.abs ∧ (ws.foldl pollWaiter s).fx = s.fx := by
  induction ws generalizing s with
  | nil => exact ⟨rfl, rfl⟩
  | cons w ws ih =>
    simp only [List.foldl_cons]
    obtain ⟨a1, a2⟩ := ih (pollWaiter s w)
    obtain ⟨b1, b2⟩ := pollWaiter_absfx s w
    exact ⟨a1.trans b1, a2.trans b2⟩

/-- the whole-run invariant is preserved by everything a history can do -/
theorem runInv_simInv (sp0 : Sp) : SimInv2 (fun x => RunInv sp0 x.st) (fun _ _ => True) where
  turns := fun x h s' hs' => runInv_turns h s' hs'
  park := fun x h => by
    have hq := quiet_park x.st
    refine runInv_congr hq.1.cfg (inv_park h.2.1) ?_ ?_ h
    · unfold park; split <;> rfl
    · unfold park; split <;> rfl
  drain := fun x h => by
    have hq := quiet_drainPolls x.st
    obtain ⟨a, b⟩ := foldl_poll_absfx x.st.pendingPolls { x.st with pendingPolls := [] }
    exact runInv_congr hq.1.cfg (inv_drainPolls h.2.1) (by unfold drainPolls; exact a) (by unfold drainPolls; exact b) h
  now := fun x t h => runInv_congr rfl (inv_congr rfl rfl rfl h.2.1) rfl rfl h
  close := fun x h => runInv_congr rfl (inv_congr rfl rfl rfl h.2.1) rfl rfl h
  cancel := fun x aw h => by
    unfold cancelSend
    simp only []
    split
    · exact runInv_congr rfl (inv_emit _ h.2.1) rfl (by simp [St.fx, St.emit, isTicket]) h
    · exact h
  sendOne := fun x p c _ h => by
    unfold sendOne
    simp only []
    have hi := inv_enqueue p ⟨c, x.nextFlag⟩ h.2.1
    exact runInv_congr (by cases p <;> rfl) hi (by cases p <;> rfl) (by cases p <;> rfl) h
  finish := fun x aw h => by
    unfold finishSend
    simp only []
    split
    · have hq := quiet_pollWaiter { x.st with waiters := x.st.waiters ++ [{ id := x.nextWaiter, done := x.nextFlag - 1 }] } x.nextWaiter
      obtain ⟨a, b⟩ := pollWaiter_absfx { x.st with waiters := x.st.waiters ++ [{ id := x.nextWaiter, done := x.nextFlag - 1 }] } x.nextWaiter
      exact runInv_congr hq.1.cfg (inv_pollWaiter _ (inv_congr rfl rfl rfl h.2.1)) a b h
    · exact h
  clone := fun x f h => by
    have hq := quiet_pollWaiter { x.st with waiters := x.st.waiters ++ [{ id := x.nextWaiter, done := f }] } x.nextWaiter
    obtain ⟨a, b⟩ := pollWaiter_absfx { x.st with waiters := x.st.waiters ++ [{ id := x.nextWaiter, done := f }] } x.nextWaiter
    exact runInv_congr hq.1.cfg (inv_pollWaiter _ (inv_congr rfl rfl rfl h.2.1)) a b h

/-- **C09, whole run**: for every behaviour script, every operation script (any controls at any priority, time, handle
    drops) and every resolution of every race, the observable state and the effect log of every reachable state are those
    of a run of the documented machine from the initial state -/
theorem c09_whole_run (behs : List Beh) (ops : List Op) :
    let x0 : Sim := { st := { cfg := Fixes.all, behs := behs, hookSet := true, parked := true } }
    ∀ y ∈ runOps x0 ops, SpecRun x0.st.abs y.st.abs y.st.fx := by
  intro x0 y hy
  have h0 : RunInv x0.st.abs x0.st := ⟨rfl, (by refine ⟨rfl, ?_, ?_⟩ <;> simp [x0]), by
    have : x0.st.fx = [] := rfl
    rw [this]; exact SpecRun.start⟩
  exact ((runInv_simInv x0.st.abs).runOps ops (fun o _ => by cases o <;> simp [OpOkFor2]) h0 y hy).2.2

#print axioms c09_whole_run
end Jm
