import Wx.Job.C08a
import Wx.Job.C04Sim
/-! C08, the per-job core of a graceful quit (`stop_with_signal(sig, grace); delete().await`):
    when the `Delete` that directly follows a `GracefulStop` in the normal queue is handled, nothing is
    running — so the job task ends with no live process. Needs the repairs (F4: a stale restart slot
    would start a new process after the stop). -/
namespace Jm

def isGS : Option Ctl → Bool
  | some (.gracefulStop _ _) => true
  | _ => false

/-- after a graceful stop and until the next normal control: no restart is pending, any armed timer is
    a stop timer, and once no timer is armed nothing is running -/
def QB (s : St) : Prop :=
  isGS s.lastNormal = true →
    s.onEndRestart = none ∧ (∀ t, s.timer = some t → t.isRestart = false) ∧ (s.timer = none → NotRunning s)

structure I8 (s : St) : Prop where
  inv : Inv s
  inv7 : Inv7 s
  qb : QB s

theorem qb_congr {t s : St} (h1 : t.lastNormal = s.lastNormal) (h2 : TE t s) (h3 : t.cs = s.cs) (h : QB s) : QB t := by
  intro hg
  rw [h1] at hg
  obtain ⟨a, b, c⟩ := h hg
  refine ⟨by rw [h2.2]; exact a, fun x hx => b x (by rw [← h2.1]; exact hx), fun hx => ?_⟩
  exact notRunning_of_cs h3 (c (by rw [← h2.1]; exact hx))

theorem raise_cs (s : St) (f) : (s.raise f).cs = s.cs := (raise_frame s f).1

/-- `stop`: timer and restart slot untouched, nothing running afterwards -/
theorem stop_effect (s : St) (f : FlagId) (hinv : Inv s) :
    TE (handle s ⟨.stop, f⟩) s ∧ NotRunning (handle s ⟨.stop, f⟩) := by
  cases hcs : s.cs with
  | running c =>
    obtain ⟨_, hn⟩ := inv_killReap hinv hcs
    simp only [handle, hcs]
    refine ⟨(te_raise _ _).trans ((te_endFlags _).trans (te_quiet (quiet_killReap s c))), ?_⟩
    exact notRunning_of_cs ((raise_cs _ _).trans (endFlags_cs _)) hn
  | pending =>
    simp only [handle, hcs]
    exact ⟨te_raise _ _, notRunning_of_cs (raise_cs _ _) (fun c h => by rw [hcs] at h; cases h)⟩
  | finished st =>
    simp only [handle, hcs]
    exact ⟨te_raise _ _, notRunning_of_cs (raise_cs _ _) (fun c h => by rw [hcs] at h; cases h)⟩

theorem nextEnding_effect (s : St) (f : FlagId) :
    TE (handle s ⟨.nextEnding, f⟩) s ∧ (handle s ⟨.nextEnding, f⟩).cs = s.cs := by
  unfold handle
  simp only []
  split
  · exact ⟨te_raise _ _, raise_cs _ _⟩
  · split
    · exact ⟨te_raise _ _, raise_cs _ _⟩
    · exact ⟨⟨rfl, rfl⟩, rfl⟩
  · exact ⟨⟨rfl, rfl⟩, rfl⟩

theorem delete_effect (s : St) (f : FlagId) :
    TE (handle s ⟨.delete, f⟩) s ∧ (handle s ⟨.delete, f⟩).cs = s.cs := by
  simp only [handle]
  refine ⟨(te_raise _ _).trans ((te_quiet (quiet_emit _ _)).trans (TE.trans ⟨rfl, rfl⟩ (te_raise s f))), ?_⟩
  rw [raise_cs]; show (s.raise f).cs = _; rw [raise_cs]

theorem gs_effect (s : St) (sig : Sig) (grace : Nat) (f : FlagId) (htm : s.timer = none) (hoe : s.onEndRestart = none) :
    (handle s ⟨.gracefulStop sig grace, f⟩).onEndRestart = none ∧
    (∀ x, (handle s ⟨.gracefulStop sig grace, f⟩).timer = some x → x.isRestart = false) ∧
    ((handle s ⟨.gracefulStop sig grace, f⟩).timer = none → NotRunning (handle s ⟨.gracefulStop sig grace, f⟩)) := by
  cases hcs : s.cs with
  | running c =>
    rw [graceful_stop_step s c sig grace f hcs]
    refine ⟨?_, ?_, fun hx => by simp at hx⟩
    · show (s.signalChild c sig).onEndRestart = none
      rw [(quiet_signalChild s c sig).1.onEndRestart]; exact hoe
    · intro x hx
      simp only [Option.some.injEq] at hx
      rw [← hx]
  | pending =>
    have e : handle s ⟨.gracefulStop sig grace, f⟩ = s.raise f := by simp [handle, hcs]
    rw [e]
    refine ⟨by rw [(te_raise _ _).2]; exact hoe, ?_, fun _ => notRunning_of_cs (raise_cs _ _) (fun c h => by rw [hcs] at h; cases h)⟩
    intro x hx; rw [(te_raise _ _).1, htm] at hx; cases hx
  | finished st =>
    have e : handle s ⟨.gracefulStop sig grace, f⟩ = s.raise f := by simp [handle, hcs]
    rw [e]
    refine ⟨by rw [(te_raise _ _).2]; exact hoe, ?_, fun _ => notRunning_of_cs (raise_cs _ _) (fun c h => by rw [hcs] at h; cases h)⟩
    intro x hx; rw [(te_raise _ _).1, htm] at hx; cases hx

theorem waitBranch_effect (s : St) (c : ChildId) (h : s.onEndRestart = none) :
    (waitBranch s c).timer = none ∧ (waitBranch s c).onEndRestart = none ∧ NotRunning (waitBranch s c) := by
  obtain ⟨r1, r2, r3, r4, r5, r6, r7, r8, r9⟩ := reap_fields s c
  unfold waitBranch
  generalize hk : ((s.reap c).raiseAll s.stopFlags).endFlags = k
  have kt : TE k (s.reap c) := by rw [← hk]; exact (te_endFlags _).trans (TE.ofSame (raiseAll_same _ _))
  have kcs : k.cs = (s.reap c).cs := by rw [← hk, endFlags_cs]; exact (raiseAll_frame _ _).1
  have hreap : ∃ st, (s.reap c).cs = .finished st := by
    unfold St.reap; simp only []; split <;> exact ⟨_, rfl⟩
  have ke : k.onEndRestart = none := by rw [kt.2, r6, h]
  unfold St.continueRestart
  rw [ke]
  simp only []
  obtain ⟨st, hst⟩ := hreap
  exact ⟨by rw [kt.1, r4], ke, fun c' hc' => by rw [kcs, hst] at hc'; cases hc'⟩

theorem qb_turn {s : St} (h : I8 s) : ∀ x ∈ turnCandidates s, QB x := by
  intro x hx
  have hf7 : s.cfg.f7 = true := by rw [h.inv7.cfg]; rfl
  unfold turnCandidates at hx
  rcases List.mem_append.1 hx with hx | hx
  · -- the child ended
    split at hx
    · next c _ =>
      simp only [List.mem_singleton] at hx; subst hx
      intro hg
      rw [waitBranch_ln] at hg
      obtain ⟨a, _, _⟩ := h.qb hg
      obtain ⟨w1, w2, w3⟩ := waitBranch_effect { s with parked := false } c a
      refine ⟨w2, ?_, fun _ => w3⟩
      intro t ht; rw [w1] at ht; cases ht
    · cases hx
  · obtain ⟨src, hsrc, hs⟩ := List.mem_filterMap.1 hx
    cases ht : takeFrom s src with
    | none => simp [ht] at hs
    | some p =>
      obtain ⟨m, s1⟩ := p
      simp only [ht] at hs
      injection hs with hs; subst hs
      cases src with
      | timer =>
        simp only [takeFrom, Option.map_eq_some_iff] at ht
        obtain ⟨t, htm, ht⟩ := ht
        injection ht with h1 h2; subst h2; subst h1
        intro hg
        rw [handle_ln] at hg
        obtain ⟨a, b, _⟩ := h.qb hg
        have hr := b t htm
        simp only [hr, Bool.false_eq_true, if_false]
        have hinv : Inv ({ s with timer := none, parked := false } : St) := inv_congr (s := s) rfl rfl rfl h.inv
        obtain ⟨e1, e2⟩ := stop_effect { s with timer := none, parked := false } t.done hinv
        refine ⟨by rw [e1.2]; exact a, ?_, fun _ => e2⟩
        intro t' ht'; rw [e1.1] at ht'; cases ht'
      | urgent =>
        have hm : m.ctl = .stop ∨ m.ctl = .delete := by
          simp only [takeFrom] at ht
          split at ht
          · next m' r hq =>
            injection ht with ht; injection ht with h1 h2; subst h1
            exact h.inv7.good.sh.1 m' (by rw [hq]; simp)
          · cases ht
        have hq : s1.lastNormal = s.lastNormal ∧ TE s1 s ∧ s1.cs = s.cs ∧ s1.children = s.children ∧ s1.spawnCount = s.spawnCount := by
          simp only [takeFrom] at ht
          split at ht
          · injection ht with ht; injection ht with h1 h2; subst h2; exact ⟨rfl, ⟨rfl, rfl⟩, rfl, rfl, rfl⟩
          · cases ht
        have hqb1 : QB ({ s1 with parked := false } : St) := qb_congr hq.1 hq.2.1 hq.2.2.1 h.qb
        have hinv1 : Inv ({ s1 with parked := false } : St) := inv_congr (s := s) hq.2.2.1 hq.2.2.2.1 hq.2.2.2.2 h.inv
        rcases m with ⟨ctl, f⟩
        simp only [] at hm
        rcases hm with rfl | rfl
        · obtain ⟨e1, e2⟩ := stop_effect _ f hinv1
          intro hg
          rw [handle_ln] at hg
          obtain ⟨a, b, _⟩ := hqb1 hg
          refine ⟨by rw [e1.2]; exact a, ?_, fun _ => e2⟩
          intro t' ht'; exact b t' (by rw [← e1.1]; exact ht')
        · exact qb_congr (handle_ln _ _) (delete_effect _ f).1 (delete_effect _ f).2 hqb1
      | high =>
        have hm : m.ctl = .nextEnding := by
          simp only [takeFrom] at ht
          split at ht
          · next m' r hq =>
            injection ht with ht; injection ht with h1 h2; subst h1
            exact h.inv7.good.sh.2 m' (by rw [hq]; simp)
          · cases ht
        have hq : s1.lastNormal = s.lastNormal ∧ TE s1 s ∧ s1.cs = s.cs := by
          simp only [takeFrom] at ht
          split at ht
          · injection ht with ht; injection ht with h1 h2; subst h2; exact ⟨rfl, ⟨rfl, rfl⟩, rfl⟩
          · cases ht
        have hqb1 : QB ({ s1 with parked := false } : St) := qb_congr hq.1 hq.2.1 hq.2.2 h.qb
        rcases m with ⟨ctl, f⟩
        simp only [] at hm; subst hm
        exact qb_congr (handle_ln _ _) (nextEnding_effect _ f).1 (nextEnding_effect _ f).2 hqb1
      | normal =>
        -- a normal control is only returned with no timer armed; `Coupled` then gives an empty restart slot
        have htm : s.timer = none := normal_cand hf7 hsrc
        have hoe : s.onEndRestart = none := by
          cases ho : s.onEndRestart with
          | none => rfl
          | some f =>
            obtain ⟨t, ht', _⟩ := h.inv7.cp.1 f ho
            rw [htm] at ht'; cases ht'
        simp only [takeFrom] at ht
        split at ht
        · next m' r hq =>
          injection ht with ht; injection ht with h1 h2; subst h2; subst h1
          intro hg
          rw [handle_ln] at hg
          have hg' : isGS (some m'.ctl) = true := hg
          rcases m' with ⟨ctl, f⟩
          cases ctl with
          | gracefulStop sig grace => exact gs_effect _ sig grace f htm hoe
          | _ => simp [isGS] at hg'
        · cases ht

/-! polling a ticket touches neither the ghost nor the command state -/
theorem register_lncs (s : St) (f w) : (s.register f w).lastNormal = s.lastNormal ∧ (s.register f w).cs = s.cs := by
  unfold St.register; split <;> exact ⟨rfl, rfl⟩

theorem pollWaiter_lncs (s : St) (w) : (pollWaiter s w).lastNormal = s.lastNormal ∧ (pollWaiter s w).cs = s.cs := by
  have res : ∀ t : St, (t.resolveWaiter w).lastNormal = t.lastNormal ∧ (t.resolveWaiter w).cs = t.cs :=
    fun t => ⟨resolveWaiter_ln t w, (resolveWaiter_frame t w).1⟩
  unfold pollWaiter
  split
  · split
    · exact ⟨rfl, rfl⟩
    · split
      · exact res s
      · simp only []
        split
        · exact ⟨(res _).1.trans (register_lncs _ _ _).1, (res _).2.trans (register_lncs _ _ _).2⟩
        · exact ⟨(register_lncs _ _ _).1.trans (register_lncs _ _ _).1, (register_lncs _ _ _).2.trans (register_lncs _ _ _).2⟩
  · exact ⟨rfl, rfl⟩

theorem foldl_poll_lncs (ws : List WaiterId) (s : St) :
    (ws.foldl pollWaiter s).lastNormal = s.lastNormal ∧ (ws.foldl pollWaiter s).cs = s.cs := by
  induction ws generalizing s with
  | nil => exact ⟨rfl, rfl⟩
  | cons w ws ih =>
    simp only [List.foldl_cons]
    exact ⟨(ih _).1.trans (pollWaiter_lncs s w).1, (ih _).2.trans (pollWaiter_lncs s w).2⟩

theorem qb_quiet {t s : St} (hq : Quiet t s) (h1 : t.lastNormal = s.lastNormal) (h3 : t.cs = s.cs) (h : QB s) : QB t :=
  qb_congr h1 (te_quiet hq) h3 h

theorem i8_turns {s : St} (h : I8 s) : ∀ s' ∈ turns s, I8 s' := by
  intro x hx
  refine ⟨inv_turns h.inv x hx, inv7_turns h.inv7 x hx, ?_⟩
  unfold turns at hx
  split at hx
  · cases hx
  · split at hx
    · unfold closedOutcome at hx
      split at hx
      · split at hx
        · simp only [List.mem_singleton] at hx; subst hx
          refine qb_congr (raise_ln _ _) ((te_raise _ _).trans ⟨rfl, rfl⟩) ((raise_cs _ _).trans rfl) h.qb
        · simp only [List.mem_singleton] at hx; subst hx
          exact qb_congr (s := s) rfl ⟨rfl, rfl⟩ rfl h.qb
      · cases hx
    · exact qb_turn h x hx

theorem i8_simInv : SimInv I8 ShapeOk where
  turns := fun _ h => i8_turns h
  park := fun s h => ⟨inv_park h.inv, inv7_quiet (quiet_park s) h.inv7, by
    unfold park; split
    · exact qb_congr (s := s) rfl ⟨rfl, rfl⟩ rfl h.qb
    · exact h.qb⟩
  drain := fun s h => ⟨inv_drainPolls h.inv, inv7_quiet (quiet_drainPolls s) h.inv7, by
    unfold drainPolls
    exact qb_quiet (s := s) (by have := quiet_drainPolls s; unfold drainPolls at this; exact this)
      ((foldl_poll_lncs _ _).1.trans rfl) ((foldl_poll_lncs _ _).2.trans rfl) h.qb⟩
  now := fun s t h => ⟨inv_congr (s := s) rfl rfl rfl h.inv,
    inv7_quiet (s := s) ⟨⟨rfl, rfl, rfl, rfl, rfl, rfl, rfl, rfl⟩, rfl⟩ h.inv7, qb_congr (s := s) rfl ⟨rfl, rfl⟩ rfl h.qb⟩
  enqueue := fun s p m hs h => ⟨inv_enqueue p m h.inv, inv7_enqueue p m hs h.inv7, by
    cases p <;> exact qb_congr (s := s) rfl ⟨rfl, rfl⟩ rfl h.qb⟩
  emit := fun s o h => ⟨inv_emit o h.inv, inv7_quiet (quiet_emit _ _) h.inv7, qb_congr (s := s) rfl ⟨rfl, rfl⟩ rfl h.qb⟩
  newWaiter := fun s w f h => by
    have h1 : I8 ({ s with waiters := s.waiters ++ [{ id := w, done := f }] } : St) :=
      ⟨inv_congr (s := s) rfl rfl rfl h.inv, inv7_quiet (s := s) ⟨⟨rfl, rfl, rfl, rfl, rfl, rfl, rfl, rfl⟩, rfl⟩ h.inv7,
        qb_congr (s := s) rfl ⟨rfl, rfl⟩ rfl h.qb⟩
    exact ⟨inv_pollWaiter w h1.inv, inv7_quiet (quiet_pollWaiter _ _) h1.inv7,
      qb_quiet (quiet_pollWaiter _ _) (pollWaiter_lncs _ _).1 (pollWaiter_lncs _ _).2 h1.qb⟩
  close := fun s h => ⟨inv_congr (s := s) rfl rfl rfl h.inv,
    inv7_quiet (s := s) ⟨⟨rfl, rfl, rfl, rfl, rfl, rfl, rfl, rfl⟩, rfl⟩ h.inv7, qb_congr (s := s) rfl ⟨rfl, rfl⟩ rfl h.qb⟩

theorem resolveWaiter_alive (s : St) (w) : (s.resolveWaiter w).alive = s.alive := by
  unfold St.resolveWaiter
  split
  · split <;> rfl
  · rfl

theorem raise_alive (s : St) (f) : (s.raise f).alive = s.alive := by
  unfold St.raise
  simp only []
  generalize (List.map (fun x => x.2) (List.filter (fun x => x.1 == f) s.slots)) = ws
  generalize hs0 : ({ s with raised := if s.raised.contains f then s.raised else f :: s.raised, slots := s.slots.filter (·.1 != f) } : St) = s0
  have h0 : s0.alive = s.alive := by rw [← hs0]
  rw [← h0]
  clear hs0 h0
  induction ws generalizing s0 with
  | nil => rfl
  | cons w ws ih => simp only [List.foldl_cons]; rw [ih, resolveWaiter_alive]

/-- **C08 (per job, graceful quit)** — with the repairs, for every script of API-shaped operations,
    every child behaviour and every race: whenever `recv` is about to return a `Delete` that was queued
    directly behind a `GracefulStop` (that is what `stop_with_signal(..); delete()` sends), no process
    is running and none is un-reaped; handling it ends the task. -/
theorem c08_delete_idle (behs : List Beh) (ops : List Op) (hok : ∀ o ∈ ops, OpOkFor ShapeOk o) :
    ∀ y ∈ runOps { st := { cfg := Fixes.all, behs := behs, hookSet := true, parked := true } } ops,
      ∀ f r, Src.normal ∈ recvCandidates y.st → y.st.normal = ⟨.delete, f⟩ :: r → isGS y.st.lastNormal = true →
        NotRunning y.st ∧ y.st.live = [] ∧ (handle y.st ⟨.delete, f⟩).alive = false := by
  intro y hy f r hcand hq hg
  have h0 : I8 ({ cfg := Fixes.all, behs := behs, hookSet := true, parked := true } : St) := by
    refine ⟨⟨rfl, by simp, by simp⟩, ⟨rfl, ⟨?_, ?_⟩, ?_⟩, fun hg => by simp [isGS] at hg⟩
    · intro g hg; simp at hg
    · exact ⟨by simp, by simp⟩
    · exact ⟨by simp, by simp⟩
  have h := i8_simInv.runOps ops hok (x := { st := { cfg := Fixes.all, behs := behs, hookSet := true, parked := true } }) h0 y hy
  have hf7 : y.st.cfg.f7 = true := by rw [h.inv7.cfg]; rfl
  have htm : y.st.timer = none := normal_cand hf7 hcand
  have hn : NotRunning y.st := (h.qb hg).2.2 htm
  refine ⟨hn, ?_, ?_⟩
  · have := h.inv.1
    rcases notRunning_iff.1 hn with hc | ⟨st, hc⟩ <;> rw [hc] at this <;> exact this
  · simp only [handle]
    rw [raise_alive]
    rfl

#print axioms c08_delete_idle
end Jm

namespace Jm
/-- today (F4): a graceful restart whose grace expired leaves the restart slot set; the quit's graceful
    stop then ends the replacement, the stale slot starts a third process, and `Delete` ends the task
    with that process running -/
theorem c08_fails_today :
    (runOps { st := { behs := [.ignores, .exitsAfterSignal 5, .ignores], hookSet := false, parked := true } }
      [.send .normal [.start] false, .settle, .send .normal [.tryGracefulRestart 15 10] false, .advance 50,
       .send .normal [.gracefulStop 15 10] false, .send .normal [.delete] true, .advance 100]).map
      (fun x => (x.st.alive, x.st.live)) = [(false, [2])] := by decide

theorem c08_same_script_fixed :
    (runOps { st := { cfg := Fixes.all, behs := [.ignores, .exitsAfterSignal 5, .ignores], hookSet := false, parked := true } }
      [.send .normal [.start] false, .settle, .send .normal [.tryGracefulRestart 15 10] false, .advance 50,
       .send .normal [.gracefulStop 15 10] false, .send .normal [.delete] true, .advance 100]).map
      (fun x => (x.st.alive, x.st.live)) = [(false, [])] := by decide
end Jm
