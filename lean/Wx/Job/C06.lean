import Wx.Job.C10b
import Wx.Job.C04
/-! C06 step facts on the job model; composed with c10_priority (hold-back, no early timer) and
    c07_noLost's `Coupled` (restart slot lives exactly as long as its timer). -/
namespace Jm

/-- the signal goes out in the same step, nothing else happens to the child, the grace timer is armed
    for exactly `grace` from now and carries the control's flag -/
theorem graceful_stop_step (s : St) (c : ChildId) (sig : Sig) (grace : Nat) (f : FlagId)
    (h : s.cs = .running c) :
    handle s ⟨.gracefulStop sig grace, f⟩ =
      { s.signalChild c sig with timer := some ⟨s.now + grace, f, false⟩ } := by
  have hn : (s.signalChild c sig).now = s.now := by
    unfold St.signalChild; simp only []; split
    · split <;> rfl
    · rfl
  simp only [handle, h, hn]

theorem graceful_restart_step (s : St) (c : ChildId) (sig : Sig) (grace : Nat) (f : FlagId)
    (h : s.cs = .running c) :
    handle s ⟨.tryGracefulRestart sig grace, f⟩ =
      { s.signalChild c sig with timer := some ⟨s.now + grace, f, true⟩, onEndRestart := some f } := by
  have hn : (s.signalChild c sig).now = s.now := by
    unfold St.signalChild; simp only []; split
    · split <;> rfl
    · rfl
  simp only [handle, h, hn]

/-- `signalChild` logs the signal and never a kill -/
theorem signalChild_log (s : St) (c sig) : (s.signalChild c sig).log = (s.now, .signal c sig) :: s.log := by
  unfold St.signalChild; simp only []; split
  · split <;> rfl
  · rfl

/-- when the grace period is over the timer's message is the only thing `recv` returns, ahead of
    every queue (biased receive) -/
theorem timer_fires (s : St) (t : Timer) (hf7 : s.cfg.f7 = true) (ht : s.timer = some t) (he : t.until_ ≤ s.now) :
    recvCandidates s = [.timer] := by
  unfold recvCandidates
  simp [hf7, ht, he]

/-- before that, it is never returned -/
theorem timer_not_early (s : St) (t : Timer) (hf7 : s.cfg.f7 = true) (ht : s.timer = some t) (he : s.now < t.until_) :
    Src.timer ∉ recvCandidates s := by
  intro h
  obtain ⟨t', ht', he'⟩ := c10_priority hf7 h
  rw [ht] at ht'; injection ht' with ht'; subst ht'
  omega

/-- and no normal control is returned while a grace timer is armed -/
theorem held_back (s : St) (t : Timer) (hf7 : s.cfg.f7 = true) (ht : s.timer = some t) :
    Src.normal ∉ recvCandidates s := by
  intro h
  have := (c10_priority hf7 h).1
  rw [ht] at this; cases this

theorem killReap_log (s : St) (c) (ch) (h : s.child? c = some ch) :
    (s.killReap c).log = (s.now, .reaped c 9) :: (s.now, .kill c) :: s.log ∧ (s.killReap c).cs = .finished 9 := by
  unfold St.killReap
  simp only [St.emit]
  have : (St.child? { s with log := (s.now, Obs.kill c) :: s.log } c) = some ch := h
  rw [this]
  exact ⟨rfl, rfl⟩

/-- expiry of a graceful *stop*: the timer's message is a plain stop, which kills and reaps the still
    running child at once and resolves the control -/
theorem expiry_kills (s : St) (t : Timer) (c : ChildId) (ch : Child) (ht : s.timer = some t) (hr : t.isRestart = false)
    (hc : s.cs = .running c) (hch : s.child? c = some ch) :
    ∃ s1, takeFrom s .timer = some (⟨.stop, t.done⟩, s1) ∧ s1.timer = none ∧
      (handle s1 ⟨.stop, t.done⟩).cs = .finished 9 ∧ (handle s1 ⟨.stop, t.done⟩).isRaised t.done = true := by
  refine ⟨{ s with timer := none }, by simp [takeFrom, ht, hr], rfl, ?_⟩
  have hc1 : ({ s with timer := none } : St).cs = .running c := hc
  have hch1 : ({ s with timer := none } : St).child? c = some ch := hch
  generalize ({ s with timer := none } : St) = s1 at hc1 hch1
  have hk := (killReap_log s1 c ch hch1).2
  constructor
  · simp only [handle, hc1]
    rw [(raise_frame _ _).1, endFlags_cs]; exact hk
  · simp only [handle, hc1]
    rw [raise_raised]; simp

/-- with repair F4 the timer-driven continuation clears the restart slot, so the later natural exit
    of the replacement does not start another one -/
theorem continue_clears (s : St) (f : FlagId) (hf4 : s.cfg.f4 = true) :
    (handle s ⟨.continueTGR, f⟩).onEndRestart = none := by
  have key : ∀ x : St, x.onEndRestart = none → ∀ g, (if x.reset.spawn.2 = true then x.reset.spawn.1.raise g else x.reset.spawn.1.errHandler.raise g).onEndRestart = none := by
    intro x hx g
    split
    · rw [(raise_same _ _).onEndRestart, (quiet_spawn _).1.onEndRestart, (quiet_reset _).1.onEndRestart, hx]
    · rw [(raise_same _ _).onEndRestart, (quiet_errHandler _).1.onEndRestart, (quiet_spawn _).1.onEndRestart, (quiet_reset _).1.onEndRestart, hx]
  simp only [handle]
  have hcfg : ∀ x : St, x.cfg = s.cfg → (if x.cfg.f4 = true then { x with onEndRestart := none } else x).onEndRestart = none := by
    intro x hx; rw [hx, hf4]; rfl
  cases hcs : s.cs with
  | running c =>
    simp only []
    have hx := hcfg ((s.killReap c).endFlags) (by simp)
    exact key _ hx f
  | pending => simp only []; exact key _ (hcfg s rfl) f
  | finished st => simp only []; exact key _ (hcfg s rfl) f

/-- today: graceful restart whose grace expires, then the replacement exits by itself — a third
    process is started (F4) -/
theorem extra_respawn_today :
    (runOps { st := { behs := [.ignores, .exitsAfter 50, .ignores], hookSet := false, parked := true } }
      [.send .normal [.start] false, .settle, .send .normal [.tryGracefulRestart 15 10] false, .advance 100]).map
      (fun x => x.st.spawnCount) = [3] := by decide

theorem no_extra_respawn_fixed :
    (runOps { st := { cfg := Fixes.all, behs := [.ignores, .exitsAfter 50, .ignores], hookSet := false, parked := true } }
      [.send .normal [.start] false, .settle, .send .normal [.tryGracefulRestart 15 10] false, .advance 100]).map
      (fun x => x.st.spawnCount) = [2] := by decide

end Jm
