import Wx.Job.C10b
import Wx.Job.C04
import Wx.Job.C06
import Wx.Job.SimInduct2
/-! C07, waiter side (repair F3/F5: a flag keeps every registered waker): whenever a control's flag
    or the job's `gone` flag is raised, every ticket waiting on it has resolved. -/
namespace Jm

structure WV where
  raised : List FlagId
  slots : List (FlagId × WaiterId)
  waiters : List Waiter
  f35 : Bool

def St.wv (s : St) : WV := ⟨s.raised, s.slots, s.waiters, s.cfg.f35⟩

def mark (ws : List WaiterId) (wt : Waiter) : Waiter := if wt.id ∈ ws then { wt with resolved := true } else wt

theorem mark_id (ws) (wt : Waiter) : (mark ws wt).id = wt.id := by unfold mark; split <;> rfl
theorem mark_done (ws) (wt : Waiter) : (mark ws wt).done = wt.done := by unfold mark; split <;> rfl
theorem map_mark_ids (ws) (l : List Waiter) : (l.map (mark ws)).map (·.id) = l.map (·.id) := by
  induction l with
  | nil => rfl
  | cons a l ih => simp [mark_id, ih]

theorem find_id {l : List Waiter} {w : WaiterId} {wt : Waiter} (h : l.find? (·.id == w) = some wt) : wt ∈ l ∧ wt.id = w := by
  have h1 := List.mem_of_find?_eq_some h
  have h2 := List.find?_some h
  exact ⟨h1, by simpa using h2⟩

theorem nodup_id_eq {l : List Waiter} (hn : (l.map (·.id)).Nodup) {a b : Waiter} (ha : a ∈ l) (hb : b ∈ l) (h : a.id = b.id) : a = b :=
  nodup_map_inj (·.id) l hn a ha b hb h

/-- one wake-up: exactly the waiter with that id becomes resolved; flags and registrations untouched -/
theorem resolveWaiter_wv (s : St) (w : WaiterId) (hn : (s.waiters.map (·.id)).Nodup) :
    (s.resolveWaiter w).raised = s.raised ∧ (s.resolveWaiter w).slots = s.slots ∧ (s.resolveWaiter w).cfg = s.cfg ∧
    (s.resolveWaiter w).waiters = s.waiters.map (mark [w]) := by
  unfold St.resolveWaiter
  cases hf : s.waiters.find? (·.id == w) with
  | none =>
    refine ⟨rfl, rfl, rfl, ?_⟩
    have : ∀ x ∈ s.waiters, x.id ≠ w := by
      intro x hx hxe
      have := List.find?_eq_none.1 hf x hx
      simp [hxe] at this
    symm
    calc s.waiters.map (mark [w]) = s.waiters.map id := by
          apply List.map_congr_left
          intro x hx; simp [mark, this x hx]
      _ = s.waiters := by simp
  | some wt =>
    obtain ⟨hmem, hid⟩ := find_id hf
    simp only []
    split
    · next hr =>
      refine ⟨rfl, rfl, rfl, ?_⟩
      symm
      calc s.waiters.map (mark [w]) = s.waiters.map id := by
            apply List.map_congr_left
            intro x hx
            by_cases hx' : x.id = w
            · have : x = wt := nodup_id_eq hn hx hmem (hx'.trans hid.symm)
              subst this
              cases x; simp_all [mark]
            · simp [mark, hx']
        _ = s.waiters := by simp
    · refine ⟨rfl, rfl, rfl, ?_⟩
      simp only [St.emit]
      apply List.map_congr_left
      intro x _
      by_cases hx' : x.id = w <;> simp [mark, hx']

theorem mark_mark (w : WaiterId) (ws : List WaiterId) (wt : Waiter) : mark ws (mark [w] wt) = mark (w :: ws) wt := by
  unfold mark
  by_cases h1 : wt.id = w <;> by_cases h2 : wt.id ∈ ws <;> simp [h1, h2]

theorem foldl_resolve_wv (ws : List WaiterId) (s : St) (hn : (s.waiters.map (·.id)).Nodup) :
    (ws.foldl St.resolveWaiter s).raised = s.raised ∧ (ws.foldl St.resolveWaiter s).slots = s.slots ∧
    (ws.foldl St.resolveWaiter s).cfg = s.cfg ∧
    (ws.foldl St.resolveWaiter s).waiters = s.waiters.map (mark ws) := by
  induction ws generalizing s with
  | nil =>
    refine ⟨rfl, rfl, rfl, ?_⟩
    symm
    calc s.waiters.map (mark []) = s.waiters.map id := by
          apply List.map_congr_left; intro x _; simp [mark]
      _ = s.waiters := by simp
  | cons w ws ih =>
    simp only [List.foldl_cons]
    obtain ⟨a, b, c, d⟩ := resolveWaiter_wv s w hn
    have hn' : ((s.resolveWaiter w).waiters.map (·.id)).Nodup := by rw [d, map_mark_ids]; exact hn
    obtain ⟨a', b', c', d'⟩ := ih (s.resolveWaiter w) hn'
    refine ⟨a'.trans a, b'.trans b, c'.trans c, ?_⟩
    rw [d', d, List.map_map]
    apply List.map_congr_left
    intro x _
    exact mark_mark w ws x

/-- what `raise` does to flags, registrations and waiters -/
theorem raise_wv (s : St) (f : FlagId) (hn : (s.waiters.map (·.id)).Nodup) :
    (∀ g, (s.raise f).isRaised g = (s.isRaised g || g == f)) ∧
    (s.raise f).slots = s.slots.filter (·.1 != f) ∧ (s.raise f).cfg = s.cfg ∧
    (s.raise f).waiters = s.waiters.map (mark ((s.slots.filter (·.1 == f)).map (·.2))) := by
  refine ⟨fun g => raise_raised s f g, ?_⟩
  unfold St.raise
  simp only []
  obtain ⟨_, b, c, d⟩ := foldl_resolve_wv ((s.slots.filter (·.1 == f)).map (·.2))
    { s with raised := if s.raised.contains f then s.raised else f :: s.raised, slots := s.slots.filter (·.1 != f) } hn
  exact ⟨b, c, d⟩


/-! frames: everything but `raise` leaves flags, registrations and waiters alone -/
theorem emit_wv (s : St) (o) : (s.emit o).wv = s.wv := rfl
theorem setChild_wv (s : St) (ch) : (s.setChild ch).wv = s.wv := rfl
theorem errHandler_wv (s : St) : (s.errHandler).wv = s.wv := by unfold St.errHandler; split <;> rfl
theorem signalChild_wv (s : St) (c g) : (s.signalChild c g).wv = s.wv := by
  unfold St.signalChild; simp only []; split
  · split <;> rfl
  · rfl
theorem killReap_wv (s : St) (c) : (s.killReap c).wv = s.wv := by unfold St.killReap; simp only []; split <;> rfl
theorem reset_wv (s : St) : (s.reset).wv = s.wv := by unfold St.reset; split <;> rfl
theorem reap_wv (s : St) (c) : (s.reap c).wv = s.wv := by unfold St.reap; simp only []; split <;> rfl
theorem spawn_wv (s : St) : s.spawn.1.wv = s.wv := by
  unfold St.spawn
  split
  · rfl
  · simp only []
    have h0 : (if s.hookSet = true then s.emit Obs.hook else s).wv = s.wv := by split <;> rfl
    generalize (if s.hookSet = true then s.emit Obs.hook else s) = s' at h0
    split <;> (rw [← h0]; rfl)

def WInvS (s : St) : Prop :=
  (s.waiters.map (·.id)).Nodup ∧
  ∀ wt ∈ s.waiters, wt.resolved = false →
    s.isRaised wt.done = false ∧ s.isRaised 0 = false ∧ (wt.done, wt.id) ∈ s.slots ∧ (0, wt.id) ∈ s.slots

theorem winv_congr {t s : St} (h : t.wv = s.wv) (hi : WInvS s) : WInvS t := by
  have h1 : t.raised = s.raised := congrArg WV.raised h
  have h2 : t.slots = s.slots := congrArg WV.slots h
  have h3 : t.waiters = s.waiters := congrArg WV.waiters h
  unfold WInvS St.isRaised at *
  rw [h1, h2, h3]; exact hi

theorem winv_raise {s : St} (f : FlagId) (hi : WInvS s) : WInvS (s.raise f) := by
  obtain ⟨hr, hs, _, hw⟩ := raise_wv s f hi.1
  refine ⟨by rw [hw, map_mark_ids]; exact hi.1, ?_⟩
  intro wt' hwt' hres
  rw [hw] at hwt'
  obtain ⟨wt, hwt, rfl⟩ := List.mem_map.1 hwt'
  have hnot : wt.id ∉ (s.slots.filter (·.1 == f)).map (·.2) := by
    intro hin; simp [mark, hin] at hres
  have hsame : mark ((s.slots.filter (·.1 == f)).map (·.2)) wt = wt := by simp [mark, hnot]
  rw [hsame] at hres ⊢
  obtain ⟨a, b, c, d⟩ := hi.2 wt hwt hres
  have hne1 : wt.done ≠ f := by
    intro he; apply hnot
    exact List.mem_map.2 ⟨(wt.done, wt.id), List.mem_filter.2 ⟨c, by simp [he]⟩, rfl⟩
  have hne0 : (0 : FlagId) ≠ f := by
    intro he; apply hnot
    exact List.mem_map.2 ⟨(0, wt.id), List.mem_filter.2 ⟨d, by simp [he]⟩, rfl⟩
  refine ⟨by rw [hr, a]; simp [hne1], by rw [hr, b]; simp [hne0], ?_, ?_⟩
  · rw [hs]; exact List.mem_filter.2 ⟨c, by simp [hne1]⟩
  · rw [hs]; exact List.mem_filter.2 ⟨d, by simp [hne0]⟩

/-- `t` is `s` after some raises, up to fields the invariant does not read -/
inductive RF (s : St) : St → Prop
  | base (t : St) : t.wv = s.wv → RF s t
  | raise (t : St) (f : FlagId) : RF s t → RF s (t.raise f)
  | frame (t t' : St) : RF s t → t'.wv = t.wv → RF s t'

theorem winv_rf {s t : St} (h : RF s t) (hi : WInvS s) : WInvS t := by
  induction h with
  | base t h => exact winv_congr h hi
  | raise t f _ ih => exact winv_raise f ih
  | frame t t' _ h ih => exact winv_congr h ih

theorem RF.refl (s : St) : RF s s := RF.base s rfl
theorem rf_raiseAll {s t : St} (fs : List FlagId) (h : RF s t) : RF s (t.raiseAll fs) := by
  unfold St.raiseAll
  induction fs generalizing t with
  | nil => exact h
  | cons f fs ih => simp only [List.foldl_cons]; exact ih (RF.raise t f h)
theorem rf_endFlags {s t : St} (h : RF s t) : RF s t.endFlags :=
  RF.frame (t.raiseAll t.onEnd) _ (rf_raiseAll _ h) rfl
theorem rf_killReap {s t : St} (c) (h : RF s t) : RF s (t.killReap c) := RF.frame t _ h (killReap_wv t c)
theorem rf_reset {s t : St} (h : RF s t) : RF s t.reset := RF.frame t _ h (reset_wv t)
theorem rf_spawn {s t : St} (h : RF s t) : RF s t.spawn.1 := RF.frame t _ h (spawn_wv t)
theorem rf_errHandler {s t : St} (h : RF s t) : RF s t.errHandler := RF.frame t _ h (errHandler_wv t)
theorem rf_signalChild {s t : St} (c g) (h : RF s t) : RF s (t.signalChild c g) := RF.frame t _ h (signalChild_wv t c g)
theorem rf_emit {s t : St} (o) (h : RF s t) : RF s (t.emit o) := RF.frame t _ h rfl
theorem rf_reap {s t : St} (c) (h : RF s t) : RF s (t.reap c) := RF.frame t _ h (reap_wv t c)

/-- respawn tail shared by several controls -/
theorem rf_tail {s t : St} (f : FlagId) (h : RF s t) :
    RF s (if t.spawn.2 = true then t.spawn.1.raise f else t.spawn.1.errHandler.raise f) := by
  split
  · exact RF.raise _ _ (rf_spawn h)
  · exact RF.raise _ _ (rf_errHandler (rf_spawn h))

theorem rf_handle (s : St) (m : Msg) : RF s (handle s m) := by
  rcases m with ⟨ctl, f⟩
  cases ctl with
  | start =>
    cases hcs : s.cs <;> simp only [handle, hcs]
    · exact rf_tail f (rf_reset (RF.base _ rfl))
    · exact RF.raise _ _ (RF.base _ rfl)
    · exact rf_tail f (rf_reset (RF.base _ rfl))
  | stop =>
    cases hcs : s.cs <;> simp only [handle, hcs]
    · exact RF.raise _ _ (RF.base _ rfl)
    · exact RF.raise _ _ (rf_endFlags (rf_killReap _ (RF.base _ rfl)))
    · exact RF.raise _ _ (RF.base _ rfl)
  | gracefulStop sig grace =>
    cases hcs : s.cs with
    | running c => rw [graceful_stop_step s c sig grace f hcs]; exact RF.frame _ _ (rf_signalChild c sig (RF.refl s)) rfl
    | pending => simp only [handle, hcs]; exact RF.raise _ _ (RF.base _ rfl)
    | finished st => simp only [handle, hcs]; exact RF.raise _ _ (RF.base _ rfl)
  | tryRestart =>
    cases hcs : s.cs <;> simp only [handle, hcs]
    · exact RF.raise _ _ (RF.base _ rfl)
    · exact rf_tail f (rf_endFlags (rf_reset (rf_killReap _ (RF.base _ rfl))))
    · exact RF.raise _ _ (RF.base _ rfl)
  | tryGracefulRestart sig grace =>
    cases hcs : s.cs with
    | running c => rw [graceful_restart_step s c sig grace f hcs]; exact RF.frame _ _ (rf_signalChild c sig (RF.refl s)) rfl
    | pending => simp only [handle, hcs]; exact RF.raise _ _ (RF.base _ rfl)
    | finished st => simp only [handle, hcs]; exact RF.raise _ _ (RF.base _ rfl)
  | continueTGR =>
    have key : ∀ t : St, RF s t → RF s (if t.cfg.f4 = true then { t with onEndRestart := none } else t) := by
      intro t ht; split
      · exact RF.frame t _ ht rfl
      · exact ht
    cases hcs : s.cs <;> simp only [handle, hcs]
    · exact rf_tail f (rf_reset (by split <;> exact RF.base _ rfl))
    · exact rf_tail f (rf_reset (key _ (rf_endFlags (rf_killReap _ (RF.base _ rfl)))))
    · exact rf_tail f (rf_reset (by split <;> exact RF.base _ rfl))
  | signal sig =>
    cases hcs : s.cs <;> simp only [handle, hcs]
    · exact RF.raise _ _ (RF.base _ rfl)
    · exact RF.raise _ _ (rf_signalChild _ _ (RF.base _ rfl))
    · exact RF.raise _ _ (RF.base _ rfl)
  | delete =>
    simp only [handle]
    exact RF.raise _ _ (rf_emit _ (RF.frame (s.raise f) _ (RF.raise _ _ (RF.refl s)) rfl))
  | nextEnding =>
    cases hcs : s.cs <;> simp only [handle, hcs]
    · split
      · exact RF.raise _ _ (RF.base _ rfl)
      · exact RF.base _ rfl
    · exact RF.base _ rfl
    · exact RF.raise _ _ (RF.base _ rfl)
  | func id => simp only [handle]; exact RF.raise _ _ (rf_emit _ (RF.refl s))
  | setHook => simp only [handle]; exact RF.raise _ _ (RF.base _ rfl)
  | unsetHook => simp only [handle]; exact RF.raise _ _ (RF.base _ rfl)
  | setErr => simp only [handle]; exact RF.raise _ _ (RF.base _ rfl)
  | unsetErr => simp only [handle]; exact RF.raise _ _ (RF.base _ rfl)

theorem rf_continueRestart {s t : St} (h : RF s t) : RF s t.continueRestart := by
  unfold St.continueRestart
  split
  · simp only []
    have h1 : RF s ({ t with onEndRestart := none } : St).reset := rf_reset (RF.frame t _ h rfl)
    split
    · exact RF.raise _ _ (rf_spawn h1)
    · split
      · exact RF.raise _ _ (rf_errHandler (rf_spawn h1))
      · exact rf_errHandler (rf_spawn h1)
  · exact h

theorem rf_waitBranch (s : St) (c) : RF s (waitBranch s c) := by
  unfold waitBranch
  exact rf_continueRestart (rf_endFlags (rf_raiseAll _ (rf_reap c (RF.refl s))))

theorem takeFrom_wv {s s1 : St} {src m} (ht : takeFrom s src = some (m, s1)) : s1.wv = s.wv := by
  cases src with
  | timer =>
    simp only [takeFrom, Option.map_eq_some_iff] at ht
    obtain ⟨t, _, ht⟩ := ht
    injection ht with _ h2; subst h2; rfl
  | urgent =>
    simp only [takeFrom] at ht
    split at ht
    · injection ht with ht; injection ht with h1 h2; subst h2; rfl
    · cases ht
  | high =>
    simp only [takeFrom] at ht
    split at ht
    · injection ht with ht; injection ht with h1 h2; subst h2; rfl
    · cases ht
  | normal =>
    simp only [takeFrom] at ht
    split at ht
    · injection ht with ht; injection ht with h1 h2; subst h2; rfl
    · cases ht

theorem winv_turns {s : St} (h : WInvS s) : ∀ s' ∈ turns s, WInvS s' := by
  intro x hx
  unfold turns at hx
  split at hx
  · cases hx
  · split at hx
    · unfold closedOutcome at hx
      split at hx
      · split at hx
        · simp only [List.mem_singleton] at hx; subst hx
          exact winv_raise 0 (winv_congr (s := s) rfl h)
        · simp only [List.mem_singleton] at hx; subst hx
          exact winv_congr (s := s) rfl h
      · cases hx
    · unfold turnCandidates at hx
      rcases List.mem_append.1 hx with hx | hx
      · split at hx
        · simp only [List.mem_singleton] at hx; subst hx
          exact winv_rf (rf_waitBranch _ _) (winv_congr (s := s) rfl h)
        · cases hx
      · obtain ⟨src, _, hs⟩ := List.mem_filterMap.1 hx
        cases ht : takeFrom s src with
        | none => simp [ht] at hs
        | some p =>
          obtain ⟨m, s1⟩ := p
          simp only [ht] at hs
          injection hs with hs; subst hs
          have h1 : WInvS s1 := winv_congr (takeFrom_wv ht) h
          have h2 : WInvS { s1 with parked := false } := winv_congr rfl h1
          exact winv_rf (rf_handle _ m) h2

/-! polling -/
def WInvX (x : WaiterId) (s : St) : Prop :=
  (s.waiters.map (·.id)).Nodup ∧
  ∀ wt ∈ s.waiters, wt.resolved = false → wt.id ≠ x →
    s.isRaised wt.done = false ∧ s.isRaised 0 = false ∧ (wt.done, wt.id) ∈ s.slots ∧ (0, wt.id) ∈ s.slots

theorem winvx_of {s : St} (x) (h : WInvS s) : WInvX x s := ⟨h.1, fun wt hw hr _ => h.2 wt hw hr⟩

theorem winv_resolve {s : St} (w : WaiterId) (h : WInvX w s) : WInvS (s.resolveWaiter w) := by
  obtain ⟨a, b, _, d⟩ := resolveWaiter_wv s w h.1
  refine ⟨by rw [d, map_mark_ids]; exact h.1, ?_⟩
  intro wt' hwt' hres
  rw [d] at hwt'
  obtain ⟨wt, hwt, rfl⟩ := List.mem_map.1 hwt'
  have hne : wt.id ≠ w := by intro he; simp [mark, he] at hres
  have hsame : mark [w] wt = wt := by simp [mark, hne]
  rw [hsame] at hres ⊢
  unfold St.isRaised
  rw [a, b]
  exact h.2 wt hwt hres hne

theorem register_wv35 (s : St) (f w) (h35 : s.cfg.f35 = true) :
    (s.register f w).raised = s.raised ∧ (s.register f w).waiters = s.waiters ∧ (s.register f w).cfg = s.cfg ∧
    (s.register f w).slots = s.slots ++ [(f, w)] := by
  unfold St.register; simp [h35]

theorem winvx_register {s : St} (x f w) (h35 : s.cfg.f35 = true) (h : WInvX x s) : WInvX x (s.register f w) := by
  obtain ⟨a, b, _, d⟩ := register_wv35 s f w h35
  refine ⟨by rw [b]; exact h.1, ?_⟩
  intro wt hwt hres hne
  rw [b] at hwt
  obtain ⟨p, q, r, t⟩ := h.2 wt hwt hres hne
  unfold St.isRaised at *
  rw [a, d]
  exact ⟨p, q, List.mem_append_left _ r, List.mem_append_left _ t⟩

theorem winv_poll {s : St} (w : WaiterId) (h35 : s.cfg.f35 = true) (h : WInvX w s) : WInvS (pollWaiter s w) := by
  unfold pollWaiter
  cases hf : s.waiters.find? (·.id == w) with
  | none =>
    simp only []
    refine ⟨h.1, fun wt hwt hres => h.2 wt hwt hres ?_⟩
    intro he
    have := List.find?_eq_none.1 hf wt hwt
    simp [he] at this
  | some wt0 =>
    obtain ⟨hmem, hid⟩ := find_id hf
    simp only []
    split
    · next hr =>
      refine ⟨h.1, fun wt hwt hres => h.2 wt hwt hres ?_⟩
      intro he
      have : wt = wt0 := nodup_id_eq h.1 hwt hmem (he.trans hid.symm)
      subst this; rw [hr] at hres; cases hres
    · split
      · exact winv_resolve w h
      · next hr0 =>
        have h1 := winvx_register w 0 w h35 h
        obtain ⟨a1, b1, c1, d1⟩ := register_wv35 s 0 w h35
        split
        · exact winv_resolve w h1
        · next hrd =>
          have h2 := winvx_register w wt0.done w (c1 ▸ h35) h1
          obtain ⟨a2, b2, _, d2⟩ := register_wv35 (s.register 0 w) wt0.done w (c1 ▸ h35)
          refine ⟨h2.1, ?_⟩
          intro wt hwt hres
          by_cases he : wt.id = w
          · have hwt' : wt ∈ s.waiters := by rw [b2, b1] at hwt; exact hwt
            have : wt = wt0 := nodup_id_eq h.1 hwt' hmem (he.trans hid.symm)
            subst this
            have e1 : (St.register (s.register 0 w) wt.done w).isRaised wt.done = (s.register 0 w).isRaised wt.done := by
              unfold St.isRaised; rw [a2]
            have e0 : (St.register (s.register 0 w) wt.done w).isRaised 0 = s.isRaised 0 := by
              unfold St.isRaised; rw [a2, a1]
            refine ⟨by rw [e1]; simpa using hrd, by rw [e0]; simpa using hr0, ?_, ?_⟩
            · rw [d2, ← he]; simp [hid]
            · rw [d2, d1, ← he]; simp [hid]
          · exact h2.2 wt hwt hres he

/-! ids and the repair flag are never touched -/
theorem rf_keeps {s t : St} (h : RF s t) (hn : (s.waiters.map (·.id)).Nodup) :
    t.cfg.f35 = s.cfg.f35 ∧ t.waiters.map (·.id) = s.waiters.map (·.id) := by
  induction h with
  | base t h => exact ⟨congrArg WV.f35 h, by rw [show t.waiters = s.waiters from congrArg WV.waiters h]⟩
  | raise t f _ ih =>
    have hn' : (t.waiters.map (·.id)).Nodup := by rw [ih.2]; exact hn
    obtain ⟨_, _, c, d⟩ := raise_wv t f hn'
    exact ⟨by rw [c]; exact ih.1, by rw [d, map_mark_ids]; exact ih.2⟩
  | frame t t' _ h ih =>
    exact ⟨(congrArg WV.f35 h).trans ih.1, by rw [show t'.waiters = t.waiters from congrArg WV.waiters h]; exact ih.2⟩

theorem poll_keeps (s : St) (w) (hn : (s.waiters.map (·.id)).Nodup) (h35 : s.cfg.f35 = true) :
    (pollWaiter s w).cfg.f35 = true ∧ (pollWaiter s w).waiters.map (·.id) = s.waiters.map (·.id) := by
  have res : ∀ t : St, (t.waiters.map (·.id)).Nodup → t.cfg.f35 = true →
      (t.resolveWaiter w).cfg.f35 = true ∧ (t.resolveWaiter w).waiters.map (·.id) = t.waiters.map (·.id) := by
    intro t ht h
    obtain ⟨_, _, c, d⟩ := resolveWaiter_wv t w ht
    exact ⟨by rw [c]; exact h, by rw [d, map_mark_ids]⟩
  unfold pollWaiter
  cases hf : s.waiters.find? (·.id == w) with
  | none => exact ⟨h35, rfl⟩
  | some wt =>
    simp only []
    split
    · exact ⟨h35, rfl⟩
    · split
      · exact res s hn h35
      · obtain ⟨_, b1, c1, _⟩ := register_wv35 s 0 w h35
        have hn1 : ((s.register 0 w).waiters.map (·.id)).Nodup := by rw [b1]; exact hn
        split
        · have := res (s.register 0 w) hn1 (c1 ▸ h35)
          exact ⟨this.1, by rw [this.2, b1]⟩
        · obtain ⟨_, b2, c2, _⟩ := register_wv35 (s.register 0 w) wt.done w (c1 ▸ h35)
          exact ⟨by rw [c2, c1]; exact h35, by rw [b2, b1]⟩

/-- the whole invariant, with the bound on waiter ids -/
def WI (n : Nat) (s : St) : Prop := s.cfg.f35 = true ∧ WInvS s ∧ ∀ i ∈ s.waiters.map (·.id), i < n

theorem wi_congr {n} {t s : St} (h : t.wv = s.wv) (hi : WI n s) : WI n t :=
  ⟨(congrArg WV.f35 h).trans hi.1, winv_congr h hi.2.1, by rw [show t.waiters = s.waiters from congrArg WV.waiters h]; exact hi.2.2⟩

theorem wi_rf {n} {s t : St} (h : RF s t) (hi : WI n s) : WI n t := by
  obtain ⟨a, b⟩ := rf_keeps h hi.2.1.1
  exact ⟨a.trans hi.1, winv_rf h hi.2.1, by rw [b]; exact hi.2.2⟩

theorem wi_poll {n} {s : St} (w) (hi : WI n s) : WI n (pollWaiter s w) := by
  obtain ⟨a, b⟩ := poll_keeps s w hi.2.1.1 hi.1
  exact ⟨a, winv_poll w hi.1 (winvx_of w hi.2.1), by rw [b]; exact hi.2.2⟩

theorem wi_turns {n} {s : St} (h : WI n s) : ∀ s' ∈ turns s, WI n s' := by
  intro x hx
  unfold turns at hx
  split at hx
  · cases hx
  · split at hx
    · unfold closedOutcome at hx
      split at hx
      · split at hx
        · simp only [List.mem_singleton] at hx; subst hx
          exact wi_rf (RF.raise _ 0 (RF.base _ rfl)) h
        · simp only [List.mem_singleton] at hx; subst hx
          exact wi_congr (s := s) rfl h
      · cases hx
    · unfold turnCandidates at hx
      rcases List.mem_append.1 hx with hx | hx
      · split at hx
        · simp only [List.mem_singleton] at hx; subst hx
          exact wi_rf (rf_waitBranch _ _) (wi_congr (s := s) rfl h)
        · cases hx
      · obtain ⟨src, _, hs⟩ := List.mem_filterMap.1 hx
        cases ht : takeFrom s src with
        | none => simp [ht] at hs
        | some p =>
          obtain ⟨m, s1⟩ := p
          simp only [ht] at hs
          injection hs with hs; subst hs
          have h1 : WI n s1 := wi_congr (takeFrom_wv ht) h
          have h2 : WI n { s1 with parked := false } := wi_congr rfl h1
          exact wi_rf (rf_handle _ m) h2

def WInv (x : Sim) : Prop := WI x.nextWaiter x.st

theorem wi_foldl_poll {n} (ws : List WaiterId) {s : St} (h : WI n s) : WI n (ws.foldl pollWaiter s) := by
  induction ws generalizing s with
  | nil => exact h
  | cons w ws ih => simp only [List.foldl_cons]; exact ih (wi_poll w h)

theorem wi_mono {n m} {s : St} (hnm : n ≤ m) (h : WI n s) : WI m s :=
  ⟨h.1, h.2.1, fun i hi => Nat.lt_of_lt_of_le (h.2.2 i hi) hnm⟩

theorem winv_simInv : SimInv2 WInv (fun _ _ => True) where
  turns := fun x h s' hs' => wi_turns h s' hs'
  park := fun x h => by
    show WI _ (park x.st)
    unfold park; split
    · exact wi_congr (s := x.st) rfl h
    · exact h
  drain := fun x h => by
    show WI _ (drainPolls x.st)
    unfold drainPolls
    exact wi_foldl_poll _ (wi_congr (s := x.st) rfl h)
  now := fun x t h => wi_congr (s := x.st) rfl h
  close := fun x h => wi_congr (s := x.st) rfl h
  cancel := fun x aw h => by
    show WI (x.nextWaiter + 1) (if aw = true then x.st.emit (.ticket x.nextWaiter) else x.st)
    apply wi_mono (Nat.le_succ _)
    split
    · exact wi_congr (s := x.st) rfl h
    · exact h
  sendOne := fun x p c _ h => by
    show WI x.nextWaiter (enqueue x.st p _)
    cases p <;> exact wi_congr (s := x.st) rfl h
  finish := fun x aw h => by
    show WI (x.nextWaiter + 1) (if aw = true then pollWaiter { x.st with waiters := x.st.waiters ++ [{ id := x.nextWaiter, done := x.nextFlag - 1 }] } x.nextWaiter else x.st)
    split
    · -- the new waiter: fresh id, then its first poll
      have hfresh : x.nextWaiter ∉ x.st.waiters.map (·.id) := fun hin => Nat.lt_irrefl _ (h.2.2 _ hin)
      let s1 : St := { x.st with waiters := x.st.waiters ++ [{ id := x.nextWaiter, done := x.nextFlag - 1 }] }
      have hn1 : (s1.waiters.map (·.id)).Nodup := by
        show ((x.st.waiters ++ [({ id := x.nextWaiter, done := x.nextFlag - 1 } : Waiter)]).map (·.id)).Nodup
        rw [List.map_append]
        refine List.nodup_append.2 ⟨h.2.1.1, by simp, ?_⟩
        intro a ha b hb
        simp only [List.map_cons, List.map_nil, List.mem_singleton] at hb
        subst hb; intro he; subst he; exact hfresh ha
      have hx : WInvX x.nextWaiter s1 := by
        refine ⟨hn1, ?_⟩
        intro wt hwt hres hne
        rcases List.mem_append.1 hwt with hwt | hwt
        · exact h.2.1.2 wt hwt hres
        · simp only [List.mem_singleton] at hwt; subst hwt; exact absurd rfl hne
      obtain ⟨a, b⟩ := poll_keeps s1 x.nextWaiter hn1 h.1
      refine ⟨a, winv_poll x.nextWaiter h.1 hx, ?_⟩
      rw [b]
      intro i hi
      show i < x.nextWaiter + 1
      have : i ∈ (x.st.waiters ++ [({ id := x.nextWaiter, done := x.nextFlag - 1 } : Waiter)]).map (·.id) := hi
      rw [List.map_append] at this
      rcases List.mem_append.1 this with hi | hi
      · exact Nat.lt_succ_of_lt (h.2.2 i hi)
      · simp only [List.map_cons, List.map_nil, List.mem_singleton] at hi; subst hi; exact Nat.lt_succ_self _
    · exact wi_mono (Nat.le_succ _) h
  clone := fun x f h => by
    show WI (x.nextWaiter + 1) (pollWaiter { x.st with waiters := x.st.waiters ++ [{ id := x.nextWaiter, done := f }] } x.nextWaiter)
    have hfresh : x.nextWaiter ∉ x.st.waiters.map (·.id) := fun hin => Nat.lt_irrefl _ (h.2.2 _ hin)
    let s1 : St := { x.st with waiters := x.st.waiters ++ [{ id := x.nextWaiter, done := f }] }
    have hn1 : (s1.waiters.map (·.id)).Nodup := by
      show ((x.st.waiters ++ [({ id := x.nextWaiter, done := f } : Waiter)]).map (·.id)).Nodup
      rw [List.map_append]
      refine List.nodup_append.2 ⟨h.2.1.1, by simp, ?_⟩
      intro a ha b hb
      simp only [List.map_cons, List.map_nil, List.mem_singleton] at hb
      subst hb; intro he; subst he; exact hfresh ha
    have hx : WInvX x.nextWaiter s1 := by
      refine ⟨hn1, ?_⟩
      intro wt hwt hres hne
      rcases List.mem_append.1 hwt with hwt | hwt
      · exact h.2.1.2 wt hwt hres
      · simp only [List.mem_singleton] at hwt; subst hwt; exact absurd rfl hne
    obtain ⟨a, b⟩ := poll_keeps s1 x.nextWaiter hn1 h.1
    refine ⟨a, winv_poll x.nextWaiter h.1 hx, ?_⟩
    rw [b]
    intro i hi
    show i < x.nextWaiter + 1
    have : i ∈ (x.st.waiters ++ [({ id := x.nextWaiter, done := f } : Waiter)]).map (·.id) := hi
    rw [List.map_append] at this
    rcases List.mem_append.1 this with hi | hi
    · exact Nat.lt_succ_of_lt (h.2.2 i hi)
    · simp only [List.map_cons, List.map_nil, List.mem_singleton] at hi; subst hi; exact Nat.lt_succ_self _

/-- **C07 (tickets)** — with a flag keeping every registered waker (repair F3/F5) and whatever the
    other repairs: in every state of every run, a ticket that has not resolved is waiting on a flag that
    is not raised, the job is not gone, and its waker is registered with both — so the moment either
    flag is raised it resolves. Equivalently: raised flag or gone job ⇒ resolved. -/
theorem c07_tickets (cfg : Fixes) (h35 : cfg.f35 = true) (behs : List Beh) (ops : List Op) :
    ∀ y ∈ runOps { st := { cfg := cfg, behs := behs, hookSet := true, parked := true } } ops,
      ∀ wt ∈ y.st.waiters, (y.st.isRaised wt.done = true ∨ y.st.isRaised 0 = true) → wt.resolved = true := by
  intro y hy wt hwt hr
  have h0 : WInv { st := { cfg := cfg, behs := behs, hookSet := true, parked := true } } :=
    ⟨h35, ⟨by simp, by intro wt hwt; simp at hwt⟩, by intro i hi; simp at hi⟩
  have := winv_simInv.runOps ops (fun o _ => by cases o <;> simp [OpOkFor2]) h0 y hy
  cases hres : wt.resolved with
  | true => rfl
  | false =>
    obtain ⟨a, b, _, _⟩ := this.2.1.2 wt hwt hres
    rcases hr with hr | hr
    · rw [a] at hr; cases hr
    · rw [b] at hr; cases hr

#print axioms c07_tickets

/-- today (single waker slot): a wait-for-end ticket on a never-started job, then `delete` with its own
    ticket — the second registration on `gone` overwrites the first, the job goes, the first ticket hangs -/
theorem c07_tickets_fails_today :
    ∃ y ∈ runOps { st := { behs := [.ignores], hookSet := true, parked := true } }
        [.send .high [.nextEnding] true, .send .normal [.delete] true, .settle],
      ∃ wt ∈ y.st.waiters, y.st.isRaised 0 = true ∧ wt.resolved = false := by decide

end Jm
