/-! Job task model (task.rs + priority.rs + state.rs + flag.rs/messages.rs), full control alphabet. -/
namespace Jm

abbrev FlagId := Nat      -- 0 is the job's `gone` flag
abbrev ChildId := Nat
abbrev WaiterId := Nat

/-- OS signal number after `Signal::to_nix` (unknown/invalid -> 15) -/
abbrev Sig := Nat

/-- intended repairs; all `false` = the code as it is today -/
structure Fixes where
  f1 : Bool := false    -- wait branch raises the flag of a pending graceful *stop*
  f2 : Bool := false    -- failed respawn in the wait branch still raises the restart flag
  f4 : Bool := false    -- ContinueTryGracefulRestart clears on_end_restart
  f6 : Bool := false    -- NextEnding resolves at once whenever nothing is running
  f7 : Bool := false    -- biased select in PriorityReceiver::recv
  f16 : Bool := false   -- closed queues: task loop ends (`else => break`) instead of panicking
  f35 : Bool := false   -- flags keep every registered waker, not one
  deriving Repr, DecidableEq

def Fixes.none : Fixes := {}
def Fixes.all : Fixes := ⟨true, true, true, true, true, true, true⟩

inductive Ctl where
  | start | stop
  | gracefulStop (sig : Sig) (grace : Nat)
  | tryRestart
  | tryGracefulRestart (sig : Sig) (grace : Nat)
  | continueTGR
  | signal (sig : Sig)
  | delete
  | nextEnding
  | func (id : Nat)              -- SyncFunc / AsyncFunc marker
  | setHook | unsetHook | setErr | unsetErr
  deriving Repr, DecidableEq

structure Msg where
  ctl : Ctl
  done : FlagId
  deriving Repr, DecidableEq

inductive CS where
  | pending
  | running (c : ChildId)
  | finished (status : Nat)
  deriving Repr, DecidableEq

structure Timer where
  until_ : Nat
  done : FlagId
  isRestart : Bool
  deriving Repr, DecidableEq

/-- scripted behaviour of a simulated child (harness side, mirrored here) -/
inductive Beh where
  | exitsAfter (d : Nat)         -- exits by itself d after spawn, status 0
  | exitsAfterSignal (d : Nat)   -- exits d after the first signal, status = that signal
  | ignores                      -- only a kill ends it
  | spawnFails
  deriving Repr, DecidableEq

structure Child where
  id : ChildId
  beh : Beh
  exitAt : Option Nat := none
  status : Nat := 0
  reaped : Bool := false
  deriving Repr, DecidableEq

inductive Obs where
  | spawn (c : ChildId) | spawnFail | hook | errh
  | signal (c : ChildId) (sig : Sig) | kill (c : ChildId) | reaped (c : ChildId) (status : Nat)
  | dropped (c : ChildId)
  | func (id : Nat) (cur : String) (prev : String)
  | ticket (w : WaiterId)
  | ended | panicked
  /-- injected faults (only `Jf`, the fault-aware task of `Wx.Job.Faults`, emits these) -/
  | killFail (c : ChildId) | signalFail (c : ChildId) (sig : Sig) | waitFail (c : ChildId)
  deriving Repr, DecidableEq

/-- which queue `recv` could take from right now -/
inductive Src | timer | urgent | high | normal deriving Repr, DecidableEq

structure Waiter where
  id : WaiterId
  done : FlagId
  resolved : Bool := false
  deriving Repr, DecidableEq

structure St where
  cfg : Fixes := {}
  normal : List Msg := []
  high : List Msg := []
  urgent : List Msg := []
  closed : Bool := false          -- all Job handles dropped
  cs : CS := .pending
  prev : Option CS := none
  timer : Option Timer := none
  onEnd : List FlagId := []
  onEndRestart : Option FlagId := none
  hookSet : Bool := false
  errSet : Bool := false
  parked : Bool := false          -- suspended inside recv's final select!
  alive : Bool := true
  raised : List FlagId := []
  slots : List (FlagId × WaiterId) := []   -- single waker slot per flag
  waiters : List Waiter := []
  pendingPolls : List WaiterId := []       -- woken waiters, polled after the task yields
  children : List Child := []
  behs : List Beh := []            -- behaviour script, one per spawn attempt (last repeats)
  spawnCount : Nat := 0
  now : Nat := 0
  log : List (Nat × Obs) := []     -- newest first
  issued : List FlagId := []       -- ghost: every control flag ever handed out
  sent : List (Src × FlagId) := []   -- ghost: flags in send order, with the queue they went to
  taken : List (Src × FlagId) := []  -- ghost: flags in the order `recv` returned them
  lastNormal : Option Ctl := none    -- ghost: the last control `recv` returned from the normal queue
  deriving Repr

def St.emit (s : St) (o : Obs) : St := { s with log := (s.now, o) :: s.log }

def St.isRaised (s : St) (f : FlagId) : Bool := s.raised.contains f

/-- Flag::raise: set, then wake the single registered waker (AtomicWaker::wake takes it).
    The harness records a waiter's resolution at the instant its waker is woken. -/
def St.resolveWaiter (s : St) (w : WaiterId) : St :=
  match s.waiters.find? (·.id == w) with
  | some wt =>
    if wt.resolved then s else
    ({ s with waiters := s.waiters.map (fun (x : Waiter) => if x.id == w then { x with resolved := true } else x) }).emit (.ticket w)
  | none => s

def St.raise (s : St) (f : FlagId) : St :=
  let s := { s with raised := if s.raised.contains f then s.raised else f :: s.raised }
  let regs := (s.slots.filter (·.1 == f)).map (·.2)
  let s := { s with slots := s.slots.filter (·.1 != f) }
  regs.foldl St.resolveWaiter s

def St.raiseAll (s : St) (fs : List FlagId) : St := fs.foldl St.raise s

def St.child? (s : St) (c : ChildId) : Option Child := s.children.find? (·.id == c)
def St.setChild (s : St) (ch : Child) : St :=
  { s with children := s.children.map (fun x => if x.id == ch.id then ch else x) }

def csName : CS → String
  | .pending => "P" | .running _ => "R" | .finished st => "F" ++ toString st
def prevName : Option CS → String
  | none => "-" | some c => csName c

def behAt (s : St) : Beh :=
  match s.behs[s.spawnCount]? with
  | some b => b
  | none => s.behs.getLast?.getD .ignores

/-- spawn_hook.call + CommandState::spawn -/
def St.spawn (s : St) : St × Bool :=
  match s.cs with
  | .running _ => (s, true)
  | _ =>
    let s := if s.hookSet then s.emit .hook else s
    let b := behAt s
    let idx := s.spawnCount
    let s := { s with spawnCount := idx + 1 }
    match b with
    | .spawnFails => (s.emit .spawnFail, false)
    | _ =>
      let exitAt := match b with | .exitsAfter d => some (s.now + d) | _ => none
      let ch : Child := { id := idx, beh := b, exitAt := exitAt }
      (({ s with cs := .running idx, children := s.children ++ [ch] }).emit (.spawn idx), true)

def St.reset (s : St) : St :=
  match s.cs with
  | .running _ => { s with prev := some (.finished 999), cs := .pending }   -- ProcessEnd::Continued; unreachable
  | cs => { s with prev := some cs, cs := .pending }

def St.errHandler (s : St) : St := if s.errSet then s.emit .errh else s

/-- SimChild::signal -/
def St.signalChild (s : St) (c : ChildId) (sig : Sig) : St :=
  let s := s.emit (.signal c sig)
  match s.child? c with
  | some ch =>
    match ch.beh, ch.exitAt with
    | .exitsAfterSignal d, none => s.setChild { ch with exitAt := some (s.now + d), status := sig }
    | _, _ => s
  | none => s

/-- child.kill().await; child.wait().await -/
def St.killReap (s : St) (c : ChildId) : St :=
  let s := s.emit (.kill c)
  match s.child? c with
  | some ch =>
    -- SimChild::start_kill overrides exit time and status, even for an already exited child
    let ch := { ch with exitAt := some s.now, status := 9, reaped := true }
    ({ s.setChild ch with cs := .finished 9 }).emit (.reaped c 9)
  | none => s

def St.endFlags (s : St) : St := { (s.raiseAll s.onEnd) with onEnd := [] }

inductive Flow | normally | skip | brk deriving DecidableEq

/-- one control message (the body of the `recv` arm) -/
def handle (s : St) (m : Msg) : St :=
  let fin (s : St) : St := s.raise m.done
  match m.ctl with
  | .start =>
    match s.cs with
    | .running _ => fin s
    | _ =>
      let (s1, ok) := s.reset.spawn
      if ok then fin s1 else fin s1.errHandler
  | .stop =>
    match s.cs with
    | .running c => fin (s.killReap c).endFlags
    | _ => fin s
  | .gracefulStop sig grace =>
    match s.cs with
    | .running c =>
      let s := s.signalChild c sig
      { s with timer := some ⟨s.now + grace, m.done, false⟩ }
    | _ => fin s
  | .tryRestart =>
    match s.cs with
    | .running c =>
      let s := (s.killReap c).reset.endFlags
      let (s1, ok) := s.spawn
      if ok then fin s1 else fin s1.errHandler
    | _ => fin s
  | .tryGracefulRestart sig grace =>
    match s.cs with
    | .running c =>
      let s := s.signalChild c sig
      { s with timer := some ⟨s.now + grace, m.done, true⟩, onEndRestart := some m.done }
    | _ => fin s
  | .continueTGR =>
    let s := match s.cs with
      | .running c => (s.killReap c).endFlags
      | _ => s
    let s := if s.cfg.f4 then { s with onEndRestart := none } else s
    let (s1, ok) := s.reset.spawn
    if ok then fin s1 else fin s1.errHandler
  | .signal sig =>
    match s.cs with
    | .running c => fin (s.signalChild c sig)
    | _ => fin s
  | .delete => ({ fin s with alive := false }).emit .ended |>.raise 0
  | .nextEnding =>
    match s.cs with
    | .finished _ => fin s
    | .pending => if s.cfg.f6 then fin s else { s with onEnd := s.onEnd ++ [m.done] }
    | .running _ => { s with onEnd := s.onEnd ++ [m.done] }
  | .func id => fin (s.emit (.func id (csName s.cs) (prevName s.prev)))
  | .setHook => fin { s with hookSet := true }
  | .unsetHook => fin { s with hookSet := false }
  | .setErr => fin { s with errSet := true }
  | .unsetErr => fin { s with errSet := false }

/-- `command_state.wait()` returned: the child is reaped, state becomes Finished, the timer is erased -/
def St.reap (s : St) (c : ChildId) : St :=
  let st := (s.child? c).map (·.status) |>.getD 0
  let s := match s.child? c with
    | some ch => s.setChild { ch with reaped := true }
    | none => s
  ({ s with cs := .finished st, timer := none }).emit (.reaped c st)

/-- flags released by the wait branch besides `on_end` (repair F1) -/
def St.stopFlags (s : St) : List FlagId :=
  match s.timer with
  | some t => if s.cfg.f1 && !t.isRestart then [t.done] else []
  | none => []

/-- "continuing a graceful restart" in the wait branch -/
def St.continueRestart (s : St) : St :=
  match s.onEndRestart with
  | some f =>
    let s := { s with onEndRestart := none }
    let (s1, ok) := s.reset.spawn
    if ok then s1.raise f else (if s.cfg.f2 then s1.errHandler.raise f else s1.errHandler)
  | none => s

def waitBranch (s : St) (c : ChildId) : St :=
  (((s.reap c).raiseAll s.stopFlags).endFlags).continueRestart

def waitReady (s : St) : Option ChildId :=
  match s.cs with
  | .running c =>
    match s.child? c with
    | some ch => match ch.exitAt with
      | some t => if t ≤ s.now then some c else none
      | none => none
    | none => none
  | _ => none


/-- PriorityReceiver::recv candidates. When the task was parked in the final select!, every ready
    branch of that select is a candidate (unbiased); otherwise the try_recv order decides. -/
def recvCandidates (s0 : St) : List Src :=
  let s := if s0.cfg.f7 then { s0 with parked := false } else s0
  match s.timer with
  | some t =>
    if t.until_ ≤ s.now then
      if s.parked then
        -- parked inside `select! { sleep, urgent, high }`
        [.timer] ++ (if s.urgent.isEmpty then [] else [.urgent]) ++ (if s.high.isEmpty then [] else [.high])
      else [.timer]
    else
      if s.parked then (if s.urgent.isEmpty then [] else [.urgent]) ++ (if s.high.isEmpty then [] else [.high])
      else if !s.urgent.isEmpty then [.urgent] else if !s.high.isEmpty then [.high] else []
  | none =>
    if s.parked then
      (if s.urgent.isEmpty then [] else [.urgent]) ++ (if s.high.isEmpty then [] else [.high]) ++
      (if s.normal.isEmpty then [] else [.normal])
    else if !s.urgent.isEmpty then [.urgent] else if !s.high.isEmpty then [.high]
    else if !s.normal.isEmpty then [.normal] else []

def takeFrom (s : St) : Src → Option (Msg × St)
  | .timer => s.timer.map (fun t => (⟨if t.isRestart then .continueTGR else .stop, t.done⟩, { s with timer := none }))
  | .urgent => match s.urgent with | m :: r => some (m, { s with urgent := r, taken := s.taken ++ [(.urgent, m.done)] }) | [] => none
  | .high => match s.high with | m :: r => some (m, { s with high := r, taken := s.taken ++ [(.high, m.done)] }) | [] => none
  | .normal => match s.normal with | m :: r => some (m, { s with normal := r, taken := s.taken ++ [(.normal, m.done)], lastNormal := some m.ctl }) | [] => none

/-- every ready `select!` arm, taken -/
def turnCandidates (s : St) : List St :=
  (match waitReady s with | some c => [waitBranch { s with parked := false } c] | none => []) ++
  (recvCandidates s).filterMap (fun src =>
    match takeFrom s src with
    | some (m, s1) => some (handle { s1 with parked := false } m)
    | none => none)

/-- nothing is ready: if the queues are closed and nothing runs, no `select!` arm is enabled -/
def closedIdle (s : St) : Bool :=
  s.closed && s.urgent.isEmpty && s.high.isEmpty && s.normal.isEmpty && (waitReady s).isNone
     && (match s.cs with | .running _ => false | _ => true)

def closedOutcome (s : St) : List St :=
  if closedIdle s then
    (if s.cfg.f16 then [(({ s with alive := false }).emit .ended).raise 0]
     else [({ s with alive := false }).emit .panicked])
  else []

/-- all possible next task turns at this instant (empty = the task is idle) -/
def turns (s : St) : List St :=
  if !s.alive then [] else
  if (turnCandidates s).isEmpty then closedOutcome s else turnCandidates s

/-- a waiter task polls its ticket: select(job_gone, control_done) -/
def St.register (s : St) (f : FlagId) (w : WaiterId) : St :=
  if s.cfg.f35 then { s with slots := s.slots ++ [(f, w)] }
  else { s with slots := s.slots.filter (fun (p : FlagId × WaiterId) => p.1 != f) ++ [(f, w)] }

def pollWaiter (s : St) (w : WaiterId) : St :=
  match s.waiters.find? (·.id == w) with
  | some wt =>
    if wt.resolved then s else
    -- select(job_gone, control_done): `gone` is polled (and its slot taken over) first
    if s.isRaised 0 then s.resolveWaiter w else
    let s := s.register 0 w
    if s.isRaised wt.done then s.resolveWaiter w else
    s.register wt.done w
  | none => s

def drainPolls (s : St) : St :=
  let ws := s.pendingPolls
  ws.foldl pollWaiter { s with pendingPolls := [] }

end Jm
