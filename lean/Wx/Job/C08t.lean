import Wx.Job.C06w
import Wx.Job.SimInduct3
/-! C08, the time bound as a theorem: a job with a queued `Delete` is gone no later than its *deadline* — the expiry of
    the grace timer that is armed now, plus the grace periods of the graceful controls still queued. Time is the model's
    virtual clock; it passes only while the task is idle and never beyond an armed timer (`SimInv3`, = `advanceAll`). -/
namespace Jm

/-! ### `alive` under the helpers -/
@[simp] theorem emit_alive (s : St) (o) : (s.emit o).alive = s.alive := rfl
theorem resolveWaiter_alive (s : St) (w) : (s.resolveWaiter w).alive = s.alive := by
  unfold St.resolveWaiter
  split
  · split <;> rfl
  · rfl
theorem foldl_resolve_alive (ws : List WaiterId) (s : St) : (ws.foldl St.resolveWaiter s).alive = s.alive := by
  induction ws generalizing s with
  | nil => rfl
  | cons w ws ih => simp only [List.foldl_cons]; rw [ih, resolveWaiter_alive]
@[simp] theorem raise_alive (s : St) (f) : (s.raise f).alive = s.alive := by
  unfold St.raise; rw [foldl_resolve_alive]
@[simp] theorem raiseAll_alive (s : St) (fs) : (s.raiseAll fs).alive = s.alive := by
  unfold St.raiseAll
  induction fs generalizing s with
  | nil => rfl
  | cons f fs ih => simp only [List.foldl_cons]; rw [ih, raise_alive]
@[simp] theorem endFlags_alive (s : St) : s.endFlags.alive = s.alive := by
  unfold St.endFlags; show (s.raiseAll s.onEnd).alive = s.alive; simp
@[simp] theorem errHandler_alive (s : St) : s.errHandler.alive = s.alive := by
  unfold St.errHandler; split <;> rfl
@[simp] theorem signalChild_alive (s : St) (c g) : (s.signalChild c g).alive = s.alive := by
  unfold St.signalChild; simp only []; split
  · split <;> rfl
  · rfl
@[simp] theorem killReap_alive (s : St) (c) : (s.killReap c).alive = s.alive := by
  unfold St.killReap; simp only []; split <;> rfl
@[simp] theorem reset_alive (s : St) : s.reset.alive = s.alive := by
  unfold St.reset; split <;> rfl
@[simp] theorem spawn_alive (s : St) : s.spawn.1.alive = s.alive := by
  unfold St.spawn
  split
  · rfl
  · simp only []
    have h0 : (if s.hookSet = true then s.emit Obs.hook else s).alive = s.alive := by split <;> rfl
    generalize (if s.hookSet = true then s.emit Obs.hook else s) = s' at h0
    split <;> (rw [← h0]; rfl)
@[simp] theorem reap_alive (s : St) (c) : (s.reap c).alive = s.alive := by
  unfold St.reap; simp only []; split <;> rfl

theorem handle_alive (s : St) (m : Msg) : (handle s m).alive = (match m.ctl with | .delete => false | _ => s.alive) := by
  unfold handle
  cases m.ctl <;> (try simp only []) <;> (try cases s.cs) <;> (try simp only []) <;>
    (repeat' split) <;> (first | rfl | simp)

theorem continueRestart_alive (s : St) : s.continueRestart.alive = s.alive := by
  unfold St.continueRestart
  split
  · (try simp only []); (repeat' split) <;> (first | rfl | simp)
  · rfl

theorem waitBranch_alive (s : St) (c) : (waitBranch s c).alive = s.alive := by
  unfold waitBranch; rw [continueRestart_alive]; simp


/-! ### the deadline -/
def graceOf : Ctl → Nat
  | .gracefulStop _ g => g
  | .tryGracefulRestart _ g => g
  | _ => 0

def gsum (l : List Msg) : Nat := (l.map (fun m => graceOf m.ctl)).sum
def queued (s : St) : Nat := gsum s.normal + gsum s.high + gsum s.urgent
def base (s : St) : Nat := match s.timer with | some tm => max s.now tm.until_ | none => s.now
/-- the armed timer's expiry (or now), plus every grace period still queued -/
def deadline (s : St) : Nat := base s + queued s

theorem now_le_base (s : St) : s.now ≤ base s := by
  unfold base; split
  · exact Nat.le_max_left _ _
  · exact Nat.le_refl _

def hasDelete (s : St) : Prop := ∃ m ∈ s.normal, m.ctl = .delete

/-- an alive job with a queued `Delete` is within its deadline `D` -/
def Bd (D : Nat) (s : St) : Prop := s.alive = true → hasDelete s ∧ deadline s ≤ D

theorem gsum_cons (m : Msg) (r : List Msg) : gsum (m :: r) = graceOf m.ctl + gsum r := by simp [gsum]
theorem gsum_append (a b : List Msg) : gsum (a ++ b) = gsum a + gsum b := by simp [gsum]

/-- with the repairs in place (biased `select!`): an idle, alive task with a non-empty normal queue is waiting for an
    armed timer that has not expired — nothing else can hold a control back -/
theorem idle_timer {s : St} (hcfg : s.cfg = Fixes.all) (hal : s.alive = true) (hne : s.normal ≠ []) (hidle : turns s = []) :
    ∃ tm, s.timer = some tm ∧ s.now < tm.until_ := by
  have hf7 : s.cfg.f7 = true := by rw [hcfg]; rfl
  have hc : turnCandidates s = [] := by
    unfold turns at hidle
    simp only [hal, Bool.not_true, Bool.false_eq_true, if_false] at hidle
    cases h : turnCandidates s with
    | nil => rfl
    | cons a l => simp [h] at hidle
  unfold turnCandidates at hc
  have hc2 := (List.append_eq_nil_iff.1 hc).2
  have key : ∀ src ∈ recvCandidates s, takeFrom s src = none := by
    intro src hsrc
    cases ht : takeFrom s src with
    | none => rfl
    | some p =>
      have hmem := List.filterMap_eq_nil_iff.1 hc2 src hsrc
      obtain ⟨m, s1⟩ := p
      simp [ht] at hmem
  cases htm : s.timer with
  | none =>
    exfalso
    have : ∃ src, src ∈ recvCandidates s ∧ (takeFrom s src).isSome = true := by
      unfold recvCandidates
      simp only [hf7, if_true, htm, Bool.false_eq_true, if_false]
      cases hu : s.urgent with
      | cons a l => exact ⟨.urgent, by simp, by simp [takeFrom, hu]⟩
      | nil =>
        cases hh : s.high with
        | cons a l => exact ⟨.high, by simp, by simp [takeFrom, hh]⟩
        | nil =>
          cases hn : s.normal with
          | cons a l => exact ⟨.normal, by simp, by simp [takeFrom, hn]⟩
          | nil => exact absurd hn hne
    obtain ⟨src, h1, h2⟩ := this
    rw [key src h1] at h2; cases h2
  | some tm =>
    refine ⟨tm, rfl, ?_⟩
    by_cases hle : tm.until_ ≤ s.now
    · exfalso
      have h1 : Src.timer ∈ recvCandidates s := by
        unfold recvCandidates
        simp [hf7, htm, hle]
      have h2 := key _ h1
      simp [takeFrom, htm] at h2
    · omega


theorem base_handle (s : St) (m : Msg) : base (handle s m) ≤ base s + graceOf m.ctl := by
  have hnow : (handle s m).now = s.now := (ext_handle s m).now
  have hb := now_le_base s
  unfold base at hb ⊢
  rw [handle_timer, hnow]
  cases m.ctl <;> cases s.cs <;> simp only [graceOf] <;> (try omega) <;> (split <;> omega)

theorem queued_handle (s : St) (m : Msg) : queued (handle s m) = queued s := by
  have := qv_queues (handle_qv s m)
  unfold queued; rw [this.1, this.2.1, this.2.2]

theorem takeFrom_deadline {s s1 : St} {src : Src} {m : Msg} (ht : takeFrom s src = some (m, s1)) (hsrc : src ∈ recvCandidates s) :
    s1.alive = s.alive ∧ s1.now = s.now ∧ s1.cfg = s.cfg ∧ base s1 + graceOf m.ctl + queued s1 ≤ base s + queued s ∧
    (hasDelete s → m.ctl ≠ .delete → hasDelete s1) := by
  cases src with
  | timer =>
    obtain ⟨tm, htm, hle⟩ := timer_cand hsrc
    simp only [takeFrom, htm, Option.map_some, Option.some.injEq, Prod.mk.injEq] at ht
    obtain ⟨rfl, rfl⟩ := ht
    refine ⟨rfl, rfl, rfl, ?_, fun h _ => h⟩
    have hg : graceOf (if tm.isRestart = true then Ctl.continueTGR else Ctl.stop) = 0 := by split <;> rfl
    have hb := now_le_base s
    have e1 : base ({ s with timer := none } : St) = s.now := rfl
    have e2 : queued ({ s with timer := none } : St) = queued s := rfl
    rw [e1, e2, hg]
    omega
  | urgent =>
    simp only [takeFrom] at ht
    split at ht
    · next m0 r hq =>
      simp only [Option.some.injEq, Prod.mk.injEq] at ht; obtain ⟨rfl, rfl⟩ := ht
      refine ⟨rfl, rfl, rfl, ?_, fun h _ => h⟩
      simp only [base, queued, hq, gsum_cons]; omega
    · cases ht
  | high =>
    simp only [takeFrom] at ht
    split at ht
    · next m0 r hq =>
      simp only [Option.some.injEq, Prod.mk.injEq] at ht; obtain ⟨rfl, rfl⟩ := ht
      refine ⟨rfl, rfl, rfl, ?_, fun h _ => h⟩
      simp only [base, queued, hq, gsum_cons]; omega
    · cases ht
  | normal =>
    simp only [takeFrom] at ht
    split at ht
    · next m0 r hq =>
      simp only [Option.some.injEq, Prod.mk.injEq] at ht; obtain ⟨rfl, rfl⟩ := ht
      refine ⟨rfl, rfl, rfl, ?_, ?_⟩
      · simp only [base, queued, hq, gsum_cons]; omega
      · intro ⟨d, hd, hdc⟩ hne
        rw [hq] at hd
        rcases List.mem_cons.1 hd with rfl | hd
        · exact absurd hdc hne
        · exact ⟨d, hd, hdc⟩
    · cases ht

theorem bd_turnCandidates {D : Nat} {s : St} (h : Bd D s) : ∀ x ∈ turnCandidates s, Bd D x := by
  intro x hx
  unfold turnCandidates at hx
  rcases List.mem_append.1 hx with hx | hx
  · split at hx
    · next c hw =>
      simp only [List.mem_singleton] at hx; subst hx
      intro hal
      rw [waitBranch_alive] at hal
      obtain ⟨hd, hle⟩ := h hal
      have hq := qv_queues (waitBranch_qv { s with parked := false } c)
      refine ⟨?_, ?_⟩
      · obtain ⟨d, h1, h2⟩ := hd
        exact ⟨d, by rw [hq.1]; exact h1, h2⟩
      · have hnow : (waitBranch { s with parked := false } c).now = s.now := (ext_waitBranch _ c).now
        have hb := now_le_base s
        have : deadline (waitBranch { s with parked := false } c) = s.now + queued s := by
          unfold deadline base queued
          rw [waitBranch_timer, hnow, hq.1, hq.2.1, hq.2.2]
        unfold deadline at hle
        omega
    · cases hx
  · obtain ⟨src, hsrc, hs⟩ := List.mem_filterMap.1 hx
    cases ht : takeFrom s src with
    | none => simp [ht] at hs
    | some p =>
      obtain ⟨m, s1⟩ := p
      simp only [ht] at hs
      injection hs with hs; subst hs
      obtain ⟨hal1, hnow1, _, hdl, hdel⟩ := takeFrom_deadline ht hsrc
      intro hal
      rw [handle_alive] at hal
      have hmd : m.ctl ≠ .delete := by
        intro hc; rw [hc] at hal; simp at hal
      have hal2 : s.alive = true := by
        have : ({ s1 with parked := false } : St).alive = true := by
          cases hc : m.ctl <;> simp only [hc] at hal hmd <;> first | exact hal | exact absurd rfl hmd
        exact hal1 ▸ this
      obtain ⟨hd, hle⟩ := h hal2
      refine ⟨?_, ?_⟩
      · obtain ⟨d, h1, h2⟩ := hdel hd hmd
        have hq := qv_queues (handle_qv { s1 with parked := false } m)
        exact ⟨d, by rw [hq.1]; exact h1, h2⟩
      · have hb := base_handle { s1 with parked := false } m
        have hq := queued_handle { s1 with parked := false } m
        have e1 : base ({ s1 with parked := false } : St) = base s1 := rfl
        have e2 : queued ({ s1 with parked := false } : St) = queued s1 := rfl
        unfold deadline at hle ⊢
        omega


theorem Bd.congr {D : Nat} {t s : St} (h : Bd D s) (ha : t.alive = s.alive) (hn : t.normal = s.normal) (hh : t.high = s.high)
    (hu : t.urgent = s.urgent) (htm : t.timer = s.timer) (hnow : t.now = s.now) : Bd D t := by
  intro hal
  rw [ha] at hal
  obtain ⟨⟨d, h1, h2⟩, hle⟩ := h hal
  refine ⟨⟨d, by rw [hn]; exact h1, h2⟩, ?_⟩
  have : deadline t = deadline s := by unfold deadline base queued; rw [hn, hh, hu, htm, hnow]
  rw [this]; exact hle

theorem register_alive (s : St) (f w) : (s.register f w).alive = s.alive := by
  unfold St.register; split <;> rfl

theorem pollWaiter_alive (s : St) (w) : (pollWaiter s w).alive = s.alive := by
  unfold pollWaiter
  split
  · split
    · rfl
    · split
      · exact resolveWaiter_alive _ _
      · simp only []
        split
        · rw [resolveWaiter_alive, register_alive]
        · rw [register_alive, register_alive]
  · rfl

theorem foldl_poll_alive (ws : List WaiterId) (s : St) : (ws.foldl pollWaiter s).alive = s.alive := by
  induction ws generalizing s with
  | nil => rfl
  | cons w ws ih => simp only [List.foldl_cons]; rw [ih, pollWaiter_alive]

theorem bd_turns {D : Nat} {s : St} (h : Bd D s) : ∀ s' ∈ turns s, Bd D s' := by
  intro x hx
  unfold turns at hx
  split at hx
  · cases hx
  · split at hx
    · -- the closed-and-idle outcome: the task has ended either way
      unfold closedOutcome at hx
      split at hx
      · split at hx
        · simp only [List.mem_singleton] at hx; subst hx
          intro hal; rw [raise_alive] at hal; cases hal
        · simp only [List.mem_singleton] at hx; subst hx
          intro hal; cases hal
      · cases hx
    · exact bd_turnCandidates h x hx

theorem turns_cfg {s : St} : ∀ s' ∈ turns s, s'.cfg = s.cfg := by
  intro x hx
  unfold turns at hx
  split at hx
  · cases hx
  · split at hx
    · unfold closedOutcome at hx
      split at hx
      · split at hx
        · simp only [List.mem_singleton] at hx; subst hx; simp
        · simp only [List.mem_singleton] at hx; subst hx; rfl
      · cases hx
    · unfold turnCandidates at hx
      rcases List.mem_append.1 hx with hx | hx
      · split at hx
        · simp only [List.mem_singleton] at hx; subst hx; rw [waitBranch_cfg]
        · cases hx
      · obtain ⟨src, _, hs⟩ := List.mem_filterMap.1 hx
        cases ht : takeFrom s src with
        | none => simp [ht] at hs
        | some p =>
          obtain ⟨m, s1⟩ := p
          simp only [ht] at hs
          injection hs with hs; subst hs
          rw [handle_cfg]
          exact (takeFrom_absfx ht).2.2.1

/-- sends that add no grace period -/
def NoGrace (_ : Prio) (c : Ctl) : Prop := graceOf c = 0

theorem deadline_simInv (D : Nat) : SimInv3 (fun x => x.st.cfg = Fixes.all ∧ Bd D x.st) NoGrace where
  turns := fun x h s' hs' => ⟨(turns_cfg s' hs').trans h.1, bd_turns h.2 s' hs'⟩
  park := fun x h => by
    have hq := quiet_park x.st
    refine ⟨hq.1.cfg.trans h.1, h.2.congr ?_ hq.1.normal hq.1.high hq.1.urgent hq.1.timer ?_⟩ <;> (unfold park; split <;> rfl)
  drain := fun x h => by
    have hq := quiet_drainPolls x.st
    refine ⟨hq.1.cfg.trans h.1, h.2.congr ?_ hq.1.normal hq.1.high hq.1.urgent hq.1.timer ?_⟩
    · unfold drainPolls; rw [foldl_poll_alive]
    · unfold drainPolls; exact (ext_foldl_poll _ _).now
  tick := fun x t h hidle hle => by
    refine ⟨h.1, ?_⟩
    intro hal
    have hal' : x.st.alive = true := hal
    obtain ⟨⟨d, h1, h2⟩, hdl⟩ := h.2 hal'
    obtain ⟨tm, htm, hlt⟩ := idle_timer h.1 hal' (List.ne_nil_of_mem h1) hidle
    refine ⟨⟨d, h1, h2⟩, ?_⟩
    have ht := hle tm htm hlt
    have e1 : deadline ({ x.st with now := t } : St) = max t tm.until_ + queued x.st := by
      unfold deadline base queued; simp only [htm]
    have e2 : deadline x.st = max x.st.now tm.until_ + queued x.st := by
      unfold deadline base; simp only [htm]
    rw [e1]; rw [e2] at hdl
    have : max t tm.until_ = tm.until_ := Nat.max_eq_right ht
    have : max x.st.now tm.until_ = tm.until_ := Nat.max_eq_right (by omega)
    omega
  close := fun x h => ⟨h.1, h.2.congr rfl rfl rfl rfl rfl rfl⟩
  cancel := fun x aw h => by
    unfold cancelSend
    simp only []
    split
    · exact ⟨h.1, h.2.congr rfl rfl rfl rfl rfl rfl⟩
    · exact h
  sendOne := fun x p c hc h => by
    unfold sendOne
    simp only []
    refine ⟨by cases p <;> exact h.1, ?_⟩
    intro hal
    have hal' : x.st.alive = true := by cases p <;> exact hal
    obtain ⟨⟨d, h1, h2⟩, hdl⟩ := h.2 hal'
    have hg : graceOf c = 0 := hc
    refine ⟨⟨d, by cases p <;> simp [enqueue, h1], h2⟩, ?_⟩
    have : deadline (enqueue x.st p ⟨c, x.nextFlag⟩) = deadline x.st := by
      cases p <;> simp [deadline, base, queued, enqueue, gsum, hg]
    rw [this]; exact hdl
  finish := fun x aw h => by
    unfold finishSend
    simp only []
    split
    · let s0 : St := { x.st with waiters := x.st.waiters ++ [{ id := x.nextWaiter, done := x.nextFlag - 1 }] }
      have hq := quiet_pollWaiter s0 x.nextWaiter
      exact ⟨hq.1.cfg.trans h.1, h.2.congr (s := x.st) (pollWaiter_alive s0 _) hq.1.normal hq.1.high hq.1.urgent hq.1.timer
        (ext_pollWaiter s0 _).now⟩
    · exact h
  clone := fun x f h => by
    let s0 : St := { x.st with waiters := x.st.waiters ++ [{ id := x.nextWaiter, done := f }] }
    have hq := quiet_pollWaiter s0 x.nextWaiter
    exact ⟨hq.1.cfg.trans h.1, h.2.congr (s := x.st) (pollWaiter_alive s0 _) hq.1.normal hq.1.high hq.1.urgent hq.1.timer
      (ext_pollWaiter s0 _).now⟩

/-- **C08, the time bound** — take ANY state of the repaired job task in which a `Delete` is queued (as the worker's quit
    leaves it). Whatever happens afterwards — every race resolution, any passage of time, any further sends that carry no
    grace period, handle drops — whenever the job task is still alive the clock has not passed the deadline computed at
    that state: the expiry of the timer armed then (or then), plus the grace periods of the graceful controls queued then. -/
theorem c08_deadline (x : Sim) (hcfg : x.st.cfg = Fixes.all) (hd : hasDelete x.st) (ops : List Op)
    (hops : ∀ o ∈ ops, OpOkFor2 NoGrace o) :
    ∀ y ∈ runOps x ops, y.st.alive = true → y.st.now ≤ deadline x.st := by
  intro y hy hal
  have h0 : Bd (deadline x.st) x.st := fun _ => ⟨hd, Nat.le_refl _⟩
  obtain ⟨_, hb⟩ := (deadline_simInv (deadline x.st)).runOps ops hops (x := x) ⟨hcfg, h0⟩ y hy
  have h2 : base y.st + queued y.st ≤ deadline x.st := (hb hal).2
  have h1 := now_le_base y.st
  omega

/-- what the deadline is right after the worker's quit: `stop_with_signal(sig, g)` then `delete()` = GracefulStop, then
    Stop + Delete, all at normal priority — the previous deadline plus the quit's own grace period -/
theorem quit_deadline (x : Sim) (sig : Sig) (g : Nat) (hgone : x.st.isRaised 0 = false) :
    deadline (doSend (doSend x .normal [.gracefulStop sig g] false) .normal [.stop, .delete] false).st = deadline x.st + g ∧
    hasDelete (doSend (doSend x .normal [.gracefulStop sig g] false) .normal [.stop, .delete] false).st ∧
    (doSend (doSend x .normal [.gracefulStop sig g] false) .normal [.stop, .delete] false).st.cfg = x.st.cfg := by
  have e1 : doSend x .normal [.gracefulStop sig g] false =
      { st := enqueue x.st .normal ⟨.gracefulStop sig g, x.nextFlag⟩, nextFlag := x.nextFlag + 1, nextWaiter := x.nextWaiter + 1 } := by
    rw [doSend_eq]; simp [doSend', hgone, finishSend, sendOne]
  have hgone2 : (enqueue x.st .normal ⟨.gracefulStop sig g, x.nextFlag⟩).isRaised 0 = false := hgone
  rw [e1, doSend_eq]
  simp only [doSend', hgone2, Bool.false_or, List.isEmpty_cons, Bool.false_eq_true, if_false, List.foldl_cons, List.foldl_nil,
    finishSend, sendOne]
  refine ⟨?_, ⟨⟨.delete, x.nextFlag + 1 + 1⟩, by simp [enqueue], rfl⟩, rfl⟩
  simp [deadline, base, queued, gsum, graceOf, enqueue]
  omega

/-- **the quit, per job**: from any state of a live job (gone flag not raised), after the worker's quit sequence the job
    task is gone whenever the clock shows more than the deadline at the quit plus the quit's own grace period -/
theorem c08_quit_bound (x : Sim) (hcfg : x.st.cfg = Fixes.all) (hgone : x.st.isRaised 0 = false) (sig : Sig) (g : Nat)
    (ops : List Op) (hops : ∀ o ∈ ops, OpOkFor2 NoGrace o) :
    ∀ y ∈ runOps (doSend (doSend x .normal [.gracefulStop sig g] false) .normal [.stop, .delete] false) ops,
      deadline x.st + g < y.st.now → y.st.alive = false := by
  intro y hy hlt
  obtain ⟨e1, e2, e3⟩ := quit_deadline x sig g hgone
  have := c08_deadline _ (e3.trans hcfg) e2 ops hops y hy
  cases hal : y.st.alive with
  | false => rfl
  | true => have := this hal; omega

/-- non-vacuity: a child that ignores the signal, a graceful restart (grace 70) armed at 0, the quit (grace 40) at 20:
    deadline 70 + 40 = 110, and that is exactly when the job ends -/
example : ((runOps { st := { cfg := Fixes.all, behs := [.ignores, .ignores], hookSet := true, parked := true } }
        [.send .normal [.start] false, .settle, .send .normal [.tryGracefulRestart 15 70] false, .advance 20]).flatMap (fun x =>
      runOps (doSend (doSend x .normal [.gracefulStop 15 40] false) .normal [.stop, .delete] false) [.advance 500])).map
    (fun y => (y.st.alive, y.st.log.filterMap (fun e => match e.2 with | .ended => some e.1 | _ => none))) = [(false, [110])] := by decide

#print axioms c08_quit_bound
#print axioms c08_deadline
#print axioms quit_deadline
end Jm
