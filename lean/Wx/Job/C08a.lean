import Wx.Job.C10c
/-! frame lemmas for the ghost `lastNormal` (only `recv` on the normal queue writes it) -/
namespace Jm

@[simp] theorem emit_ln (s : St) (o) : (s.emit o).lastNormal = s.lastNormal := rfl
@[simp] theorem setChild_ln (s : St) (ch) : (s.setChild ch).lastNormal = s.lastNormal := rfl

theorem resolveWaiter_ln (s : St) (w) : (s.resolveWaiter w).lastNormal = s.lastNormal := by
  unfold St.resolveWaiter
  split
  · split <;> rfl
  · rfl

theorem foldl_resolve_ln (ws : List WaiterId) (s : St) : (ws.foldl St.resolveWaiter s).lastNormal = s.lastNormal := by
  induction ws generalizing s with
  | nil => rfl
  | cons w ws ih => simp only [List.foldl_cons]; rw [ih, resolveWaiter_ln]

@[simp] theorem raise_ln (s : St) (f) : (s.raise f).lastNormal = s.lastNormal := by
  unfold St.raise; rw [foldl_resolve_ln]

@[simp] theorem raiseAll_ln (s : St) (fs) : (s.raiseAll fs).lastNormal = s.lastNormal := by
  unfold St.raiseAll
  induction fs generalizing s with
  | nil => rfl
  | cons f fs ih => simp only [List.foldl_cons]; rw [ih, raise_ln]

@[simp] theorem endFlags_ln (s : St) : s.endFlags.lastNormal = s.lastNormal := by
  unfold St.endFlags; show (s.raiseAll s.onEnd).lastNormal = s.lastNormal; simp
@[simp] theorem errHandler_ln (s : St) : s.errHandler.lastNormal = s.lastNormal := by
  unfold St.errHandler; split <;> rfl
@[simp] theorem signalChild_ln (s : St) (c g) : (s.signalChild c g).lastNormal = s.lastNormal := by
  unfold St.signalChild; simp only []; split
  · split <;> rfl
  · rfl
@[simp] theorem killReap_ln (s : St) (c) : (s.killReap c).lastNormal = s.lastNormal := by
  unfold St.killReap; simp only []; split <;> rfl
@[simp] theorem reset_ln (s : St) : s.reset.lastNormal = s.lastNormal := by
  unfold St.reset; split <;> rfl
@[simp] theorem spawn_ln (s : St) : s.spawn.1.lastNormal = s.lastNormal := by
  unfold St.spawn
  split
  · rfl
  · simp only []
    have h0 : (if s.hookSet = true then s.emit Obs.hook else s).lastNormal = s.lastNormal := by split <;> rfl
    generalize (if s.hookSet = true then s.emit Obs.hook else s) = s' at h0
    split <;> (rw [← h0]; rfl)
@[simp] theorem reap_ln (s : St) (c) : (s.reap c).lastNormal = s.lastNormal := by
  unfold St.reap; simp only []; split <;> rfl


/-- handling a control never touches a queue: only `send` adds, only `recv` removes -/
theorem handle_ln (s : St) (m : Msg) : (handle s m).lastNormal = s.lastNormal := by
  unfold handle
  cases m.ctl <;> (try simp only []) <;> (try cases s.cs) <;> (try simp only []) <;>
    (repeat' split) <;> (first | rfl | simp)

theorem continueRestart_ln (s : St) : s.continueRestart.lastNormal = s.lastNormal := by
  unfold St.continueRestart
  split
  · (try simp only []); (repeat' split) <;> (first | rfl | simp)
  · rfl

theorem waitBranch_ln (s : St) (c) : (waitBranch s c).lastNormal = s.lastNormal := by
  unfold waitBranch; rw [continueRestart_ln]; simp



end Jm
