import Wx.Job.Api
import Wx.Cli.Action
import Wx.Pure.Gen.Shapes
/-! The hand-written models mirror these enums of the source; the variant lists are regenerated on every run. A variant
    added, removed or renamed in the code — a control the job-task model does not handle, a new on-busy mode — breaks a
    theorem here (and nothing else). -/
namespace Jm

/-- one representative of every control the model knows -/
def allCtls : List Ctl :=
  [.start, .stop, .gracefulStop 15 0, .tryRestart, .tryGracefulRestart 15 0, .continueTGR, .signal 15, .delete, .nextEnding,
   .func 0, .setHook, .unsetHook, .setErr, .unsetErr]

/-- the async twins are modelled by their sync counterparts (same effect on the job's state) -/
def asyncTwins : List (String × String) :=
  [("AsyncFunc", "SyncFunc"), ("SetAsyncSpawnHook", "SetSyncSpawnHook"), ("SetAsyncErrorHandler", "SetSyncErrorHandler")]

/-- **every `Control` variant of the code is handled by the model**, directly or through its sync twin -/
theorem every_control_is_modelled :
    ∀ v ∈ Gen.controlVariants, v ∈ allCtls.map ctlName ∨ ∃ p ∈ asyncTwins, p.1 = v ∧ p.2 ∈ allCtls.map ctlName := by decide

/-- and the model has no control the code lacks -/
theorem every_model_control_exists : ∀ c ∈ allCtls, ctlName c ∈ Gen.controlVariants := by decide

theorem allCtls_complete (c : Ctl) : ctlName c ∈ allCtls.map ctlName := by cases c <;> simp [ctlName, allCtls]

theorem priorities_are_the_models : Gen.priorityVariants = [prioName .normal, prioName .high, prioName .urgent] := by decide

theorem command_states_are_the_models : Gen.commandStateVariants = ["Pending", "Running", "Finished"] := by decide

/-- the four on-busy modes, and the defaults the CLI model assumes when a flag is absent -/
theorem on_busy_modes_are_the_models : Gen.onBusyVariants = ["Queue", "DoNothing", "Restart", "Signal"] := by decide
theorem cli_defaults_are_the_models :
    Gen.onBusyDefault = "do-nothing" ∧ ({} : Ca.Cfg).mode = .doNothing ∧ Gen.stopTimeoutDefault = "10s" ∧ ({} : Ca.Cfg).stopTimeout = 10000 := by decide

theorem process_ends_are_the_models : Gen.processEndVariants = ["Success", "ExitError", "ExitSignal", "ExitStop", "Exception", "Continued"] := by decide

end Jm
