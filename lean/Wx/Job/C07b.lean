import Wx.Job.C07
import Wx.Job.Inject
/-! C07 continued: receive logic, turns, and every state the simulator reaches with API-shaped sends. -/
namespace Jm

/-! cfg is never modified -/
@[simp] theorem emit_cfg (s : St) (o) : (s.emit o).cfg = s.cfg := rfl
@[simp] theorem raise_cfg (s : St) (f) : (s.raise f).cfg = s.cfg := (raise_same s f).cfg
@[simp] theorem raiseAll_cfg (s : St) (fs) : (s.raiseAll fs).cfg = s.cfg := (raiseAll_same fs s).cfg
@[simp] theorem endFlags_cfg (s : St) : s.endFlags.cfg = s.cfg := by unfold St.endFlags; exact (raiseAll_same _ _).cfg
@[simp] theorem errHandler_cfg (s : St) : s.errHandler.cfg = s.cfg := (quiet_errHandler s).1.cfg
@[simp] theorem signalChild_cfg (s : St) (c g) : (s.signalChild c g).cfg = s.cfg := (quiet_signalChild s c g).1.cfg
@[simp] theorem killReap_cfg (s : St) (c) : (s.killReap c).cfg = s.cfg := (quiet_killReap s c).1.cfg
@[simp] theorem reset_cfg (s : St) : s.reset.cfg = s.cfg := (quiet_reset s).1.cfg
@[simp] theorem spawn_cfg (s : St) : s.spawn.1.cfg = s.cfg := (quiet_spawn s).1.cfg
@[simp] theorem reap_cfg (s : St) (c) : (s.reap c).cfg = s.cfg := (reap_fields s c).2.2.2.2.2.2.2.1

theorem handle_cfg (s : St) (m : Msg) : (handle s m).cfg = s.cfg := by
  unfold handle
  cases m.ctl <;> (try simp only []) <;> (try cases s.cs) <;> (try simp only []) <;>
    (repeat' split) <;> (first | rfl | simp)

theorem continueRestart_cfg (s : St) : s.continueRestart.cfg = s.cfg := by
  unfold St.continueRestart
  split
  · (try simp only []); (repeat' split) <;> (first | rfl | simp)
  · rfl

theorem waitBranch_cfg (s : St) (c) : (waitBranch s c).cfg = s.cfg := by
  unfold waitBranch; rw [continueRestart_cfg]; simp

/-! the receive logic -/

structure Inv7 (s : St) : Prop where
  cfg : s.cfg = Fixes.all
  good : Good none s
  cp : Coupled s

theorem normal_cand {s : St} (hf7 : s.cfg.f7 = true) (h : Src.normal ∈ recvCandidates s) : s.timer = none := by
  unfold recvCandidates at h
  simp only [hf7, if_true] at h
  cases htm : s.timer with
  | none => rfl
  | some t =>
    exfalso
    simp only [htm] at h
    split at h
    · simp at h
    · simp only [Bool.false_eq_true, if_false] at h
      split at h
      · simp at h
      · split at h <;> simp at h

theorem take_spec {s s1 : St} {m : Msg} {src : Src} (h : Inv7 s) (hsrc : src ∈ recvCandidates s)
    (ht : takeFrom s src = some (m, s1)) :
    s1.cfg = Fixes.all ∧ Good (some m.done) s1 ∧ Pre s1 m ∧ (m.ctl = .continueTGR ∨ Coupled s1) := by
  have hf7 : s.cfg.f7 = true := by rw [h.cfg]; rfl
  cases src with
  | timer =>
    simp only [takeFrom] at ht
    cases htm : s.timer with
    | none => simp [htm] at ht
    | some t =>
      simp only [htm, Option.map_some, Option.some.injEq, Prod.mk.injEq] at ht
      obtain ⟨rfl, rfl⟩ := ht
      refine ⟨h.cfg, ⟨?_, h.good.sh⟩, ⟨?_, ?_⟩, ?_⟩
      · intro g hgi
        rcases h.good.nl g hgi with hh | hh
        · rcases hh with hh | hh | hh
          · exact Or.inl (Or.inl hh)
          · exact Or.inl (Or.inr (Or.inl hh))
          · simp only [St.held, htm, timerFlag, List.mem_append, List.mem_singleton] at hh
            rcases hh with (hh | hh) | hh
            · right; rw [hh]
            · exact Or.inl (Or.inr (Or.inr (by simp only [St.held, List.mem_append]; exact Or.inl (Or.inr hh))))
            · exact Or.inl (Or.inr (Or.inr (by simp only [St.held, List.mem_append]; exact Or.inr hh)))
        · cases hh
      · intro ⟨g, r, hgr⟩
        by_cases hr : t.isRestart = true <;> simp [hr] at hgr
      · intro hct
        refine ⟨rfl, ?_⟩
        intro f hf
        obtain ⟨t', ht', _, hd⟩ := h.cp.1 f hf
        rw [htm] at ht'; cases ht'; exact hd.symm
      · by_cases hr : t.isRestart = true
        · left; simp [hr]
        · right
          refine ⟨?_, ?_⟩
          · intro f hf
            obtain ⟨t', ht', hr', _⟩ := h.cp.1 f hf
            rw [htm] at ht'; cases ht'; exact absurd hr' hr
          · intro t' ht' _; cases ht'
  | urgent =>
    simp only [takeFrom] at ht
    cases hq : s.urgent with
    | nil => simp [hq] at ht
    | cons a r =>
      simp only [hq, Option.some.injEq, Prod.mk.injEq] at ht
      obtain ⟨rfl, rfl⟩ := ht
      have hshape := h.good.sh.1 a (by rw [hq]; exact List.mem_cons_self)
      refine ⟨h.cfg, ⟨?_, ⟨?_, h.good.sh.2⟩⟩, ⟨?_, ?_⟩, Or.inr (coupled_te (s := s) ⟨rfl, rfl⟩ h.cp)⟩
      · intro g hgi
        rcases h.good.nl g hgi with hh | hh
        · rcases hh with hh | hh | hh
          · simp only [St.pending, hq, List.map_append, List.map_cons, List.mem_append, List.mem_cons, List.mem_map] at hh
            rcases hh with (hh | hh) | (hh | hh)
            · exact Or.inl (Or.inl (by simp only [St.pending, List.map_append, List.mem_append, List.mem_map]; exact Or.inl (Or.inl hh)))
            · exact Or.inl (Or.inl (by simp only [St.pending, List.map_append, List.mem_append, List.mem_map]; exact Or.inl (Or.inr hh)))
            · right; rw [hh]
            · exact Or.inl (Or.inl (by simp only [St.pending, List.map_append, List.mem_append, List.mem_map]; exact Or.inr hh))
          · exact Or.inl (Or.inr (Or.inl hh))
          · exact Or.inl (Or.inr (Or.inr hh))
        · cases hh
      · intro x hx; exact h.good.sh.1 x (by rw [hq]; exact List.mem_cons_of_mem _ hx)
      · intro ⟨g, r', hgr⟩; rcases hshape with hs | hs <;> rw [hs] at hgr <;> simp at hgr
      · intro hct; rcases hshape with hs | hs <;> rw [hs] at hct <;> cases hct
  | high =>
    simp only [takeFrom] at ht
    cases hq : s.high with
    | nil => simp [hq] at ht
    | cons a r =>
      simp only [hq, Option.some.injEq, Prod.mk.injEq] at ht
      obtain ⟨rfl, rfl⟩ := ht
      have hshape := h.good.sh.2 a (by rw [hq]; exact List.mem_cons_self)
      refine ⟨h.cfg, ⟨?_, ⟨h.good.sh.1, ?_⟩⟩, ⟨?_, ?_⟩, Or.inr (coupled_te (s := s) ⟨rfl, rfl⟩ h.cp)⟩
      · intro g hgi
        rcases h.good.nl g hgi with hh | hh
        · rcases hh with hh | hh | hh
          · simp only [St.pending, hq, List.map_append, List.map_cons, List.mem_append, List.mem_cons, List.mem_map] at hh
            rcases hh with (hh | (hh | hh)) | hh
            · exact Or.inl (Or.inl (by simp only [St.pending, List.map_append, List.mem_append, List.mem_map]; exact Or.inl (Or.inl hh)))
            · right; rw [hh]
            · exact Or.inl (Or.inl (by simp only [St.pending, List.map_append, List.mem_append, List.mem_map]; exact Or.inl (Or.inr hh)))
            · exact Or.inl (Or.inl (by simp only [St.pending, List.map_append, List.mem_append, List.mem_map]; exact Or.inr hh))
          · exact Or.inl (Or.inr (Or.inl hh))
          · exact Or.inl (Or.inr (Or.inr hh))
        · cases hh
      · intro x hx; exact h.good.sh.2 x (by rw [hq]; exact List.mem_cons_of_mem _ hx)
      · intro ⟨g, r', hgr⟩; rw [hshape] at hgr; simp at hgr
      · intro hct; rw [hshape] at hct; cases hct
  | normal =>
    have htm : s.timer = none := normal_cand hf7 hsrc
    have hoe : s.onEndRestart = none := by
      cases hh : s.onEndRestart with
      | none => rfl
      | some f => obtain ⟨t, ht', _⟩ := h.cp.1 f hh; rw [htm] at ht'; cases ht'
    simp only [takeFrom] at ht
    cases hq : s.normal with
    | nil => simp [hq] at ht
    | cons a r =>
      simp only [hq, Option.some.injEq, Prod.mk.injEq] at ht
      obtain ⟨rfl, rfl⟩ := ht
      refine ⟨h.cfg, ⟨?_, h.good.sh⟩, ⟨fun _ => ⟨htm, hoe⟩, fun _ => ⟨htm, fun f hf => ?_⟩⟩,
        Or.inr (coupled_te (s := s) ⟨rfl, rfl⟩ h.cp)⟩
      · intro g hgi
        rcases h.good.nl g hgi with hh | hh
        · rcases hh with hh | hh | hh
          · simp only [St.pending, hq, List.map_append, List.map_cons, List.mem_append, List.mem_cons, List.mem_map] at hh
            rcases hh with ((hh | hh) | hh) | hh
            · right; rw [hh]
            · exact Or.inl (Or.inl (by simp only [St.pending, List.map_append, List.mem_append, List.mem_map]; exact Or.inl (Or.inl hh)))
            · exact Or.inl (Or.inl (by simp only [St.pending, List.map_append, List.mem_append, List.mem_map]; exact Or.inl (Or.inr hh)))
            · exact Or.inl (Or.inl (by simp only [St.pending, List.map_append, List.mem_append, List.mem_map]; exact Or.inr hh))
          · exact Or.inl (Or.inr (Or.inl hh))
          · exact Or.inl (Or.inr (Or.inr hh))
        · cases hh
      · have : s.onEndRestart = some f := hf
        rw [hoe] at this; cases this

/-! turns -/

theorem inv7_quiet {t s : St} (h : Quiet t s) (hi : Inv7 s) : Inv7 t :=
  ⟨by rw [h.1.cfg]; exact hi.cfg, good_quiet h hi.good, coupled_te (te_quiet h) hi.cp⟩

theorem inv7_turnCandidates {s : St} (h : Inv7 s) : ∀ x ∈ turnCandidates s, Inv7 x := by
  intro x hx
  unfold turnCandidates at hx
  rcases List.mem_append.mp hx with hx | hx
  · cases hw : waitReady s with
    | none => simp [hw] at hx
    | some c =>
      simp only [hw, List.mem_singleton] at hx
      subst hx
      have hp : Inv7 { s with parked := false } := inv7_quiet (s := s) ⟨⟨rfl, rfl, rfl, rfl, rfl, rfl, rfl, rfl⟩, rfl⟩ h
      obtain ⟨g, c'⟩ := good_waitBranch c hp.cfg hp.good hp.cp
      exact ⟨by rw [waitBranch_cfg]; exact hp.cfg, g, c'⟩
  · obtain ⟨src, hsrc, hres⟩ := List.mem_filterMap.mp hx
    cases ht : takeFrom s src with
    | none => simp [ht] at hres
    | some p =>
      obtain ⟨m, s1⟩ := p
      simp only [ht, Option.some.injEq] at hres
      subst hres
      obtain ⟨c1, g1, p1, cp1⟩ := take_spec h hsrc ht
      have q : Quiet { s1 with parked := false } s1 := ⟨⟨rfl, rfl, rfl, rfl, rfl, rfl, rfl, rfl⟩, rfl⟩
      have c2 : ({ s1 with parked := false } : St).cfg = Fixes.all := c1
      have p2 : Pre { s1 with parked := false } m := ⟨p1.graceful, p1.cont⟩
      have cp2 : m.ctl = .continueTGR ∨ Coupled { s1 with parked := false } :=
        cp1.imp id (fun hc => coupled_te (te_quiet q) hc)
      exact ⟨by rw [handle_cfg]; exact c2, good_handle m c2 p2 (good_quiet q g1), coupled_handle m c2 p2 cp2⟩

theorem inv7_closedOutcome {s : St} (h : Inv7 s) : ∀ x ∈ closedOutcome s, Inv7 x := by
  intro x hx
  unfold closedOutcome at hx
  split at hx
  · have hf16 : s.cfg.f16 = true := by rw [h.cfg]; rfl
    simp only [hf16, if_true, List.mem_singleton] at hx
    subst hx
    have q : Quiet (({ s with alive := false } : St).emit .ended) s :=
      (quiet_emit _ _).trans ⟨⟨rfl, rfl, rfl, rfl, rfl, rfl, rfl, rfl⟩, rfl⟩
    have hq := inv7_quiet q h
    exact ⟨by rw [raise_cfg]; exact hq.cfg, good_raise 0 hq.good, coupled_te (te_raise _ _) hq.cp⟩
  · simp at hx

theorem inv7_turns {s : St} (h : Inv7 s) : ∀ s' ∈ turns s, Inv7 s' := by
  intro s' hs'
  unfold turns at hs'
  split at hs'
  · simp at hs'
  · split at hs'
    · exact inv7_closedOutcome h s' hs'
    · exact inv7_turnCandidates h s' hs'

/-! waiters only touch slots / waiters / log -/

theorem quiet_register (s : St) (f w) : Quiet (s.register f w) s := by
  unfold St.register; split <;> exact ⟨⟨rfl, rfl, rfl, rfl, rfl, rfl, rfl, rfl⟩, rfl⟩

theorem quiet_resolveWaiter (s : St) (w) : Quiet (s.resolveWaiter w) s := by
  obtain ⟨a, b, c, d, e, f, g, i, _, k⟩ := resolveWaiter_frame7 s w
  exact ⟨⟨a, b, c, d, e, f, i, k⟩, g⟩

theorem quiet_pollWaiter (s : St) (w) : Quiet (pollWaiter s w) s := by
  unfold pollWaiter
  split
  · split
    · exact Quiet.refl s
    · split
      · exact quiet_resolveWaiter _ _
      · simp only []
        split
        · exact (quiet_resolveWaiter _ _).trans (quiet_register _ _ _)
        · exact (quiet_register _ _ _).trans (quiet_register _ _ _)
  · exact Quiet.refl s

theorem quiet_foldl_poll (ws : List WaiterId) (s : St) : Quiet (ws.foldl pollWaiter s) s := by
  induction ws generalizing s with
  | nil => exact Quiet.refl s
  | cons w ws ih => exact (ih _).trans (quiet_pollWaiter s w)

theorem quiet_drainPolls (s : St) : Quiet (drainPolls s) s := by
  unfold drainPolls
  exact (quiet_foldl_poll _ _).trans ⟨⟨rfl, rfl, rfl, rfl, rfl, rfl, rfl, rfl⟩, rfl⟩

theorem quiet_park (s : St) : Quiet (park s) s := by
  unfold park; split; exact ⟨⟨rfl, rfl, rfl, rfl, rfl, rfl, rfl, rfl⟩, rfl⟩; exact Quiet.refl s

theorem inv7_settleAll (fuel : Nat) {s : St} (h : Inv7 s) : ∀ x ∈ settleAll fuel s, Inv7 x := by
  induction fuel generalizing s with
  | zero => intro x hx; simp [settleAll] at hx; subst hx; exact h
  | succ n ih =>
    intro x hx
    unfold settleAll at hx
    cases hts : turns s with
    | nil =>
      simp only [hts] at hx
      by_cases hp : (park s).pendingPolls.isEmpty = true
      · simp only [hp, if_true, List.mem_singleton] at hx; subst hx; exact inv7_quiet (quiet_park s) h
      · simp only [hp, Bool.false_eq_true, if_false] at hx
        exact ih (inv7_quiet ((quiet_drainPolls _).trans (quiet_park s)) h) x hx
    | cons t ts =>
      simp only [hts] at hx
      obtain ⟨y, hy, hxy⟩ := List.mem_flatMap.mp hx
      exact ih (inv7_turns h y (by rw [hts]; exact hy)) x hxy

theorem inv7_advanceAll (fuel target : Nat) {s : St} (h : Inv7 s) : ∀ x ∈ advanceAll fuel target s, Inv7 x := by
  induction fuel generalizing s with
  | zero => intro x hx; simp [advanceAll] at hx; subst hx; exact h
  | succ n ih =>
    intro x hx
    unfold advanceAll at hx
    obtain ⟨y, hy, hxy⟩ := List.mem_flatMap.mp hx
    have hyi := inv7_settleAll 200 h y hy
    by_cases hidle : (!(Jm.turns y).isEmpty) = true
    · simp only [hidle, if_true, List.mem_singleton] at hxy; subst hxy; exact hyi
    simp only [hidle, Bool.false_eq_true, if_false] at hxy
    split at hxy
    · rename_i t _
      exact ih (s := { y with now := t }) (inv7_quiet (s := y) ⟨⟨rfl, rfl, rfl, rfl, rfl, rfl, rfl, rfl⟩, rfl⟩ hyi) x hxy
    · exact inv7_settleAll 200 (s := { y with now := target })
        (inv7_quiet (s := y) ⟨⟨rfl, rfl, rfl, rfl, rfl, rfl, rfl, rfl⟩, rfl⟩ hyi) x hxy

/-! sends shaped like the public API -/

/-- what `Job`'s methods can put on each queue (job.rs; `control()` is normal priority only) -/
def ShapeOk (p : Prio) (c : Ctl) : Prop :=
  match p with
  | .urgent => c = .stop ∨ c = .delete
  | .high => c = .nextEnding
  | .normal => True

theorem mem_pending_enqueue (s : St) (p : Prio) (m : Msg) (f : FlagId) :
    f ∈ (enqueue s p m).pending ↔ f ∈ s.pending ∨ f = m.done := by
  cases p <;> simp only [enqueue, St.pending, List.map_append, List.mem_append, List.map_cons, List.map_nil,
    List.mem_singleton]
  · constructor
    · rintro (((h | h) | h) | h)
      · exact Or.inl (Or.inl (Or.inl h))
      · exact Or.inr h
      · exact Or.inl (Or.inl (Or.inr h))
      · exact Or.inl (Or.inr h)
    · rintro (((h | h) | h) | h)
      · exact Or.inl (Or.inl (Or.inl h))
      · exact Or.inl (Or.inr h)
      · exact Or.inr h
      · exact Or.inl (Or.inl (Or.inr h))
  · constructor
    · rintro ((h | (h | h)) | h)
      · exact Or.inl (Or.inl (Or.inl h))
      · exact Or.inl (Or.inl (Or.inr h))
      · exact Or.inr h
      · exact Or.inl (Or.inr h)
    · rintro (((h | h) | h) | h)
      · exact Or.inl (Or.inl h)
      · exact Or.inl (Or.inr (Or.inl h))
      · exact Or.inr h
      · exact Or.inl (Or.inr (Or.inr h))
  · constructor
    · rintro ((h | h) | (h | h))
      · exact Or.inl (Or.inl (Or.inl h))
      · exact Or.inl (Or.inl (Or.inr h))
      · exact Or.inl (Or.inr h)
      · exact Or.inr h
    · rintro (((h | h) | h) | h)
      · exact Or.inl (Or.inl h)
      · exact Or.inl (Or.inr h)
      · exact Or.inr (Or.inl h)
      · exact Or.inr (Or.inr h)

theorem enqueue_fields (s : St) (p : Prio) (m : Msg) :
    (enqueue s p m).cfg = s.cfg ∧ (enqueue s p m).timer = s.timer ∧ (enqueue s p m).onEnd = s.onEnd ∧
    (enqueue s p m).onEndRestart = s.onEndRestart ∧ (enqueue s p m).raised = s.raised ∧
    (enqueue s p m).issued = s.issued ++ [m.done] := by
  cases p <;> exact ⟨rfl, rfl, rfl, rfl, rfl, rfl⟩

theorem shapes_enqueue {s : St} (p : Prio) (m : Msg) (hs : ShapeOk p m.ctl) (h : Shapes s) : Shapes (enqueue s p m) := by
  cases p <;> simp only [enqueue, Shapes]
  · exact h
  · refine ⟨h.1, ?_⟩
    intro x hx
    rcases List.mem_append.mp hx with hx | hx
    · exact h.2 x hx
    · simp at hx; subst hx; exact hs
  · refine ⟨?_, h.2⟩
    intro x hx
    rcases List.mem_append.mp hx with hx | hx
    · exact h.1 x hx
    · simp at hx; subst hx; exact hs

theorem inv7_enqueue {s : St} (p : Prio) (m : Msg) (hs : ShapeOk p m.ctl) (h : Inv7 s) : Inv7 (enqueue s p m) := by
  obtain ⟨hc, htm, hoe, hoer, hr, hi⟩ := enqueue_fields s p m
  refine ⟨by rw [hc]; exact h.cfg, ⟨?_, shapes_enqueue p m hs h.good.sh⟩, coupled_te (s := s) ⟨htm, hoer⟩ h.cp⟩
  intro g hgi
  rw [hi] at hgi
  rcases List.mem_append.mp hgi with hg | hg
  · rcases h.good.nl g hg with hh | hh
    · left
      rcases hh with hh | hh | hh
      · exact Or.inl ((mem_pending_enqueue s p m g).mpr (Or.inl hh))
      · exact Or.inr (Or.inl (by simpa [St.isRaised, hr] using hh))
      · exact Or.inr (Or.inr (by simpa [St.held, htm, hoe, hoer] using hh))
    · cases hh
  · simp at hg; subst hg; exact Or.inl (Or.inl ((mem_pending_enqueue s p m _).mpr (Or.inr rfl)))

theorem inv7_doSend {x : Sim} (p : Prio) (cs : List Ctl) (aw : Bool) (hs : ∀ c ∈ cs, ShapeOk p c)
    (h : Inv7 x.st) : Inv7 (doSend x p cs aw).st := by
  unfold doSend
  simp only []
  split
  · split
    · exact inv7_quiet (quiet_emit _ _) h
    · exact h
  · have key : ∀ (l : List Ctl) (acc : St × FlagId × FlagId), (∀ c ∈ l, ShapeOk p c) → Inv7 acc.1 →
        Inv7 (l.foldl (fun (acc : St × FlagId × FlagId) c =>
          let (st, nf, _) := acc
          (enqueue st p ⟨c, nf⟩, nf + 1, nf)) acc).1 := by
      intro l
      induction l with
      | nil => intro acc _ ha; exact ha
      | cons c l ih =>
        intro acc hl ha
        exact ih _ (fun c' hc' => hl c' (List.mem_cons_of_mem _ hc'))
          (inv7_enqueue p ⟨c, acc.2.1⟩ (hl c (List.mem_cons_self)) ha)
    have := key cs (x.st, x.nextFlag, 0) hs h
    revert this
    generalize (cs.foldl _ (x.st, x.nextFlag, 0)) = r
    obtain ⟨st, nf, last⟩ := r
    intro hst
    simp only []
    split
    · exact inv7_quiet (s := st) ((quiet_pollWaiter _ _).trans ⟨⟨rfl, rfl, rfl, rfl, rfl, rfl, rfl, rfl⟩, rfl⟩) hst
    · exact hst

/-- operations a client of the `Job` handle can perform -/
def OpOk : Op → Prop
  | .send p cs _ => ∀ c ∈ cs, ShapeOk p c
  | .inject p cs _ => ∀ c ∈ cs, ShapeOk p c
  | _ => True

theorem inv7_stepOp {x : Sim} (o : Op) (ho : OpOk o) (h : Inv7 x.st) : ∀ y ∈ stepOp x o, Inv7 y.st := by
  intro y hy
  cases o with
  | send p cs aw => simp only [stepOp, List.mem_singleton] at hy; subst hy; exact inv7_doSend _ _ _ ho h
  | settle =>
    simp only [stepOp, List.mem_map] at hy
    obtain ⟨st, hst, rfl⟩ := hy
    exact inv7_settleAll 200 h st hst
  | advance ms =>
    simp only [stepOp, List.mem_map] at hy
    obtain ⟨st, hst, rfl⟩ := hy
    exact inv7_advanceAll 64 _ h st hst
  | dropHandles =>
    simp only [stepOp, List.mem_singleton] at hy; subst hy
    exact inv7_quiet (s := x.st) ⟨⟨rfl, rfl, rfl, rfl, rfl, rfl, rfl, rfl⟩, rfl⟩ h
  | inject p cs aw =>
    simp only [stepOp] at hy
    exact injectAll_ind (fun z => Inv7 z.st) p cs aw (fun z s' hz hs' => inv7_turns hz s' hs') (fun z hz => inv7_doSend p cs aw ho hz) 50 h y hy
  | clone w =>
    simp only [stepOp, List.mem_singleton] at hy; subst hy
    unfold cloneWaiter
    split
    · exact inv7_quiet (s := x.st) ((quiet_pollWaiter _ _).trans ⟨⟨rfl, rfl, rfl, rfl, rfl, rfl, rfl, rfl⟩, rfl⟩) h
    · exact inv7_quiet (s := x.st) (quiet_emit _ _) h

theorem inv7_runOps (ops : List Op) (hok : ∀ o ∈ ops, OpOk o) {x : Sim} (h : Inv7 x.st) :
    ∀ y ∈ runOps x ops, Inv7 y.st := by
  induction ops generalizing x with
  | nil => intro y hy; simp [runOps] at hy; subst hy; exact h
  | cons o os ih =>
    intro y hy
    simp only [runOps] at hy
    obtain ⟨z, hz, hyz⟩ := List.mem_flatMap.mp hy
    exact ih (fun o' ho' => hok o' (List.mem_cons_of_mem _ ho'))
      (inv7_stepOp o (hok o (List.mem_cons_self)) h z hz) y hyz

/-- **C07 (no lost flag)** — with the repairs in place, for every script of API-shaped operations,
    every child behaviour and every race resolution: each control flag ever issued is still queued,
    already raised, or held by the timer / `on_end` / the restart slot; and the restart flag lives
    exactly as long as its restart timer. -/
theorem c07_noLost (behs : List Beh) (ops : List Op) (hok : ∀ o ∈ ops, OpOk o) :
    ∀ y ∈ runOps { st := { cfg := Fixes.all, behs := behs, hookSet := true, parked := true } } ops,
      NoLost y.st ∧ Coupled y.st := by
  intro y hy
  have h0 : Inv7 ({ cfg := Fixes.all, behs := behs, hookSet := true, parked := true } : St) := by
    refine ⟨rfl, ⟨?_, ?_⟩, ?_⟩
    · intro g hg; simp at hg
    · exact ⟨by simp, by simp⟩
    · exact ⟨by simp, by simp⟩
  have := inv7_runOps ops hok (x := { st := { cfg := Fixes.all, behs := behs, hookSet := true, parked := true } }) h0 y hy
  exact ⟨this.good.nl, this.cp⟩

/-- Bool version of `Acc`/`NoLost`, for witnesses -/
def St.noLostB (s : St) : Bool :=
  s.issued.all (fun f => s.pending.contains f || s.isRaised f || s.held.contains f)

theorem noLostB_of_noLost {s : St} (h : NoLost s) : s.noLostB = true := by
  unfold St.noLostB
  rw [List.all_eq_true]
  intro f hf
  rcases h f hf with hh | hh
  · rcases hh with hh | hh | hh
    · simp [hh]
    · simp [hh]
    · simp [hh]
  · cases hh

/-- the same statement is FALSE for the code as it is today: the F1 history (graceful stop, child exits
    inside the grace period) loses the graceful stop's flag -/
theorem c07_noLost_fails_today :
    ∃ y ∈ runOps { st := { cfg := Fixes.none, behs := [.exitsAfterSignal 30], hookSet := true, parked := true } }
        [.send .normal [.start] true, .settle, .advance 10, .send .normal [.gracefulStop 15 100] true, .advance 300],
      ¬ NoLost y.st := by
  refine ⟨_, List.mem_of_mem_head? (a := _) rfl, ?_⟩
  intro h
  have := noLostB_of_noLost h
  revert this
  decide

#print axioms c07_noLost
end Jm
