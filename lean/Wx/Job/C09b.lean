import Wx.Job.C09
/-! C09 continued: the natural end of a child (the `wait()` arm) against the documented behaviour. -/
namespace Jm

/-- documented: the job becomes `finished status`; a pending graceful restart then starts the
    replacement (exactly once) -/
def specExit (sp : Sp) (c : ChildId) (status : Nat) (restartPending : Bool) : Sp × List Obs :=
  let sp1 := { sp with cs := .finished status }
  if restartPending then
    let (sp2, e) := sp1.respawn
    (sp2, [.reaped c status] ++ e)
  else (sp1, [.reaped c status])

def St.statusOf (s : St) (c : ChildId) : Nat := (s.child? c).map (·.status) |>.getD 0

theorem reap_absfx (s : St) (c) :
    (s.reap c).abs = { s.abs with cs := .finished (s.statusOf c) } ∧ (s.reap c).fx = .reaped c (s.statusOf c) :: s.fx ∧
    (s.reap c).onEndRestart = s.onEndRestart ∧ (s.reap c).cfg = s.cfg := by
  unfold St.reap St.statusOf
  simp only []
  split <;> exact ⟨rfl, by simp [St.fx, St.emit, St.setChild, isTicket], rfl, rfl⟩

theorem waitBranch_refines (s : St) (c : ChildId) (hall : s.cfg = Fixes.all) :
    (waitBranch s c).abs = (specExit s.abs c (s.statusOf c) s.onEndRestart.isSome).1 ∧
    (waitBranch s c).fx = (specExit s.abs c (s.statusOf c) s.onEndRestart.isSome).2.reverse ++ s.fx := by
  obtain ⟨a, b, e, g⟩ := reap_absfx s c
  unfold waitBranch
  generalize hk : ((s.reap c).raiseAll s.stopFlags).endFlags = k
  have ka : k.abs = { s.abs with cs := .finished (s.statusOf c) } := by rw [← hk, endFlags_abs, raiseAll_abs, a]
  have kf : k.fx = .reaped c (s.statusOf c) :: s.fx := by rw [← hk, endFlags_fx, raiseAll_fx, b]
  have ke : k.onEndRestart = s.onEndRestart := by
    rw [← hk]
    have h1 := (raiseAll_same s.stopFlags (s.reap c)).onEndRestart
    have h2 : ((s.reap c).raiseAll s.stopFlags).endFlags.onEndRestart = ((s.reap c).raiseAll s.stopFlags).onEndRestart := by
      unfold St.endFlags; exact (raiseAll_same _ _).onEndRestart
    rw [h2, h1, e]
  have kc : k.cfg = s.cfg := by rw [← hk]; simp [g]
  have kn : NotRunning k := by
    intro c' h
    have : k.abs.cs = .running c' := h
    rw [ka] at this; cases this
  unfold St.continueRestart
  cases hr : s.onEndRestart with
  | none =>
    rw [ke, hr]
    simp only [specExit, Option.isSome_none, Bool.false_eq_true, if_false]
    exact ⟨ka, by rw [kf]; simp⟩
  | some f =>
    rw [ke, hr]
    simp only [specExit, Option.isSome_some, if_true, Sp.respawn]
    have hxa : ({ k with onEndRestart := none } : St).abs = k.abs := rfl
    have hxf : ({ k with onEndRestart := none } : St).fx = k.fx := rfl
    have hn : NotRunning ({ k with onEndRestart := none } : St) := kn
    have hf2 : k.cfg.f2 = true := by rw [kc, hall]; rfl
    simp only [hf2, if_true]
    generalize ({ k with onEndRestart := none } : St) = x at hxa hxf hn ⊢
    obtain ⟨r1, r2, r3⟩ := reset_abs x hn
    have := spawn_tail _ r3 f
    rw [r1, r2, hxa, hxf, ka, kf] at this
    refine ⟨this.1, ?_⟩
    rw [this.2.1]; simp

#print axioms waitBranch_refines
end Jm
