import Wx.Job.C06
/-! C09: the documented API as the simplest machine, and `handle` refines it step by step. -/
namespace Jm

structure Sp where
  cs : CS
  prev : Option CS
  hook : Bool
  errh : Bool
  n : Nat                 -- spawn attempts so far (= id of the next child)
  behs : List Beh         -- what each spawn attempt will do (environment)
  deriving DecidableEq, Repr

def Sp.beh (sp : Sp) : Beh :=
  match sp.behs[sp.n]? with
  | some b => b
  | none => sp.behs.getLast?.getD .ignores

def Sp.reset (sp : Sp) : Sp := { sp with prev := some sp.cs, cs := .pending }

/-- hook (if set), then the spawn attempt; a failure goes to the error handler (if set) -/
def Sp.spawnB (sp : Sp) (b : Beh) : Sp × List Obs :=
  let pre : List Obs := if sp.hook then [.hook] else []
  match b with
  | .spawnFails => ({ sp with n := sp.n + 1 }, pre ++ [.spawnFail] ++ (if sp.errh then [.errh] else []))
  | _ => ({ sp with cs := .running sp.n, n := sp.n + 1 }, pre ++ [.spawn sp.n])
def Sp.spawn (sp : Sp) : Sp × List Obs := sp.spawnB sp.beh

def Sp.respawn (sp : Sp) : Sp × List Obs := sp.reset.spawn

/-- documented effect of one control: new state, what happens to processes (in order), and whether
    the control's ticket resolves in this very step -/
def specStep (sp : Sp) (ctl : Ctl) : Sp × List Obs × Bool :=
  match ctl with
  | .start =>
    match sp.cs with
    | .running _ => (sp, [], true)
    | _ => let (sp', e) := sp.respawn; (sp', e, true)
  | .stop =>
    match sp.cs with
    | .running c => ({ sp with cs := .finished 9 }, [.kill c, .reaped c 9], true)
    | _ => (sp, [], true)
  | .tryRestart =>
    match sp.cs with
    | .running c => let (sp', e) := ({ sp with cs := .finished 9 }).respawn; (sp', [.kill c, .reaped c 9] ++ e, true)
    | _ => (sp, [], true)
  | .gracefulStop sig _ =>
    match sp.cs with
    | .running c => (sp, [.signal c sig], false)
    | _ => (sp, [], true)
  | .tryGracefulRestart sig _ =>
    match sp.cs with
    | .running c => (sp, [.signal c sig], false)
    | _ => (sp, [], true)
  | .continueTGR =>
    match sp.cs with
    | .running c => let (sp', e) := ({ sp with cs := .finished 9 }).respawn; (sp', [.kill c, .reaped c 9] ++ e, true)
    | _ => let (sp', e) := sp.respawn; (sp', e, true)
  | .signal sig =>
    match sp.cs with
    | .running c => (sp, [.signal c sig], true)
    | _ => (sp, [], true)
  | .nextEnding =>
    match sp.cs with
    | .running _ => (sp, [], false)
    | _ => (sp, [], true)
  | .func id => (sp, [.func id (csName sp.cs) (prevName sp.prev)], true)
  | .delete => (sp, [.ended], true)
  | .setHook => ({ sp with hook := true }, [], true)
  | .unsetHook => ({ sp with hook := false }, [], true)
  | .setErr => ({ sp with errh := true }, [], true)
  | .unsetErr => ({ sp with errh := false }, [], true)

def St.abs (s : St) : Sp := ⟨s.cs, s.prev, s.hookSet, s.errSet, s.spawnCount, s.behs⟩

theorem abs_beh (s : St) : s.abs.beh = behAt s := rfl

def isTicket : Obs → Bool | .ticket _ => true | _ => false
/-- process-visible effects so far, newest first -/
def St.fx (s : St) : List Obs := (s.log.map (·.2)).filter (fun o => !isTicket o)

/-! frame facts: abs and fx under the helpers -/
theorem fx_emit (s : St) (o : Obs) (h : isTicket o = false) : (s.emit o).fx = o :: s.fx := by
  simp [St.fx, St.emit, h]
@[simp] theorem abs_emit (s : St) (o) : (s.emit o).abs = s.abs := rfl

theorem resolveWaiter_absfx (s : St) (w) : (s.resolveWaiter w).abs = s.abs ∧ (s.resolveWaiter w).fx = s.fx := by
  unfold St.resolveWaiter
  split
  · split
    · exact ⟨rfl, rfl⟩
    · exact ⟨rfl, by simp [St.fx, St.emit, isTicket]⟩
  · exact ⟨rfl, rfl⟩

theorem foldl_resolve_absfx (ws : List WaiterId) (s : St) :
    (ws.foldl St.resolveWaiter s).abs = s.abs ∧ (ws.foldl St.resolveWaiter s).fx = s.fx := by
  induction ws generalizing s with
  | nil => exact ⟨rfl, rfl⟩
  | cons w ws ih =>
    simp only [List.foldl_cons]
    obtain ⟨h1, h2⟩ := ih (s.resolveWaiter w)
    obtain ⟨h3, h4⟩ := resolveWaiter_absfx s w
    exact ⟨h1.trans h3, h2.trans h4⟩

@[simp] theorem raise_abs (s : St) (f) : (s.raise f).abs = s.abs := by
  unfold St.raise; exact (foldl_resolve_absfx _ _).1.trans rfl
@[simp] theorem raise_fx (s : St) (f) : (s.raise f).fx = s.fx := by
  unfold St.raise; exact (foldl_resolve_absfx _ _).2.trans rfl
@[simp] theorem raiseAll_abs (s : St) (fs) : (s.raiseAll fs).abs = s.abs := by
  unfold St.raiseAll
  induction fs generalizing s with
  | nil => rfl
  | cons f fs ih => simp only [List.foldl_cons]; rw [ih, raise_abs]
@[simp] theorem raiseAll_fx (s : St) (fs) : (s.raiseAll fs).fx = s.fx := by
  unfold St.raiseAll
  induction fs generalizing s with
  | nil => rfl
  | cons f fs ih => simp only [List.foldl_cons]; rw [ih, raise_fx]
@[simp] theorem endFlags_abs (s : St) : s.endFlags.abs = s.abs := by
  unfold St.endFlags; show (s.raiseAll s.onEnd).abs = s.abs; simp
@[simp] theorem endFlags_fx (s : St) : s.endFlags.fx = s.fx := by
  unfold St.endFlags; show (s.raiseAll s.onEnd).fx = s.fx; simp

theorem signalChild_abs (s : St) (c g) : (s.signalChild c g).abs = s.abs := by
  unfold St.signalChild; simp only []; split
  · split <;> rfl
  · rfl
theorem signalChild_fx (s : St) (c g) : (s.signalChild c g).fx = .signal c g :: s.fx := by
  unfold St.fx; rw [signalChild_log]; simp [isTicket]

theorem killReap_absfx (s : St) (c) (ch) (h : s.child? c = some ch) :
    (s.killReap c).abs = { s.abs with cs := .finished 9 } ∧ (s.killReap c).fx = .reaped c 9 :: .kill c :: s.fx := by
  unfold St.killReap
  simp only [St.emit]
  have : (St.child? { s with log := (s.now, Obs.kill c) :: s.log } c) = some ch := h
  refine ⟨?_, ?_⟩
  · rw [this]; rfl
  · have := (killReap_log s c ch h).1
    unfold St.killReap at this
    simp only [St.emit] at this
    unfold St.fx
    rw [this]; simp [isTicket]

theorem errHandler_absfx (s : St) : s.errHandler.abs = s.abs ∧ s.errHandler.fx = (if s.errSet then [.errh] else []) ++ s.fx := by
  unfold St.errHandler
  split
  · next h => exact ⟨rfl, by rw [fx_emit _ _ rfl]; simp [h]⟩
  · next h => exact ⟨rfl, by simp [h]⟩

theorem reset_abs (s : St) (hn : NotRunning s) : s.reset.abs = s.abs.reset ∧ s.reset.fx = s.fx ∧ NotRunning s.reset := by
  rcases notRunning_iff.1 hn with hcs | ⟨st, hcs⟩ <;>
    (refine ⟨by simp [St.reset, hcs, St.abs, Sp.reset], by simp [St.reset, hcs, St.fx], ?_⟩
     intro c; simp [St.reset, hcs])

/-- `St.spawn` from a non-running state, with the behaviour made explicit -/
def St.spawnB (s : St) (b : Beh) : St × Bool :=
  let s := if s.hookSet then s.emit .hook else s
  let idx := s.spawnCount
  let s := { s with spawnCount := idx + 1 }
  match b with
  | .spawnFails => (s.emit .spawnFail, false)
  | _ =>
    let exitAt := match b with | .exitsAfter d => some (s.now + d) | _ => none
    let ch : Child := { id := idx, beh := b, exitAt := exitAt }
    (({ s with cs := .running idx, children := s.children ++ [ch] }).emit (.spawn idx), true)

theorem spawn_eq (s : St) (hn : NotRunning s) : s.spawn = s.spawnB (behAt s) := by
  unfold St.spawn St.spawnB
  split
  · next c hc => exact absurd hc (hn c)
  · have : behAt (if s.hookSet = true then s.emit Obs.hook else s) = behAt s := by split <;> rfl
    simp only [this]
    generalize behAt s = b
    cases b <;> rfl

theorem spawnB_refines (s : St) (b : Beh) :
    (if (s.spawnB b).2 then (s.spawnB b).1 else (s.spawnB b).1.errHandler).abs = (s.abs.spawnB b).1 ∧
    (if (s.spawnB b).2 then (s.spawnB b).1 else (s.spawnB b).1.errHandler).fx = (s.abs.spawnB b).2.reverse ++ s.fx := by
  cases hh : s.hookSet <;> cases he : s.errSet <;> cases b <;>
    simp [St.spawnB, hh, he, Sp.spawnB, St.abs, St.fx, St.emit, St.errHandler, isTicket]

/-- `spawn` (with the error handler on failure) from a non-running state is the spec's `spawn` -/
theorem spawn_refines (s : St) (hn : NotRunning s) :
    (if s.spawn.2 then s.spawn.1 else s.spawn.1.errHandler).abs = s.abs.spawn.1 ∧
    (if s.spawn.2 then s.spawn.1 else s.spawn.1.errHandler).fx = s.abs.spawn.2.reverse ++ s.fx := by
  rw [spawn_eq s hn]
  exact spawnB_refines s (behAt s)

theorem isRaised_of_raised {t s : St} (h : t.raised = s.raised) (f) : t.isRaised f = s.isRaised f := by
  unfold St.isRaised; rw [h]

theorem spawn_tail (s : St) (hn : NotRunning s) (f : FlagId) :
    (if s.spawn.2 = true then s.spawn.1.raise f else s.spawn.1.errHandler.raise f).abs = s.abs.spawn.1 ∧
    (if s.spawn.2 = true then s.spawn.1.raise f else s.spawn.1.errHandler.raise f).fx = s.abs.spawn.2.reverse ++ s.fx ∧
    (if s.spawn.2 = true then s.spawn.1.raise f else s.spawn.1.errHandler.raise f).isRaised f = true := by
  have := spawn_refines s hn
  by_cases h : s.spawn.2 = true
  · simp only [h, if_true] at this ⊢
    exact ⟨by rw [raise_abs]; exact this.1, by rw [raise_fx]; exact this.2, by rw [raise_raised]; simp⟩
  · simp only [h, if_false, Bool.false_eq_true] at this ⊢
    exact ⟨by rw [raise_abs]; exact this.1, by rw [raise_fx]; exact this.2, by rw [raise_raised]; simp⟩

theorem continue_idle (s : St) (f : FlagId) (hf4 : s.cfg.f4 = true) (hn : NotRunning s) :
    handle s ⟨.continueTGR, f⟩ =
      (if ({ s with onEndRestart := none } : St).reset.spawn.2 = true
        then ({ s with onEndRestart := none } : St).reset.spawn.1.raise f
        else ({ s with onEndRestart := none } : St).reset.spawn.1.errHandler.raise f) := by
  rcases notRunning_iff.1 hn with hcs | ⟨st, hcs⟩ <;> simp [handle, hcs, hf4]

/-- **C09 (refinement, one control)** — with the repairs in place, handling a control changes the
    observable state, acts on processes and resolves (or defers) its ticket exactly as documented. -/
theorem handle_refines (s : St) (m : Msg) (hall : s.cfg = Fixes.all)
    (hch : ∀ c, s.cs = .running c → ∃ ch, s.child? c = some ch) :
    (handle s m).abs = (specStep s.abs m.ctl).1 ∧
    (handle s m).fx = (specStep s.abs m.ctl).2.1.reverse ++ s.fx ∧
    (s.isRaised m.done = false → (handle s m).isRaised m.done = (specStep s.abs m.ctl).2.2) := by
  have hf4 : s.cfg.f4 = true := by rw [hall]; rfl
  have hf6 : s.cfg.f6 = true := by rw [hall]; rfl
  have habs_cs : s.abs.cs = s.cs := rfl
  rcases m with ⟨ctl, f⟩
  cases ctl with
  | start =>
    cases hcs : s.cs with
    | running c =>
      simp only [handle, specStep, habs_cs, hcs]
      exact ⟨raise_abs _ _, by simp, fun _ => by rw [raise_raised]; simp⟩
    | pending =>
      have hn : NotRunning s := fun c h => by rw [hcs] at h; cases h
      obtain ⟨h1, h2, h3⟩ := reset_abs s hn
      have := spawn_tail s.reset h3 f
      simp only [handle, specStep, habs_cs, hcs, Sp.respawn]
      rw [h1, h2] at this; exact ⟨this.1, this.2.1, fun _ => this.2.2⟩
    | finished st =>
      have hn : NotRunning s := fun c h => by rw [hcs] at h; cases h
      obtain ⟨h1, h2, h3⟩ := reset_abs s hn
      have := spawn_tail s.reset h3 f
      simp only [handle, specStep, habs_cs, hcs, Sp.respawn]
      rw [h1, h2] at this; exact ⟨this.1, this.2.1, fun _ => this.2.2⟩
  | stop =>
    cases hcs : s.cs with
    | running c =>
      obtain ⟨ch, hch'⟩ := hch c hcs
      obtain ⟨k1, k2⟩ := killReap_absfx s c ch hch'
      simp only [handle, specStep, habs_cs, hcs]
      refine ⟨by rw [raise_abs, endFlags_abs, k1], by rw [raise_fx, endFlags_fx, k2]; simp, fun _ => by rw [raise_raised]; simp⟩
    | pending =>
      simp only [handle, specStep, habs_cs, hcs]
      exact ⟨raise_abs _ _, by simp, fun _ => by rw [raise_raised]; simp⟩
    | finished st =>
      simp only [handle, specStep, habs_cs, hcs]
      exact ⟨raise_abs _ _, by simp, fun _ => by rw [raise_raised]; simp⟩
  | signal sig =>
    cases hcs : s.cs with
    | running c =>
      simp only [handle, specStep, habs_cs, hcs]
      exact ⟨by rw [raise_abs, signalChild_abs], by rw [raise_fx, signalChild_fx]; simp, fun _ => by rw [raise_raised]; simp⟩
    | pending =>
      simp only [handle, specStep, habs_cs, hcs]
      exact ⟨raise_abs _ _, by simp, fun _ => by rw [raise_raised]; simp⟩
    | finished st =>
      simp only [handle, specStep, habs_cs, hcs]
      exact ⟨raise_abs _ _, by simp, fun _ => by rw [raise_raised]; simp⟩
  | nextEnding =>
    cases hcs : s.cs with
    | running c =>
      simp only [handle, specStep, habs_cs, hcs]
      exact ⟨by simp [St.abs, hcs], by simp [St.fx], fun hfresh => by simpa [St.isRaised] using hfresh⟩
    | pending =>
      simp only [handle, specStep, habs_cs, hcs, hf6, if_true]
      exact ⟨raise_abs _ _, by simp, fun _ => by rw [raise_raised]; simp⟩
    | finished st =>
      simp only [handle, specStep, habs_cs, hcs]
      exact ⟨raise_abs _ _, by simp, fun _ => by rw [raise_raised]; simp⟩
  | func id =>
    simp only [handle, specStep]
    exact ⟨by rw [raise_abs]; rfl, by rw [raise_fx, fx_emit _ _ rfl]; rfl, fun _ => by rw [raise_raised]; simp⟩
  | delete =>
    simp only [handle, specStep]
    refine ⟨?_, ?_, ?_⟩
    · rw [raise_abs]; show (s.raise f).abs = s.abs; exact raise_abs _ _
    · rw [raise_fx, fx_emit _ _ rfl]
      show Obs.ended :: (s.raise f).fx = _
      simp
    · intro _
      rw [raise_raised]
      show ((s.raise f).isRaised f || f == 0) = true
      rw [raise_raised]; simp
  | setHook => simp only [handle, specStep]; exact ⟨by rw [raise_abs]; rfl, by rw [raise_fx]; rfl, fun _ => by rw [raise_raised]; simp⟩
  | unsetHook => simp only [handle, specStep]; exact ⟨by rw [raise_abs]; rfl, by rw [raise_fx]; rfl, fun _ => by rw [raise_raised]; simp⟩
  | setErr => simp only [handle, specStep]; exact ⟨by rw [raise_abs]; rfl, by rw [raise_fx]; rfl, fun _ => by rw [raise_raised]; simp⟩
  | unsetErr => simp only [handle, specStep]; exact ⟨by rw [raise_abs]; rfl, by rw [raise_fx]; rfl, fun _ => by rw [raise_raised]; simp⟩
  | gracefulStop sig grace =>
    cases hcs : s.cs with
    | running c =>
      rw [graceful_stop_step s c sig grace f hcs]
      simp only [specStep, habs_cs, hcs]
      refine ⟨signalChild_abs s c sig, ?_, ?_⟩
      · show (s.signalChild c sig).fx = _; rw [signalChild_fx]; simp
      · intro hfresh
        show (s.signalChild c sig).isRaised f = false
        rw [isRaised_of_raised (quiet_signalChild s c sig).2]; exact hfresh
    | pending =>
      simp only [handle, specStep, habs_cs, hcs]
      exact ⟨raise_abs _ _, by simp, fun _ => by rw [raise_raised]; simp⟩
    | finished st =>
      simp only [handle, specStep, habs_cs, hcs]
      exact ⟨raise_abs _ _, by simp, fun _ => by rw [raise_raised]; simp⟩
  | tryGracefulRestart sig grace =>
    cases hcs : s.cs with
    | running c =>
      rw [graceful_restart_step s c sig grace f hcs]
      simp only [specStep, habs_cs, hcs]
      refine ⟨signalChild_abs s c sig, ?_, ?_⟩
      · show (s.signalChild c sig).fx = _; rw [signalChild_fx]; simp
      · intro hfresh
        show (s.signalChild c sig).isRaised f = false
        rw [isRaised_of_raised (quiet_signalChild s c sig).2]; exact hfresh
    | pending =>
      simp only [handle, specStep, habs_cs, hcs]
      exact ⟨raise_abs _ _, by simp, fun _ => by rw [raise_raised]; simp⟩
    | finished st =>
      simp only [handle, specStep, habs_cs, hcs]
      exact ⟨raise_abs _ _, by simp, fun _ => by rw [raise_raised]; simp⟩
  | tryRestart =>
    cases hcs : s.cs with
    | running c =>
      obtain ⟨ch, hch'⟩ := hch c hcs
      obtain ⟨k1, k2⟩ := killReap_absfx s c ch hch'
      have kcs : (s.killReap c).cs = .finished 9 := (killReap_log s c ch hch').2
      have hn : NotRunning (s.killReap c) := fun c' h => by rw [kcs] at h; cases h
      obtain ⟨r1, r2, r3⟩ := reset_abs _ hn
      have hn2 : NotRunning (s.killReap c).reset.endFlags := notRunning_of_cs (endFlags_cs _) r3
      have := spawn_tail (s.killReap c).reset.endFlags hn2 f
      rw [endFlags_abs, endFlags_fx, r1, r2, k1, k2] at this
      simp only [handle, specStep, habs_cs, hcs, Sp.respawn]
      refine ⟨this.1, ?_, fun _ => this.2.2⟩
      rw [this.2.1]; simp
    | pending =>
      simp only [handle, specStep, habs_cs, hcs]
      exact ⟨raise_abs _ _, by simp, fun _ => by rw [raise_raised]; simp⟩
    | finished st =>
      simp only [handle, specStep, habs_cs, hcs]
      exact ⟨raise_abs _ _, by simp, fun _ => by rw [raise_raised]; simp⟩
  | continueTGR =>
    have clear : ∀ x : St, x.cfg = s.cfg → (if x.cfg.f4 = true then { x with onEndRestart := none } else x) = { x with onEndRestart := none } := by
      intro x hx; rw [hx, hf4]; rfl
    cases hcs : s.cs with
    | running c =>
      obtain ⟨ch, hch'⟩ := hch c hcs
      obtain ⟨k1, k2⟩ := killReap_absfx s c ch hch'
      have kcs : (s.killReap c).endFlags.cs = .finished 9 := by rw [endFlags_cs]; exact (killReap_log s c ch hch').2
      have hn : NotRunning ({ (s.killReap c).endFlags with onEndRestart := none } : St) := fun c' h => by
        have : ({ (s.killReap c).endFlags with onEndRestart := none } : St).cs = .finished 9 := kcs
        rw [this] at h; cases h
      obtain ⟨r1, r2, r3⟩ := reset_abs _ hn
      have := spawn_tail _ r3 f
      rw [r1, r2] at this
      have e1 : ({ (s.killReap c).endFlags with onEndRestart := none } : St).abs = { s.abs with cs := .finished 9 } := by
        show (s.killReap c).endFlags.abs = _; rw [endFlags_abs, k1]
      have e2 : ({ (s.killReap c).endFlags with onEndRestart := none } : St).fx = .reaped c 9 :: .kill c :: s.fx := by
        show (s.killReap c).endFlags.fx = _; rw [endFlags_fx, k2]
      rw [e1, e2] at this
      simp only [handle, specStep, habs_cs, hcs, Sp.respawn]
      rw [clear _ (by simp)]
      refine ⟨this.1, ?_, fun _ => this.2.2⟩
      rw [this.2.1]; simp
    | pending =>
      have hn' : NotRunning s := fun c' h => by rw [hcs] at h; cases h
      rw [continue_idle s f hf4 hn']
      have hxa : ({ s with onEndRestart := none } : St).abs = s.abs := rfl
      have hxf : ({ s with onEndRestart := none } : St).fx = s.fx := rfl
      have hn : NotRunning ({ s with onEndRestart := none } : St) := hn'
      generalize ({ s with onEndRestart := none } : St) = x at hxa hxf hn ⊢
      obtain ⟨r1, r2, r3⟩ := reset_abs x hn
      have := spawn_tail _ r3 f
      rw [r1, r2, hxa, hxf] at this
      simp only [specStep, habs_cs, hcs, Sp.respawn]
      exact ⟨this.1, this.2.1, fun _ => this.2.2⟩
    | finished st =>
      have hn' : NotRunning s := fun c' h => by rw [hcs] at h; cases h
      rw [continue_idle s f hf4 hn']
      have hxa : ({ s with onEndRestart := none } : St).abs = s.abs := rfl
      have hxf : ({ s with onEndRestart := none } : St).fx = s.fx := rfl
      have hn : NotRunning ({ s with onEndRestart := none } : St) := hn'
      generalize ({ s with onEndRestart := none } : St) = x at hxa hxf hn ⊢
      obtain ⟨r1, r2, r3⟩ := reset_abs x hn
      have := spawn_tail _ r3 f
      rw [r1, r2, hxa, hxf] at this
      simp only [specStep, habs_cs, hcs, Sp.respawn]
      exact ⟨this.1, this.2.1, fun _ => this.2.2⟩

end Jm
