import Wx.Job.SimInduct2
/-! The induction principle once more, for invariants that depend on the clock: time passes only while the task is idle
    (no turn enabled), and never beyond the deadline of an armed timer — which is what `advanceAll` does. -/
namespace Jm

structure SimInv3 (I : Sim → Prop) (SendOk : Prio → Ctl → Prop) : Prop where
  turns : ∀ x, I x → ∀ s' ∈ turns x.st, I { x with st := s' }
  park : ∀ x, I x → I { x with st := park x.st }
  drain : ∀ x, I x → I { x with st := drainPolls x.st }
  tick : ∀ x t, I x → Jm.turns x.st = [] → (∀ tm, x.st.timer = some tm → x.st.now < tm.until_ → t ≤ tm.until_) →
    I { x with st := { x.st with now := t } }
  close : ∀ x, I x → I { x with st := { x.st with closed := true } }
  cancel : ∀ x aw, I x → I (cancelSend x aw)
  sendOne : ∀ x p c, SendOk p c → I x → I (sendOne x p c)
  finish : ∀ x aw, I x → I (finishSend x aw)
  clone : ∀ x f, I x → I (addWaiter x f)

variable {I : Sim → Prop} {SendOk : Prio → Ctl → Prop}

/-- an invariant that does not read the clock is one that does -/
theorem SimInv2.toInv3 (H : SimInv2 I SendOk) : SimInv3 I SendOk :=
  ⟨H.turns, H.park, H.drain, fun x t h _ _ => H.now x t h, H.close, H.cancel, H.sendOne, H.finish, H.clone⟩

theorem SimInv3.settleAll (H : SimInv3 I SendOk) (fuel : Nat) {x : Sim} (h : I x) :
    ∀ s ∈ settleAll fuel x.st, I { x with st := s } := by
  induction fuel generalizing x with
  | zero => intro s hs; simp [Jm.settleAll] at hs; subst hs; exact h
  | succ n ih =>
    intro s hs
    unfold Jm.settleAll at hs
    cases hts : Jm.turns x.st with
    | nil =>
      simp only [hts] at hs
      by_cases hp : (Jm.park x.st).pendingPolls.isEmpty = true
      · simp only [hp, if_true, List.mem_singleton] at hs; subst hs; exact H.park _ h
      · simp only [hp, Bool.false_eq_true, if_false] at hs
        exact ih (x := { x with st := drainPolls (Jm.park x.st) }) (H.drain _ (H.park _ h)) s hs
    | cons t ts =>
      simp only [hts] at hs
      obtain ⟨y, hy, hsy⟩ := List.mem_flatMap.mp hs
      exact ih (x := { x with st := y }) (H.turns x h y (by rw [hts]; exact hy)) s hsy

def minFold (l : List Nat) (acc : Option Nat) : Option Nat :=
  l.foldl (fun acc x => match acc with | none => some x | some a => some (min a x)) acc

theorem minFold_some (l : List Nat) (a : Nat) : ∃ t, minFold l (some a) = some t ∧ t ≤ a ∧ (∀ x ∈ l, t ≤ x) ∧ (t = a ∨ t ∈ l) := by
  induction l generalizing a with
  | nil => exact ⟨a, rfl, Nat.le_refl _, by simp, Or.inl rfl⟩
  | cons y l ih =>
    obtain ⟨t, h1, h2, h3, h4⟩ := ih (min a y)
    refine ⟨t, by simpa [minFold] using h1, Nat.le_trans h2 (Nat.min_le_left _ _), ?_, ?_⟩
    · intro x hx
      rcases List.mem_cons.1 hx with rfl | hx
      · exact Nat.le_trans h2 (Nat.min_le_right _ _)
      · exact h3 x hx
    · rcases h4 with h4 | h4
      · by_cases hay : a ≤ y
        · left; rw [h4]; exact Nat.min_eq_left hay
        · right; rw [h4, Nat.min_eq_right (by omega)]; exact List.mem_cons_self
      · right; exact List.mem_cons_of_mem _ h4

theorem minFold_none (l : List Nat) : (minFold l none = none → l = []) ∧
    (∀ t, minFold l none = some t → (∀ x ∈ l, t ≤ x) ∧ t ∈ l) := by
  cases l with
  | nil => exact ⟨fun _ => rfl, fun t h => (by simp [minFold] at h)⟩
  | cons y l =>
    obtain ⟨t, h1, h2, h3, h4⟩ := minFold_some l y
    have e : minFold (y :: l) none = some t := by simpa [minFold] using h1
    refine ⟨fun h => (by rw [e] at h; cases h), fun t' h => ?_⟩
    rw [e] at h; injection h with h; subst h
    refine ⟨?_, ?_⟩
    · intro x hx
      rcases List.mem_cons.1 hx with rfl | hx
      · exact h2
      · exact h3 x hx
    · rcases h4 with rfl | h4
      · exact List.mem_cons_self
      · exact List.mem_cons_of_mem _ h4

def childEvents (s : St) (target : Nat) : List Nat :=
  match s.cs with
  | .running c => match s.child? c with
    | some ch => match ch.exitAt with | some t => if s.now < t ∧ t ≤ target then [t] else [] | none => []
    | none => []
  | _ => []

def timerEvents (s : St) (target : Nat) : List Nat :=
  match s.timer with | some t => if s.now < t.until_ ∧ t.until_ ≤ target then [t.until_] else [] | none => []

theorem nextEvent_eq (s : St) (target : Nat) : nextEvent s target = minFold (childEvents s target ++ timerEvents s target) none := rfl

theorem events_le (s : St) (target : Nat) : ∀ x ∈ childEvents s target ++ timerEvents s target, x ≤ target := by
  intro x hx
  rcases List.mem_append.1 hx with hx | hx
  · unfold childEvents at hx
    (repeat' split at hx) <;> simp at hx
    omega
  · unfold timerEvents at hx
    (repeat' split at hx) <;> simp at hx
    omega

/-- the clock never jumps past the deadline of an armed, unexpired timer -/
theorem nextEvent_some {s : St} {target t : Nat} (h : nextEvent s target = some t) :
    ∀ tm, s.timer = some tm → s.now < tm.until_ → t ≤ tm.until_ := by
  intro tm htm hlt
  rw [nextEvent_eq] at h
  obtain ⟨hmin, hmem⟩ := (minFold_none _).2 t h
  by_cases hle : tm.until_ ≤ target
  · apply hmin
    apply List.mem_append_right
    simp [timerEvents, htm, hlt, hle]
  · have := events_le s target t hmem
    omega

theorem nextEvent_none {s : St} {target : Nat} (h : nextEvent s target = none) :
    ∀ tm, s.timer = some tm → s.now < tm.until_ → target ≤ tm.until_ := by
  intro tm htm hlt
  rw [nextEvent_eq] at h
  have hnil := (minFold_none _).1 h
  by_cases hle : tm.until_ ≤ target
  · have : tm.until_ ∈ childEvents s target ++ timerEvents s target := by
      apply List.mem_append_right
      simp [timerEvents, htm, hlt, hle]
    rw [hnil] at this; cases this
  · omega

theorem SimInv3.advanceAll (H : SimInv3 I SendOk) (fuel target : Nat) {x : Sim} (h : I x) :
    ∀ s ∈ advanceAll fuel target x.st, I { x with st := s } := by
  induction fuel generalizing x with
  | zero => intro s hs; simp [Jm.advanceAll] at hs; subst hs; exact h
  | succ n ih =>
    intro s hs
    unfold Jm.advanceAll at hs
    obtain ⟨y, hy, hsy⟩ := List.mem_flatMap.mp hs
    have hyi := H.settleAll 200 h y hy
    by_cases hidle : (!(Jm.turns y).isEmpty) = true
    · simp only [hidle, if_true, List.mem_singleton] at hsy; subst hsy; exact hyi
    simp only [hidle, Bool.false_eq_true, if_false] at hsy
    have hnil : Jm.turns y = [] := by
      cases ht : Jm.turns y with
      | nil => rfl
      | cons a l => simp [ht] at hidle
    split at hsy
    · rename_i t ht
      exact ih (x := { x with st := { y with now := t } }) (H.tick { x with st := y } t hyi hnil (nextEvent_some ht)) s hsy
    · rename_i hnone
      exact H.settleAll 200 (x := { x with st := { y with now := target } })
        (H.tick { x with st := y } target hyi hnil (nextEvent_none hnone)) s hsy

theorem SimInv3.doSend (H : SimInv3 I SendOk) {x : Sim} (p cs aw) (hs : ∀ c ∈ cs, SendOk p c) (h : I x) :
    I (doSend x p cs aw) := by
  rw [doSend_eq]
  unfold doSend'
  split
  · exact H.cancel _ _ h
  · apply H.finish
    have key : ∀ (l : List Ctl) (y : Sim), (∀ c ∈ l, SendOk p c) → I y → I (l.foldl (fun y c => Jm.sendOne y p c) y) := by
      intro l
      induction l with
      | nil => intro y _ hy; exact hy
      | cons c l ih =>
        intro y hl hy
        exact ih _ (fun c' hc' => hl c' (List.mem_cons_of_mem _ hc')) (H.sendOne _ _ _ (hl c List.mem_cons_self) hy)
    exact key cs x hs h

theorem SimInv3.stepOp (H : SimInv3 I SendOk) {x : Sim} (o : Op) (ho : OpOkFor2 SendOk o) (h : I x) :
    ∀ y ∈ stepOp x o, I y := by
  intro y hy
  cases o with
  | send p cs aw => simp only [Jm.stepOp, List.mem_singleton] at hy; subst hy; exact H.doSend _ _ _ ho h
  | settle =>
    simp only [Jm.stepOp, List.mem_map] at hy
    obtain ⟨st, hst, rfl⟩ := hy
    exact H.settleAll 200 h st hst
  | advance ms =>
    simp only [Jm.stepOp, List.mem_map] at hy
    obtain ⟨st, hst, rfl⟩ := hy
    exact H.advanceAll 64 _ h st hst
  | dropHandles =>
    simp only [Jm.stepOp, List.mem_singleton] at hy; subst hy
    exact H.close _ h
  | inject p cs aw =>
    simp only [Jm.stepOp] at hy
    exact injectAll_ind I p cs aw (fun z s' hz hs' => H.turns z hz s' hs') (fun z hz => H.doSend p cs aw ho hz) 50 h y hy
  | clone w =>
    simp only [Jm.stepOp, List.mem_singleton] at hy; subst hy
    unfold cloneWaiter
    split
    · exact H.clone _ _ h
    · exact H.cancel x true h

theorem SimInv3.runOps (H : SimInv3 I SendOk) (ops : List Op) (hok : ∀ o ∈ ops, OpOkFor2 SendOk o) {x : Sim} (h : I x) :
    ∀ y ∈ runOps x ops, I y := by
  induction ops generalizing x with
  | nil => intro y hy; simp [Jm.runOps] at hy; subst hy; exact h
  | cons o os ih =>
    intro y hy
    simp only [Jm.runOps] at hy
    obtain ⟨z, hz, hyz⟩ := List.mem_flatMap.mp hy
    exact ih (fun o' ho' => hok o' (List.mem_cons_of_mem _ ho'))
      (H.stepOp o (hok o List.mem_cons_self) h z hz) y hyz

end Jm
