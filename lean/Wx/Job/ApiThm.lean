import Wx.Job.Api
/-! the API table of the model against the generated one; kept apart from the model file. -/
namespace Jm

/-- **the model's API table is the code's**: for every call, the generated row of its method has the priority and
    the control variants (in order) the model sends -/
theorem api_generated (c : ApiCall) :
    lookupApi (methodName c) = some (prioName (apiOf c).1, (apiOf c).2.map (if isAsync c then asyncName else ctlName)) := by
  cases c <;> first | decide | rfl

/-- the documented priorities (rustdoc of `Job`): wait-for-end is high, delete-now urgent, everything else normal;
    restart = Stop then Start; delete = Stop then Delete -/
def apiDoc : List (String × String × List String) := [
  ("start", "Normal", ["Start"]), ("stop", "Normal", ["Stop"]), ("stop_with_signal", "Normal", ["GracefulStop"]),
  ("restart", "Normal", ["Stop", "Start"]), ("restart_with_signal", "Normal", ["GracefulStop", "Start"]),
  ("try_restart", "Normal", ["TryRestart"]), ("try_restart_with_signal", "Normal", ["TryGracefulRestart"]),
  ("signal", "Normal", ["Signal"]), ("delete", "Normal", ["Stop", "Delete"]), ("delete_now", "Urgent", ["Stop", "Delete"]),
  ("to_wait", "High", ["NextEnding"]), ("run", "Normal", ["SyncFunc"]), ("run_async", "Normal", ["AsyncFunc"]),
  ("set_spawn_hook", "Normal", ["SetSyncSpawnHook"]), ("set_spawn_async_hook", "Normal", ["SetAsyncSpawnHook"]),
  ("unset_spawn_hook", "Normal", ["UnsetSpawnHook"]), ("set_error_handler", "Normal", ["SetSyncErrorHandler"]),
  ("set_async_error_handler", "Normal", ["SetAsyncErrorHandler"]), ("unset_error_handler", "Normal", ["UnsetErrorHandler"])]

theorem jobApi_documented : Gen.jobApi = apiDoc := by decide

/-- every API call sends API-shaped controls (what `c07_noLost` asks of a script) -/
theorem api_shapes (c : ApiCall) : (apiOf c).1 = .urgent → (apiOf c).2 = [.stop, .delete] := by
  cases c <;> simp [apiOf]

#print axioms api_generated
end Jm
