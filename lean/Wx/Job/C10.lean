import Wx.Job.C07b
/-! C10: FIFO within a priority (exactly once), urgent before high before normal. -/
namespace Jm

/-- what the ordering statements read -/
structure QV where
  normal : List Msg
  high : List Msg
  urgent : List Msg
  sent : List (Src × FlagId)
  taken : List (Src × FlagId)
  deriving DecidableEq

def St.qv (s : St) : QV := ⟨s.normal, s.high, s.urgent, s.sent, s.taken⟩

@[simp] theorem emit_qv (s : St) (o) : (s.emit o).qv = s.qv := rfl
@[simp] theorem setChild_qv (s : St) (ch) : (s.setChild ch).qv = s.qv := rfl

theorem resolveWaiter_qv (s : St) (w) : (s.resolveWaiter w).qv = s.qv := by
  unfold St.resolveWaiter
  split
  · split <;> rfl
  · rfl

theorem foldl_resolve_qv (ws : List WaiterId) (s : St) : (ws.foldl St.resolveWaiter s).qv = s.qv := by
  induction ws generalizing s with
  | nil => rfl
  | cons w ws ih => simp only [List.foldl_cons]; rw [ih, resolveWaiter_qv]

@[simp] theorem raise_qv (s : St) (f) : (s.raise f).qv = s.qv := by
  unfold St.raise; rw [foldl_resolve_qv]; rfl

@[simp] theorem raiseAll_qv (s : St) (fs) : (s.raiseAll fs).qv = s.qv := by
  unfold St.raiseAll
  induction fs generalizing s with
  | nil => rfl
  | cons f fs ih => simp only [List.foldl_cons]; rw [ih, raise_qv]

@[simp] theorem endFlags_qv (s : St) : s.endFlags.qv = s.qv := by
  unfold St.endFlags; show (s.raiseAll s.onEnd).qv = s.qv; simp
@[simp] theorem errHandler_qv (s : St) : s.errHandler.qv = s.qv := by
  unfold St.errHandler; split <;> rfl
@[simp] theorem signalChild_qv (s : St) (c g) : (s.signalChild c g).qv = s.qv := by
  unfold St.signalChild; simp only []; split
  · split <;> rfl
  · rfl
@[simp] theorem killReap_qv (s : St) (c) : (s.killReap c).qv = s.qv := by
  unfold St.killReap; simp only []; split <;> rfl
@[simp] theorem reset_qv (s : St) : s.reset.qv = s.qv := by
  unfold St.reset; split <;> rfl
@[simp] theorem spawn_qv (s : St) : s.spawn.1.qv = s.qv := by
  unfold St.spawn
  split
  · rfl
  · simp only []
    have h0 : (if s.hookSet = true then s.emit Obs.hook else s).qv = s.qv := by split <;> rfl
    generalize (if s.hookSet = true then s.emit Obs.hook else s) = s' at h0
    split <;> (rw [← h0]; rfl)
@[simp] theorem reap_qv (s : St) (c) : (s.reap c).qv = s.qv := by
  unfold St.reap; simp only []; split <;> rfl


/-! field forms of the frame lemmas (generated) -/
@[simp] theorem emit_normal (s : St) (o) : (s.emit o).normal = s.normal := congrArg QV.normal (emit_qv s o)
@[simp] theorem emit_high (s : St) (o) : (s.emit o).high = s.high := congrArg QV.high (emit_qv s o)
@[simp] theorem emit_urgent (s : St) (o) : (s.emit o).urgent = s.urgent := congrArg QV.urgent (emit_qv s o)
@[simp] theorem emit_sent (s : St) (o) : (s.emit o).sent = s.sent := congrArg QV.sent (emit_qv s o)
@[simp] theorem emit_taken (s : St) (o) : (s.emit o).taken = s.taken := congrArg QV.taken (emit_qv s o)
@[simp] theorem setChild_normal (s : St) (ch) : (s.setChild ch).normal = s.normal := congrArg QV.normal (setChild_qv s ch)
@[simp] theorem setChild_high (s : St) (ch) : (s.setChild ch).high = s.high := congrArg QV.high (setChild_qv s ch)
@[simp] theorem setChild_urgent (s : St) (ch) : (s.setChild ch).urgent = s.urgent := congrArg QV.urgent (setChild_qv s ch)
@[simp] theorem setChild_sent (s : St) (ch) : (s.setChild ch).sent = s.sent := congrArg QV.sent (setChild_qv s ch)
@[simp] theorem setChild_taken (s : St) (ch) : (s.setChild ch).taken = s.taken := congrArg QV.taken (setChild_qv s ch)
@[simp] theorem raise_normal (s : St) (f) : (s.raise f).normal = s.normal := congrArg QV.normal (raise_qv s f)
@[simp] theorem raise_high (s : St) (f) : (s.raise f).high = s.high := congrArg QV.high (raise_qv s f)
@[simp] theorem raise_urgent (s : St) (f) : (s.raise f).urgent = s.urgent := congrArg QV.urgent (raise_qv s f)
@[simp] theorem raise_sent (s : St) (f) : (s.raise f).sent = s.sent := congrArg QV.sent (raise_qv s f)
@[simp] theorem raise_taken (s : St) (f) : (s.raise f).taken = s.taken := congrArg QV.taken (raise_qv s f)
@[simp] theorem raiseAll_normal (s : St) (fs) : (s.raiseAll fs).normal = s.normal := congrArg QV.normal (raiseAll_qv s fs)
@[simp] theorem raiseAll_high (s : St) (fs) : (s.raiseAll fs).high = s.high := congrArg QV.high (raiseAll_qv s fs)
@[simp] theorem raiseAll_urgent (s : St) (fs) : (s.raiseAll fs).urgent = s.urgent := congrArg QV.urgent (raiseAll_qv s fs)
@[simp] theorem raiseAll_sent (s : St) (fs) : (s.raiseAll fs).sent = s.sent := congrArg QV.sent (raiseAll_qv s fs)
@[simp] theorem raiseAll_taken (s : St) (fs) : (s.raiseAll fs).taken = s.taken := congrArg QV.taken (raiseAll_qv s fs)
@[simp] theorem endFlags_normal (s : St) : (s.endFlags).normal = s.normal := congrArg QV.normal (endFlags_qv s)
@[simp] theorem endFlags_high (s : St) : (s.endFlags).high = s.high := congrArg QV.high (endFlags_qv s)
@[simp] theorem endFlags_urgent (s : St) : (s.endFlags).urgent = s.urgent := congrArg QV.urgent (endFlags_qv s)
@[simp] theorem endFlags_sent (s : St) : (s.endFlags).sent = s.sent := congrArg QV.sent (endFlags_qv s)
@[simp] theorem endFlags_taken (s : St) : (s.endFlags).taken = s.taken := congrArg QV.taken (endFlags_qv s)
@[simp] theorem errHandler_normal (s : St) : (s.errHandler).normal = s.normal := congrArg QV.normal (errHandler_qv s)
@[simp] theorem errHandler_high (s : St) : (s.errHandler).high = s.high := congrArg QV.high (errHandler_qv s)
@[simp] theorem errHandler_urgent (s : St) : (s.errHandler).urgent = s.urgent := congrArg QV.urgent (errHandler_qv s)
@[simp] theorem errHandler_sent (s : St) : (s.errHandler).sent = s.sent := congrArg QV.sent (errHandler_qv s)
@[simp] theorem errHandler_taken (s : St) : (s.errHandler).taken = s.taken := congrArg QV.taken (errHandler_qv s)
@[simp] theorem signalChild_normal (s : St) (c g) : (s.signalChild c g).normal = s.normal := congrArg QV.normal (signalChild_qv s c g)
@[simp] theorem signalChild_high (s : St) (c g) : (s.signalChild c g).high = s.high := congrArg QV.high (signalChild_qv s c g)
@[simp] theorem signalChild_urgent (s : St) (c g) : (s.signalChild c g).urgent = s.urgent := congrArg QV.urgent (signalChild_qv s c g)
@[simp] theorem signalChild_sent (s : St) (c g) : (s.signalChild c g).sent = s.sent := congrArg QV.sent (signalChild_qv s c g)
@[simp] theorem signalChild_taken (s : St) (c g) : (s.signalChild c g).taken = s.taken := congrArg QV.taken (signalChild_qv s c g)
@[simp] theorem killReap_normal (s : St) (c) : (s.killReap c).normal = s.normal := congrArg QV.normal (killReap_qv s c)
@[simp] theorem killReap_high (s : St) (c) : (s.killReap c).high = s.high := congrArg QV.high (killReap_qv s c)
@[simp] theorem killReap_urgent (s : St) (c) : (s.killReap c).urgent = s.urgent := congrArg QV.urgent (killReap_qv s c)
@[simp] theorem killReap_sent (s : St) (c) : (s.killReap c).sent = s.sent := congrArg QV.sent (killReap_qv s c)
@[simp] theorem killReap_taken (s : St) (c) : (s.killReap c).taken = s.taken := congrArg QV.taken (killReap_qv s c)
@[simp] theorem reset_normal (s : St) : (s.reset).normal = s.normal := congrArg QV.normal (reset_qv s)
@[simp] theorem reset_high (s : St) : (s.reset).high = s.high := congrArg QV.high (reset_qv s)
@[simp] theorem reset_urgent (s : St) : (s.reset).urgent = s.urgent := congrArg QV.urgent (reset_qv s)
@[simp] theorem reset_sent (s : St) : (s.reset).sent = s.sent := congrArg QV.sent (reset_qv s)
@[simp] theorem reset_taken (s : St) : (s.reset).taken = s.taken := congrArg QV.taken (reset_qv s)
@[simp] theorem spawn_normal (s : St) : (s.spawn.1).normal = s.normal := congrArg QV.normal (spawn_qv s)
@[simp] theorem spawn_high (s : St) : (s.spawn.1).high = s.high := congrArg QV.high (spawn_qv s)
@[simp] theorem spawn_urgent (s : St) : (s.spawn.1).urgent = s.urgent := congrArg QV.urgent (spawn_qv s)
@[simp] theorem spawn_sent (s : St) : (s.spawn.1).sent = s.sent := congrArg QV.sent (spawn_qv s)
@[simp] theorem spawn_taken (s : St) : (s.spawn.1).taken = s.taken := congrArg QV.taken (spawn_qv s)
@[simp] theorem reap_normal (s : St) (c) : (s.reap c).normal = s.normal := congrArg QV.normal (reap_qv s c)
@[simp] theorem reap_high (s : St) (c) : (s.reap c).high = s.high := congrArg QV.high (reap_qv s c)
@[simp] theorem reap_urgent (s : St) (c) : (s.reap c).urgent = s.urgent := congrArg QV.urgent (reap_qv s c)
@[simp] theorem reap_sent (s : St) (c) : (s.reap c).sent = s.sent := congrArg QV.sent (reap_qv s c)
@[simp] theorem reap_taken (s : St) (c) : (s.reap c).taken = s.taken := congrArg QV.taken (reap_qv s c)

theorem qv_ext {t s : St} (h1 : t.normal = s.normal) (h2 : t.high = s.high) (h3 : t.urgent = s.urgent)
    (h4 : t.sent = s.sent) (h5 : t.taken = s.taken) : t.qv = s.qv := by
  unfold St.qv; rw [h1, h2, h3, h4, h5]

/-- handling a control never touches a queue: only `send` adds, only `recv` removes -/
theorem handle_qv (s : St) (m : Msg) : (handle s m).qv = s.qv := by
  unfold handle
  cases m.ctl <;> (try simp only []) <;> (try cases s.cs) <;> (try simp only []) <;>
    (repeat' split) <;> (first | rfl | (apply qv_ext <;> simp))

theorem continueRestart_qv (s : St) : s.continueRestart.qv = s.qv := by
  unfold St.continueRestart
  split
  · (try simp only []); (repeat' split) <;> (first | rfl | (apply qv_ext <;> simp))
  · rfl

theorem waitBranch_qv (s : St) (c) : (waitBranch s c).qv = s.qv := by
  unfold waitBranch; rw [continueRestart_qv]; simp

end Jm
