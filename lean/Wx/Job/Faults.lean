import Wx.Job.Sim
/-! The job task when calls on the child FAIL: `kill()`, `signal()` and `wait()` return errors (task.rs:
    `try_with_handler!` around kill / wait / signal_child, and the `Err` arm of the wait branch).

    `Jm` (Model.lean) assumes those calls succeed; this file puts the failing calls inside the model as an overlay:
    a *fault script* says, per spawn attempt, which calls of that child fail, and `handleF` / `waitTurnsF` follow the
    error paths of the real task — error handler, the control's flag raised, the state left as it was — and fall back
    to `Jm.handle` / `Jm.waitTurns` wherever nothing fails. `Wx.Job.FaultsThm` proves that without faults this IS the
    verified model (so every theorem about `Jm` is a theorem about the fault-free runs of `Jf`), and that "one live
    child at most" and "no flag is lost" hold for every fault script. The `job-faults` stream runs this model against
    the real task with failures injected through the spawn hook's child wrapper. -/
namespace Jf
open Jm

/-- which calls on a child fail: `kill` = `start_kill()` fails for as long as the child has not exited by itself;
    `signal` = every `signal()` fails; `wait` = the first `wait()` fails (the process lives on) -/
structure Fault where
  kill : Bool := false
  signal : Bool := false
  wait : Bool := false
  deriving Repr, DecidableEq

structure FSt where
  st : St
  faults : List Fault := []          -- one per spawn attempt, like `behs` (the last one repeats)
  waitFailed : List ChildId := []    -- children whose first wait() has already failed
  deriving Repr

def faultOf (fs : List Fault) (c : ChildId) : Fault :=
  match fs[c]? with
  | some f => f
  | none => fs.getLast?.getD {}

def killFails (x : FSt) (c : ChildId) : Bool :=
  (faultOf x.faults c).kill &&
  match x.st.child? c with
  | some ch => (match ch.exitAt with | some t => decide (x.st.now < t) | none => true)
  | none => false

def waitFails (x : FSt) (c : ChildId) : Bool := (faultOf x.faults c).wait && !x.waitFailed.contains c

/-- `try_with_handler!`'s error arm: error handler, raise the control's flag, `Loop::Normally` -/
def failCtl (x : FSt) (m : Msg) (o : Obs) : FSt := { x with st := ((x.st.emit o).errHandler).raise m.done }

/-- `child.kill()` went through (the process is dead, status 9) — but it has not been waited for -/
def killOnly (s : St) (c : ChildId) : St :=
  let s := s.emit (.kill c)
  match s.child? c with
  | some ch => s.setChild { ch with exitAt := some s.now, status := 9 }
  | none => s

/-- the `kill(); wait()` pair of Stop / TryRestart / the forced continuation: `none` = both calls succeed -/
def afterKillFault (x : FSt) (m : Msg) (c : ChildId) : Option FSt :=
  if killFails x c then some (failCtl x m (.killFail c))
  else if waitFails x c then
    some (failCtl { x with st := killOnly x.st c, waitFailed := c :: x.waitFailed } m (.waitFail c))
  else none

def lift (x : FSt) (m : Msg) : FSt := { x with st := handle x.st m }

/-- `on_end_restart = None` is the first thing the forced continuation does, before the kill that may fail -/
def clearSlot (x : FSt) : FSt := if x.st.cfg.f4 then { x with st := { x.st with onEndRestart := none } } else x

/-- one control message, with failing calls -/
def handleF (x : FSt) (m : Msg) : FSt :=
  match x.st.cs with
  | .running c =>
    match m.ctl with
    | .stop => (afterKillFault x m c).getD (lift x m)
    | .tryRestart => (afterKillFault x m c).getD (lift x m)
    | .continueTGR => (afterKillFault (clearSlot x) m c).getD (lift x m)
    | .gracefulStop sig _ => if (faultOf x.faults c).signal then failCtl x m (.signalFail c sig) else lift x m
    | .tryGracefulRestart sig _ => if (faultOf x.faults c).signal then failCtl x m (.signalFail c sig) else lift x m
    | .signal sig => if (faultOf x.faults c).signal then failCtl x m (.signalFail c sig) else lift x m
    | _ => lift x m
  | _ => lift x m

/-- the wait branch: `command_state.wait()` is polled whenever a child is running; a failing wait completes at once
    with `Err` (error handler, `Loop::Skip`, nothing else changes) -/
def waitTurnsF (x : FSt) : List FSt :=
  match x.st.cs with
  | .running c =>
    if waitFails x c then
      [{ x with st := (({ x.st with parked := false } : St).emit (.waitFail c)).errHandler, waitFailed := c :: x.waitFailed }]
    else (waitTurns x.st).map (fun s => { x with st := s })
  | _ => (waitTurns x.st).map (fun s => { x with st := s })

def recvTurnsF (x : FSt) : List FSt :=
  (recvCandidates x.st).filterMap (fun src =>
    match takeFrom x.st src with
    | some (m, s1) => some (handleF { x with st := { s1 with parked := false } } m)
    | none => none)

def turnsF (x : FSt) : List FSt :=
  if !x.st.alive then [] else
  if (waitTurnsF x).isEmpty && (recvTurnsF x).isEmpty then (closedOutcome x.st).map (fun s => { x with st := s })
  else waitTurnsF x ++ recvTurnsF x

/-! the simulator of `Wx.Job.Sim`, over the fault-aware task -/

def settleAllF : Nat → FSt → List FSt
  | 0, x => [x]
  | fuel + 1, x =>
    match turnsF x with
    | [] => if (park x.st).pendingPolls.isEmpty then [{ x with st := park x.st }]
            else settleAllF fuel { x with st := drainPolls (park x.st) }
    | ts => ts.flatMap (settleAllF fuel)

def advanceAllF : Nat → Nat → FSt → List FSt
  | 0, _, x => [x]
  | fuel + 1, target, x =>
    (settleAllF 200 x).flatMap (fun x =>
      if !(turnsF x).isEmpty then [x] else
      match nextEvent x.st target with
      | some t => advanceAllF fuel target { x with st := { x.st with now := t } }
      | none => settleAllF 200 { x with st := { x.st with now := target } })

structure FSim where
  x : Sim
  faults : List Fault := []
  waitFailed : List ChildId := []
  deriving Repr

def FSim.f (y : FSim) : FSt := { st := y.x.st, faults := y.faults, waitFailed := y.waitFailed }
def FSim.put (y : FSim) (t : FSt) : FSim := { y with x := { y.x with st := t.st }, waitFailed := t.waitFailed }
def FSim.send (y : FSim) (p : Prio) (cs : List Ctl) (aw : Bool) : FSim := { y with x := doSend y.x p cs aw }

def injectAllF : Nat → FSim → Prio → List Ctl → Bool → List FSim
  | 0, y, _, _, _ => [y]
  | fuel + 1, y, p, cs, aw =>
    if !y.x.st.alive then [y] else
    if (waitTurnsF y.f).isEmpty && (recvTurnsF y.f).isEmpty then [y]
    else (waitTurnsF y.f).flatMap (fun t => injectAllF fuel (y.put t) p cs aw) ++
         (recvTurnsF y.f).map (fun t => (y.put t).send p cs aw)

def stepOpF (y : FSim) : Op → List FSim
  | .send p cs aw => [y.send p cs aw]
  | .settle => (settleAllF 200 y.f).map y.put
  | .advance ms => (advanceAllF 64 (y.x.st.now + ms) y.f).map y.put
  | .dropHandles => [{ y with x := { y.x with st := { y.x.st with closed := true } } }]
  | .inject p cs aw => injectAllF 50 y p cs aw
  | .clone w => [{ y with x := cloneWaiter y.x w }]

def runOpsF (y : FSim) : List Op → List FSim
  | [] => [y]
  | o :: os => (stepOpF y o).flatMap (fun z => runOpsF z os)

end Jf
