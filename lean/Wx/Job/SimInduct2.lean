import Wx.Job.Inject
/-! The induction principle again, for invariants that also read the simulator's counters
    (fresh flag and waiter ids). -/
namespace Jm

def sendOne (x : Sim) (p : Prio) (c : Ctl) : Sim :=
  { x with st := enqueue x.st p ⟨c, x.nextFlag⟩, nextFlag := x.nextFlag + 1 }

def finishSend (x : Sim) (aw : Bool) : Sim :=
  let w := x.nextWaiter
  let st := if aw then pollWaiter { x.st with waiters := x.st.waiters ++ [{ id := w, done := x.nextFlag - 1 }] } w else x.st
  { x with st := st, nextWaiter := w + 1 }

def cancelSend (x : Sim) (aw : Bool) : Sim :=
  { x with st := (if aw then x.st.emit (.ticket x.nextWaiter) else x.st), nextWaiter := x.nextWaiter + 1 }

/-- `doSend`, step by step -/
def doSend' (x : Sim) (p : Prio) (ctls : List Ctl) (aw : Bool) : Sim :=
  if x.st.isRaised 0 || ctls.isEmpty then cancelSend x aw
  else finishSend (ctls.foldl (fun y c => sendOne y p c) x) aw

theorem fold_eq (p : Prio) (ctls : List Ctl) (x : Sim) (last : FlagId) :
    ctls.foldl (fun (acc : St × FlagId × FlagId) c =>
        let (st, nf, _) := acc
        (enqueue st p ⟨c, nf⟩, nf + 1, nf)) (x.st, x.nextFlag, last) =
      ((ctls.foldl (fun y c => sendOne y p c) x).st, (ctls.foldl (fun y c => sendOne y p c) x).nextFlag,
        if ctls.isEmpty then last else (ctls.foldl (fun y c => sendOne y p c) x).nextFlag - 1) := by
  induction ctls generalizing x last with
  | nil => simp
  | cons c cs ih =>
    simp only [List.foldl_cons]
    have := ih (sendOne x p c) x.nextFlag
    simp only [sendOne] at this ⊢
    rw [this]
    cases cs with
    | nil => simp
    | cons d ds => simp

theorem fold_waiter (p : Prio) (ctls : List Ctl) (x : Sim) :
    (ctls.foldl (fun y c => sendOne y p c) x).nextWaiter = x.nextWaiter := by
  induction ctls generalizing x with
  | nil => rfl
  | cons c cs ih => simp only [List.foldl_cons]; rw [ih]; rfl

theorem doSend_eq (x : Sim) (p : Prio) (ctls : List Ctl) (aw : Bool) : doSend x p ctls aw = doSend' x p ctls aw := by
  unfold doSend doSend'
  simp only []
  split
  · rfl
  · next h =>
    have hne : ctls.isEmpty = false := by
      cases hc : ctls.isEmpty
      · rfl
      · simp [hc] at h
    rw [fold_eq p ctls x 0]
    simp only [hne, Bool.false_eq_true, if_false, finishSend, fold_waiter]

structure SimInv2 (I : Sim → Prop) (SendOk : Prio → Ctl → Prop) : Prop where
  turns : ∀ x, I x → ∀ s' ∈ turns x.st, I { x with st := s' }
  park : ∀ x, I x → I { x with st := park x.st }
  drain : ∀ x, I x → I { x with st := drainPolls x.st }
  now : ∀ x t, I x → I { x with st := { x.st with now := t } }
  close : ∀ x, I x → I { x with st := { x.st with closed := true } }
  cancel : ∀ x aw, I x → I (cancelSend x aw)
  sendOne : ∀ x p c, SendOk p c → I x → I (sendOne x p c)
  finish : ∀ x aw, I x → I (finishSend x aw)
  clone : ∀ x f, I x → I (addWaiter x f)

variable {I : Sim → Prop} {SendOk : Prio → Ctl → Prop}

theorem SimInv2.settleAll (H : SimInv2 I SendOk) (fuel : Nat) {x : Sim} (h : I x) :
    ∀ s ∈ settleAll fuel x.st, I { x with st := s } := by
  induction fuel generalizing x with
  | zero => intro s hs; simp [Jm.settleAll] at hs; subst hs; exact h
  | succ n ih =>
    intro s hs
    unfold Jm.settleAll at hs
    cases hts : Jm.turns x.st with
    | nil =>
      simp only [hts] at hs
      by_cases hp : (Jm.park x.st).pendingPolls.isEmpty = true
      · simp only [hp, if_true, List.mem_singleton] at hs; subst hs; exact H.park _ h
      · simp only [hp, Bool.false_eq_true, if_false] at hs
        exact ih (x := { x with st := drainPolls (Jm.park x.st) }) (H.drain _ (H.park _ h)) s hs
    | cons t ts =>
      simp only [hts] at hs
      obtain ⟨y, hy, hsy⟩ := List.mem_flatMap.mp hs
      exact ih (x := { x with st := y }) (H.turns x h y (by rw [hts]; exact hy)) s hsy

theorem SimInv2.advanceAll (H : SimInv2 I SendOk) (fuel target : Nat) {x : Sim} (h : I x) :
    ∀ s ∈ advanceAll fuel target x.st, I { x with st := s } := by
  induction fuel generalizing x with
  | zero => intro s hs; simp [Jm.advanceAll] at hs; subst hs; exact h
  | succ n ih =>
    intro s hs
    unfold Jm.advanceAll at hs
    obtain ⟨y, hy, hsy⟩ := List.mem_flatMap.mp hs
    have hyi := H.settleAll 200 h y hy
    by_cases hidle : (!(Jm.turns y).isEmpty) = true
    · simp only [hidle, if_true, List.mem_singleton] at hsy; subst hsy; exact hyi
    simp only [hidle, Bool.false_eq_true, if_false] at hsy
    split at hsy
    · rename_i t _
      exact ih (x := { x with st := { y with now := t } }) (H.now _ _ hyi) s hsy
    · exact H.settleAll 200 (x := { x with st := { y with now := target } }) (H.now _ _ hyi) s hsy

theorem SimInv2.doSend (H : SimInv2 I SendOk) {x : Sim} (p cs aw) (hs : ∀ c ∈ cs, SendOk p c) (h : I x) :
    I (doSend x p cs aw) := by
  rw [doSend_eq]
  unfold doSend'
  split
  · exact H.cancel _ _ h
  · apply H.finish
    have key : ∀ (l : List Ctl) (y : Sim), (∀ c ∈ l, SendOk p c) → I y → I (l.foldl (fun y c => Jm.sendOne y p c) y) := by
      intro l
      induction l with
      | nil => intro y _ hy; exact hy
      | cons c l ih =>
        intro y hl hy
        exact ih _ (fun c' hc' => hl c' (List.mem_cons_of_mem _ hc')) (H.sendOne _ _ _ (hl c List.mem_cons_self) hy)
    exact key cs x hs h

def OpOkFor2 (SendOk : Prio → Ctl → Prop) : Op → Prop
  | .send p cs _ => ∀ c ∈ cs, SendOk p c
  | .inject p cs _ => ∀ c ∈ cs, SendOk p c
  | _ => True

theorem SimInv2.stepOp (H : SimInv2 I SendOk) {x : Sim} (o : Op) (ho : OpOkFor2 SendOk o) (h : I x) :
    ∀ y ∈ stepOp x o, I y := by
  intro y hy
  cases o with
  | send p cs aw => simp only [Jm.stepOp, List.mem_singleton] at hy; subst hy; exact H.doSend _ _ _ ho h
  | settle =>
    simp only [Jm.stepOp, List.mem_map] at hy
    obtain ⟨st, hst, rfl⟩ := hy
    exact H.settleAll 200 h st hst
  | advance ms =>
    simp only [Jm.stepOp, List.mem_map] at hy
    obtain ⟨st, hst, rfl⟩ := hy
    exact H.advanceAll 64 _ h st hst
  | dropHandles =>
    simp only [Jm.stepOp, List.mem_singleton] at hy; subst hy
    exact H.close _ h
  | inject p cs aw =>
    simp only [Jm.stepOp] at hy
    exact injectAll_ind I p cs aw (fun z s' hz hs' => H.turns z hz s' hs') (fun z hz => H.doSend p cs aw ho hz) 50 h y hy
  | clone w =>
    simp only [Jm.stepOp, List.mem_singleton] at hy; subst hy
    unfold cloneWaiter
    split
    · exact H.clone _ _ h
    · exact H.cancel x true h

theorem SimInv2.runOps (H : SimInv2 I SendOk) (ops : List Op) (hok : ∀ o ∈ ops, OpOkFor2 SendOk o) {x : Sim} (h : I x) :
    ∀ y ∈ runOps x ops, I y := by
  induction ops generalizing x with
  | nil => intro y hy; simp [Jm.runOps] at hy; subst hy; exact h
  | cons o os ih =>
    intro y hy
    simp only [Jm.runOps] at hy
    obtain ⟨z, hz, hyz⟩ := List.mem_flatMap.mp hy
    exact ih (fun o' ho' => hok o' (List.mem_cons_of_mem _ ho'))
      (H.stepOp o (hok o List.mem_cons_self) h z hz) y hyz

end Jm
